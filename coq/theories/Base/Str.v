(* Code-point strings, decimal printing, and the observation type shared by
   all correspondence runs.  No proofs about the code live here. *)
From Coq Require Import List NArith ZArith Bool Ascii String Lia.
Import ListNotations.
Local Open Scope N_scope.

Definition str := list N.

Fixpoint str_eqb (a b : str) : bool :=
  match a, b with
  | [], [] => true
  | x :: a', y :: b' => N.eqb x y && str_eqb a' b'
  | _, _ => false
  end.

Lemma str_eqb_spec a b : reflect (a = b) (str_eqb a b).
Proof.
  revert b; induction a as [|x a IH]; intros [|y b]; simpl; try (constructor; congruence).
  destruct (N.eqb_spec x y) as [->|Hn]; simpl.
  - destruct (IH b) as [->|Hn]; constructor; congruence.
  - constructor; congruence.
Qed.

Lemma str_eqb_eq a b : str_eqb a b = true <-> a = b.
Proof. destruct (str_eqb_spec a b); split; congruence. Qed.
Lemma str_eqb_refl a : str_eqb a a = true.
Proof. apply str_eqb_eq; reflexivity. Qed.
Lemma str_eqb_neq a b : str_eqb a b = false <-> a <> b.
Proof. destruct (str_eqb_spec a b); split; congruence. Qed.
Lemma str_eqb_sym a b : str_eqb a b = str_eqb b a.
Proof.
  destruct (str_eqb_spec a b) as [->|H]; [symmetry; apply str_eqb_refl|].
  symmetry; apply str_eqb_neq; congruence.
Qed.

(* ASCII string literal -> code points (for readable definitions and examples) *)
Fixpoint of_string (s : string) : str :=
  match s with
  | EmptyString => []
  | String c r => N_of_ascii c :: of_string r
  end.

(* decimal digits of a positive number, most significant first; fuel = number of bits + 1 *)
Fixpoint dec_digits_fuel (fuel : nat) (n : N) (acc : str) : str :=
  match fuel with
  | O => acc
  | S f =>
      let d := 48 + n mod 10 in
      let q := n / 10 in
      if N.eqb q 0 then d :: acc else dec_digits_fuel f q (d :: acc)
  end.

Definition dec_of_N (n : N) : str := dec_digits_fuel (S (N.to_nat (N.size n))) n [].
Definition dec_of_nat (n : nat) : str := dec_of_N (N.of_nat n).
Definition dec_of_Z (z : Z) : str :=
  match z with
  | Z0 => [48]
  | Zpos p => dec_of_N (Npos p)
  | Zneg p => 45 :: dec_of_N (Npos p)
  end.

(* ------------------------------------------------------------------ *)
(* Harness glue: cases are written by the Python side as Gallina text. Source
   strings are ASCII literals in which every code point outside 32..126, the
   double quote and the backslash are written as backslash, decimal code, semicolon;
   the observations of the model are printed back as one Coq string per case. *)

Fixpoint dec_escape (s : string) (acc : option N) : str :=
  match s with
  | EmptyString => []
  | String c r =>
      let n := N_of_ascii c in
      match acc with
      | None => if N.eqb n 92 then dec_escape r (Some 0) else n :: dec_escape r None
      | Some v =>
          if N.eqb n 59 then v :: dec_escape r None
          else dec_escape r (Some (v * 10 + (n - 48)))
      end
  end.
Definition d (s : string) : str := dec_escape s None.

Inductive obs := OS (s : str) | OZ (z : Z) | OL (l : list obs).

Fixpoint to_string (s : str) : string :=
  match s with
  | [] => EmptyString
  | c :: r => String (ascii_of_N c) (to_string r)
  end.

Fixpoint sep_dots (l : list str) : str :=
  match l with
  | [] => []
  | [x] => x
  | x :: r => x ++ 46 :: sep_dots r
  end.

(* a string is printed between braces; printable ASCII other than the double quote, backslash and
   braces is printed as it is, every other code point as backslash, decimal code, semicolon *)
Definition esc_char (c : N) : str :=
  if (N.leb 32 c && N.leb c 126 && negb (N.eqb c 34) && negb (N.eqb c 92) && negb (N.eqb c 123) && negb (N.eqb c 125))%bool
  then [c] else 92 :: dec_of_N c ++ [59].

Fixpoint show_obs_str (o : obs) : str :=
  match o with
  | OS s => 123 :: flat_map esc_char s ++ [125]
  | OZ z => dec_of_Z z
  | OL l => 40 :: (fix go (l : list obs) : str :=
              match l with
              | [] => [41]
              | [x] => show_obs_str x ++ [41]
              | x :: r => show_obs_str x ++ 32 :: go r
              end) l
  end.
Definition show (o : obs) : string := to_string (show_obs_str o).

Definition obool (b : bool) : obs := OZ (if b then 1 else 0)%Z.
Definition onat (n : nat) : obs := OZ (Z.of_nat n).
Definition oopt {A} (f : A -> obs) (o : option A) : obs :=
  match o with None => OL [] | Some a => OL [f a] end.
Definition olist {A} (f : A -> obs) (l : list A) : obs := OL (map f l).
Definition otag (t : string) (l : list obs) : obs := OL (OS (of_string t) :: l).
