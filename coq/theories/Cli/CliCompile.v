(* C19 with the library compiler no longer arbitrary: the command line model of Cli/Cli.v
   instantiated with the end-to-end model of compile_prolog_from_string, Comp/CompileText.v
   compile_text (front end + compile_program + limits + emitter with repr).

   1. compile_text_clean: every text that compile_text returns is
          header ++ "\n" ++ body
      where no physical line of body (line of Python's tokenizer: ended by \n, \r\n or \r) starts
      with # and body is empty or ends with \n.  This is the hypothesis `compile_clean` of
      Cli.debug_only_comments, PROVED here for the real emitter (it needs: the front end only
      lets names over [A-Za-z0-9_] through, repr() never returns \n or \r, every emitted line is
      a def line / an indented line / empty).
   2. lib_compile: the `compile` parameter of Cli.v made of compile_text.  Not modelled and
      therefore still arbitrary (a Section variable): which exception a rejected source raises
      (CompilerError with line, column and message -> "Error: file:line:col:msg", or another
      exception -> traceback) - compile_text only says THAT the source is rejected.
   3. the C19 theorems for this instance, without any hypothesis on the compiler. *)
From Coq Require Import String.
From Coq Require Import List NArith Bool Arith Lia.
Import ListNotations.
From YP Require Import Base.Str Lang.Ast Lang.Front Comp.IR Comp.CompileBody Comp.CompileClause Comp.Emit
  Comp.PyRepr Comp.Limits Comp.CompileText Comp.EmitShape Comp.EmitPieces Comp.EmitLines Comp.FrontLex
  Comp.CompileTextSound Cli.Comment Cli.Cli.
Local Open Scope string_scope.
Local Open Scope list_scope.

Lemma Forall2_imp {A B} (P Q : A -> B -> Prop) l1 l2 :
  (forall a b, P a b -> Q a b) -> Forall2 P l1 l2 -> Forall2 Q l1 l2.
Proof. intros H. induction 1; constructor; auto. Qed.

(* ------------------------------------------------------------------ lines joined with \n *)

Definition no_nl_cr (l : str) : Prop := Forall (fun c => c <> 10%N /\ c <> 13%N) l.

Lemma no_nl_cr_eqb l : no_nl_cr l -> Forall (fun c => (c =? 10)%N = false /\ (c =? 13)%N = false) l.
Proof.
  intros H. eapply Forall_impl; [|exact H]. intros c [H1 H2]. split; apply N.eqb_neq; assumption.
Qed.

Definition close_line (l : str) : str := l ++ [10%N].

Lemma join_closed : forall ls, join [10%N] (ls ++ [[]]) = concat (map close_line ls).
Proof.
  induction ls as [|l r IH]; [reflexivity|].
  change ((l :: r) ++ [[]]) with (l :: (r ++ [[]])).
  assert (E : join [10%N] (l :: (r ++ [[]])) = l ++ [10%N] ++ join [10%N] (r ++ [[]])).
  { destruct r; reflexivity. }
  rewrite E, IH. cbn [map concat]. unfold close_line at 2. rewrite <- app_assoc. reflexivity.
Qed.

Lemma close_line_nl_term l : nl_term (close_line l).
Proof. right. exists l. reflexivity. Qed.

Lemma plines_closed : forall ls, Forall no_nl_cr ls -> plines (concat (map close_line ls)) = map close_line ls.
Proof.
  induction ls as [|l r IH]; intros H; [reflexivity|]. inversion H as [|? ? Hl Hr]; subst.
  cbn [map concat]. rewrite (plines_app _ _ (close_line_nl_term l)), (IH Hr).
  unfold close_line at 1. rewrite (plines_line l (no_nl_cr_eqb l Hl)). reflexivity.
Qed.

Lemma closed_nl_term ls : nl_term (concat (map close_line ls)).
Proof.
  apply nl_term_concat, Forall_forall. intros x Hx. apply in_map_iff in Hx. destruct Hx as [l [<- _]].
  apply close_line_nl_term.
Qed.

Lemma starts_hash_close l : starts_hash l = false -> starts_hash (close_line l) = false.
Proof. destruct l; [reflexivity|intros H; exact H]. Qed.

(* lines without line break, none starting with #: joined and closed they are a clean body *)
Lemma closed_clean ls : Forall no_nl_cr ls -> Forall (fun l => starts_hash l = false) ls ->
  clean_body (concat (map close_line ls)).
Proof.
  intros H1 H2. split; [|apply closed_nl_term].
  apply strip_id. rewrite (plines_closed ls H1).
  apply Forall_forall. intros x Hx. apply in_map_iff in Hx. destruct Hx as [l [<- Hl]].
  apply starts_hash_close. rewrite Forall_forall in H2. apply H2. exact Hl.
Qed.

(* ------------------------------------------------------------------ the lines of the emitter *)

Lemma starts_hash_ind_S i s : starts_hash (ind (S i) s) = false.
Proof. reflexivity. Qed.

Lemma starts_hash_at_least l : at_least 1 l -> starts_hash l = false.
Proof. intros [i [s [Hi ->]]]. destruct i; [lia|reflexivity]. Qed.

Lemma starts_hash_def_line k : starts_hash (def_line k) = false.
Proof. reflexivity. Qed.

Section EmitClean.
  Variable repr : str -> str.

  Lemma function_lines_no_hash f : Forall (fun l => starts_hash l = false) (emit_function repr f ++ [[]]).
  Proof.
    destruct (function_frame repr f) as [body [-> [_ Hb]]].
    apply Forall_app. split; [|repeat constructor].
    constructor; [apply starts_hash_def_line|]. constructor; [reflexivity|]. constructor; [reflexivity|].
    apply Forall_app. split; [|repeat constructor].
    eapply Forall_impl; [|exact Hb]. intros l Hl. apply starts_hash_at_least.
    eapply at_least_mono; [|exact Hl]. lia.
  Qed.

  Definition fun_lines (ir : ir_program) : list str := flat_map (fun f => emit_function repr f ++ [[]]) ir.

  Lemma fun_lines_no_hash ir : Forall (fun l => starts_hash l = false) (fun_lines ir).
  Proof.
    induction ir as [|f r IH]; [constructor|]. unfold fun_lines. cbn [flat_map].
    apply Forall_app. split; [apply function_lines_no_hash|exact IH].
  Qed.

  (* the last line of the program is the empty line after the last function *)
  Lemma fun_lines_last ir : ir <> [] -> exists ls, fun_lines ir = ls ++ [[]].
  Proof.
    induction ir as [|f r IH]; [congruence|]. intros _. unfold fun_lines. cbn [flat_map].
    destruct r as [|f2 r2].
    - exists (emit_function repr f). cbn [flat_map]. rewrite app_nil_r. reflexivity.
    - destruct (IH ltac:(discriminate)) as [ls Hls]. unfold fun_lines in Hls. rewrite Hls.
      exists ((emit_function repr f ++ [[]]) ++ ls). rewrite app_assoc. reflexivity.
  Qed.

  (* the text: the header of Cli.v, a newline, and the function lines joined *)
  Lemma emit_program_split ir :
    emit_program repr ir = Cli.header ++ [10%N] ++ join [10%N] (match ir with [] => [[]] | _ => fun_lines ir end).
  Proof.
    unfold emit_program.
    set (rest := match ir with [] => [[]] | _ :: _ => flat_map (fun f => emit_function repr f ++ [[]]) ir end).
    assert (Hne : rest <> []).
    { unfold rest. destruct ir as [|f r]; [discriminate|]. cbn [flat_map].
      destruct (function_frame repr f) as [body [-> _]]. discriminate. }
    assert (E : join [10%N] (Emit.header ++ [[]] ++ rest) = Cli.header ++ [10%N] ++ join [10%N] rest).
    { destruct rest as [|x r]; [congruence|]. reflexivity. }
    rewrite E. unfold rest, fun_lines. destruct ir; reflexivity.
  Qed.
End EmitClean.

(* COMPILE_TEXT_CLEAN (DESIGN 7/C19: code_has_no_comment_lines) *)
Theorem compile_text_clean printable s text : compile_text printable s = CText text ->
  exists body, text = Cli.header ++ [10%N] ++ body /\ clean_body body.
Proof.
  intros H. apply compile_text_accepts in H. destruct H as [p [ir [Hf [Hc [_ [_ ->]]]]]].
  rewrite emit_program_split. eexists. split; [reflexivity|].
  destruct ir as [|f0 fr].
  - (* no clause at all: the body is empty *)
    split; [reflexivity|left; reflexivity].
  - destruct (fun_lines_last (py_repr printable) (f0 :: fr) ltac:(discriminate)) as [ls Hls].
    rewrite Hls, join_closed.
    pose proof (lines_one_line printable p (front_lexical s p Hf) (f0 :: fr) Hc) as H1.
    unfold emit_lines in H1. apply Forall_app in H1. destruct H1 as [_ H1]. apply Forall_app in H1. destruct H1 as [_ H1].
    change (Forall no_nl_cr (fun_lines (py_repr printable) (f0 :: fr))) in H1.
    pose proof (fun_lines_no_hash (py_repr printable) (f0 :: fr)) as H2.
    rewrite Hls in H1, H2. apply Forall_app in H1, H2. destruct H1 as [H1 _]. destruct H2 as [H2 _].
    apply closed_clean; assumption.
Qed.

(* ------------------------------------------------------------------ the library as `compile` *)

(* the code after the header and its newline *)
Definition body_of (text : str) : str := skipn (length Cli.header + 1) text.

Lemma body_of_split body : body_of (Cli.header ++ [10%N] ++ body) = body.
Proof. reflexivity. Qed.

Section Library.
  Variable printable : N -> bool.
  (* how a source that compile_text rejects / finds too large fails in the implementation:
     CErr line col msg for a CompilerError, CCrash for any other exception.  Arbitrary.
     KNOWN SIMPLIFICATION: one message per text.  The real message of "program too large for Python"
     quotes CPython's SyntaxError, which names the file handed to compile() and a line number of the
     generated text; that number is 2 higher when --debug-filename adds its `# from <file>` lines.  So
     the equality of the error MESSAGE across debug options that debug_only_comments_lib states (as
     part of r_end) holds for the implementation only up to that parenthesis; the check compares
     messages after dropping it.  Everything the property speaks about (output, exit status,
     file:line:column of syntax errors) is unaffected. *)
  Variable failure : str -> cres.

  Definition as_failure (r : cres) : cres := match r with COk _ => CCrash | r => r end.

  Definition lib_compile (t : str) : cres :=
    match compile_text printable t with
    | CText text => COk (body_of text)
    | CRejectNumeral => CCrash                       (* ValueError of int(): not a CompilerError *)
    | CRejectFront | CTooLarge => as_failure (failure t)
    end.

  Lemma lib_compile_ok t body : lib_compile t = COk body <->
    exists text, compile_text printable t = CText text /\ body = body_of text.
  Proof.
    unfold lib_compile. destruct (compile_text printable t) as [text| | |] eqn:E.
    - split; [intros H; inversion H; eauto|intros [text' [H ->]]; inversion H; reflexivity].
    - split; [destruct (failure t); discriminate|intros [text' [H _]]; discriminate].
    - split; [discriminate|intros [text' [H _]]; discriminate].
    - split; [destruct (failure t); discriminate|intros [text' [H _]]; discriminate].
  Qed.

  Lemma lib_compile_clean t body : lib_compile t = COk body -> clean_body body.
  Proof.
    intros H. apply lib_compile_ok in H. destruct H as [text [Hc ->]].
    destruct (compile_text_clean _ _ _ Hc) as [body [-> Hb]]. rewrite body_of_split. exact Hb.
  Qed.

  (* the text that compile_prolog_from_string returns IS what Cli.v calls the library text *)
  Lemma lib_text_compile_text t o : lib_text lib_compile t = Some o <-> compile_text printable t = CText o.
  Proof.
    unfold lib_text, lib_text_of. split.
    - destruct (lib_compile t) as [body| |] eqn:E; try discriminate. intros H. inversion H; subst o.
      apply lib_compile_ok in E. destruct E as [text [Hc ->]].
      destruct (compile_text_clean _ _ _ Hc) as [body [-> _]]. rewrite body_of_split. exact Hc.
    - intros Hc. assert (E : lib_compile t = COk (body_of o)) by (apply lib_compile_ok; eauto).
      rewrite E. destruct (compile_text_clean _ _ _ Hc) as [body [-> _]]. rewrite body_of_split. reflexivity.
  Qed.

  Variable trace : bool -> str -> str -> list (chan * str).

  Definition yldpc_lib := yldpc lib_compile trace.

  (* C19, second sentence, for the real compiler: no hypothesis left *)
  Theorem debug_only_comments_lib : forall f outfile srcs fs stdin,
    strip_result (yldpc_lib f outfile srcs fs stdin) = strip_result (yldpc_lib no_flags outfile srcs fs stdin).
  Proof. exact (debug_only_comments lib_compile trace lib_compile_clean). Qed.

  (* C19, first sentence, for the real compiler *)
  Theorem cli_equals_compile_text : forall outfile srcs fs stdin texts outs,
    all_exist fs srcs ->
    contents (fs_seen fs outfile) stdin srcs = map RText texts ->
    Forall2 (fun t o => compile_text printable t = CText o) texts outs ->
    yldpc_lib no_flags outfile srcs fs stdin = placed outfile (concat outs) EOk.
  Proof.
    intros outfile srcs fs stdin texts outs Hex Hc HF.
    apply (cli_equals_library lib_compile trace outfile srcs fs stdin texts outs Hex Hc).
    eapply Forall2_imp; [|exact HF]. intros t o. apply lib_text_compile_text.
  Qed.

  (* with any debug options: the same, up to comment lines *)
  Corollary cli_equals_compile_text_debug : forall f outfile srcs fs stdin texts outs,
    all_exist fs srcs ->
    contents (fs_seen fs outfile) stdin srcs = map RText texts ->
    Forall2 (fun t o => compile_text printable t = CText o) texts outs ->
    strip_result (yldpc_lib f outfile srcs fs stdin) = strip_result (placed outfile (concat outs) EOk).
  Proof.
    intros f outfile srcs fs stdin texts outs Hex Hc HF.
    rewrite debug_only_comments_lib.
    rewrite (cli_equals_compile_text outfile srcs fs stdin texts outs Hex Hc HF). reflexivity.
  Qed.

  (* exit status 0 iff every source exists, is readable and is accepted by compile_text *)
  Theorem exit_status_lib : forall f outfile srcs fs stdin,
    status (r_end (yldpc_lib f outfile srcs fs stdin)) = 0%N <->
    (all_exist fs srcs /\
     Forall (fun r => exists t text, r = RText t /\ compile_text printable t = CText text)
            (contents (fs_seen fs outfile) stdin srcs)).
  Proof.
    intros f outfile srcs fs stdin. unfold yldpc_lib. rewrite exit_status.
    split; intros [H1 H2]; (split; [exact H1|]); eapply Forall_impl; try exact H2; cbv beta.
    - intros r [t [body [-> Hb]]]. apply lib_compile_ok in Hb. destruct Hb as [text [Hc _]]. eauto.
    - intros r [t [text [-> Hc]]]. exists t, (body_of text). split; [reflexivity|]. apply lib_compile_ok. eauto.
  Qed.

  (* a text that compile_text does not accept never yields code *)
  Lemma lib_compile_refused t : (forall o, compile_text printable t <> CText o) ->
    (exists l c m, lib_compile t = CErr l c m) \/ lib_compile t = CCrash.
  Proof.
    intros H. unfold lib_compile. destruct (compile_text printable t) as [text| | |] eqn:E.
    - exfalso. exact (H text eq_refl).
    - destruct (failure t); cbn; eauto.
    - right. reflexivity.
    - destruct (failure t); cbn; eauto.
  Qed.

  (* C19 "exits non-zero when a file does not compile", for the real compiler: the sources before
     the first one that is unreadable or refused by compile_text contribute their compile_text
     texts, nothing else is written, the exit status is 1; a CompilerError is reported as
     "<file>:<line>:<column>:<message>" *)
  Theorem cli_first_failure_lib : forall outfile srcs fs stdin pre it post outs,
    all_exist fs srcs ->
    combine srcs (contents (fs_seen fs outfile) stdin srcs) = pre ++ it :: post ->
    Forall2 (fun it o => exists t, snd it = RText t /\ compile_text printable t = CText o) pre outs ->
    (snd it = RBad \/ exists t, snd it = RText t /\ forall o, compile_text printable t <> CText o) ->
    exists e, yldpc_lib no_flags outfile srcs fs stdin = placed outfile (concat outs) e /\ status e = 1%N
      /\ (e = ECrash \/ exists l c m, e = EError (err_msg (fst it) l c m)).
  Proof.
    intros outfile srcs fs stdin pre it post outs Hex Hc HF Hbad.
    assert (HF' : Forall2 (fun it o => exists t, snd it = RText t /\ lib_text lib_compile t = Some o) pre outs).
    { eapply Forall2_imp; [|exact HF]. intros i o [t [H1 H2]]. exists t. split; [exact H1|]. apply lib_text_compile_text. exact H2. }
    assert (He : exists e, fails lib_compile it e /\ (e = ECrash \/ exists l c m, e = EError (err_msg (fst it) l c m))).
    { unfold fails. destruct Hbad as [Hb|[t [Ht Hn]]].
      - rewrite Hb. exists ECrash. split; [reflexivity|left; reflexivity].
      - rewrite Ht. destruct (lib_compile_refused t Hn) as [[l [c [m E]]]|E]; rewrite E.
        + exists (EError (err_msg (fst it) l c m)). split; [reflexivity|right; eauto].
        + exists ECrash. split; [reflexivity|left; reflexivity]. }
    destruct He as [e [Hf Hshape]]. exists e.
    destruct (cli_first_failure lib_compile trace outfile srcs fs stdin pre it post outs e Hex Hc HF' Hf) as [H1 H2].
    split; [exact H1|]. split; [exact H2|exact Hshape].
  Qed.
End Library.
