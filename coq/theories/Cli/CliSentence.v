(* C10, round 4: the command line judges every source text ALONE.

   The model command line (Cli/Cli.v `yldpc`, over the model compiler `compile_text`) compiles the sources one by
   one.  Hence a run that exits with status 0 has read only sentences of the grammar: a source that ends inside a
   comment, a quoted atom or a clause is refused even if the beginning of the NEXT source would complete it.  (The
   check compares the real `yldpc` with this on sequences of sources that are one sentence cut into pieces.) *)
From Coq Require Import String.
From Coq Require Import List NArith Bool.
Import ListNotations.
From YP Require Import Base.Str Lang.Front Lang.FrontSpec Comp.CompileText Comp.CompileTextSound Cli.Comment Cli.Cli Cli.CliCompile.
Local Open Scope string_scope.

Lemma front_some_sentence s prog : front s = Some prog -> sentence s.
Proof.
  intros H. apply front_spec in H. destruct H as [items [cst [k [Hl [_ [Y _]]]]]].
  exists items, cst. split; assumption.
Qed.

Lemma compile_text_sentence printable s text : compile_text printable s = CText text -> sentence s.
Proof.
  intros H. apply compile_text_accepts_good in H. destruct H as [p [ir [Hf _]]].
  exact (front_some_sentence s p Hf).
Qed.

(* exit status 0 => every source exists and every text that was read - each file, standard input - is a sentence *)
Theorem cli_sources_sentences : forall printable failure trace f outfile srcs fs stdin,
  status (r_end (yldpc_lib printable failure trace f outfile srcs fs stdin)) = 0%N ->
  all_exist fs srcs /\
  Forall (fun r => exists t, r = RText t /\ sentence t) (contents (fs_seen fs outfile) stdin srcs).
Proof.
  intros printable failure trace f outfile srcs fs stdin H.
  apply exit_status_lib in H. destruct H as [H1 H2]. split; [exact H1|].
  eapply Forall_impl; [|exact H2]. cbv beta. intros r [t [text [-> Hc]]].
  exists t. split; [reflexivity|]. exact (compile_text_sentence printable t text Hc).
Qed.

(* the contrapositive: one source whose text is not a sentence makes the run fail, whatever the other sources are *)
Theorem cli_non_sentence_fails : forall printable failure trace f outfile srcs fs stdin t,
  In (RText t) (contents (fs_seen fs outfile) stdin srcs) -> ~ sentence t ->
  status (r_end (yldpc_lib printable failure trace f outfile srcs fs stdin)) <> 0%N.
Proof.
  intros printable failure trace f outfile srcs fs stdin t Hin Hn H.
  apply cli_sources_sentences in H. destruct H as [_ H].
  rewrite Forall_forall in H. destruct (H _ Hin) as [t' [E S]]. injection E as <-. exact (Hn S).
Qed.

(* non-vacuity: two sources that are one sentence cut inside a quoted atom, and one cut before the full stop.  The
   joined text compiles; the run over the two files exits with status 1 and writes nothing. *)
Example cli_pieces_refused :
  let printable := fun _ : N => false in
  let failure := fun _ : str => CErr 1 0 (d "syntax error") in
  let trace := fun (dfn : bool) (s t : str) => @nil (chan * str) in
  let a := d "k(1).\10;p('ab" in
  let b := d "cd').\10;" in
  let fs := fun s => if str_eqb s (d "x.pl") then Some (RText a) else
                     if str_eqb s (d "y.pl") then Some (RText b) else None in
  let r := yldpc_lib printable failure trace (Flags false false false false) (d "-") [d "x.pl"; d "y.pl"] fs (RText []) in
  (exists text, compile_text printable (a ++ b)%list = CText text)
  /\ compile_text printable a = CRejectFront /\ compile_text printable b = CRejectFront
  /\ status (r_end r) = 1%N /\ output r = [].
Proof.
  cbv zeta. split; [eexists; vm_compute; reflexivity|].
  split; [vm_compute; reflexivity|]. split; [vm_compute; reflexivity|].
  split; vm_compute; reflexivity.
Qed.

(* C19, round 4, non-vacuity in the class "predicates none of whose clauses generates code": the function body is the
   placeholder, for one and for several such clauses, and with every debug option on the output differs by comment lines
   only (instance of debug_only_comments_lib; the generator's messages here contain line breaks). *)
Example cli_nocode_predicates :
  let printable := fun _ : N => false in
  let failure := fun _ : str => CErr 1 0 (d "syntax error") in
  let trace := fun (dfn : bool) (s t : str) =>
     [(ChGenerator, d "Compiling clauses for ('none', 0)"); (ChGenerator, d "-- Clause: none :- fail\10;x = 1"); (ChParser, d "visit")] in
  let src := d "k(a).\10;none :- fail.\10;none :- true, fail, k(a).\10;none :- fail, !.\10;" in
  let fs := fun s => if str_eqb s (d "x.pl") then Some (RText src) else None in
  let run := fun f => yldpc_lib printable failure trace f (d "-") [d "x.pl"] fs (RText []) in
  (exists text, compile_text printable src = CText text /\ r_end (run (Flags false false false false)) = EOk /\
     output (run (Flags false false false false)) = text)
  /\ strip_result (run (Flags true false false false)) = strip_result (run (Flags false false false false))
  /\ strip_result (run (Flags false false true false)) = strip_result (run (Flags false false false false))
  /\ output (run (Flags false false true false)) <> output (run (Flags false false false false)).
Proof.
  cbv zeta. split; [eexists; split; [vm_compute; reflexivity|split; vm_compute; reflexivity]|].
  split; [vm_compute; reflexivity|]. split; [vm_compute; reflexivity|].
  vm_compute. discriminate.
Qed.
