(* comment_lines (yp_prolog_visitor.py) over code-point strings, Python's str.splitlines(),
   the physical lines of Python's tokenizer, and the removal of comment lines.

     def comment_lines(s):
         return "".join('# ' + l + '\n' for l in (s.replace('\0','\\0').splitlines() or ['']))

   (D23: a NUL character is written as backslash-zero - Python refuses source text that contains a
   NUL even inside a comment.)

   Every debug message of the compiler (YPPrologVisitor._debug, YPPrologCompiler._debug, the
   `# from <file>` line of YPPythonCodeGenerator.generate) goes through this function before it is
   written into the output. *)
From Coq Require Import String.
From Coq Require Import List NArith Bool Lia.
Import ListNotations.
From YP Require Import Base.Str.
Local Open Scope N_scope.

(* ------------------------------------------------------------------ *)
(* str.splitlines(): the line boundaries of CPython's unicode type
   (Objects/unicodeobject.c, _PyUnicode_IsLinebreak + the \r\n pair):
   \n \v \f \r \x1c \x1d \x1e \x85 U+2028 U+2029, and \r\n counts as one. *)
Definition is_break (c : N) : bool :=
  (c =? 10) || (c =? 11) || (c =? 12) || (c =? 13) || (c =? 28) || (c =? 29) || (c =? 30)
  || (c =? 133) || (c =? 8232) || (c =? 8233).

(* [sl skiplf s]: the lines of s without their terminators; no empty line after a final
   terminator; skiplf = the previous character was \r, so an immediately following \n belongs to
   the same boundary. *)
Fixpoint sl (skiplf : bool) (s : str) : list str :=
  match s with
  | [] => []
  | c :: r =>
      if skiplf && (c =? 10) then sl false r
      else if c =? 13 then [] :: sl true r
      else if is_break c then [] :: sl false r
      else match sl false r with
           | [] => [[c]]
           | l :: ls => (c :: l) :: ls
           end
  end.

Definition splitlines (s : str) : list str := sl false s.

(* `s.splitlines() or ['']` *)
Definition lines_or_empty (s : str) : list str :=
  match splitlines s with [] => [[]] | ls => ls end.

(* '# ' + l + '\n' *)
Definition comment_line (l : str) : str := 35 :: 32 :: l ++ [10].

(* s.replace('\0','\\0') *)
Fixpoint escape_nul (s : str) : str :=
  match s with
  | [] => []
  | c :: r => if c =? 0 then 92 :: 48 :: escape_nul r else c :: escape_nul r
  end.

Definition comment_lines (s : str) : str := concat (map comment_line (lines_or_empty (escape_nul s))).

(* ------------------------------------------------------------------ *)
(* Physical lines of a Python source text as the tokenizer sees them: a line ends after \n, after
   \r\n, or after a \r that is not followed by \n.  Each line keeps its terminator, the last line
   may have none, so that concat (plines t) = t. *)
Definition starts_lf (s : str) : bool := match s with c :: _ => c =? 10 | [] => false end.

Fixpoint plines (s : str) : list str :=
  match s with
  | [] => []
  | c :: r =>
      if c =? 10 then [c] :: plines r
      else if (c =? 13) && negb (starts_lf r) then [c] :: plines r
      else (* c continues the first line of the rest (for \r: that line is the \n that follows) *)
        match plines r with
        | [] => [[c]]
        | l :: ls => (c :: l) :: ls
        end
  end.

Definition starts_hash (l : str) : bool := match l with c :: _ => c =? 35 | [] => false end.

(* the text with its comment lines (lines whose first character is #) removed *)
Definition strip (t : str) : str := concat (filter (fun l => negb (starts_hash l)) (plines t)).

(* empty, or ends with \n: the next thing written starts a new line *)
Definition nl_term (a : str) : Prop := a = [] \/ exists a', a = a' ++ [10].

Definition nobreak (l : str) : Prop := Forall (fun c => is_break c = false) l.

(* ------------------------------------------------------------------ *)

Lemma is_break_false c : is_break c = false -> (c =? 10) = false /\ (c =? 13) = false.
Proof.
  unfold is_break; intros H.
  repeat (apply orb_false_iff in H; destruct H as [H ?]).
  split; assumption.
Qed.

Lemma sl_nobreak : forall s b, Forall nobreak (sl b s).
Proof.
  induction s as [|c r IH]; intros b; cbn [sl].
  - constructor.
  - destruct (b && (c =? 10)) eqn:E1; [apply IH|].
    destruct (c =? 13) eqn:E2; [constructor; [constructor|apply IH]|].
    destruct (is_break c) eqn:E3; [constructor; [constructor|apply IH]|].
    specialize (IH false).
    destruct (sl false r) as [|l ls] eqn:E4.
    + constructor; [|constructor]. constructor; [exact E3|constructor].
    + inversion IH as [|? ? Hl Hls]; subst.
      constructor; [|exact Hls]. constructor; [exact E3|exact Hl].
Qed.

Lemma splitlines_nobreak s : Forall nobreak (splitlines s).
Proof. apply sl_nobreak. Qed.

Lemma lines_or_empty_nobreak s : Forall nobreak (lines_or_empty s).
Proof.
  unfold lines_or_empty. pose proof (splitlines_nobreak s) as H.
  destruct (splitlines s); [constructor; constructor|exact H].
Qed.

Lemma lines_or_empty_nonempty s : lines_or_empty s <> [].
Proof. unfold lines_or_empty; destruct (splitlines s); discriminate. Qed.

(* splitlines loses nothing but the terminators: a text without any line-break character is its
   own single line *)
Lemma sl_nobreak_id : forall l, nobreak l -> l <> [] -> sl false l = [l].
Proof.
  induction l as [|c r IH]; intros Hnb Hne; [congruence|].
  inversion Hnb as [|? ? Hc Hr]; subst.
  cbn [sl andb]. destruct (is_break_false _ Hc) as [_ E13]. rewrite E13, Hc.
  destruct r as [|c2 r2]; [reflexivity|].
  rewrite (IH Hr) by discriminate. reflexivity.
Qed.

Lemma plines_nil_iff s : plines s = [] <-> s = [].
Proof.
  split; [|intros ->; reflexivity].
  destruct s as [|c r]; [reflexivity|]. cbn [plines].
  destruct (c =? 10); [discriminate|].
  destruct ((c =? 13) && negb (starts_lf r)); [discriminate|].
  destruct (plines r); discriminate.
Qed.

Lemma concat_plines : forall s, concat (plines s) = s.
Proof.
  induction s as [|c r IH]; [reflexivity|]. cbn [plines].
  destruct (c =? 10); [cbn; rewrite IH; reflexivity|].
  destruct ((c =? 13) && negb (starts_lf r)); [cbn; rewrite IH; reflexivity|].
  destruct (plines r) as [|l ls] eqn:E.
  - apply plines_nil_iff in E; subst; reflexivity.
  - cbn in *. rewrite IH. reflexivity.
Qed.

Lemma starts_lf_app a b : starts_lf ((a ++ [10]) ++ b) = starts_lf (a ++ [10]).
Proof. destruct a; reflexivity. Qed.

(* a text that ends with \n closes its last line: the lines of what follows are independent *)
Lemma plines_app_nl : forall a b, plines ((a ++ [10]) ++ b) = plines (a ++ [10]) ++ plines b.
Proof.
  induction a as [|c a IH]; intros b.
  - reflexivity.
  - change (((c :: a) ++ [10]) ++ b) with (c :: ((a ++ [10]) ++ b)).
    change ((c :: a) ++ [10]) with (c :: (a ++ [10])).
    cbn [plines]. rewrite starts_lf_app, IH.
    destruct (c =? 10); [reflexivity|].
    destruct ((c =? 13) && negb (starts_lf (a ++ [10]))); [reflexivity|].
    destruct (plines (a ++ [10])) as [|l ls] eqn:E.
    + apply plines_nil_iff in E. destruct a; discriminate.
    + reflexivity.
Qed.

Lemma plines_app a b : nl_term a -> plines (a ++ b) = plines a ++ plines b.
Proof.
  intros [->|[a' ->]]; [reflexivity|apply plines_app_nl].
Qed.

Lemma plines_line : forall l, Forall (fun c => (c =? 10) = false /\ (c =? 13) = false) l ->
  plines (l ++ [10]) = [l ++ [10]].
Proof.
  induction l as [|c r IH]; intros H; [reflexivity|].
  inversion H as [|? ? [E10 E13] Hr]; subst.
  change ((c :: r) ++ [10]) with (c :: (r ++ [10])).
  cbn [plines]. rewrite E10, E13, (IH Hr). reflexivity.
Qed.

Lemma nobreak_no_nl l : nobreak l -> Forall (fun c => (c =? 10) = false /\ (c =? 13) = false) l.
Proof. intros H; eapply Forall_impl; [|exact H]. intros c; apply is_break_false. Qed.

Lemma plines_comment_line l : nobreak l -> plines (comment_line l) = [comment_line l].
Proof.
  intros H. unfold comment_line.
  change (35 :: 32 :: l ++ [10]) with ((35 :: 32 :: l) ++ [10]).
  apply plines_line. constructor; [split; reflexivity|]. constructor; [split; reflexivity|].
  apply nobreak_no_nl; exact H.
Qed.

Lemma comment_line_nl_term l : nl_term (comment_line l).
Proof. right. exists (35 :: 32 :: l). reflexivity. Qed.

Lemma nl_term_app a b : nl_term a -> nl_term b -> nl_term (a ++ b).
Proof.
  intros Ha [->|[b' ->]].
  - rewrite app_nil_r; exact Ha.
  - right. exists (a ++ b'). rewrite app_assoc. reflexivity.
Qed.

Lemma nl_term_concat ls : Forall nl_term ls -> nl_term (concat ls).
Proof.
  induction 1 as [|x r Hx Hr IH]; cbn; [left; reflexivity|].
  apply nl_term_app; assumption.
Qed.

Lemma plines_comment_block : forall ls, Forall nobreak ls ->
  plines (concat (map comment_line ls)) = map comment_line ls.
Proof.
  induction ls as [|l r IH]; intros H; [reflexivity|].
  inversion H as [|? ? Hl Hr]; subst. cbn [map concat].
  rewrite (plines_app _ _ (comment_line_nl_term l)), (plines_comment_line _ Hl), (IH Hr).
  reflexivity.
Qed.

(* the physical lines of comment_lines msg are exactly the `# <line>\n` of the message's lines *)
Lemma plines_comment_lines msg :
  plines (comment_lines msg) = map comment_line (lines_or_empty (escape_nul msg)).
Proof. apply plines_comment_block, lines_or_empty_nobreak. Qed.

(* the lines of a text are made of characters of the text *)
Lemma sl_Forall (P : N -> Prop) : forall s b, Forall P s -> Forall (Forall P) (sl b s).
Proof.
  induction s as [|c r IH]; intros b H; cbn [sl]; [constructor|].
  inversion H as [|? ? Hc Hr]; subst.
  destruct (b && (c =? 10)); [apply IH; exact Hr|].
  destruct (c =? 13); [constructor; [constructor|apply IH; exact Hr]|].
  destruct (is_break c); [constructor; [constructor|apply IH; exact Hr]|].
  specialize (IH false Hr). destruct (sl false r) as [|l ls].
  - repeat constructor; exact Hc.
  - inversion IH; subst. constructor; [constructor; assumption|assumption].
Qed.

Lemma lines_or_empty_Forall (P : N -> Prop) s : Forall P s -> Forall (Forall P) (lines_or_empty s).
Proof.
  intros H. unfold lines_or_empty, splitlines. pose proof (sl_Forall P s false H) as H1.
  destruct (sl false s); [repeat constructor|exact H1].
Qed.

Lemma escape_nul_no_nul s : Forall (fun c => c <> 0) (escape_nul s).
Proof.
  induction s as [|c r IH]; cbn [escape_nul]; [constructor|].
  destruct (N.eqb_spec c 0) as [->|Hn]; repeat constructor; try discriminate; assumption.
Qed.

(* a text without NUL is left alone *)
Lemma escape_nul_id s : Forall (fun c => c <> 0) s -> escape_nul s = s.
Proof.
  induction 1 as [|c r Hc Hr IH]; [reflexivity|]. cbn [escape_nul].
  destruct (N.eqb_spec c 0); [contradiction|rewrite IH; reflexivity].
Qed.

Lemma comment_lines_nl_term msg : nl_term (comment_lines msg).
Proof.
  unfold comment_lines. apply nl_term_concat.
  apply Forall_forall. intros x Hx. apply in_map_iff in Hx. destruct Hx as [l [<- _]].
  apply comment_line_nl_term.
Qed.

(* C19: every line of a commented debug message - for ANY message, whatever code points and
   line-break characters it contains - starts with #, there is at least one such line, and the
   text ends with a newline (so whatever is written next starts on a fresh line). *)
Theorem comment_every_line : forall msg,
  Forall (fun l => starts_hash l = true) (plines (comment_lines msg))
  /\ plines (comment_lines msg) <> []
  /\ exists t, comment_lines msg = t ++ [10].
Proof.
  intros msg. rewrite plines_comment_lines. split; [|split].
  - apply Forall_forall. intros x Hx. apply in_map_iff in Hx. destruct Hx as [l [<- _]]. reflexivity.
  - pose proof (lines_or_empty_nonempty (escape_nul msg)) as H. destruct (lines_or_empty (escape_nul msg)); [congruence|discriminate].
  - destruct (comment_lines_nl_term msg) as [E|[t E]]; [|exists t; exact E].
    exfalso. unfold comment_lines in E.
    pose proof (lines_or_empty_nonempty (escape_nul msg)) as H. destruct (lines_or_empty (escape_nul msg)); [congruence|discriminate].
Qed.

(* what the comment says is the message (NUL written as \0): one comment line per line of the
   message, in order *)
Theorem comment_lines_content : forall msg,
  plines (comment_lines msg) = map (fun l => 35 :: 32 :: l ++ [10]) (lines_or_empty (escape_nul msg))
  /\ Forall nobreak (lines_or_empty (escape_nul msg)).
Proof. intros msg; split; [apply plines_comment_lines|apply lines_or_empty_nobreak]. Qed.

(* C19/D23: every line of a commented debug message is a comment line AS PYTHON READS LINES:
   `# `, then characters none of which is NUL, CR, LF (or any other str.splitlines boundary), then
   the line feed that ends it.  So nothing in the message can end the comment early, and the text
   contains no NUL (which Python 3.12 refuses anywhere in source text). *)
Definition comment_char (c : N) : Prop := c <> 0 /\ c <> 10 /\ c <> 13 /\ is_break c = false.

Theorem comment_lines_clean : forall msg,
  Forall (fun l => exists body, l = 35 :: 32 :: body ++ [10] /\ Forall comment_char body) (plines (comment_lines msg))
  /\ Forall (fun c => c <> 0) (comment_lines msg).
Proof.
  intros msg.
  assert (HL : Forall (fun l => Forall comment_char l) (lines_or_empty (escape_nul msg))).
  { pose proof (lines_or_empty_nobreak (escape_nul msg)) as H1.
    pose proof (lines_or_empty_Forall _ _ (escape_nul_no_nul msg)) as H2.
    rewrite Forall_forall in *. intros l Hl. specialize (H1 l Hl). specialize (H2 l Hl).
    unfold nobreak in H1. rewrite Forall_forall in *. intros c Hc. specialize (H1 c Hc). specialize (H2 c Hc).
    destruct (is_break_false _ H1) as [E10 E13]. apply N.eqb_neq in E10, E13.
    unfold comment_char. auto. }
  split.
  - rewrite plines_comment_lines. apply Forall_forall. intros x Hx. apply in_map_iff in Hx.
    destruct Hx as [l [<- Hl]]. exists l. split; [reflexivity|]. rewrite Forall_forall in HL. apply HL. exact Hl.
  - unfold comment_lines. apply Forall_concat. apply Forall_forall. intros x Hx. apply in_map_iff in Hx.
    destruct Hx as [l [<- Hl]]. unfold comment_line.
    constructor; [discriminate|]. constructor; [discriminate|]. apply Forall_app. split; [|repeat constructor; discriminate].
    rewrite Forall_forall in HL. specialize (HL l Hl). eapply Forall_impl; [|exact HL]. intros c [H _]. exact H.
Qed.

(* ------------------------------------------------------------------ *)
(* strip *)

Lemma strip_app a b : nl_term a -> strip (a ++ b) = strip a ++ strip b.
Proof.
  intros H. unfold strip. rewrite (plines_app _ _ H), filter_app, concat_app. reflexivity.
Qed.

Lemma strip_comment_block ls : Forall nobreak ls -> strip (concat (map comment_line ls)) = [].
Proof.
  intros H. unfold strip. rewrite (plines_comment_block _ H).
  induction ls as [|l r IH]; [reflexivity|].
  inversion H; subst. cbn. apply IH; assumption.
Qed.

Lemma strip_comment_lines msg : strip (comment_lines msg) = [].
Proof. apply strip_comment_block, lines_or_empty_nobreak. Qed.

Lemma strip_comment_msgs msgs : strip (concat (map comment_lines msgs)) = [].
Proof.
  induction msgs as [|m r IH]; [reflexivity|]. cbn [map concat].
  rewrite (strip_app _ _ (comment_lines_nl_term m)), strip_comment_lines, IH. reflexivity.
Qed.

Lemma comment_msgs_nl_term msgs : nl_term (concat (map comment_lines msgs)).
Proof.
  apply nl_term_concat, Forall_forall. intros x Hx. apply in_map_iff in Hx.
  destruct Hx as [m [<- _]]. apply comment_lines_nl_term.
Qed.

(* a text none of whose lines is a comment is left alone *)
Lemma strip_id t : Forall (fun l => starts_hash l = false) (plines t) -> strip t = t.
Proof.
  intros H. unfold strip.
  assert (E : filter (fun l => negb (starts_hash l)) (plines t) = plines t).
  { induction H as [|x r Hx Hr IH]; [reflexivity|]. cbn. rewrite Hx. cbn. rewrite IH. reflexivity. }
  rewrite E. apply concat_plines.
Qed.

(* examples (evaluated): the line boundaries of str.splitlines, no final empty line, the empty
   message, \r\n as one boundary *)
Local Open Scope string_scope.
Example splitlines_ex1 : splitlines (d "a\10;b\13;\10;c\13;d\12;e\8232;f\10;") = [d "a"; d "b"; d "c"; d "d"; d "e"; d "f"].
Proof. reflexivity. Qed.
Example splitlines_ex2 : splitlines (d "\10;\10;") = [[]; []] /\ splitlines [] = [] /\ splitlines (d "\13;\13;\10;x") = [[]; []; d "x"].
Proof. repeat split. Qed.
Example comment_lines_ex1 : comment_lines [] = d "# \10;".
Proof. reflexivity. Qed.
Example comment_lines_ex3 : comment_lines (d "a\0;b\0;") = d "# a\92;0b\92;0\10;".
Proof. reflexivity. Qed.
Example comment_lines_ex2 : comment_lines (d "x\10;import os\13;y") = d "# x\10;# import os\10;# y\10;".
Proof. reflexivity. Qed.
Example plines_ex : plines (d "a\13;\10;b\13;c\10;\10;d") = [d "a\13;\10;"; d "b\13;"; d "c\10;"; d "\10;"; d "d"].
Proof. reflexivity. Qed.
Example strip_ex : strip (d "#\10;# x\10;def f():\10;  # kept: not at line start\10;#gone\10;  pass\10;") = d "def f():\10;  # kept: not at line start\10;  pass\10;".
Proof. reflexivity. Qed.
