(* C18 on the REAL model of the compiler (Comp/CompileClause.v, Comp/CompileText.v), not on a copy.

   compile_text : printable -> source -> cresult is a closed Gallina function; that it returns the
   same value every time is true by construction and is NOT claimed as a result.  What has content:

   1. decl_order_canonical.  In the code that compile_clause (the model of compile_function_body)
      produces, the `V_x = variable()` lines are `map declare` of two lists that are the canonical
      enumeration - no duplicates, exactly the not-yet-bound variables, ordered by first occurrence
      in the clause text - of the head's and of the body's variables; and a canonical enumeration is
      unique.  So the declaration order is a function of the clause syntax: there is no place where
      a set's iteration order could enter.
   2. compile_text_gen: the same pipeline with two extra parameters that the real code does not
      have - `ord` (and `gord`, see below), a function applied to the de-duplicated variable list (the model of
      list(set(...)) of the pinned tree: some permutation chosen by the hash seed), and the initial
      values (a, k) of the two counters (anonymousVariableCounter, cut_if_counter).
        compile_text_gen_id   with ord = identity and counters (0,0) it IS compile_text
        set_order_refuted     two permutations give different texts for one source
        group_order_refuted   likewise for the iteration order of the predicate dictionary (`gord`)
        shared_counters_refuted  with counters carried over from a previous compilation (as if they
                              were module-level / class-level), compiling the same source twice gives
                              two different texts - for each of the two counters separately
        counters_per_call     a process that compiles a sequence of sources, creating its visitor
                              and compiler objects (counters 0) per call as _compile_prolog_from_stream
                              does, returns for every source compile_text of that source, whatever
                              was compiled (or failed to compile) before and after it. *)
From Coq Require Import String.
From Coq Require Import List NArith Bool Arith Lia Permutation.
Import ListNotations.
From YP Require Import Comp.NumeralName.
From YP Require Import Base.Str Lang.Ast Lang.Lexer Lang.Cst Lang.Parser Lang.Unquote Lang.Front
  Comp.IR Comp.CompileBody Comp.CompileClause Comp.Emit Comp.PyRepr Comp.Limits Comp.CompileText Cli.Determinism.
Local Open Scope string_scope.
Local Open Scope list_scope.

(* ------------------------------------------------------------------ 1. declarations *)

Lemma mem_str_mem x l : mem_str x l = mem x l.
Proof. induction l as [|y r IH]; [reflexivity|]. cbn. rewrite IH, (str_eqb_sym x y). reflexivity. Qed.

Lemma dedup_acc_fromkeys : forall l seen, dedup_acc seen l = fromkeys seen l.
Proof.
  induction l as [|x r IH]; intros seen; [reflexivity|]. cbn [dedup_acc fromkeys].
  rewrite mem_str_mem. destruct (mem x seen); rewrite IH; reflexivity.
Qed.

(* the function used by compile_clause is the one analysed in Determinism.v *)
Lemma filter_free_eq bound vars : filter_free bound vars = filter_free_variables bound vars.
Proof.
  unfold filter_free, filter_free_variables, dedup. rewrite dedup_acc_fromkeys. f_equal.
  apply filter_ext. intros v. rewrite mem_str_mem. reflexivity.
Qed.

(* res enumerates the variables of vars that are not in bound: once each, by first occurrence *)
Definition canonical (bound vars res : list str) : Prop :=
  NoDup res /\ (forall v, In v res <-> In v vars /\ ~ In v bound) /\ sorted_by_first vars res.

Lemma filter_free_canonical bound vars : canonical bound vars (filter_free bound vars).
Proof. rewrite filter_free_eq. exact (dedup_keeps_first_occurrence_order bound vars). Qed.

Theorem canonical_unique bound vars l1 l2 : canonical bound vars l1 -> canonical bound vars l2 -> l1 = l2.
Proof.
  intros [N1 [I1 S1]] [N2 [I2 S2]]. apply (first_occurrence_order_unique vars); try assumption.
  intros v. rewrite I1, I2. tauto.
Qed.

(* the body code and the unification loops contain no assignment at their top level: the
   declarations of a clause are the ones listed, nothing else declares *)
Definition not_assign (st : stmt) : Prop := match st with SAssign _ _ => False | _ => True end.

Lemma comp_no_assign : forall n b cnt code k, comp n b cnt = Some (code, k) -> Forall not_assign code.
Proof.
  induction n as [|n IH]; intros b cnt code k H; [discriminate|].
  cbn [comp] in H.
  assert (PL : forall x y c0, 
       match comp n x c0 with Some (c1,k1) => match comp n y k1 with Some (c2,k2) => Some (c1++c2,k2) | None => None end | None => None end = Some (code, k) ->
       Forall not_assign code).
  { intros x y c0 Hc. destruct (comp n x c0) as [[c1 k1]|] eqn:E1; [|discriminate].
    destruct (comp n y k1) as [[c2 k2]|] eqn:E2; [|discriminate]. injection Hc as <- _.
    apply Forall_app. split; eapply IH; eassumption. }
  destruct b as [g ga| | | |l|a K|x y|c t|x]; try (eapply IH; exact H); try (injection H as <- _; repeat constructor).
  - destruct a as [g ga| | | |l|x y|x y|c t|x]; try (eapply IH; exact H); try (injection H as <- _; repeat constructor).
    + destruct (comp n K cnt) as [[c k0]|] eqn:E; [|discriminate]. injection H as <- _. repeat constructor.
    + destruct (comp n K cnt) as [[c k0]|] eqn:E; [|discriminate]. injection H as <- _.
      apply Forall_app. split; [eapply IH; exact E|repeat constructor].
    + destruct (comp n K cnt) as [[c k0]|] eqn:E; [|discriminate]. injection H as <- _.
      apply Forall_app. split; [eapply IH; exact E|repeat constructor].
    + destruct x; eapply IH; exact H.
  - destruct x as [g ga| | | |l|x1 x2|x1 x2|c t|x1]; try (eapply PL; exact H).
    destruct (tcut c).
    + match type of H with match comp n ?X ?c0 with _ => _ end = _ => destruct (comp n X c0) as [[c1 k1]|] eqn:E1; [|discriminate] end.
      destruct (comp n y k1) as [[c2 k2]|] eqn:E2; [|discriminate].
      injection H as <- _. repeat constructor.
    + match type of H with match comp n ?X ?c0 with _ => _ end = _ => destruct (comp n X c0) as [[c1 k1]|] eqn:E1; [|discriminate] end.
      injection H as <- _. repeat constructor.
Qed.

Lemma arg_unifications_no_assign code : Forall not_assign code ->
  forall pos args i, Forall not_assign (arg_unifications i pos args code).
Proof.
  intros Hc pos. induction pos as [|[v|] pr IH]; intros args i; destruct args as [|a ar]; cbn [arg_unifications]; try exact Hc.
  - apply IH.
  - repeat constructor.
Qed.

Theorem decl_order_canonical : forall c cnt code cnt', compile_clause c cnt = Some (code, cnt') ->
  let pos := head_args_by_pos (c_args c) in
  let aliased := some_list pos in
  exists fv_head fv_body loops,
    code = head_aliases 0 pos ++ map declare fv_head ++ map declare fv_body ++ loops
    /\ canonical aliased (flat_map sterm_vars (c_args c)) fv_head
    /\ canonical (aliased ++ fv_head) (body_vars (c_body c)) fv_body
    /\ Forall not_assign loops.
Proof.
  intros c cnt code cnt' H pos aliased. unfold compile_clause in H.
  destruct (comp (fuel_body (c_body c)) (c_body c) cnt) as [[bcode k]|] eqn:E; [|discriminate].
  injection H as <- _. do 3 eexists. split; [reflexivity|].
  split; [apply filter_free_canonical|]. split; [apply filter_free_canonical|].
  apply arg_unifications_no_assign. eapply comp_no_assign. exact E.
Qed.

(* ------------------------------------------------------------------ 2. the pipeline with the
   two things made explicit on which the text could depend besides the source *)
Section Gen.
  Variable printable : N -> bool.
  (* what is done to a de-duplicated variable list before it is used; the real code: nothing *)
  Variable ord : list str -> list str.
  (* in which order the dictionary (name, arity) -> clauses built by visitProgram is iterated by
     compile_program; the real code: insertion order (Python dicts), i.e. nothing is done *)
  Variable gord : list (key * list clause) -> list (key * list clause).

  Definition compile_clause_g (c : clause) (cnt : nat) : option (list stmt * nat) :=
    let pos := head_args_by_pos (c_args c) in
    let bound1 := some_list pos in
    let fv_head := ord (filter_free bound1 (flat_map sterm_vars (c_args c))) in
    let bound2 := bound1 ++ fv_head in
    let fv_body := ord (filter_free bound2 (body_vars (c_body c))) in
    match comp (fuel_body (c_body c)) (c_body c) cnt with
    | None => None
    | Some (code, cnt') =>
        Some (head_aliases 0 pos ++ map declare fv_head ++ map declare fv_body
              ++ arg_unifications 0 pos (c_args c) code, cnt')
    end.

  Fixpoint compile_clauses_g (cs : list clause) (cnt : nat) : option (list stmt * nat) :=
    match cs with
    | [] => Some ([], cnt)
    | c :: r =>
        match compile_clause_g c cnt with
        | None => None
        | Some (code, cnt1) =>
            match compile_clauses_g r cnt1 with
            | None => None
            | Some (rest, cnt2) => Some (code ++ rest, cnt2)
            end
        end
    end.

  Fixpoint compile_groups_g (gs : list (key * list clause)) (cnt : nat) : option (list func * nat) :=
    match gs with
    | [] => Some ([], cnt)
    | (k, cs) :: r =>
        match compile_clauses_g cs cnt with
        | None => None
        | Some (code, cnt1) =>
            match compile_groups_g r cnt1 with
            | None => None
            | Some (fs, cnt2) => Some ({| fn_name := fst k; fn_arity := snd k; fn_body := code |} :: fs, cnt2)
            end
        end
    end.

  (* st = (anonymousVariableCounter, cut_if_counter) before the call; returned: their values after it *)
  Definition compile_text_g (st : nat * nat) (s : str) : cresult * (nat * nat) :=
    match (do 'ts <- lex s; do 'cst <- parse ts; v_program cst (fst st)) with
    | None => (CRejectFront, st)
    | Some (p, a') =>
        match compile_groups_g (gord (group_program p)) (snd st) with
        | None => (CRejectFront, (a', snd st))
        | Some (ir, k') => ((if ir_bad ir then CRejectFront else finish printable ir), (a', k'))
        end
    end.

  (* a process in which the counters are NOT re-created per call *)
  Fixpoint session_shared (st : nat * nat) (srcs : list str) : list cresult :=
    match srcs with
    | [] => []
    | s :: r => let (o, st') := compile_text_g st s in o :: session_shared st' r
    end.

  (* a process as the code is: _compile_prolog_from_stream creates YPPrologVisitor(ctx)
     (anonymousVariableCounter = 0) and YPPrologCompiler(ctx) (cut_if_counter = 0) in every call and
     nothing of them survives the call *)
  Fixpoint session (srcs : list str) : list cresult :=
    match srcs with
    | [] => []
    | s :: r => fst (compile_text_g (0, 0) s) :: session r
    end.
End Gen.

Definition keep : list str -> list str := fun l => l.
Definition gkeep : list (key * list clause) -> list (key * list clause) := fun l => l.

Lemma compile_clause_g_id c cnt : compile_clause_g keep c cnt = compile_clause c cnt.
Proof. reflexivity. Qed.

Lemma compile_clauses_g_id : forall cs cnt, compile_clauses_g keep cs cnt = compile_clauses cs cnt.
Proof.
  induction cs as [|c r IH]; intros cnt; [reflexivity|]. cbn [compile_clauses_g compile_clauses].
  rewrite compile_clause_g_id. destruct (compile_clause c cnt) as [[code k]|]; [|reflexivity].
  rewrite IH. reflexivity.
Qed.

Lemma compile_groups_g_id : forall gs cnt, compile_groups_g keep gs cnt = compile_groups gs cnt.
Proof.
  induction gs as [|[k cs] r IH]; intros cnt; [reflexivity|]. cbn [compile_groups_g compile_groups].
  rewrite compile_clauses_g_id. destruct (compile_clauses cs cnt) as [[code k1]|]; [|reflexivity].
  rewrite IH. reflexivity.
Qed.

(* with nothing done to the variable lists and both counters starting at 0 the generalised
   pipeline is compile_text: the theorems below are about the real model *)
Theorem compile_text_g_id printable s : fst (compile_text_g printable keep gkeep (0, 0) s) = compile_text printable s.
Proof.
  unfold compile_text_g, compile_text, front, compile_ast, compile_program, gkeep. cbn [fst snd].
  destruct (lex s) as [ts|]; [|reflexivity]. destruct (parse ts) as [cst|]; [|reflexivity].
  destruct (v_program cst 0) as [[p a']|]; [|reflexivity].
  rewrite compile_groups_g_id. destruct (compile_groups (group_program p) 0) as [[ir k']|]; reflexivity.
Qed.

(* C18 "after any other compilations in the same process" *)
Theorem counters_per_call printable : forall before after src,
  session printable keep gkeep (before ++ src :: after)
  = map (compile_text printable) before ++ compile_text printable src :: map (compile_text printable) after.
Proof.
  assert (E : forall l, session printable keep gkeep l = map (compile_text printable) l).
  { induction l as [|s r IH]; [reflexivity|]. cbn [session map]. rewrite compile_text_g_id, IH. reflexivity. }
  intros before after src. rewrite E, map_app. reflexivity.
Qed.

Corollary counters_per_call_nth printable before after src :
  nth_error (session printable keep gkeep (before ++ src :: after)) (length before) = Some (compile_text printable src).
Proof.
  rewrite counters_per_call, nth_error_app2; rewrite map_length; [|lia]. rewrite Nat.sub_diag. reflexivity.
Qed.

(* ------------------------------------------------------------------ refutations *)
Definition no_unicode : N -> bool := fun _ => false.

(* the pinned tree: list(set(...)).  Two iteration orders, one source, two different texts. *)
Theorem set_order_refuted :
  exists (ord1 ord2 : list str -> list str) (s : str) (t1 t2 : str),
    (forall l, Permutation (ord1 l) l) /\ (forall l, Permutation (ord2 l) l)
    /\ fst (compile_text_g no_unicode ord1 gkeep (0, 0) s) = CText t1
    /\ fst (compile_text_g no_unicode ord2 gkeep (0, 0) s) = CText t2
    /\ t1 <> t2.
Proof.
  exists keep, (@rev str), (d "p(X) :- q(Y, Z)."). do 2 eexists.
  split; [intros l; apply Permutation_refl|].
  split; [intros l; apply Permutation_sym, Permutation_rev|].
  split; [vm_compute; reflexivity|]. split; [vm_compute; reflexivity|]. discriminate.
Qed.

(* the same for the predicate dictionary: if its iteration order were not the insertion order (a set
   of keys, a dict of a Python before 3.7) two orders would give two different texts *)
Theorem group_order_refuted :
  exists (g1 g2 : list (key * list clause) -> list (key * list clause)) (s : str) (t1 t2 : str),
    (forall l, Permutation (g1 l) l) /\ (forall l, Permutation (g2 l) l)
    /\ fst (compile_text_g no_unicode keep g1 (0, 0) s) = CText t1
    /\ fst (compile_text_g no_unicode keep g2 (0, 0) s) = CText t2
    /\ t1 <> t2.
Proof.
  exists gkeep, (@rev (key * list clause)), (d "p(a). q(b)."). do 2 eexists.
  split; [intros l; apply Permutation_refl|].
  split; [intros l; apply Permutation_sym, Permutation_rev|].
  split; [vm_compute; reflexivity|]. split; [vm_compute; reflexivity|]. discriminate.
Qed.

(* counters that survive a call: the second compilation of the same text differs from the first,
   (a) through the anonymous-variable counter alone, (b) through the label counter alone *)
Theorem shared_counters_refuted :
  (exists s t1 t2, session_shared no_unicode keep gkeep (0, 0) [s; s] = [CText t1; CText t2] /\ t1 <> t2
                   /\ session no_unicode keep gkeep [s; s] = [CText t1; CText t1])
  /\ (exists s t1 t2, session_shared no_unicode keep gkeep (0, 0) [s; s] = [CText t1; CText t2] /\ t1 <> t2
                   /\ session no_unicode keep gkeep [s; s] = [CText t1; CText t1]).
Proof.
  split.
  - exists (d "p(_)."). do 2 eexists. split; [vm_compute; reflexivity|]. split; [discriminate|vm_compute; reflexivity].
  - exists (d "p :- ( a -> b ; c )."). do 2 eexists. split; [vm_compute; reflexivity|]. split; [discriminate|vm_compute; reflexivity].
Qed.
