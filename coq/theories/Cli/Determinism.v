(* C18 - list lemmas for the part of "compilation is a deterministic function of the source text"
   that is about an algorithm and not about CPython (used by Cli/DetCompile.v, which proves that
   CompileClause.filter_free - the function inside the model compiler - is the function below):

   1. YPPrologCompiler.filter_free_variables as it is now

          def filter_free_variables(self,variables):
              return list(dict.fromkeys([ v for v in variables if v not in self.bound_vars[-1] ]))

      (`variables` = expr.variables, the variable names of the clause head / body in textual order
      with repetitions).  dict.fromkeys keeps the first occurrence of every key, in insertion order.
      The old code was list(set(...)), whose order depends on the string hash seed.

   2. the counters (YPPrologVisitor.anonymousVariableCounter, YPPrologCompiler.cut_if_counter) live
      in objects created by every call of _compile_prolog_from_stream.

   REMARK (not a theorem): the model of the compiler is a Gallina function, so that the MODEL is
   deterministic holds by construction and says nothing about the implementation.  That the
   implementation's bytes do not depend on process, hash seed or history is OBSERVED by the
   correspondence check of C18 (harness/props/c18.py), not proved. *)
From Coq Require Import String.
From Coq Require Import List NArith Bool Arith Lia Permutation.
Import ListNotations.
From YP Require Import Base.Str.
Local Open Scope string_scope.
Local Open Scope list_scope.

Fixpoint mem (v : str) (l : list str) : bool :=
  match l with [] => false | x :: r => str_eqb x v || mem v r end.

Lemma mem_In v l : mem v l = true <-> In v l.
Proof.
  induction l as [|x r IH]; cbn; [split; [discriminate|tauto]|].
  rewrite orb_true_iff, IH, str_eqb_eq. tauto.
Qed.

Lemma mem_not_In v l : mem v l = false <-> ~ In v l.
Proof. rewrite <- mem_In. destruct (mem v l); split; congruence. Qed.

(* list(dict.fromkeys(xs)): keys are inserted in order, a key that is already there keeps its place *)
Fixpoint fromkeys (seen : list str) (xs : list str) : list str :=
  match xs with
  | [] => []
  | x :: r => if mem x seen then fromkeys seen r else x :: fromkeys (x :: seen) r
  end.

Definition filter_free_variables (bound vars : list str) : list str :=
  fromkeys [] (filter (fun v => negb (mem v bound)) vars).

(* position of the first occurrence *)
Fixpoint first_index (v : str) (l : list str) : option nat :=
  match l with
  | [] => None
  | x :: r => if str_eqb x v then Some 0 else option_map S (first_index v r)
  end.

Lemma first_index_In v l : In v l -> exists i, first_index v l = Some i.
Proof.
  induction l as [|x r IH]; [intros []|]. intros H. cbn.
  destruct (str_eqb_spec x v) as [->|Hn]; [exists 0; reflexivity|].
  destruct H as [H|H]; [congruence|]. destruct (IH H) as [i ->]. exists (S i). reflexivity.
Qed.

Lemma fromkeys_In : forall xs seen v, In v (fromkeys seen xs) <-> In v xs /\ ~ In v seen.
Proof.
  induction xs as [|x r IH]; intros seen v; cbn [fromkeys].
  - cbn. tauto.
  - destruct (mem x seen) eqn:E.
    + rewrite IH. apply mem_In in E. cbn. split.
      * intros [H1 H2]. tauto.
      * intros [[->|H1] H2]; [contradiction|tauto].
    + apply mem_not_In in E. cbn [In]. rewrite IH. cbn [In]. split.
      * intros [->|[H1 H2]]; [tauto|]. split; [tauto|]. intros H. apply H2. right. exact H.
      * intros [[->|H1] H2]; [left; reflexivity|].
        destruct (str_eqb_spec x v) as [->|Hn]; [left; reflexivity|].
        right. split; [exact H1|]. intros [H|H]; [congruence|contradiction].
Qed.

Lemma fromkeys_NoDup : forall xs seen, NoDup (fromkeys seen xs).
Proof.
  induction xs as [|x r IH]; intros seen; cbn [fromkeys]; [constructor|].
  destruct (mem x seen); [apply IH|].
  constructor; [|apply IH]. rewrite fromkeys_In. intros [_ H]. apply H. left. reflexivity.
Qed.

Lemma fromkeys_order : forall xs seen i j x y,
  nth_error (fromkeys seen xs) i = Some x -> nth_error (fromkeys seen xs) j = Some y -> i < j ->
  exists ix iy, first_index x xs = Some ix /\ first_index y xs = Some iy /\ ix < iy.
Proof.
  induction xs as [|a r IH]; intros seen i j x y Hx Hy Hlt; cbn [fromkeys] in *.
  - destruct i; discriminate.
  - destruct (mem a seen) eqn:E.
    + destruct (IH seen i j x y Hx Hy Hlt) as [ix [iy [H1 [H2 H3]]]].
      apply mem_In in E.
      assert (Hxa : a <> x).
      { intros ->. apply nth_error_In in Hx. apply fromkeys_In in Hx. tauto. }
      assert (Hya : a <> y).
      { intros ->. apply nth_error_In in Hy. apply fromkeys_In in Hy. tauto. }
      exists (S ix), (S iy). cbn [first_index].
      apply str_eqb_neq in Hxa, Hya. rewrite Hxa, Hya, H1, H2. cbn. repeat split; lia.
    + destruct j as [|j]; [lia|]. cbn [nth_error] in Hy.
      assert (Hya : a <> y).
      { intros ->. apply nth_error_In in Hy. apply fromkeys_In in Hy. destruct Hy as [_ Hy]. apply Hy. left. reflexivity. }
      assert (Hyr : In y r). { apply nth_error_In in Hy. apply fromkeys_In in Hy. tauto. }
      destruct i as [|i].
      * cbn [nth_error] in Hx. inversion Hx; subst a.
        destruct (first_index_In y r Hyr) as [iy Hiy].
        exists 0, (S iy). cbn [first_index]. rewrite str_eqb_refl.
        apply str_eqb_neq in Hya. rewrite Hya, Hiy. cbn. repeat split; lia.
      * cbn [nth_error] in Hx.
        assert (Hxa : a <> x).
        { intros ->. apply nth_error_In in Hx. apply fromkeys_In in Hx. destruct Hx as [_ Hx]. apply Hx. left. reflexivity. }
        destruct (IH (a :: seen) i j x y Hx Hy ltac:(lia)) as [ix [iy [H1 [H2 H3]]]].
        exists (S ix), (S iy). cbn [first_index].
        apply str_eqb_neq in Hxa, Hya. rewrite Hxa, Hya, H1, H2. cbn. repeat split; lia.
Qed.

Lemma mem_app v a b : mem v (a ++ b) = mem v a || mem v b.
Proof. induction a as [|x r IH]; cbn; [reflexivity|]. rewrite IH, orb_assoc. reflexivity. Qed.

(* filtering the bound names out first is the same as starting with them as already seen *)
Lemma filter_fromkeys bound : forall vars seen,
  fromkeys seen (filter (fun v => negb (mem v bound)) vars) = fromkeys (seen ++ bound) vars.
Proof.
  induction vars as [|x r IH]; intros seen; [reflexivity|]. cbn [filter fromkeys].
  rewrite mem_app. destruct (mem x bound) eqn:Eb; cbn [negb].
  - rewrite orb_true_r. apply IH.
  - rewrite orb_false_r. cbn [fromkeys]. destruct (mem x seen); [apply IH|].
    rewrite (IH (x :: seen)). reflexivity.
Qed.

(* C18: the declared fresh variables are exactly the variables of the expression that are not
   bound, each once, in the order of their first occurrence in the text - a function of the
   clause syntax (bound, vars) alone: no set, no hash. *)
Theorem dedup_keeps_first_occurrence_order : forall bound vars,
  let res := filter_free_variables bound vars in
  NoDup res
  /\ (forall v, In v res <-> In v vars /\ ~ In v bound)
  /\ (forall i j x y, nth_error res i = Some x -> nth_error res j = Some y -> i < j ->
        exists ix iy, first_index x vars = Some ix /\ first_index y vars = Some iy /\ ix < iy).
Proof.
  intros bound vars res. unfold res, filter_free_variables. split; [apply fromkeys_NoDup|]. split.
  - intros v. rewrite fromkeys_In, filter_In, negb_true_iff, mem_not_In. cbn. tauto.
  - rewrite filter_fromkeys. intros i j x y Hx Hy Hlt.
    exact (fromkeys_order _ _ _ _ _ _ Hx Hy Hlt).
Qed.

(* these three properties determine the list: any two lists that have them are equal - so the
   declaration order is a function of (bound, vars) and of nothing else *)
Definition sorted_by_first (vars res : list str) : Prop :=
  forall i j x y, nth_error res i = Some x -> nth_error res j = Some y -> i < j ->
    exists ix iy, first_index x vars = Some ix /\ first_index y vars = Some iy /\ ix < iy.

Lemma first_occurrence_order_unique : forall vars l1 l2,
  NoDup l1 -> NoDup l2 -> (forall v, In v l1 <-> In v l2) ->
  sorted_by_first vars l1 -> sorted_by_first vars l2 -> l1 = l2.
Proof.
  intros vars l1. induction l1 as [|a r IH]; intros l2 N1 N2 Hin S1 S2.
  - destruct l2 as [|b q]; [reflexivity|]. exfalso. apply (Hin b). left. reflexivity.
  - destruct l2 as [|b q]; [exfalso; apply (Hin a); left; reflexivity|].
    assert (Hab : a = b).
    { destruct (str_eqb_spec a b) as [E|Hn]; [exact E|exfalso].
      (* a occurs later in b :: q, b occurs later in a :: r: two contradictory index orders *)
      assert (Ha : In a q). { destruct (proj1 (Hin a) (or_introl eq_refl)) as [E|H]; [congruence|exact H]. }
      assert (Hb : In b r). { destruct (proj2 (Hin b) (or_introl eq_refl)) as [E|H]; [congruence|exact H]. }
      apply In_nth_error in Ha, Hb. destruct Ha as [ja Hja]. destruct Hb as [jb Hjb].
      destruct (S1 0 (S jb) a b eq_refl Hjb ltac:(lia)) as [ix [iy [H1 [H2 H3]]]].
      destruct (S2 0 (S ja) b a eq_refl Hja ltac:(lia)) as [ix' [iy' [H1' [H2' H3']]]].
      rewrite H1 in H2'. rewrite H2 in H1'. inversion H2'; inversion H1'; subst. lia. }
    subst b. f_equal. inversion N1 as [|? ? Na Nr]; inversion N2 as [|? ? Nb Nq]; subst.
    apply IH; [exact Nr|exact Nq| | |].
    + intros v. split; intros H.
      * destruct (proj1 (Hin v) (or_intror H)) as [E|H']; [subst; contradiction|exact H'].
      * destruct (proj2 (Hin v) (or_intror H)) as [E|H']; [subst; contradiction|exact H'].
    + intros i j x y Hx Hy Hlt. apply (S1 (S i) (S j) x y Hx Hy). lia.
    + intros i j x y Hx Hy Hlt. apply (S2 (S i) (S j) x y Hx Hy). lia.
Qed.

(* the current function has no parameter through which anything but (bound, vars) could enter; for the record: *)
Example filter_free_example :
  filter_free_variables [d "X"] [d "X"; d "Y"; d "Z"; d "Y"; d "x1"; d "Z"; d "X"] = [d "Y"; d "Z"; d "x1"].
Proof. reflexivity. Qed.

(* The pinned tree's list(set(...)) and the counters are treated on the real model of the compiler
   in Cli/DetCompile.v (compile_text_g). *)
