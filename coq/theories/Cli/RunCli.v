(* Executable entry points of the C19 model for the correspondence check (harness/props/c19.py).
   The library compiler - a Section variable in Cli.v - is instantiated with a finite table
   (source text -> result) that the harness fills with what compile_prolog_from_string returns
   for the texts of the case; no debug messages are supplied (they contain object addresses, so
   the harness compares runs with parser/generator debugging after removing comment lines). *)
From Coq Require Import String.
From Coq Require Import List NArith ZArith Bool.
Import ListNotations.
From YP Require Import Base.Str Cli.Comment Cli.Cli.
Local Open Scope string_scope.

(* comment_lines / splitlines / tokenizer lines / strip of one text *)
Definition run_comment (msg : str) : obs :=
  otag "comment" [OS (comment_lines msg); OL (map OS (splitlines msg))].

Definition run_strip (t : str) : obs :=
  otag "strip" [OS (strip t); OL (map OS (plines t))].

Fixpoint lookup_text {A} (tbl : list (str * A)) (t : str) : option A :=
  match tbl with
  | [] => None
  | (k, v) :: r => if str_eqb k t then Some v else lookup_text r t
  end.

Definition table_compile (tbl : list (str * cres)) (t : str) : cres :=
  match lookup_text tbl t with Some r => r | None => CCrash end.

Definition table_fs (files : list (str * rdres)) : fsys := lookup_text files.

Definition no_trace (dfn : bool) (s t : str) : list (chan * str) := [].

Definition obs_ending (e : ending) : obs :=
  match e with
  | EOk => otag "ok" []
  | EError m => otag "error" [OS m]
  | ECrash => otag "crash" []
  | EUsage => otag "usage" []
  end.

Definition obs_result (r : result) : obs :=
  OL [obs_ending (r_end r); OZ (Z.of_N (status (r_end r))); OS (r_stdout r);
      match r_file r with None => OL [] | Some (n, c) => OL [OS n; OS c] end].

(* the run without any option and the run with --debug-filename only, to stdout and to -o outfile;
   to keep the printed observation small the text of a -o run is replaced by the marker "same"
   when it is the text that the stdout run prints *)
Definition obs_file_result (rs rf : result) : obs :=
  match r_file rf with
  | Some (n, c) =>
      if str_eqb c (r_stdout rs)
      then OL [obs_ending (r_end rf); OZ (Z.of_N (status (r_end rf))); OS (r_stdout rf); OL [OS n; otag "same" []]]
      else obs_result rf
  | None => obs_result rf
  end.

Definition run_cli (tbl : list (str * cres)) (outfile : str) (srcs : list str)
                   (files : list (str * rdres)) (stdin : rdres) : obs :=
  let go o f := yldpc (table_compile tbl) no_trace f o srcs (table_fs files) stdin in
  let nf := Flags false false false true in
  otag "cli" [obs_result (go (d "-") no_flags); obs_result (go (d "-") nf);
              obs_file_result (go (d "-") no_flags) (go outfile no_flags);
              obs_file_result (go (d "-") nf) (go outfile nf)].

(* ------------------------------------------------------------------ *)
(* The same with the library compiler computed by the MODEL of the compiler (Comp/CompileText.v
   compile_text, through Cli/CliCompile.v lib_compile) from the source texts of the case.  Supplied
   by the harness: `ptbl` (the non-ASCII code points of the case for which str.isprintable holds, as
   in Comp/RunCompile.v) and, for the texts that the implementation's library refuses, HOW it refuses
   them (`fails`: CErr line col msg | CCrash) - error kinds and positions are not modelled.
   The table is computed once (vm_compute is call by value) and printed first as the list of
   verdicts, so that model-accepts / implementation-refuses disagreements are named directly. *)
From YP Require Import Comp.CompileText Comp.RunCompile Cli.CliCompile.

Definition verdict_obs (r : cres) : obs :=
  match r with COk _ => otag "ok" [] | CErr _ _ _ => otag "err" [] | CCrash => otag "crash" [] end.

Definition run_cli_text (ptbl : list N) (fails : list (str * cres)) (texts : list str)
                        (outfile : str) (srcs : list str) (files : list (str * rdres)) (stdin : rdres) : obs :=
  let tbl := map (fun t => (t, lib_compile (table_printable ptbl) (table_compile fails) t)) texts in
  OL [OL (map (fun e => verdict_obs (snd e)) tbl); run_cli tbl outfile srcs files stdin].
