(* Executable entry point of the C18 model for the correspondence check (harness/props/c18.py):
   the declarations of one clause as compile_function_body computes them. *)
From Coq Require Import String.
From Coq Require Import List NArith ZArith Bool.
Import ListNotations.
From YP Require Import Base.Str Cli.Determinism.
Local Open Scope string_scope.

(*  self.push_bound_vars([ v for v in self.head_args_by_pos if v != None ])
    free_vars_head = self.get_free_variables(clause.head.functor); self.push_bound_vars(free_vars_head)
    free_vars_body = self.get_free_variables(clause.body) *)
Definition run_decl (aliased head_vars body_vars : list str) : obs :=
  let h := filter_free_variables aliased head_vars in
  let b := filter_free_variables (aliased ++ h) body_vars in
  otag "decl" [OL (map OS h); OL (map OS b)].
