(* compile_expression and compile_body of yp_generator.py, as written: compile_body is a
   rewriting compiler with a syntactic continuation (the right operand K of the outermost
   conjunction), a label counter (self.cut_if_counter) and these cases, tried in this order:

     ($CUTIF(l), K)   => code(K) ++ [BreakBlock l]
     (call, K)        => [Foreach query(name,args): code(K)]
     (!, K)           => code(K) ++ [return]
     (\+ A, K)        => ((A -> fail ; true), K)
     ((A,B), K)       => (A, (B, K))
     ((A->T ; B), K)  => (A -> (T,K) ; (B,K))
     ((A ; B), K)     => ((A,K) ; (B,K))
     ((A -> T), K)    => ((A -> T ; fail), K)
     (true, K)        => K
     (fail, K)        => []
     (A -> T ; B)     => [Block l: code((A, ($CUTIF(l), T)) ; B)]   with l := ++counter, if A has no cut of its own
                      => [Block l: [Block m: code((A', ($CUTIF(l), T)))] ++ code(B)]   with l, m := ++counter twice,
                         A' = A with its own cuts replaced by $CUTIF(m) (a cut in a condition is local to it)
     (A ; B)          => code(A) ++ code(B)
     true             => [yield False]
     !                => [yield True; return]
     any other X      => (X, true)
   The recursion is not structural (the rewrites grow the term), hence fuel; comp_total
   (CompileTotal.v) shows that enough fuel always exists. *)
From Coq Require Import String.
From Coq Require Import List Arith Bool.
Import ListNotations.
From YP Require Import Base.Str Lang.Ast Comp.IR.
Local Open Scope string_scope.
Local Open Scope list_scope.

Definition s_ (x : string) : str := of_string x.

Definition pyvar (name : str) : str := s_ "V_" ++ name.

Fixpoint compile_expression (t : sterm) : expr :=
  match t with
  | SAtom a => ECall (s_ "atom") [EStr a]
  | SVar v => EVar (pyvar v)
  | SFun f args => ECall (s_ "functor") [EStr f; EList (map compile_expression args)]
  | SNum digits => ENum digits
  | SList [] => EVar (s_ "ATOM_NIL")
  | SList items => ECall (s_ "makelist") [EList (map compile_expression items)]
  | SPair h t => ECall (s_ "listpair") [compile_expression h; compile_expression t]
  end.

Definition query_expr (f : str) (args : list sterm) : expr :=
  ECall (s_ "query") [EStr f; EList (map compile_expression args)].

(* has_local_cut: does the body contain a cut that belongs to it (not to a nested condition or negation)? *)
Fixpoint tcut (b:body) : bool :=
  match b with
  | BCut => true
  | BAnd a b | BOr a b => tcut a || tcut b
  | BIf c t => tcut t
  | _ => false end.

(* localize_cuts: those cuts replaced by the marker that leaves the block labelled m *)
Fixpoint loc (m:nat) (b:body) : body :=
  match b with
  | BCut => BMark m
  | BAnd a b => BAnd (loc m a) (loc m b)
  | BOr a b => BOr (loc m a) (loc m b)
  | BIf c t => BIf c (loc m t)
  | _ => b end.

Fixpoint comp (n:nat) (b:body) (cnt:nat) : option (list stmt * nat) :=
  match n with O => None | Datatypes.S n =>
  match b with
  | BAnd a K =>
    match a with
    | BMark l => match comp n K cnt with Some (c,k) => Some (c ++ [SBreakBlock l],k) | None => None end
    | BCall f args => match comp n K cnt with Some (c,k) => Some ([SForeach (query_expr f args) c],k) | None => None end
    | BCut => match comp n K cnt with Some (c,k) => Some (c ++ [SReturn],k) | None => None end
    | BNot x => comp n (BAnd (BOr (BIf x BFail) BTrue) K) cnt
    | BAnd x y => comp n (BAnd x (BAnd y K)) cnt
    | BOr (BIf c t) e => comp n (BOr (BIf c (BAnd t K)) (BAnd e K)) cnt
    | BOr x y => comp n (BOr (BAnd x K) (BAnd y K)) cnt
    | BIf c t => comp n (BAnd (BOr (BIf c t) BFail) K) cnt
    | BTrue => comp n K cnt
    | BFail => Some ([],cnt)
    end
  | BOr (BIf c t) e =>
      let l := Datatypes.S cnt in
      if tcut c then
        let m := Datatypes.S l in
        match comp n (BAnd (loc m c) (BAnd (BMark l) t)) m with
        | Some (c1,k1) =>
            match comp n e k1 with
            | Some (c2,k2) => Some ([SBlock l ([SBlock m c1] ++ c2)],k2)
            | None => None end
        | None => None end
      else
      match comp n (BOr (BAnd c (BAnd (BMark l) t)) e) l with
      | Some (code,k) => Some ([SBlock l code],k) | None => None end
  | BOr x y => match comp n x cnt with Some (c1,k1) =>
                 match comp n y k1 with Some (c2,k2) => Some (c1++c2,k2) | None => None end | None => None end
  | BIf _ _ | BCall _ _ | BNot _ | BFail | BMark _ => comp n (BAnd b BTrue) cnt
  | BTrue => Some ([SYieldFalse],cnt)
  | BCut => Some ([SYieldTrue;SReturn],cnt)
  end end.

(* Fuel that suffices (CompileTotal.v: comp_total).  fuel_and a k = fuel for (a, K) when k is
   enough for K alone; it mirrors the rewrite cases, so it is exponential in the nesting of
   disjunctions under conjunctions exactly as the compiler's own running time is. *)
Fixpoint fuel_and (a : body) (k : nat) {struct a} : nat :=
  match a with
  | BCall _ _ | BMark _ | BCut | BTrue => S k
  | BFail => 1
  | BAnd x y => S (fuel_and x (fuel_and y k))
  | BOr x y =>
      match x with
      | BIf c t => S (S (S (max (fuel_and c (S (fuel_and t k))) (fuel_and y k))))
      | _ => S (S (max (fuel_and x k) (fuel_and y k)))
      end
  | BIf c t => S (S (S (S (max (fuel_and c (S (fuel_and t k))) 1))))
  | BNot x => S (S (S (S (max (fuel_and x (S 1)) (S k)))))
  end.

Fixpoint fuel_body (b : body) : nat :=
  match b with
  | BAnd a K => fuel_and a (fuel_body K)
  | BOr x y =>
      match x with
      | BIf c t => S (S (max (fuel_and c (S (fuel_body t))) (fuel_body y)))
      | _ => S (max (fuel_body x) (fuel_body y))
      end
  | BTrue | BCut => 1
  | _ => S (fuel_and b 1)
  end.
