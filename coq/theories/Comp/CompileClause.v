(* compile_function_body / compile_program of yp_generator.py (YPPrologCompiler), as written.

   For a clause  p(h1..hn) :- body :
     1. head_args_by_pos: argument i is "aliased" iff h_i is a plain variable that occurs exactly
        once among the TOP-LEVEL variable arguments of the head; aliased: `V_X = arg<i>`
     2. free_vars_head = the head's variables (in order of occurrence, first occurrence kept) that are
        not aliased: `V_Y = variable()` each
     3. free_vars_body = the body's variables not yet bound, likewise
     4. body_code = compile_body(body)   (label counter continues across the whole program)
     5. for i = n down to 1, if argument i is not aliased, wrap:  for l in unify(arg<i>, expr(h_i)): code
   A predicate's function body is the concatenation of its clauses' code in source order; predicates
   are emitted in order of first occurrence of their (name, arity). *)
From Coq Require Import String.
From Coq Require Import List Arith Bool.
Import ListNotations.
From YP Require Import Base.Str Lang.Ast Comp.IR Comp.CompileBody.
Local Open Scope string_scope.
Local Open Scope list_scope.

Fixpoint mem_str (x : str) (l : list str) : bool :=
  match l with [] => false | y :: r => str_eqb x y || mem_str x r end.

Fixpoint count_str (x : str) (l : list str) : nat :=
  match l with [] => 0 | y :: r => (if str_eqb x y then 1 else 0) + count_str x r end.

(* list(dict.fromkeys(l)): duplicates removed, first occurrence kept, order kept *)
Fixpoint dedup_acc (seen : list str) (l : list str) : list str :=
  match l with
  | [] => []
  | x :: r => if mem_str x seen then dedup_acc seen r else x :: dedup_acc (x :: seen) r
  end.
Definition dedup (l : list str) : list str := dedup_acc [] l.

(* filter_free_variables: [v for v in variables if v not in bound], de-duplicated *)
Definition filter_free (bound vars : list str) : list str :=
  dedup (filter (fun v => negb (mem_str v bound)) vars).

Definition top_var (t : sterm) : option str := match t with SVar v => Some v | _ => None end.

(* find_clause_head_variable_arguments *)
Definition head_args_by_pos (args : list sterm) : list (option str) :=
  let tops := flat_map (fun t => match top_var t with Some v => [v] | None => [] end) args in
  map (fun t => match top_var t with
                | Some v => if Nat.eqb (count_str v tops) 1 then Some v else None
                | None => None end) args.

Definition argvar (i : nat) : str := s_ "arg" ++ dec_of_nat (S i).

(* compile_clause_head_variable_arguments *)
Fixpoint head_aliases (i : nat) (pos : list (option str)) : list stmt :=
  match pos with
  | [] => []
  | Some v :: r => SAssign (pyvar v) (EVar (argvar i)) :: head_aliases (S i) r
  | None :: r => head_aliases (S i) r
  end.

Definition declare (v : str) : stmt := SAssign (pyvar v) (ECall (s_ "variable") []).

(* compile_arg_list_unification: the outermost loop is the first non-aliased argument *)
Fixpoint arg_unifications (i : nat) (pos : list (option str)) (args : list sterm) (code : list stmt) : list stmt :=
  match pos, args with
  | None :: pr, a :: ar =>
      [SForeach (ECall (s_ "unify") [EVar (argvar i); compile_expression a]) (arg_unifications (S i) pr ar code)]
  | Some _ :: pr, _ :: ar => arg_unifications (S i) pr ar code
  | _, _ => code
  end.

Definition some_list (l : list (option str)) : list str :=
  flat_map (fun o => match o with Some v => [v] | None => [] end) l.

Definition compile_clause (c : clause) (cnt : nat) : option (list stmt * nat) :=
  let pos := head_args_by_pos (c_args c) in
  let bound1 := some_list pos in
  let fv_head := filter_free bound1 (flat_map sterm_vars (c_args c)) in
  let bound2 := bound1 ++ fv_head in
  let fv_body := filter_free bound2 (body_vars (c_body c)) in
  match comp (fuel_body (c_body c)) (c_body c) cnt with
  | None => None
  | Some (code, cnt') =>
      Some (head_aliases 0 pos ++ map declare fv_head ++ map declare fv_body
            ++ arg_unifications 0 pos (c_args c) code, cnt')
  end.

Definition key := (str * nat)%type.
Definition key_eqb (a b : key) : bool := str_eqb (fst a) (fst b) && Nat.eqb (snd a) (snd b).
Definition clause_key (c : clause) : key := (c_name c, length (c_args c)).

(* visitProgram: clauses grouped by (name, arity) in order of first occurrence *)
Fixpoint group_insert (c : clause) (groups : list (key * list clause)) : list (key * list clause) :=
  match groups with
  | [] => [(clause_key c, [c])]
  | (k, cs) :: r => if key_eqb k (clause_key c) then (k, cs ++ [c]) :: r else (k, cs) :: group_insert c r
  end.
Definition group_program (p : program) : list (key * list clause) :=
  fold_left (fun g c => group_insert c g) p [].

Fixpoint compile_clauses (cs : list clause) (cnt : nat) : option (list stmt * nat) :=
  match cs with
  | [] => Some ([], cnt)
  | c :: r =>
      match compile_clause c cnt with
      | None => None
      | Some (code, cnt1) =>
          match compile_clauses r cnt1 with
          | None => None
          | Some (rest, cnt2) => Some (code ++ rest, cnt2)
          end
      end
  end.

Fixpoint compile_groups (gs : list (key * list clause)) (cnt : nat) : option (list func * nat) :=
  match gs with
  | [] => Some ([], cnt)
  | (k, cs) :: r =>
      match compile_clauses cs cnt with
      | None => None
      | Some (code, cnt1) =>
          match compile_groups r cnt1 with
          | None => None
          | Some (fs, cnt2) => Some ({| fn_name := fst k; fn_arity := snd k; fn_body := code |} :: fs, cnt2)
          end
      end
  end.

Definition compile_program (p : program) : option ir_program :=
  match compile_groups (group_program p) 0 with
  | Some (fs, _) => Some fs
  | None => None
  end.
