(* compile_prolog_from_string (compiler.py, _compile_prolog_from_stream), end to end:

     source text --front (lexer, parser, visitor; Lang/Front.v)--> AST
                 --compile_program (Comp/CompileClause.v)--------> intermediate code
                 --emit_program with repr = py_repr (Comp/Emit.v)-> Python text
                 --compile(pythoncode) (Comp/Limits.v)-----------> accepted / "program too large"

   and every way in which the function ends by raising instead of returning text:
     CRejectFront    the lexer or parser reports a syntax error (CompilerSyntaxError, D9), the
                     visitor refuses a goal/head that is not callable or a clause-head name that is
                     not an identifier (CompilerError, D12), `true.`/`fail.`/`!.` as a clause, a
                     `name/arity` term; or the compiler reaches a compound term / goal whose name is a
                     numeral (`1(a)`: AttributeError in compile_expression / compile_predicate; not in
                     dead code after `fail`, which compile_body drops -- Comp/NumeralName.v)
     CRejectNumeral  a numeral of more than 4300 digits reaches generate_value (ValueError from int())
     CTooLarge       the emitted text exceeds CPython's static limits (CompilerError, D13)
   The Unicode database (str.isprintable per code point) that repr() consults is the parameter
   `printable`.  Not modelled: RecursionError raised by the ANTLR runtime / the visitor / the
   compiler on inputs nested several hundred levels deep (a resource limit of the host
   interpreter's stack, not a function of the text alone). *)
From Coq Require Import String.
From Coq Require Import List Arith Bool NArith.
Import ListNotations.
From YP Require Import Base.Str Lang.Ast Lang.Front Comp.IR Comp.CompileBody Comp.CompileClause Comp.Emit
  Comp.PyRepr Comp.Limits Comp.NumeralName.
Local Open Scope string_scope.
Local Open Scope list_scope.

Inductive cresult :=
| CText (text : str)
| CRejectFront
| CRejectNumeral
| CTooLarge.

(* what happens after the visitor: compile, generate, byte-compile *)
Definition finish (printable : N -> bool) (ir : ir_program) : cresult :=
  if negb (ir_nums_ok ir) then CRejectNumeral
  else if py_limits ir then CText (emit_program (py_repr printable) ir)
  else CTooLarge.

Definition compile_ast (printable : N -> bool) (p : program) : cresult :=
  match compile_program p with
  | Some ir => if ir_bad ir then CRejectFront else finish printable ir
  | None => CRejectFront            (* never: compile_program_total *)
  end.

Definition compile_text (printable : N -> bool) (s : str) : cresult :=
  match front s with
  | Some p => compile_ast printable p
  | None => CRejectFront
  end.
