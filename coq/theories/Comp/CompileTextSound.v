(* The composite statements about compile_text (source text -> Python text) used by Properties/C11.v and
   Properties/C12.v, assembled from EmitShape / EmitNames / EmitPieces / EmitLines / CompileTotal. *)
From Coq Require Import String.
From Coq Require Import List Arith Bool NArith Lia.
Import ListNotations.
From YP Require Import Base.Str Lang.Ast Lang.Lexer Lang.Cst Lang.Unquote Lang.Front Comp.IR Comp.CompileBody Comp.CompileClause Comp.CompileTotal Comp.Emit
  Comp.PyRepr Comp.Limits Comp.NumeralName Comp.CompileText Comp.EmitShape Comp.EmitNames Comp.EmitPieces Comp.EmitLines.
Local Open Scope string_scope.
Local Open Scope list_scope.

(* what an accepted source went through *)
Lemma compile_text_accepts printable s text : compile_text printable s = CText text ->
  exists p ir, front s = Some p /\ compile_program p = Some ir /\
    ir_nums_ok ir = true /\ py_limits ir = true /\ text = emit_program (py_repr printable) ir.
Proof.
  unfold compile_text, compile_ast, finish. intros H.
  destruct (front s) as [p|]; [|discriminate]. destruct (compile_program p) as [ir|] eqn:E; [|discriminate].
  destruct (ir_bad ir); [discriminate|].
  destruct (ir_nums_ok ir) eqn:En; [|discriminate]. simpl in H. destruct (py_limits ir) eqn:El; [|discriminate].
  injection H as <-. exists p, ir. auto.
Qed.

(* ... and the compiler did not reach a compound term named by a numeral (Comp/NumeralName.v) *)
Lemma compile_text_accepts_good printable s text : compile_text printable s = CText text ->
  exists p ir, front s = Some p /\ compile_program p = Some ir /\ ir_bad ir = false.
Proof.
  unfold compile_text, compile_ast, finish. intros H.
  destruct (front s) as [p|]; [|discriminate]. destruct (compile_program p) as [ir|] eqn:E; [|discriminate].
  destruct (ir_bad ir) eqn:Eb; [discriminate|]. exists p, ir. auto.
Qed.

(* the four outcomes, each with its exact cause *)
Theorem compile_text_cases printable s :
  match compile_text printable s with
  | CRejectFront => front s = None \/ exists p ir, front s = Some p /\ compile_program p = Some ir /\ ir_bad ir = true
  | CRejectNumeral => exists p ir, front s = Some p /\ compile_program p = Some ir /\ ir_nums_ok ir = false
  | CTooLarge => exists p ir, front s = Some p /\ compile_program p = Some ir /\ ir_nums_ok ir = true /\ py_limits ir = false
  | CText text => exists p ir, front s = Some p /\ compile_program p = Some ir /\ ir_nums_ok ir = true /\ py_limits ir = true /\
                    text = emit_program (py_repr printable) ir
  end.
Proof.
  unfold compile_text, compile_ast, finish. destruct (front s) as [p|] eqn:Ef; [|left; reflexivity].
  pose proof (compile_program_total p) as T. destruct (compile_program p) as [ir|] eqn:Ec; [|congruence].
  destruct (ir_bad ir) eqn:Eb; [right; exists p, ir; auto|].
  destruct (ir_nums_ok ir) eqn:En; simpl; [|exists p, ir; repeat split; assumption].
  destruct (py_limits ir) eqn:El; exists p, ir; repeat split; try assumption; reflexivity.
Qed.

(* TOO_LARGE_REPORTED: text is returned only for code within the limits: at most 20 nested for statements per function,
   at most 200 nested brackets per expression, numerals of at most 4300 digits; code beyond them is reported *)
Theorem too_large_reported printable s p ir : front s = Some p -> compile_program p = Some ir ->
  (py_limits ir = false \/ ir_nums_ok ir = false) -> forall text, compile_text printable s <> CText text.
Proof.
  intros Hf Hc Hl text H. apply compile_text_accepts in H. destruct H as [p' [ir' [Hf' [Hc' [Hn [Hp _]]]]]].
  rewrite Hf in Hf'. injection Hf' as <-. rewrite Hc in Hc'. injection Hc' as <-. destruct Hl; congruence.
Qed.

Theorem accepted_within_limits printable s text : compile_text printable s = CText text ->
  exists p ir, front s = Some p /\ compile_program p = Some ir /\
    Forall (fun f => func_fdepth f <= CO_MAXBLOCKS /\ func_bdepth f <= MAXLEVEL) ir.
Proof.
  intros H. apply compile_text_accepts in H. destruct H as [p [ir [Hf [Hc [_ [Hp _]]]]]]. exists p, ir. split; [exact Hf|]. split; [exact Hc|].
  unfold py_limits in Hp. rewrite forallb_forall in Hp. apply Forall_forall. intros f Hin. specialize (Hp f Hin).
  unfold func_fits in Hp. apply andb_true_iff in Hp. destruct Hp as [H1 H2]. apply Nat.leb_le in H1, H2. auto.
Qed.

(* the visitor only lets clause-head names through that pass the identifier test (D12) *)
Lemma front_head_names s p : front s = Some p -> Forall (fun c => valid_pred_name (c_name c) = true) p.
Proof.
  intros H. apply front_whole_input in H. destruct H as [items [cst [k [_ [_ [_ [_ [_ [H2 _]]]]]]]]].
  induction H2 as [|cc c l l' Hc _ IH]; constructor; [|exact IH].
  apply clause_image_head in Hc. destruct Hc as [t [k0 [k1 [_ [_ Hv]]]]]. exact Hv.
Qed.

Lemma head_keys_valid p : Forall (fun c => valid_pred_name (c_name c) = true) p ->
  Forall (fun k => valid_pred_name (fst k) = true) (head_keys p).
Proof.
  intros H. apply Forall_forall. intros k Hk. apply (proj2 (head_keys_spec p)) in Hk. apply in_map_iff in Hk.
  destruct Hk as [c [<- Hc]]. rewrite Forall_forall in H. apply H. exact Hc.
Qed.

(* EMIT_DEFS_EXACT: the accepted text is the lines of emit_lines joined by line feeds; its top-level lines (not empty, not
   indented, not a comment) are exactly one `def <name>_<arity>(arg1,...,argN):` per head key of the program, in order of first
   occurrence; different keys have different def names; the keys are the (name, arity) of the clauses; every def name is an
   identifier *)
Theorem emit_defs_exact printable s text : compile_text printable s = CText text ->
  exists p ir, front s = Some p /\ compile_program p = Some ir /\
    text = join [10%N] (emit_lines (py_repr printable) ir) /\
    filter is_top (emit_lines (py_repr printable) ir) = map def_line (head_keys p) /\
    NoDup (map def_name (head_keys p)) /\
    (forall k, In k (head_keys p) <-> In k (map clause_key p)) /\
    Forall (fun k => valid_pred_name (def_name k) = true) (head_keys p).
Proof.
  intros H. apply compile_text_accepts in H. destruct H as [p [ir [Hf [Hc [_ [_ ->]]]]]]. exists p, ir.
  split; [exact Hf|]. split; [exact Hc|]. split; [reflexivity|].
  destruct (compile_program_shape p ir Hc) as [_ Hk]. split.
  - rewrite toplevel_defs, <- Hk, map_map. reflexivity.
  - split; [apply def_names_distinct|]. split; [apply head_keys_spec|].
    eapply Forall_impl; [|apply head_keys_valid; eapply front_head_names; exact Hf].
    intros k Hv. apply def_name_identifier. exact Hv.
Qed.

(* every function of the accepted text has the frame of function_frame: in particular a non-empty body and a yield *)
Theorem emit_functions_framed printable s text : compile_text printable s = CText text ->
  exists p ir, front s = Some p /\ compile_program p = Some ir /\
    text = join [10%N] (emit_lines (py_repr printable) ir) /\
    emit_lines (py_repr printable) ir =
      header ++ [[]] ++ match ir with [] => [[]] | _ => flat_map (fun f => emit_function (py_repr printable) f ++ [[]]) ir end /\
    Forall (fun f => exists body,
      emit_function (py_repr printable) f =
        def_line (fn_key f) :: ind 1 (s_ "doBreak = False") :: ind 1 (s_ "for _ in [1]:") :: body
        ++ [ind 1 (s_ "if False:"); ind 3 (s_ "yield False")] /\ body <> [] /\ Forall (at_least 2) body) ir.
Proof.
  intros H. apply compile_text_accepts in H. destruct H as [p [ir [Hf [Hc [_ [_ ->]]]]]]. exists p, ir.
  split; [exact Hf|]. split; [exact Hc|]. split; [reflexivity|]. split; [reflexivity|].
  apply Forall_forall. intros f _. apply function_frame.
Qed.

(* the lines of the text ARE these lines, for lexically well-formed programs *)
Theorem text_lines printable s text : compile_text printable s = CText text ->
  exists p ir, front s = Some p /\ compile_program p = Some ir /\
    (lexical_ok p = true -> split_nl text = emit_lines (py_repr printable) ir).
Proof.
  intros H. apply compile_text_accepts in H. destruct H as [p [ir [Hf [Hc [_ [_ ->]]]]]]. exists p, ir.
  split; [exact Hf|]. split; [exact Hc|]. intros Hl. rewrite emit_program_lines. apply split_join.
  - unfold emit_lines. discriminate.
  - eapply Forall_impl; [|apply (lines_one_line printable p Hl ir Hc)]. intros l Hall. eapply Forall_impl; [|exact Hall]. intros c [Hc1 _]. exact Hc1.
Qed.

(* EMIT_LEXEMES_VALID for the variables and numerals of a lexically well-formed program *)
Theorem lexemes_valid p : lexical_ok p = true ->
  (forall d, In (KNum, d) (program_strs p) -> canonical_dec (strip_zeros d) = true) /\
  (forall v, In (KVar, v) (program_strs p) ->
     valid_pred_name (pyvar v) = true /\ local_form (pyvar v) = true /\ ~ In (pyvar v) reserved_names /\
     (forall i, pyvar v <> argvar i) /\ (forall n, pyvar v <> loopvar n) /\ (forall l, pyvar v <> label_name l) /\
     pyvar v <> DOBREAK /\ pyvar v <> UNDERSCORE) /\
  (forall k, In k (head_keys p) -> valid_pred_name (def_name k) = true /\ ~ In (def_name k) Engine.Resolve.api_names).
Proof.
  intros Hl. split; [|split].
  - intros d Hd. apply strip_zeros_canonical. apply (lex_strs p Hl _ Hd).
  - intros v Hv. split; [apply pyvar_identifier; apply (lex_strs p Hl _ Hv)|].
    split; [apply local_pyvar|]. split; [apply local_not_reserved; apply local_pyvar|]. apply pyvar_not_generated.
  - intros k Hk. split; [apply def_name_identifier; apply (lex_keys p Hl k Hk) | apply def_name_not_api].
Qed.

(* ------------------------------------------------------------------ C12 *)

Theorem compiled_names_whitelisted p ir : compile_program p = Some ir ->
  Forall (fun f => (forall x, In x (func_calls f) -> In x api_calls) /\
                   (forall x, In x (func_loads f) -> In x api_globals \/ In x (func_locals f))) ir.
Proof.
  intros H. destruct (compile_program_shape p ir H) as [Hs _]. eapply Forall_impl; [|exact Hs].
  intros f Hf. apply (names_whitelisted p f Hf).
Qed.

Theorem compiled_no_capture p ir : compile_program p = Some ir ->
  Forall (fun f => forall x, In x (func_locals f) ->
     local_form x = true /\ ~ In x reserved_names /\
     ((exists v, In (KVar, v) (program_strs p) /\ x = pyvar v) \/ (exists i, i < fn_arity f /\ x = argvar i) \/
      (exists n, x = loopvar n) \/ (exists l, x = label_name l) \/ x = DOBREAK \/ x = UNDERSCORE)) ir.
Proof.
  intros H. destruct (compile_program_shape p ir H) as [Hs _]. eapply Forall_impl; [|exact Hs].
  intros f Hf x Hx. destruct (no_capture p f Hf x Hx) as [H1 H2]. split; [exact H1|]. split; [exact H2|].
  apply (locals_forms p f Hf x Hx).
Qed.

(* SOURCE_TEXT_POSITIONS *)
Theorem source_text_positions p ir : compile_program p = Some ir ->
  forall repr, map (flat repr) (program_pieces ir) = emit_lines repr ir /\
    emit_program repr ir = join [10%N] (emit_lines repr ir) /\
    Forall (Forall (piece_ok (inl_ (program_strs p)) (fun k => In k (head_keys p)))) (program_pieces ir).
Proof.
  intros H repr. split; [apply pieces_erasure|]. split; [reflexivity | apply pieces_ok; exact H].
Qed.
