(* compile_body terminates on every body: the fuel computed by fuel_body suffices, and more
   fuel never changes a result. *)
From Coq Require Import List Arith Bool Lia.
Import ListNotations.
From YP Require Import Base.Str Lang.Ast Comp.IR Comp.CompileBody Sem.SemLemmas Sem.ControlCorrect.

Lemma comp_mono_S : forall n b cnt r, comp n b cnt = Some r -> comp (S n) b cnt = Some r.
Proof.
  induction n as [|n IH]; intros b cnt r H; [discriminate|].
  assert (IH': forall b cnt, comp (S n) b cnt = match comp n b cnt with Some r => Some r | None => comp (S n) b cnt end).
  { intros b0 c0. destruct (comp n b0 c0) as [r0|] eqn:E; [apply IH; exact E|reflexivity]. }
  remember (S n) as m eqn:Hm. rewrite Hm in H at 1. cbn [comp] in H. cbn [comp].
  destruct b as [g ga| | | |l|a K|x y|c t|x]; try (apply IH; exact H); try exact H.
  - destruct a as [g ga| | | |l|x y|x y|c t|x]; try (apply IH; exact H); try exact H.
    + destruct (comp n K cnt) as [[c k]|] eqn:E; [|discriminate]. rewrite (IH _ _ _ E). exact H.
    + destruct (comp n K cnt) as [[c k]|] eqn:E; [|discriminate]. rewrite (IH _ _ _ E). exact H.
    + destruct (comp n K cnt) as [[c k]|] eqn:E; [|discriminate]. rewrite (IH _ _ _ E). exact H.
    + destruct x; apply IH; exact H.
  - destruct x as [g ga| | | |l|x1 x2|x1 x2|c t|x1];
      try (match type of H with match comp n ?X cnt with _ => _ end = _ =>
             destruct (comp n X cnt) as [[c1 k1]|] eqn:E1; [|discriminate]; rewrite (IH _ _ _ E1);
             destruct (comp n y k1) as [[c2 k2]|] eqn:E2; [|discriminate]; rewrite (IH _ _ _ E2); exact H end).
    destruct (tcut c).
    + match type of H with match comp n ?X ?c0 with _ => _ end = _ =>
        destruct (comp n X c0) as [[c1 k1]|] eqn:E1; [|discriminate]; rewrite (IH _ _ _ E1) end.
      destruct (comp n y k1) as [[c2 k2]|] eqn:E2; [|discriminate]. rewrite (IH _ _ _ E2). exact H.
    + match type of H with match comp n ?X ?c0 with _ => _ end = _ =>
        destruct (comp n X c0) as [[c1 k1]|] eqn:E1; [|discriminate]; rewrite (IH _ _ _ E1); exact H end.
Qed.

Lemma comp_mono n m b cnt r : comp n b cnt = Some r -> n <= m -> comp m b cnt = Some r.
Proof. intros H L. induction L; auto. apply comp_mono_S; auto. Qed.

Definition total_at (k : nat) (K : body) : Prop := forall cnt, comp k K cnt <> None.

Lemma total_mono k k' K : total_at k K -> k <= k' -> total_at k' K.
Proof.
  intros H L cnt. specialize (H cnt). destruct (comp k K cnt) as [r|] eqn:E; [|congruence].
  rewrite (comp_mono _ _ _ _ _ E L). discriminate.
Qed.

Definition and_total (a : body) : Prop :=
  forall K k, total_at k K -> total_at (fuel_and a k) (BAnd a K).

Lemma total_or_plain n x y : isif x = false -> total_at n x -> total_at n y -> total_at (S n) (BOr x y).
Proof.
  intros Hx Tx Ty cnt. cbn [comp].
  assert (E: comp (S n) (BOr x y) cnt =
    match comp n x cnt with Some (c1,k1) => match comp n y k1 with Some (c2,k2) => Some (c1++c2,k2) | None => None end | None => None end).
  { destruct x; try reflexivity. discriminate. }
  cbn [comp] in E. rewrite E. specialize (Tx cnt).
  destruct (comp n x cnt) as [[c1 k1]|]; [|congruence]. specialize (Ty k1).
  destruct (comp n y k1) as [[c2 k2]|]; [discriminate|congruence].
Qed.

Lemma total_mark n l t : total_at n t -> total_at (S n) (BAnd (BMark l) t).
Proof. intros T cnt. cbn [comp]. specialize (T cnt). destruct (comp n t cnt) as [[c k]|]; [discriminate|congruence]. Qed.

Lemma fuel_and_or_plain x y k : isif x = false -> fuel_and (BOr x y) k = S (S (max (fuel_and x k) (fuel_and y k))).
Proof. intros H. destruct x; try reflexivity. discriminate. Qed.

Lemma fuel_and_loc m a : forall k, fuel_and (loc m a) k = fuel_and a k.
Proof.
  induction a as [f ar| | | |l|a b IHa IHb|a b Hif IHa IHb|c t e IHc IHt IHe|c t IHc IHt|a IHa] using body_ind'; intros k.
  - reflexivity.
  - reflexivity.
  - reflexivity.
  - reflexivity.
  - reflexivity.
  - cbn [loc fuel_and]. rewrite IHb, IHa. reflexivity.
  - cbn [loc]. rewrite fuel_and_or_plain by (destruct a; try reflexivity; discriminate).
    rewrite fuel_and_or_plain by exact Hif. rewrite IHa, IHb. reflexivity.
  - cbn [loc fuel_and]. rewrite IHt, IHe. reflexivity.
  - cbn [loc fuel_and]. rewrite IHt. reflexivity.
  - reflexivity.
Qed.

(* (c -> T ; E) at top level, for continuation-extended T and E *)
Lemma total_ite n c T E : and_total c -> (forall m, and_total (loc m c)) -> total_at n T ->
  forall m, total_at m E ->
  total_at (S (S (max (fuel_and c (S n)) m))) (BOr (BIf c T) E).
Proof.
  intros Ac Al TT m TE cnt.
  set (M := max (fuel_and c (S n)) m).
  assert (T2: total_at M E) by (eapply total_mono; [exact TE|unfold M; lia]).
  destruct (tcut c) eqn:Tc.
  - assert (T1: total_at (S M) (BAnd (loc (S (S cnt)) c) (BAnd (BMark (S cnt)) T))).
    { eapply total_mono; [apply Al; apply total_mark; exact TT|rewrite fuel_and_loc; unfold M; lia]. }
    change (comp (S (S M)) (BOr (BIf c T) E) cnt) with
      (if tcut c then
         match comp (S M) (BAnd (loc (S (S cnt)) c) (BAnd (BMark (S cnt)) T)) (S (S cnt)) with
         | Some (c1,k1) => match comp (S M) E k1 with Some (c2,k2) => Some ([SBlock (S cnt) ([SBlock (S (S cnt)) c1] ++ c2)],k2) | None => None end
         | None => None end
       else match comp (S M) (BOr (BAnd c (BAnd (BMark (S cnt)) T)) E) (S cnt) with
            | Some (code,k) => Some ([SBlock (S cnt) code],k) | None => None end).
    rewrite Tc. specialize (T1 (S (S cnt))).
    destruct (comp (S M) (BAnd (loc (S (S cnt)) c) (BAnd (BMark (S cnt)) T)) (S (S cnt))) as [[c1 k1]|]; [|congruence].
    pose proof (total_mono _ _ _ T2 (Nat.le_succ_diag_r M) k1) as T3.
    destruct (comp (S M) E k1) as [[c2 k2]|]; [discriminate|congruence].
  - assert (T1: total_at M (BAnd c (BAnd (BMark (S cnt)) T))).
    { eapply total_mono; [apply Ac; apply total_mark; exact TT|unfold M; lia]. }
    pose proof (@total_or_plain M (BAnd c (BAnd (BMark (S cnt)) T)) E eq_refl T1 T2 (S cnt)) as H.
    change (comp (S (S M)) (BOr (BIf c T) E) cnt) with
      (if tcut c then
         match comp (S M) (BAnd (loc (S (S cnt)) c) (BAnd (BMark (S cnt)) T)) (S (S cnt)) with
         | Some (c1,k1) => match comp (S M) E k1 with Some (c2,k2) => Some ([SBlock (S cnt) ([SBlock (S (S cnt)) c1] ++ c2)],k2) | None => None end
         | None => None end
       else match comp (S M) (BOr (BAnd c (BAnd (BMark (S cnt)) T)) E) (S cnt) with
            | Some (code,k) => Some ([SBlock (S cnt) code],k) | None => None end).
    rewrite Tc.
    destruct (comp (S M) (BOr (BAnd c (BAnd (BMark (S cnt)) T)) E) (S cnt)) as [[code k]|]; [discriminate|congruence].
Qed.

Lemma and_total_ite c t e : and_total c -> (forall m, and_total (loc m c)) -> and_total t -> and_total e -> and_total (BOr (BIf c t) e).
Proof.
  intros Ac Al At Ae K k TK cnt. cbn [fuel_and comp].
  pose proof (@total_ite (fuel_and t k) c (BAnd t K) (BAnd e K) Ac Al (At K k TK) (fuel_and e k) (Ae K k TK) cnt) as H.
  exact H.
Qed.

Lemma and_total_fail : and_total BFail.
Proof. intros K k TK cnt. cbn [fuel_and comp]. discriminate. Qed.
Lemma and_total_true : and_total BTrue.
Proof. intros K k TK cnt. cbn [fuel_and comp]. apply TK. Qed.

Theorem and_total_both : forall a, and_total a /\ forall m, and_total (loc m a).
Proof.
  induction a as [f ar| | | |l|a b IHa IHb|a b Hif IHa IHb|c t e IHc IHt IHe|c t IHc IHt|a IHa] using body_ind'.
  - split; [|intros m]; intros K k TK cnt; cbn [loc fuel_and comp]; specialize (TK cnt); destruct (comp k K cnt) as [[c k0]|]; try discriminate; congruence.
  - split; [|intros m]; apply and_total_true.
  - split; [|intros m]; apply and_total_fail.
  - split; [|intros m]; intros K k TK cnt; cbn [loc fuel_and comp]; specialize (TK cnt); destruct (comp k K cnt) as [[c k0]|]; try discriminate; congruence.
  - split; [|intros m]; intros K k TK cnt; cbn [loc fuel_and comp]; specialize (TK cnt); destruct (comp k K cnt) as [[c k0]|]; try discriminate; congruence.
  - (* BAnd *) destruct IHa as [A1 A2], IHb as [B1 B2]. split; [|intros m]; intros K k TK cnt; cbn [loc fuel_and comp].
    + apply A1. apply B1. exact TK.
    + apply A2. apply B2. exact TK.
  - (* plain BOr *) destruct IHa as [A1 A2], IHb as [B1 B2].
    assert (G: forall x y, isif x = false -> and_total x -> and_total y -> and_total (BOr x y)).
    { intros x y Hx Tx Ty K k TK cnt.
      assert (F: fuel_and (BOr x y) k = S (S (max (fuel_and x k) (fuel_and y k)))).
      { destruct x; try reflexivity. discriminate. }
      rewrite F.
      assert (E: forall n, comp (S n) (BAnd (BOr x y) K) cnt = comp n (BOr (BAnd x K) (BAnd y K)) cnt).
      { intros n. destruct x; try reflexivity. discriminate. }
      rewrite E. apply total_or_plain; [reflexivity| |].
      + eapply total_mono; [apply Tx; exact TK|lia].
      + eapply total_mono; [apply Ty; exact TK|lia]. }
    split; [apply G; assumption|]. intros m. cbn [loc]. apply G; [rewrite <- Hif; destruct a; reflexivity|apply A2|apply B2].
  - (* if-then-else *) destruct IHc as [C1 C2], IHt as [T1 T2], IHe as [E1 E2].
    split; [apply and_total_ite; assumption|]. intros m. cbn [loc]. apply and_total_ite; auto.
  - (* BIf *) destruct IHc as [C1 C2], IHt as [T1 T2].
    assert (G: forall t', and_total t' -> and_total (BIf c t')).
    { intros t' Tt K k TK cnt. cbn [fuel_and comp].
      pose proof (@and_total_ite c t' BFail C1 C2 Tt and_total_fail K k TK cnt) as H. cbn [fuel_and] in H. exact H. }
    split; [apply G; exact T1|intros m; cbn [loc]; apply G; apply T2].
  - (* BNot *) destruct IHa as [A1 A2].
    assert (G: and_total (BNot a)).
    { intros K k TK cnt. cbn [fuel_and comp].
      pose proof (@and_total_ite a BFail BTrue A1 A2 and_total_fail and_total_true K k TK cnt) as H. cbn [fuel_and] in H. exact H. }
    split; [exact G|intros m; exact G].
Qed.

Theorem and_total_all : forall a, and_total a.
Proof. intros a. apply and_total_both. Qed.

Lemma total_true : total_at 1 BTrue.
Proof. intros cnt. cbn [comp]. discriminate. Qed.

Lemma total_leaf b : (forall n cnt, comp (S n) b cnt = comp n (BAnd b BTrue) cnt) -> total_at (S (fuel_and b 1)) b.
Proof. intros E cnt. rewrite E. apply and_total_all. exact total_true. Qed.

(* compile_body never gets stuck: for every body and every value of the label counter *)
Theorem comp_total : forall b, total_at (fuel_body b) b.
Proof.
  induction b using body_ind'.
  - apply total_leaf. reflexivity.
  - intros cnt. cbn [fuel_body comp]. discriminate.
  - apply total_leaf. reflexivity.
  - intros cnt. cbn [fuel_body comp]. discriminate.
  - apply total_leaf. reflexivity.
  - cbn [fuel_body]. apply and_total_all. exact IHb2.
  - assert (F: fuel_body (BOr b1 b2) = S (max (fuel_body b1) (fuel_body b2))).
    { destruct b1; try reflexivity. discriminate. }
    rewrite F. apply total_or_plain; [assumption| |]; (eapply total_mono; [eassumption|lia]).
  - cbn [fuel_body].
    apply (@total_ite (fuel_body b2) b1 b2 b3 (and_total_all b1) (fun m => proj2 (and_total_both b1) m) IHb2 (fuel_body b3) IHb3).
  - apply total_leaf. reflexivity.
  - apply total_leaf. reflexivity.
Qed.

Corollary comp_total_exists : forall b cnt, exists code cnt', comp (fuel_body b) b cnt = Some (code, cnt').
Proof.
  intros b cnt. pose proof (comp_total b cnt) as H.
  destruct (comp (fuel_body b) b cnt) as [[code k]|]; [eauto|congruence].
Qed.

From YP Require Import Comp.CompileClause.

Lemma compile_clause_total c cnt : compile_clause c cnt <> None.
Proof.
  unfold compile_clause. destruct (comp_total_exists (c_body c) cnt) as [code [k E]]. rewrite E. discriminate.
Qed.
Lemma compile_clauses_total cs : forall cnt, compile_clauses cs cnt <> None.
Proof.
  induction cs as [|c r IH]; intros cnt; cbn [compile_clauses]; [discriminate|].
  pose proof (compile_clause_total c cnt) as H. destruct (compile_clause c cnt) as [[code k]|]; [|congruence].
  specialize (IH k). destruct (compile_clauses r k) as [[rest k2]|]; [discriminate|congruence].
Qed.
Lemma compile_groups_total gs : forall cnt, compile_groups gs cnt <> None.
Proof.
  induction gs as [|[k cs] r IH]; intros cnt; cbn [compile_groups]; [discriminate|].
  pose proof (compile_clauses_total cs cnt) as H. destruct (compile_clauses cs cnt) as [[code k1]|]; [|congruence].
  specialize (IH k1). destruct (compile_groups r k1) as [[fs k2]|]; [discriminate|congruence].
Qed.
(* the compiler model produces code for every program *)
Theorem compile_program_total p : compile_program p <> None.
Proof.
  unfold compile_program. pose proof (compile_groups_total (group_program p) 0) as H.
  destruct (compile_groups (group_program p) 0) as [[fs k]|]; [discriminate|congruence].
Qed.
