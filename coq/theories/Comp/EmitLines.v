(* C11: the line structure of the emitted module and the lexical classes of its lexemes.

   emit_lines repr ir (EmitPieces.v) is the list of lines of emit_program (emit_program = the lines
   joined by "\n", by definition).
     toplevel_defs      the lines that are not empty, not indented and not a `#` comment are exactly one
                        `def <name>_<arity>(arg1,...,argN):` per function of the code, in order
     function_frame     every function is: def line, `doBreak = False`, `for _ in [1]:`, a NON-EMPTY
                        body of lines indented at least two levels, `if False:`, `yield False`
     def_names_distinct different head keys give different def names (the key can be read back)
     lines_one_line     no line contains a line break (so the lines of the text are these lines), for
                        lexically well-formed programs: variable names [A-Za-z0-9_]+, numerals [0-9]+,
                        clause-head names [A-Za-z_][A-Za-z0-9_]* - what the lexer and the head-name
                        test of the visitor guarantee
     lexemes            str(int(digits)) is a canonical decimal; V_<var> and <name>_<arity> are ASCII
                        Python identifiers; V_<var> has the form of a local and is not reserved *)
From Coq Require Import String.
From Coq Require Import List Arith Bool NArith Lia.
Import ListNotations.
From YP Require Import Base.Str Lang.Ast Lang.Lexer Lang.Unquote Comp.IR Comp.CompileBody Comp.CompileClause Comp.Emit
  Comp.EmitShape Comp.EmitNames Comp.EmitPieces Comp.PyRepr Comp.PyReprSound.
From YP Require Engine.Resolve Engine.Keys.
Local Open Scope string_scope.
Local Open Scope list_scope.

(* ------------------------------------------------------------------ top-level lines *)

Definition is_top (l : str) : bool :=
  match l with [] => false | c :: _ => negb (N.eqb c 32) && negb (N.eqb c 35) end.

Definition def_name (k : key) : str := fst k ++ s_ "_" ++ dec_of_nat (snd k).
Definition def_line (k : key) : str :=
  s_ "def " ++ def_name k ++ s_ "(" ++ join (s_ ",") (arg_names 0 (snd k)) ++ s_ "):".

Lemma ind_S_not_top j s : is_top (ind (S j) s) = false.
Proof. reflexivity. Qed.

(* a line indented at least k levels *)
Definition at_least (k : nat) (l : str) : Prop := exists i s, k <= i /\ l = ind i s.

Lemma at_least_not_top k l : at_least (S k) l -> is_top l = false.
Proof. intros [i [s [Hk ->]]]. destruct i; [lia | reflexivity]. Qed.

Lemma at_least_mono k k' l : k' <= k -> at_least k l -> at_least k' l.
Proof. intros Hk [i [s [Hi ->]]]. exists i, s. split; [lia | reflexivity]. Qed.

Ltac al := eexists; eexists; split; [|reflexivity]; lia.

Section Lines.
Variable repr : str -> str.

Lemma emit_list_at_least c : Forall (fun st => forall i lv, Forall (at_least i) (emit_stmt repr st i lv)) c ->
  forall i lv, Forall (at_least i) (emit_list repr c i lv).
Proof.
  induction c as [|st r IH]; intros H i lv; [constructor|]. inversion H; subst.
  cbn [emit_list]. apply Forall_app. split; auto.
Qed.

Lemma break_code_at_least i : Forall (at_least i) (break_code i).
Proof. repeat constructor; al. Qed.

Lemma emit_stmt_at_least st : forall i lv, Forall (at_least i) (emit_stmt repr st i lv).
Proof.
  induction st as [x e|it body IH| | | |l body IH|l] using stmt_ind'; intros i lv;
    try (repeat constructor; al).
  - change (emit_stmt repr (SForeach it body) i lv) with
      (ind i (s_ "for l" ++ dec_of_nat (S lv) ++ s_ " in " ++ emit_expr repr it ++ s_ ":")
       :: (match body with [] => [ind (S i) (s_ "pass")] | _ => emit_list repr body (S i) (S lv) end) ++ break_code i).
    constructor; [al|]. apply Forall_app. split; [|apply break_code_at_least].
    destruct body as [|b0 br]; [repeat constructor; al|].
    eapply Forall_impl; [|apply (emit_list_at_least (b0 :: br) IH (S i) (S lv))]. intros a Ha. eapply at_least_mono; [|exact Ha]. lia.
  - change (emit_stmt repr (SBlock l body) i lv) with
      (ind i (label_name l ++ s_ " = False")
       :: (match body with [] => [] | _ => ind i (s_ "for _ in [1]:") :: emit_list repr body (S i) lv end)
       ++ [ind i (s_ "if " ++ label_name l ++ s_ ":"); ind (S i) (s_ "doBreak = False")] ++ break_code i).
    constructor; [al|]. apply Forall_app. split.
    + destruct body as [|b0 br]; [constructor|]. constructor; [al|].
      eapply Forall_impl; [|apply (emit_list_at_least (b0 :: br) IH (S i) lv)]. intros a Ha. eapply at_least_mono; [|exact Ha]. lia.
    + constructor; [al|]. constructor; [al|]. apply break_code_at_least.
Qed.

Lemma emit_stmt_nonempty st i lv : emit_stmt repr st i lv <> [].
Proof. destruct st; simpl; discriminate. Qed.

(* FUNCTION_FRAME: def line, doBreak = False, the wrapper loop, a NON-EMPTY body indented at least two
   levels, and the trailing `if False: yield False` that makes the function a generator function *)
Theorem function_frame f : exists body,
  emit_function repr f =
    def_line (fn_key f) :: ind 1 (s_ "doBreak = False") :: ind 1 (s_ "for _ in [1]:") :: body
    ++ [ind 1 (s_ "if False:"); ind 3 (s_ "yield False")] /\
  body <> [] /\ Forall (at_least 2) body.
Proof.
  unfold emit_function.
  exists (match fn_body f with [] => [ind 2 (s_ "pass")] | b0 :: br => emit_list repr (b0 :: br) 2 0 end).
  split; [f_equal; unfold def_line, def_name, fn_key; cbn [fst snd]; rewrite <- ?app_assoc; reflexivity|].
  destruct (fn_body f) as [|b0 br] eqn:E.
  - split; [discriminate|]. repeat constructor. al.
  - split.
    + cbn [emit_list]. intros H. apply app_eq_nil in H. destruct H as [H _]. exact (emit_stmt_nonempty _ _ _ H).
    + apply emit_list_at_least. apply Forall_forall. intros st _. apply emit_stmt_at_least.
Qed.

Lemma emit_function_top f : filter is_top (emit_function repr f ++ [[]]) = [def_line (fn_key f)].
Proof.
  destruct (function_frame f) as [body [-> [_ Hb]]].
  assert (Hf : filter is_top body = []).
  { induction Hb as [|l r Hl _ IH]; [reflexivity|]. simpl. rewrite (at_least_not_top 1 l Hl). exact IH. }
  cbn [filter app]. change (is_top (def_line (fn_key f))) with true. cbn [ind is_top]. 
  rewrite <- app_assoc, filter_app, Hf. reflexivity.
Qed.

(* TOPLEVEL_DEFS: apart from comment lines, empty lines and indented lines the module consists of
   exactly one def line per function of the code, in order *)
Lemma toplevel_funs l : filter is_top (flat_map (fun f => emit_function repr f ++ [[]]) l) = map (fun f => def_line (fn_key f)) l.
Proof.
  induction l as [|f r IH]; [reflexivity|]. cbn [flat_map map]. rewrite filter_app, emit_function_top, IH. reflexivity.
Qed.

Theorem toplevel_defs p : filter is_top (emit_lines repr p) = map (fun f => def_line (fn_key f)) p.
Proof.
  unfold emit_lines. rewrite !filter_app. change (filter is_top header) with (@nil str). change (filter is_top [[]]) with (@nil str).
  cbn [app]. destruct p as [|f0 fr]; [reflexivity|]. apply toplevel_funs.
Qed.
End Lines.

(* the def name is the engine's context key '<name>_<arity>' (Engine/Resolve.v mkkey): it determines
   name and arity, and is never an API name *)
Lemma def_name_mkkey k : def_name k = Resolve.mkkey (fst k) (Resolve.AFix (snd k)).
Proof. reflexivity. Qed.

Theorem def_name_inj k1 k2 : def_name k1 = def_name k2 -> k1 = k2.
Proof.
  rewrite !def_name_mkkey. intros H. apply Keys.mkkey_inj in H. destruct H as [H1 H2].
  destruct k1, k2. simpl in *. injection H2 as ->. subst. reflexivity.
Qed.

Theorem def_names_distinct p : NoDup (map def_name (head_keys p)).
Proof.
  destruct (head_keys_spec p) as [Hnd _]. induction Hnd as [|k r Hk _ IH]; [constructor|].
  simpl. constructor; [|exact IH]. intros H. apply in_map_iff in H. destruct H as [k' [He Hin]].
  apply def_name_inj in He. subst. contradiction.
Qed.

Theorem def_name_not_api k : ~ In (def_name k) Resolve.api_names.
Proof. rewrite def_name_mkkey. apply Keys.mkkey_not_api. Qed.

(* ------------------------------------------------------------------ lexical classes *)

(* what the lexer guarantees about variable names and numerals (VARIABLE: (UCLETTER|'_') CHARACTER*, anonymous variables
   are x<n>; NUMERAL: DIGIT+), and the visitor about clause-head names (D12) *)
Definition chars_ok (w : str) : bool := match w with [] => false | _ => forallb is_character w end.
Definition kstr_lex_ok (x : kstr) : bool :=
  match x with (KVar, v) => chars_ok v | (KNum, d) => Keys.digits_ok d | (KAtom, _) => true end.
Definition lexical_ok (p : program) : bool :=
  forallb kstr_lex_ok (program_strs p) && forallb (fun c => valid_pred_name (c_name c)) p.

Lemma forallb_imp {A} (f g : A -> bool) w : (forall c, f c = true -> g c = true) -> forallb f w = true -> forallb g w = true.
Proof.
  intros H. induction w as [|c r IH]; simpl; [auto|]. intros E. apply andb_true_iff in E. destruct E as [E1 E2].
  rewrite (H c E1), (IH E2). reflexivity.
Qed.

Lemma digit_character c : Keys.is_digit c = true -> is_character c = true.
Proof. unfold Keys.is_digit, is_character, is_digit. intros ->. apply orb_true_r. Qed.

Lemma digits_ok_chars w : Keys.digits_ok w = true -> forallb is_character w = true.
Proof. unfold Keys.digits_ok. destruct w; [discriminate|]. apply forallb_imp. exact digit_character. Qed.

(* str(int(digits)) is a canonical decimal: digits only, no leading zero unless it is "0" *)
Definition canonical_dec (w : str) : bool :=
  Keys.digits_ok w && (str_eqb w [48%N] || negb (N.eqb (hd 0%N w) 48)).

Theorem strip_zeros_canonical d : Keys.digits_ok d = true -> canonical_dec (strip_zeros d) = true.
Proof.
  induction d as [|c r IH]; [discriminate|]. intros H.
  destruct (N.eqb_spec c 48) as [->|Hne].
  - destruct r as [|c2 r2]; [reflexivity|]. change (strip_zeros (48%N :: c2 :: r2)) with (strip_zeros (c2 :: r2)).
    apply IH. unfold Keys.digits_ok in *. simpl in H. simpl. exact H.
  - assert (E : strip_zeros (c :: r) = c :: r).
    { destruct c as [|pc]; [reflexivity|]. simpl. destruct pc as [pc|pc|]; try reflexivity.
      repeat (destruct pc as [pc|pc|]; try reflexivity). congruence. }
    rewrite E. unfold canonical_dec. rewrite H. simpl. apply N.eqb_neq in Hne. rewrite Hne. apply orb_true_r.
Qed.

Lemma strip_zeros_forallb f d : forallb f d = true -> forallb f (strip_zeros d) = true.
Proof.
  induction d as [|c r IH]; [auto|]. intros H.
  destruct (N.eqb_spec c 48) as [->|Hne].
  - destruct r as [|c2 r2]; [exact H|]. change (strip_zeros (48%N :: c2 :: r2)) with (strip_zeros (c2 :: r2)).
    apply IH. simpl in H. apply andb_true_iff in H. tauto.
  - assert (E : strip_zeros (c :: r) = c :: r).
    { destruct c as [|pc]; [reflexivity|]. simpl. destruct pc as [pc|pc|]; try reflexivity.
      repeat (destruct pc as [pc|pc|]; try reflexivity). congruence. }
    rewrite E. exact H.
Qed.

(* V_<variable> and <name>_<arity> are ASCII Python identifiers: a letter or underscore, then letters, digits, underscores *)
Theorem pyvar_identifier v : chars_ok v = true -> valid_pred_name (pyvar v) = true.
Proof. unfold chars_ok, pyvar. destruct v; [discriminate|]. intros H. simpl in *. exact H. Qed.

Theorem def_name_identifier k : valid_pred_name (fst k) = true -> valid_pred_name (def_name k) = true.
Proof.
  unfold def_name. destruct (fst k) as [|c r]; [discriminate|]. simpl. intros H. apply andb_true_iff in H. destruct H as [H1 H2].
  rewrite H1. simpl. rewrite forallb_app, H2. simpl.
  apply (digits_ok_chars _ (Keys.dec_of_nat_digits (snd k))).
Qed.

(* ------------------------------------------------------------------ lines are lines *)

Definition safe_char (c : N) : bool := negb (N.eqb c 10) && negb (N.eqb c 13).
Definition no_nlb (w : str) : bool := forallb safe_char w.

Lemma character_safe c : is_character c = true -> safe_char c = true.
Proof.
  unfold is_character, is_lc, is_uc, is_digit, safe_char. intros H.
  destruct (N.eqb_spec c 10) as [->|]; [discriminate|]. destruct (N.eqb_spec c 13) as [->|]; [discriminate|]. reflexivity.
Qed.

Lemma vocab_safe : forallb no_nlb vocab = true.
Proof. vm_compute. reflexivity. Qed.

Lemma fixed_safe w : fixed_ok w = true -> no_nlb w = true.
Proof.
  unfold fixed_ok. intros H. apply orb_true_iff in H. destruct H as [H|H]; [apply orb_true_iff in H; destruct H as [H|H]; [apply orb_true_iff in H; destruct H as [H|H]|]|].
  - apply existsb_exists in H. destruct H as [x [Hx He]]. apply str_eqb_eq in He. subst.
    pose proof vocab_safe as V. rewrite forallb_forall in V. apply V. exact Hx.
  - unfold all_blank in H. eapply forallb_imp; [|exact H]. intros c Hc. apply N.eqb_eq in Hc. subst. reflexivity.
  - eapply forallb_imp; [|apply digits_ok_chars; exact H]. exact character_safe.
  - unfold numbered in H. destruct (strip_prefix (s_ "arg") w) as [r|] eqn:E; [|discriminate].
    apply strip_prefix_some in E. subst. unfold no_nlb. rewrite forallb_app. apply andb_true_iff. split; [reflexivity|].
    eapply forallb_imp; [|apply digits_ok_chars; exact H]. exact character_safe.
Qed.

Lemma no_nlb_spec w : no_nlb w = true <-> Forall (fun c => c <> 10%N /\ c <> 13%N) w.
Proof.
  unfold no_nlb. rewrite forallb_forall, Forall_forall. unfold safe_char. split; intros H c Hc; specialize (H c Hc).
  - apply andb_true_iff in H. destruct H as [H1 H2]. apply negb_true_iff in H1, H2. apply N.eqb_neq in H1, H2. tauto.
  - destruct H as [H1 H2]. apply N.eqb_neq in H1, H2. rewrite H1, H2. reflexivity.
Qed.

Section OneLine.
  Variable printable : N -> bool.
  Variable p : program.
  Hypothesis Hlex : lexical_ok p = true.

  Lemma lex_strs x : In x (program_strs p) -> kstr_lex_ok x = true.
  Proof. unfold lexical_ok in Hlex. apply andb_true_iff in Hlex. destruct Hlex as [H _]. rewrite forallb_forall in H. apply H. Qed.

  Lemma lex_keys k : In k (head_keys p) -> valid_pred_name (fst k) = true.
  Proof.
    intros H. apply (proj2 (head_keys_spec p)) in H. apply in_map_iff in H. destruct H as [c [<- Hc]].
    unfold lexical_ok in Hlex. apply andb_true_iff in Hlex. destruct Hlex as [_ H2]. rewrite forallb_forall in H2. apply H2. exact Hc.
  Qed.

  Lemma render_safe pc : piece_ok (inl_ (program_strs p)) (fun k => In k (head_keys p)) pc ->
    no_nlb (render (py_repr printable) pc) = true.
  Proof.
    destruct pc as [w|s|d|v|f n]; cbn [render piece_ok]; intros H.
    - apply fixed_safe. exact H.
    - apply no_nlb_spec. apply repr_no_newline.
    - apply strip_zeros_forallb. apply lex_strs in H. simpl in H.
      eapply forallb_imp; [|apply digits_ok_chars; exact H]. exact character_safe.
    - apply lex_strs in H. simpl in H. eapply forallb_imp; [exact character_safe|].
      pose proof (pyvar_identifier v H) as G. unfold pyvar in *. simpl in *. exact G.
    - apply lex_keys in H. simpl in H. pose proof (def_name_identifier (f, n) H) as G. unfold def_name in G. simpl in G.
      destruct f as [|c r]; [discriminate|]. simpl in *. apply andb_true_iff in G. destruct G as [G1 G2].
      apply andb_true_iff. split.
      + apply character_safe. unfold is_character. apply orb_true_iff in G1. destruct G1 as [-> | ->]; [reflexivity | apply orb_true_iff; left; apply orb_true_r].
      + eapply forallb_imp; [exact character_safe | exact G2].
  Qed.

  (* LINES_ONE_LINE: no line of the emitted text contains a line feed or carriage return *)
  Theorem lines_one_line ir : compile_program p = Some ir ->
    Forall (fun l => Forall (fun c => c <> 10%N /\ c <> 13%N) l) (emit_lines (py_repr printable) ir).
  Proof.
    intros H. rewrite <- pieces_erasure. pose proof (pieces_ok p ir H) as Hok.
    apply Forall_forall. intros l Hl. apply in_map_iff in Hl. destruct Hl as [pl [<- Hpl]].
    rewrite Forall_forall in Hok. specialize (Hok pl Hpl). clear Hpl. apply no_nlb_spec. unfold no_nlb, flat.
    induction Hok as [|pc r Hpc _ IH]; [reflexivity|]. cbn [flat_map]. rewrite forallb_app.
    apply andb_true_iff. split; [apply render_safe; exact Hpc | exact IH].
  Qed.
End OneLine.

(* splitting the text at line feeds gives back the lines *)
Fixpoint split_nl_acc (acc : str) (s : str) : list str :=
  match s with
  | [] => [rev acc]
  | c :: r => if N.eqb c 10 then rev acc :: split_nl_acc [] r else split_nl_acc (c :: acc) r
  end.
Definition split_nl (s : str) : list str := split_nl_acc [] s.

Lemma split_nl_acc_app acc l rest : Forall (fun c => c <> 10%N) l ->
  split_nl_acc acc (l ++ rest) = split_nl_acc (rev l ++ acc) rest.
Proof.
  revert acc. induction l as [|c r IH]; intros acc H; [reflexivity|]. inversion H; subst.
  simpl. destruct (N.eqb_spec c 10); [contradiction|]. rewrite IH by assumption. rewrite <- app_assoc. reflexivity.
Qed.

Theorem split_join ls : ls <> [] -> Forall (Forall (fun c => c <> 10%N)) ls -> split_nl (join [10%N] ls) = ls.
Proof.
  unfold split_nl. intros Hne H. induction ls as [|l r IH]; [contradiction|]. inversion H; subst.
  destruct r as [|l2 r2].
  - simpl. rewrite <- (app_nil_r l) at 1. rewrite split_nl_acc_app by assumption. simpl. rewrite app_nil_r, rev_involutive. reflexivity.
  - change (join [10%N] (l :: l2 :: r2)) with (l ++ [10%N] ++ join [10%N] (l2 :: r2)).
    rewrite split_nl_acc_app by assumption. simpl. rewrite app_nil_r, rev_involutive. f_equal. apply IH; [discriminate | assumption].
Qed.
