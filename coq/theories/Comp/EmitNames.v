(* The names of the emitted code (C11 emit_lexemes_valid, C12 emit_names_whitelisted / no_capture).

   For a function of the intermediate code:
     func_loads   the names its emitted text READS (Name nodes in Load context, including the callees)
     func_calls   the names it CALLS
     func_locals  the names it BINDS: parameters arg1..argN, assignment targets, loop variables
                  l<n>, labels cutIf<n>, doBreak, _   (Python: a name bound anywhere in a function
                  body is local to the whole function)
   mirroring Emit.v statement by statement.

   Proved for everything compile_program produces:
     every called name is one of the 7 API functions; every read name is an API global or a local;
     every local is  V_<source variable> | arg<n> | l<n> | cutIf<n> | doBreak | _  and none of these
     is a Python keyword, a Python constant, an engine API name, or another local form - so a Prolog
     variable can never capture an engine name or a name the generated code uses for itself. *)
From Coq Require Import String.
From Coq Require Import List Arith Bool NArith Lia.
Import ListNotations.
From YP Require Import Base.Str Lang.Ast Comp.IR Comp.CompileBody Comp.CompileClause Comp.Emit Comp.EmitShape.
From YP Require Engine.Resolve Engine.Keys.
Local Open Scope string_scope.
Local Open Scope list_scope.

Definition api_calls : list str := map s_ ["query"; "unify"; "atom"; "functor"; "listpair"; "makelist"; "variable"].
Definition api_globals : list str := api_calls ++ [ATOM_NIL].
Definition DOBREAK : str := s_ "doBreak".
Definition UNDERSCORE : str := s_ "_".
Definition loopvar (n : nat) : str := s_ "l" ++ dec_of_nat n.

(* Python 3.12: keywords, soft keywords other than _, the constant names, and the engine's API names
   (Engine/Resolve.v api_names = the default eval_context = eval_blacklist) *)
Definition python_reserved : list str := map s_
  ["False"; "None"; "True"; "and"; "as"; "assert"; "async"; "await"; "break"; "class"; "continue"; "def"; "del"; "elif"; "else";
   "except"; "finally"; "for"; "from"; "global"; "if"; "import"; "in"; "is"; "lambda"; "nonlocal"; "not"; "or"; "pass"; "raise";
   "return"; "try"; "while"; "with"; "yield"; "match"; "case"; "type"; "__debug__"; "__builtins__"; "__import__"; "__name__"].
Definition reserved_names : list str := python_reserved ++ Resolve.api_names ++ api_globals.

(* ------------------------------------------------------------------ names read / called / bound *)

Fixpoint expr_loads (e : expr) : list str :=
  match e with
  | EVar x => [x]
  | EStr _ | ENum _ => []
  | ECall f args => f :: flat_map expr_loads args
  | EList items => flat_map expr_loads items
  end.

Fixpoint expr_calls (e : expr) : list str :=
  match e with
  | ECall f args => f :: flat_map expr_calls args
  | EList items => flat_map expr_calls items
  | _ => []
  end.

Fixpoint stmt_loads (st : stmt) : list str :=
  match st with
  | SAssign _ e => expr_loads e
  | SForeach it body => expr_loads it ++ DOBREAK :: flat_map stmt_loads body        (* for ..: body; if doBreak: break *)
  | SBlock l body => label_name l :: DOBREAK :: flat_map stmt_loads body            (* if cutIf<l>: ..; if doBreak: break *)
  | _ => []
  end.

Fixpoint stmt_calls (st : stmt) : list str :=
  match st with
  | SAssign _ e => expr_calls e
  | SForeach it body => expr_calls it ++ flat_map stmt_calls body
  | SBlock _ body => flat_map stmt_calls body
  | _ => []
  end.

Fixpoint stmt_stores (lv : nat) (st : stmt) : list str :=
  match st with
  | SAssign x _ => [x]
  | SForeach _ body => loopvar (S lv) :: flat_map (stmt_stores (S lv)) body
  | SBlock l body => label_name l :: DOBREAK :: UNDERSCORE :: flat_map (stmt_stores lv) body
  | SBreakBlock l => [label_name l; DOBREAK]
  | _ => []
  end.

Definition func_loads (f : func) : list str := flat_map stmt_loads (fn_body f).
Definition func_calls (f : func) : list str := flat_map stmt_calls (fn_body f).
Definition func_locals (f : func) : list str :=
  arg_names 0 (fn_arity f) ++ DOBREAK :: UNDERSCORE :: flat_map (stmt_stores 0) (fn_body f).

(* ------------------------------------------------------------------ the forms of local names *)

Fixpoint strip_prefix (pre x : str) : option str :=
  match pre, x with
  | [], _ => Some x
  | c :: pr, d :: xr => if N.eqb c d then strip_prefix pr xr else None
  | _ :: _, [] => None
  end.

Lemma strip_prefix_app pre s : strip_prefix pre (pre ++ s) = Some s.
Proof. induction pre as [|c r IH]; simpl; [reflexivity|]. rewrite N.eqb_refl. exact IH. Qed.

Definition numbered (pre x : str) : bool :=
  match strip_prefix pre x with Some r => Keys.digits_ok r | None => false end.

Lemma numbered_dec pre n : numbered pre (pre ++ dec_of_nat n) = true.
Proof. unfold numbered. rewrite strip_prefix_app. apply Keys.dec_of_nat_digits. Qed.

Definition is_pyvar (x : str) : bool := match strip_prefix (s_ "V_") x with Some _ => true | None => false end.

(* V_... | arg<digits> | l<digits> | cutIf<digits> | doBreak | _      (the regular expression of the check) *)
Definition local_form (x : str) : bool :=
  is_pyvar x || numbered (s_ "arg") x || numbered (s_ "l") x || numbered (s_ "cutIf") x || str_eqb x DOBREAK || str_eqb x UNDERSCORE.

Lemma local_pyvar v : local_form (pyvar v) = true.
Proof. unfold local_form, is_pyvar, pyvar. rewrite strip_prefix_app. reflexivity. Qed.
Lemma local_argvar i : local_form (argvar i) = true.
Proof. unfold local_form, argvar. rewrite numbered_dec. rewrite orb_true_r. reflexivity. Qed.
Lemma local_loopvar n : local_form (loopvar n) = true.
Proof. unfold local_form, loopvar. rewrite (numbered_dec (s_ "l")). rewrite !orb_true_r. reflexivity. Qed.
Lemma local_label l : local_form (label_name l) = true.
Proof. unfold local_form, label_name. rewrite (numbered_dec (s_ "cutIf")). rewrite !orb_true_r. reflexivity. Qed.
Lemma local_dobreak : local_form DOBREAK = true.
Proof. reflexivity. Qed.
Lemma local_underscore : local_form UNDERSCORE = true.
Proof. reflexivity. Qed.

(* no reserved name has the form of a local *)
Lemma reserved_not_local : forallb (fun r => negb (local_form r)) reserved_names = true.
Proof. vm_compute. reflexivity. Qed.

Lemma local_not_reserved x : local_form x = true -> ~ In x reserved_names.
Proof.
  intros H Hin. pose proof reserved_not_local as R. rewrite forallb_forall in R.
  specialize (R x Hin). rewrite H in R. discriminate.
Qed.

(* the local forms are pairwise distinct: a Prolog variable is never one of the generated names *)
Lemma strip_prefix_some pre x r : strip_prefix pre x = Some r -> x = pre ++ r.
Proof.
  revert x; induction pre as [|c p IH]; intros x H; simpl in *; [injection H as ->; reflexivity|].
  destruct x as [|d xr]; [discriminate|]. destruct (N.eqb_spec c d) as [->|]; [|discriminate].
  f_equal. apply IH. exact H.
Qed.

Lemma pyvar_not_generated v :
  (forall i, pyvar v <> argvar i) /\ (forall n, pyvar v <> loopvar n) /\ (forall l, pyvar v <> label_name l) /\
  pyvar v <> DOBREAK /\ pyvar v <> UNDERSCORE.
Proof.
  unfold pyvar, argvar, loopvar, label_name. repeat split; try (intros ? H; simpl in H; discriminate); intros H; simpl in H; discriminate.
Qed.

Lemma arg_names_form k n x : In x (arg_names k n) -> exists i, x = argvar i /\ k <= i < k + n.
Proof.
  revert k; induction n as [|n IH]; intros k H; simpl in H; [tauto|].
  destruct H as [<-|H]; [exists k; split; [reflexivity | lia]|].
  destruct (IH _ H) as [i [-> Hi]]. exists i. split; [reflexivity | lia].
Qed.

Lemma arg_names_In k n i : k <= i < k + n -> In (argvar i) (arg_names k n).
Proof.
  revert k; induction n as [|n IH]; intros k H; simpl; [lia|].
  destruct (Nat.eq_dec k i) as [->|Hne]; [left; reflexivity | right; apply IH; lia].
Qed.

(* ------------------------------------------------------------------ what the shapes give *)

Section Names.
  Variable P : kstr -> Prop.
  Variable A : nat.

  Lemma term_loads t : forall x, In x (expr_loads (compile_expression t)) ->
    In x api_globals \/ exists v, In (KVar, v) (sterm_strs t) /\ x = pyvar v.
  Proof.
    induction t as [a|n|w|f args IH|items IH|h t IHh IHt] using sterm_ind'; intros x H; cbn [compile_expression] in H.
    - simpl in H. destruct H as [<-|[]]. left. unfold api_globals, api_calls. simpl. tauto.
    - simpl in H. tauto.
    - simpl in H. destruct H as [<-|[]]. right. exists w. simpl. auto.
    - cbn [expr_loads flat_map app] in H. destruct H as [<-|H]; [left; unfold api_globals, api_calls; simpl; tauto|].
      rewrite app_nil_r in H. apply in_flat_map_iff in H. destruct H as [e [He Hx]].
      apply in_map_iff in He. destruct He as [t [<- Ht]]. rewrite Forall_forall in IH.
      destruct (IH t Ht x Hx) as [H|[v [Hv ->]]]; [left; exact H | right]. exists v. split; [|reflexivity].
      cbn [sterm_strs]. right. apply in_flat_map_iff. eauto.
    - destruct items as [|i0 ir].
      + simpl in H. destruct H as [<-|[]]. left. unfold api_globals, ATOM_NIL. simpl. tauto.
      + cbn [expr_loads flat_map app] in H. destruct H as [<-|H]; [left; unfold api_globals, api_calls; simpl; tauto|].
        rewrite app_nil_r in H. apply in_flat_map_iff in H. destruct H as [e [He Hx]].
        apply in_map_iff in He. destruct He as [t [<- Ht]]. rewrite Forall_forall in IH.
        destruct (IH t Ht x Hx) as [H|[v [Hv ->]]]; [left; exact H | right]. exists v. split; [|reflexivity].
        cbn [sterm_strs]. apply in_flat_map_iff. eauto.
    - cbn [expr_loads flat_map app] in H. destruct H as [<-|H]; [left; unfold api_globals, api_calls; simpl; tauto|].
      rewrite app_nil_r in H. apply in_app_iff in H. destruct H as [H|H].
      + destruct (IHh x H) as [H1|[v [Hv ->]]]; [left; exact H1 | right]. exists v. split; [|reflexivity]. cbn [sterm_strs]. apply in_app_iff. auto.
      + destruct (IHt x H) as [H1|[v [Hv ->]]]; [left; exact H1 | right]. exists v. split; [|reflexivity]. cbn [sterm_strs]. apply in_app_iff. auto.
  Qed.

  Lemma term_calls t : forall x, In x (expr_calls (compile_expression t)) -> In x api_calls.
  Proof.
    induction t as [a|n|w|f args IH|items IH|h t IHh IHt] using sterm_ind'; intros x H; cbn [compile_expression] in H.
    - simpl in H. destruct H as [<-|[]]. unfold api_calls. simpl. tauto.
    - simpl in H. tauto.
    - simpl in H. tauto.
    - cbn [expr_calls flat_map app] in H. destruct H as [<-|H]; [unfold api_calls; simpl; tauto|].
      rewrite app_nil_r in H. apply in_flat_map_iff in H. destruct H as [e [He Hx]].
      apply in_map_iff in He. destruct He as [t [<- Ht]]. rewrite Forall_forall in IH. apply (IH t Ht x Hx).
    - destruct items as [|i0 ir]; [simpl in H; tauto|].
      cbn [expr_calls flat_map app] in H. destruct H as [<-|H]; [unfold api_calls; simpl; tauto|].
      rewrite app_nil_r in H. apply in_flat_map_iff in H. destruct H as [e [He Hx]].
      apply in_map_iff in He. destruct He as [t [<- Ht]]. rewrite Forall_forall in IH. apply (IH t Ht x Hx).
    - cbn [expr_calls flat_map app] in H. destruct H as [<-|H]; [unfold api_calls; simpl; tauto|].
      rewrite app_nil_r in H. apply in_app_iff in H. destruct H as [H|H]; [apply IHh | apply IHt]; exact H.
  Qed.

  Lemma term_expr_loads e x : term_expr P e -> In x (expr_loads e) -> In x api_globals \/ exists v, P (KVar, v) /\ x = pyvar v.
  Proof.
    intros [t [-> Ht]] H. destruct (term_loads t x H) as [H1|[v [Hv ->]]]; [left; exact H1 | right].
    exists v. split; [|reflexivity]. rewrite Forall_forall in Ht. apply Ht. exact Hv.
  Qed.

  Lemma term_expr_calls e x : term_expr P e -> In x (expr_calls e) -> In x api_calls.
  Proof. intros [t [-> Ht]] H. eapply term_calls; eauto. Qed.

  (* a read name is an API global, a source variable, a parameter, doBreak, or a label bound by the same statement *)
  Definition load_ok (x : str) : Prop :=
    In x api_globals \/ (exists v, P (KVar, v) /\ x = pyvar v) \/ (exists i, i < A /\ x = argvar i) \/ x = DOBREAK.

  Lemma stmt_ok_loads st : stmt_ok P A st -> forall lv x, In x (stmt_loads st) -> load_ok x \/ In x (stmt_stores lv st).
  Proof.
    induction st as [y e|it body IH| | | |l body IH|l] using stmt_ind'; intros H lv x Hx; inversion H; subst; simpl in Hx; try tauto.
    - destruct Hx as [<-|[]]. left. right. right. left. eauto.
    - destruct Hx as [<-|[]]. left. left. unfold api_globals, api_calls. simpl. tauto.
    - (* query *) destruct Hx as [<-|Hx]; [left; left; unfold api_globals, api_calls; simpl; tauto|].
      rewrite app_nil_r in Hx. apply in_app_iff in Hx. destruct Hx as [Hx|[<-|Hx]].
      + apply in_flat_map_iff in Hx. destruct Hx as [a [Ha Hxa]].
        match goal with Hf : Forall (term_expr P) _ |- _ => rewrite Forall_forall in Hf; destruct (term_expr_loads a x (Hf a Ha) Hxa) as [J1|J1] end;
          [left; left; exact J1 | left; right; left; exact J1].
      + left. right. right. right. reflexivity.
      + apply in_flat_map_iff in Hx. destruct Hx as [s [Hs Hxs]]. rewrite Forall_forall in IH.
        match goal with Hf : Forall (stmt_ok P A) _ |- _ => rewrite Forall_forall in Hf; destruct (IH s Hs (Hf s Hs) (S lv) x Hxs) as [J1|J1] end;
          [left; exact J1 | right; simpl; right; apply in_flat_map_iff; eauto].
    - (* unify *) destruct Hx as [<-|Hx]; [left; left; unfold api_globals, api_calls; simpl; tauto|].
      destruct Hx as [<-|Hx]; [left; right; right; left; eauto|].
      rewrite app_nil_r in Hx. apply in_app_iff in Hx. destruct Hx as [Hx|[<-|Hx]].
      + match goal with Hf : term_expr P _ |- _ => destruct (term_expr_loads _ x Hf Hx) as [J1|J1] end; [left; left; exact J1 | left; right; left; exact J1].
      + left. right. right. right. reflexivity.
      + apply in_flat_map_iff in Hx. destruct Hx as [s [Hs Hxs]]. rewrite Forall_forall in IH.
        match goal with Hf : Forall (stmt_ok P A) _ |- _ => rewrite Forall_forall in Hf; destruct (IH s Hs (Hf s Hs) (S lv) x Hxs) as [J1|J1] end;
          [left; exact J1 | right; simpl; right; apply in_flat_map_iff; eauto].
    - (* block *) destruct Hx as [<-|[<-|Hx]]; [right; simpl; auto | left; right; right; right; reflexivity|].
      apply in_flat_map_iff in Hx. destruct Hx as [s [Hs Hxs]]. rewrite Forall_forall in IH.
      match goal with Hf : Forall (stmt_ok P A) _ |- _ => rewrite Forall_forall in Hf; destruct (IH s Hs (Hf s Hs) lv x Hxs) as [J1|J1] end;
        [left; exact J1 | right; simpl; right; right; right; apply in_flat_map_iff; eauto].
  Qed.

  Lemma stmt_ok_calls st : stmt_ok P A st -> forall x, In x (stmt_calls st) -> In x api_calls.
  Proof.
    induction st as [y e|it body IH| | | |l body IH|l] using stmt_ind'; intros H x Hx; inversion H; subst; simpl in Hx; try tauto.
    - destruct Hx as [<-|[]]. unfold api_calls. simpl. tauto.
    - destruct Hx as [<-|Hx]; [unfold api_calls; simpl; tauto|].
      rewrite app_nil_r in Hx. apply in_app_iff in Hx. destruct Hx as [Hx|Hx].
      + apply in_flat_map_iff in Hx. destruct Hx as [a [Ha Hxa]].
        match goal with Hf : Forall (term_expr P) _ |- _ => rewrite Forall_forall in Hf; apply (term_expr_calls a x (Hf a Ha) Hxa) end.
      + apply in_flat_map_iff in Hx. destruct Hx as [s [Hs Hxs]]. rewrite Forall_forall in IH.
        match goal with Hf : Forall (stmt_ok P A) _ |- _ => rewrite Forall_forall in Hf; apply (IH s Hs (Hf s Hs) x Hxs) end.
    - destruct Hx as [<-|Hx]; [unfold api_calls; simpl; tauto|].
      rewrite app_nil_r in Hx. apply in_app_iff in Hx. destruct Hx as [Hx|Hx].
      + match goal with Hf : term_expr P _ |- _ => apply (term_expr_calls _ x Hf Hx) end.
      + apply in_flat_map_iff in Hx. destruct Hx as [s [Hs Hxs]]. rewrite Forall_forall in IH.
        match goal with Hf : Forall (stmt_ok P A) _ |- _ => rewrite Forall_forall in Hf; apply (IH s Hs (Hf s Hs) x Hxs) end.
    - apply in_flat_map_iff in Hx. destruct Hx as [s [Hs Hxs]]. rewrite Forall_forall in IH.
      match goal with Hf : Forall (stmt_ok P A) _ |- _ => rewrite Forall_forall in Hf; apply (IH s Hs (Hf s Hs) x Hxs) end.
  Qed.

  (* a bound name is a source variable with the prefix, a loop variable, a label, doBreak or _ *)
  Definition store_ok (x : str) : Prop :=
    (exists v, P (KVar, v) /\ x = pyvar v) \/ (exists n, x = loopvar n) \/ (exists l, x = label_name l) \/ x = DOBREAK \/ x = UNDERSCORE.

  Lemma stmt_ok_stores st : stmt_ok P A st -> forall lv x, In x (stmt_stores lv st) -> store_ok x.
  Proof.
    induction st as [y e|it body IH| | | |l body IH|l] using stmt_ind'; intros H lv x Hx; inversion H; subst; simpl in Hx; try tauto.
    - destruct Hx as [<-|[]]. left. eauto.
    - destruct Hx as [<-|[]]. left. eauto.
    - destruct Hx as [<-|Hx]; [right; left; eauto|].
      apply in_flat_map_iff in Hx. destruct Hx as [s [Hs Hxs]]. rewrite Forall_forall in IH.
      match goal with Hf : Forall (stmt_ok P A) _ |- _ => rewrite Forall_forall in Hf; apply (IH s Hs (Hf s Hs) _ x Hxs) end.
    - destruct Hx as [<-|Hx]; [right; left; eauto|].
      apply in_flat_map_iff in Hx. destruct Hx as [s [Hs Hxs]]. rewrite Forall_forall in IH.
      match goal with Hf : Forall (stmt_ok P A) _ |- _ => rewrite Forall_forall in Hf; apply (IH s Hs (Hf s Hs) _ x Hxs) end.
    - destruct Hx as [<-|[<-|[<-|Hx]]]; [right; right; left; eauto | right; right; right; left; reflexivity | right; right; right; right; reflexivity|].
      apply in_flat_map_iff in Hx. destruct Hx as [s [Hs Hxs]]. rewrite Forall_forall in IH.
      match goal with Hf : Forall (stmt_ok P A) _ |- _ => rewrite Forall_forall in Hf; apply (IH s Hs (Hf s Hs) _ x Hxs) end.
    - destruct Hx as [<-|[<-|[]]]; [right; right; left; eauto | right; right; right; left; reflexivity].
  Qed.
End Names.

(* assignment targets are stores, and block labels are stored where they are read *)
Lemma assigned_stores st : forall lv x, In x (stmt_assigned st) -> In x (stmt_stores lv st).
Proof.
  induction st as [y e|it body IH| | | |l body IH|l] using stmt_ind'; intros lv x H; simpl in *; try tauto.
  - right. apply in_flat_map_iff in H. destruct H as [s [Hs Hx]]. apply in_flat_map_iff. exists s. split; [exact Hs|].
    rewrite Forall_forall in IH. apply IH; assumption.
  - right. right. right. apply in_flat_map_iff in H. destruct H as [s [Hs Hx]]. apply in_flat_map_iff. exists s. split; [exact Hs|].
    rewrite Forall_forall in IH. apply IH; assumption.
Qed.


(* ------------------------------------------------------------------ the theorems *)

(* EMIT_NAMES_WHITELISTED.  In every function the compiler produces, every name that is called is one
   of the 7 API functions, and every name that is read is an API global (the 7 functions and ATOM_NIL) or
   is bound in the same function - in particular every Prolog variable that is used is assigned there. *)
Theorem names_whitelisted p f : func_shape p f ->
  (forall x, In x (func_calls f) -> In x api_calls) /\
  (forall x, In x (func_loads f) -> In x api_globals \/ In x (func_locals f)).
Proof.
  intros [cs [Hi [Hk [Hok Hdecl]]]]. unfold func_ok in Hok. rewrite Forall_forall in Hok. split.
  - intros x Hx. unfold func_calls in Hx. apply in_flat_map_iff in Hx. destruct Hx as [s [Hs Hx]].
    eapply stmt_ok_calls; eauto.
  - intros x Hx. unfold func_loads in Hx. apply in_flat_map_iff in Hx. destruct Hx as [s [Hs Hx]].
    destruct (stmt_ok_loads _ _ s (Hok s Hs) 0 x Hx) as [[H|[[v [Hv ->]]|[[i [Hlt ->]] | -> ]]] | H].
    + left. exact H.
    + right. unfold func_locals. apply in_app_iff. right. right. right.
      specialize (Hdecl v Hv). unfold assigned in Hdecl. apply in_flat_map_iff in Hdecl. destruct Hdecl as [s' [Hs' Hx']].
      apply in_flat_map_iff. exists s'. split; [exact Hs' | apply assigned_stores; exact Hx'].
    + right. unfold func_locals. apply in_app_iff. left. apply arg_names_In. lia.
    + right. unfold func_locals. apply in_app_iff. right. left. reflexivity.
    + right. unfold func_locals. apply in_app_iff. right. right. right. apply in_flat_map_iff. eauto.
Qed.

(* NO_CAPTURE.  Every name bound in a function the compiler produces has one of the forms
   V_<source variable> | arg<i> (i < arity) | l<n> | cutIf<n> | doBreak | _ ; no such name is a Python keyword or
   constant, an engine API name, or a whitelisted global: a Prolog variable, whatever it is called in the source,
   can never shadow a name that the generated code or the engine relies on; and a V_ name is never one of the
   generated locals. *)
Theorem locals_forms p f : func_shape p f ->
  forall x, In x (func_locals f) ->
    (exists v, In (KVar, v) (program_strs p) /\ x = pyvar v) \/ (exists i, i < fn_arity f /\ x = argvar i) \/
    (exists n, x = loopvar n) \/ (exists l, x = label_name l) \/ x = DOBREAK \/ x = UNDERSCORE.
Proof.
  intros [cs [Hi [Hk [Hok Hdecl]]]] x Hx. unfold func_ok in Hok. rewrite Forall_forall in Hok.
  unfold func_locals in Hx. apply in_app_iff in Hx. destruct Hx as [Hx|[<-|[<-|Hx]]]; [| tauto | tauto |].
  - apply arg_names_form in Hx. destruct Hx as [i [-> Hlt]]. right. left. exists i. split; [lia | reflexivity].
  - apply in_flat_map_iff in Hx. destruct Hx as [s [Hs Hx]].
    destruct (stmt_ok_stores _ _ s (Hok s Hs) 0 x Hx) as [[v [Hv ->]]|[H|[H|[H|H]]]]; try tauto.
    left. exists v. split; [|reflexivity]. unfold inl_ in Hv. unfold program_strs.
    apply in_flat_map_iff in Hv. destruct Hv as [c [Hc Hv]]. apply in_flat_map_iff. exists c. split; [apply Hi; exact Hc | exact Hv].
Qed.

Theorem no_capture p f : func_shape p f ->
  forall x, In x (func_locals f) -> local_form x = true /\ ~ In x reserved_names.
Proof.
  intros Hf x Hx. assert (L : local_form x = true).
  { destruct (locals_forms p f Hf x Hx) as [[v [_ ->]]|[[i [_ ->]]|[[n ->]|[[l ->] | [ -> | -> ]]]]].
    - apply local_pyvar. - apply local_argvar. - apply local_loopvar. - apply local_label. - reflexivity. - reflexivity. }
  split; [exact L | apply local_not_reserved; exact L].
Qed.
