(* C12 source_text_positions: where source text can occur in the emitted Python text.

   The emitted text is cut into PIECES, line by line.  A piece is
     PFix w      text that does not come from the source: a word of a fixed finite vocabulary, a run of
                 blanks (indentation), a decimal number (loop level, label number, arity), or arg<n>
     PRepr s     repr(s)                         - s an atom / functor name / goal name of the source
     PNum d      str(int(d))                     - d a numeral of the source
     PVar v      "V_" ++ v                       - v a variable name of the source
     PDef f n    f ++ "_" ++ <n>                 - f/n a clause-head name and arity of the source
   pieces_erasure:  rendering the pieces gives exactly the lines of emit_program (for every code)
   pieces_ok:       for everything compile_program produces, every PFix piece is fixed text in the sense
                    above (fixed_ok, a closed boolean test) and the other pieces carry strings of the
                    program of the right kind.
   So every character of the output that depends on the source lies inside one of the four renderings. *)
From Coq Require Import String.
From Coq Require Import List Arith Bool NArith Lia.
Import ListNotations.
From YP Require Import Base.Str Lang.Ast Comp.IR Comp.CompileBody Comp.CompileClause Comp.Emit Comp.EmitShape Comp.EmitNames.
From YP Require Engine.Keys.
Local Open Scope string_scope.
Local Open Scope list_scope.

Inductive piece :=
| PFix (w : str)
| PRepr (s : str)
| PNum (digits : str)
| PVar (v : str)
| PDef (f : str) (n : nat).

Definition F (s : string) : piece := PFix (s_ s).

Section Pieces.
Variable repr : str -> str.

Definition render (p : piece) : str :=
  match p with
  | PFix w => w
  | PRepr s => repr s
  | PNum d => strip_zeros d
  | PVar v => pyvar v
  | PDef f n => f ++ s_ "_" ++ dec_of_nat n
  end.
Definition flat (l : list piece) : str := flat_map render l.

Lemma flat_app a b : flat (a ++ b) = flat a ++ flat b.
Proof. apply flat_map_app. Qed.

(* an identifier of the code: a prefixed source variable, or generated text *)
Definition classify (x : str) : piece :=
  match strip_prefix (s_ "V_") x with Some v => PVar v | None => PFix x end.

Lemma render_classify x : render (classify x) = x.
Proof.
  unfold classify. destruct (strip_prefix (s_ "V_") x) as [v|] eqn:E; [|reflexivity].
  apply strip_prefix_some in E. subst. reflexivity.
Qed.

Fixpoint pjoin (sep : list piece) (l : list (list piece)) : list piece :=
  match l with
  | [] => []
  | [x] => x
  | x :: r => x ++ sep ++ pjoin sep r
  end.

Lemma flat_pjoin sep l : flat (pjoin sep l) = join (flat sep) (map flat l).
Proof.
  induction l as [|x r IH]; [reflexivity|]. destruct r as [|y r']; [reflexivity|].
  change (pjoin sep (x :: y :: r')) with (x ++ sep ++ pjoin sep (y :: r')).
  change (map flat (x :: y :: r')) with (flat x :: map flat (y :: r')).
  change (join (flat sep) (flat x :: map flat (y :: r'))) with (flat x ++ flat sep ++ join (flat sep) (map flat (y :: r'))).
  rewrite !flat_app, IH. reflexivity.
Qed.

Fixpoint expr_pieces (e : expr) : list piece :=
  match e with
  | EVar x => [classify x]
  | EStr s => [PRepr s]
  | ENum d => [PNum d]
  | ECall f args => PFix f :: F "(" :: pjoin [F ","] (map expr_pieces args) ++ [F ")"]
  | EList items => F "[" :: pjoin [F ","] (map expr_pieces items) ++ [F "]"]
  end.

Lemma expr_pieces_flat e : flat (expr_pieces e) = emit_expr repr e.
Proof.
  induction e as [x|s|n|f args IH|items IH] using expr_ind'; cbn [expr_pieces emit_expr].
  - simpl. rewrite app_nil_r. apply render_classify.
  - simpl. apply app_nil_r.
  - simpl. apply app_nil_r.
  - change (flat (PFix f :: F "(" :: pjoin [F ","] (map expr_pieces args) ++ [F ")"]))
      with (f ++ s_ "(" ++ flat (pjoin [F ","] (map expr_pieces args) ++ [F ")"])).
    rewrite flat_app, flat_pjoin, map_map. f_equal. f_equal. f_equal.
    + f_equal. apply map_ext_in. intros a Ha. rewrite Forall_forall in IH. apply IH. exact Ha.
  - change (flat (F "[" :: pjoin [F ","] (map expr_pieces items) ++ [F "]"]))
      with (s_ "[" ++ flat (pjoin [F ","] (map expr_pieces items) ++ [F "]"])).
    rewrite flat_app, flat_pjoin, map_map. f_equal. f_equal.
    + f_equal. apply map_ext_in. intros a Ha. rewrite Forall_forall in IH. apply IH. exact Ha.
Qed.

(* ------------------------------------------------------------------ statements, line by line *)

Definition pind (n : nat) (l : list piece) : list piece := PFix (repeat 32%N (2 * n)) :: l.
Definition plabel (l : nat) : list piece := [F "cutIf"; PFix (dec_of_nat l)].
Definition pbreak_code (i : nat) : list (list piece) := [pind i [F "if doBreak:"]; pind (S i) [F "break"]].

Lemma flat_pind n l : flat (pind n l) = ind n (flat l).
Proof. reflexivity. Qed.

Fixpoint stmt_pieces (st : stmt) (i lv : nat) {struct st} : list (list piece) :=
  let list_pieces := fix list_pieces (c : list stmt) (i lv : nat) {struct c} : list (list piece) :=
      match c with [] => [] | st :: r => stmt_pieces st i lv ++ list_pieces r i lv end in
  match st with
  | SAssign x e => [pind i (classify x :: F " = " :: expr_pieces e)]
  | SYieldFalse => [pind i [F "yield False"]]
  | SYieldTrue => [pind i [F "yield True"]]
  | SReturn => [pind i [F "return"]]
  | SBreakBlock l => [pind i (plabel l ++ [F " = True"]); pind i [F "doBreak = True"]; pind i [F "break"]]
  | SForeach it body =>
      pind i (F "for l" :: PFix (dec_of_nat (S lv)) :: F " in " :: expr_pieces it ++ [F ":"])
      :: (match body with [] => [pind (S i) [F "pass"]] | _ => list_pieces body (S i) (S lv) end)
      ++ pbreak_code i
  | SBlock l body =>
      pind i (plabel l ++ [F " = False"])
      :: (match body with [] => [] | _ => pind i [F "for _ in [1]:"] :: list_pieces body (S i) lv end)
      ++ [pind i (F "if " :: plabel l ++ [F ":"]); pind (S i) [F "doBreak = False"]]
      ++ pbreak_code i
  end.

Fixpoint list_pieces (c : list stmt) (i lv : nat) : list (list piece) :=
  match c with [] => [] | st :: r => stmt_pieces st i lv ++ list_pieces r i lv end.

Lemma list_pieces_flat c : Forall (fun st => forall i lv, map flat (stmt_pieces st i lv) = emit_stmt repr st i lv) c ->
  forall i lv, map flat (list_pieces c i lv) = emit_list repr c i lv.
Proof.
  induction c as [|st r IH]; intros H i lv; [reflexivity|]. inversion H; subst.
  cbn [list_pieces emit_list]. rewrite map_app. f_equal; auto.
Qed.

Lemma stmt_pieces_flat st : forall i lv, map flat (stmt_pieces st i lv) = emit_stmt repr st i lv.
Proof.
  induction st as [x e|it body IH| | | |l body IH|l] using stmt_ind'; intros i lv.
  - cbn [stmt_pieces emit_stmt map]. rewrite flat_pind. f_equal. f_equal.
    change (flat (classify x :: F " = " :: expr_pieces e)) with (render (classify x) ++ s_ " = " ++ flat (expr_pieces e)).
    rewrite render_classify, expr_pieces_flat. reflexivity.
  - change (stmt_pieces (SForeach it body) i lv) with
      (pind i (F "for l" :: PFix (dec_of_nat (S lv)) :: F " in " :: expr_pieces it ++ [F ":"])
       :: (match body with [] => [pind (S i) [F "pass"]] | _ => list_pieces body (S i) (S lv) end) ++ pbreak_code i).
    change (emit_stmt repr (SForeach it body) i lv) with
      (ind i (s_ "for l" ++ dec_of_nat (S lv) ++ s_ " in " ++ emit_expr repr it ++ s_ ":")
       :: (match body with [] => [ind (S i) (s_ "pass")] | _ => emit_list repr body (S i) (S lv) end) ++ break_code i).
    cbn [map]. rewrite map_app. f_equal.
    + rewrite flat_pind. f_equal.
      change (flat (F "for l" :: PFix (dec_of_nat (S lv)) :: F " in " :: expr_pieces it ++ [F ":"]))
        with (s_ "for l" ++ dec_of_nat (S lv) ++ s_ " in " ++ flat (expr_pieces it ++ [F ":"])).
      rewrite flat_app, expr_pieces_flat. reflexivity.
    + f_equal. destruct body as [|b0 br]; [reflexivity|]. apply list_pieces_flat. exact IH.
  - reflexivity.
  - reflexivity.
  - reflexivity.
  - change (stmt_pieces (SBlock l body) i lv) with
      (pind i (plabel l ++ [F " = False"])
       :: (match body with [] => [] | _ => pind i [F "for _ in [1]:"] :: list_pieces body (S i) lv end)
       ++ [pind i (F "if " :: plabel l ++ [F ":"]); pind (S i) [F "doBreak = False"]] ++ pbreak_code i).
    change (emit_stmt repr (SBlock l body) i lv) with
      (ind i (label_name l ++ s_ " = False")
       :: (match body with [] => [] | _ => ind i (s_ "for _ in [1]:") :: emit_list repr body (S i) lv end)
       ++ [ind i (s_ "if " ++ label_name l ++ s_ ":"); ind (S i) (s_ "doBreak = False")] ++ break_code i).
    cbn [map]. rewrite map_app. f_equal.
    f_equal.
    destruct body as [|b0 br]; [reflexivity|]. cbn [map]. f_equal. apply list_pieces_flat. exact IH.
  - cbn [stmt_pieces emit_stmt map]. rewrite !flat_pind. unfold plabel, label_name. simpl. rewrite ?app_nil_r, <- ?app_assoc. reflexivity.
Qed.

Definition parg_names (n : nat) : list (list piece) := map (fun x => [PFix x]) (arg_names 0 n).

Definition function_pieces (f : func) : list (list piece) :=
  (F "def " :: PDef (fn_name f) (fn_arity f) :: F "(" :: pjoin [F ","] (parg_names (fn_arity f)) ++ [F "):"])
  :: pind 1 [F "doBreak = False"]
  :: pind 1 [F "for _ in [1]:"]
  :: (match fn_body f with [] => [pind 2 [F "pass"]] | b => list_pieces b 2 0 end)
  ++ [pind 1 [F "if False:"]; pind 3 [F "yield False"]].

Lemma function_pieces_flat f : map flat (function_pieces f) = emit_function repr f.
Proof.
  unfold function_pieces, emit_function. cbn [map]. rewrite map_app.
  assert (H1 : flat (F "def " :: PDef (fn_name f) (fn_arity f) :: F "(" :: pjoin [F ","] (parg_names (fn_arity f)) ++ [F "):"]) =
    s_ "def " ++ fn_name f ++ s_ "_" ++ dec_of_nat (fn_arity f) ++ s_ "(" ++ join (s_ ",") (arg_names 0 (fn_arity f)) ++ s_ "):").
  { change (flat (F "def " :: PDef (fn_name f) (fn_arity f) :: F "(" :: pjoin [F ","] (parg_names (fn_arity f)) ++ [F "):"]))
      with (s_ "def " ++ (fn_name f ++ s_ "_" ++ dec_of_nat (fn_arity f)) ++ s_ "(" ++ flat (pjoin [F ","] (parg_names (fn_arity f)) ++ [F "):"])).
    rewrite flat_app, flat_pjoin. unfold parg_names. rewrite map_map.
    assert (E : map (fun x : str => flat [PFix x]) (arg_names 0 (fn_arity f)) = arg_names 0 (fn_arity f)).
    { rewrite <- (map_id (arg_names 0 (fn_arity f))) at 2. apply map_ext. intros a. simpl. apply app_nil_r. }
    rewrite E. rewrite <- !app_assoc. reflexivity. }
  rewrite H1.
  assert (H2 : map flat (match fn_body f with [] => [pind 2 [F "pass"]] | _ :: _ => list_pieces (fn_body f) 2 0 end) =
               match fn_body f with [] => [ind 2 (s_ "pass")] | _ :: _ => emit_list repr (fn_body f) 2 0 end).
  { destruct (fn_body f) as [|b0 br] eqn:E; [reflexivity|].
    apply list_pieces_flat. apply Forall_forall. intros st _. apply stmt_pieces_flat. }
  destruct (fn_body f) as [|b0 br]; rewrite H2; reflexivity.
Qed.

Definition pheader : list (list piece) := [[F "#"]; [F "# This code is generated by the yldprolog compiler."]; [F "#"]].

Definition program_pieces (p : ir_program) : list (list piece) :=
  pheader ++ [[]] ++ match p with [] => [[]] | _ => flat_map (fun f => function_pieces f ++ [[]]) p end.

Definition emit_lines (p : ir_program) : list str :=
  header ++ [[]] ++ match p with [] => [[]] | _ => flat_map (fun f => emit_function repr f ++ [[]]) p end.

Lemma emit_program_lines p : emit_program repr p = join [10%N] (emit_lines p).
Proof. reflexivity. Qed.

(* PIECES_ERASURE *)
Theorem pieces_erasure p : map flat (program_pieces p) = emit_lines p.
Proof.
  unfold program_pieces, emit_lines. rewrite !map_app. f_equal. f_equal.
  destruct p as [|f0 fr]; [reflexivity|].
  generalize (f0 :: fr). intros l. induction l as [|f r IH]; [reflexivity|].
  cbn [flat_map]. rewrite !map_app, IH, function_pieces_flat. reflexivity.
Qed.
End Pieces.

(* ------------------------------------------------------------------ which pieces can occur *)

Definition vocab : list str := map s_
  ["("; ")"; "["; "]"; ","; ":"; " = "; "for l"; " in "; "cutIf"; " = True"; " = False"; "doBreak = True"; "doBreak = False"; "break";
   "if doBreak:"; "yield False"; "yield True"; "return"; "pass"; "for _ in [1]:"; "if "; "if False:"; "def "; "):"; "#";
   "# This code is generated by the yldprolog compiler.";
   "query"; "unify"; "atom"; "functor"; "listpair"; "makelist"; "variable"; "ATOM_NIL"].

Definition all_blank (w : str) : bool := forallb (N.eqb 32) w.

(* text that does not come from the source: a vocabulary word, blanks, a decimal number, arg<n> *)
Definition fixed_ok (w : str) : bool :=
  existsb (str_eqb w) vocab || all_blank w || Keys.digits_ok w || numbered (s_ "arg") w.

Lemma fixed_blank n : fixed_ok (repeat 32%N n) = true.
Proof.
  unfold fixed_ok. assert (H : all_blank (repeat 32%N n) = true) by (induction n; simpl; auto).
  rewrite H. rewrite orb_true_r. reflexivity.
Qed.
Lemma fixed_dec n : fixed_ok (dec_of_nat n) = true.
Proof. unfold fixed_ok. rewrite Keys.dec_of_nat_digits. rewrite orb_true_r. reflexivity. Qed.
Lemma fixed_argvar i : fixed_ok (argvar i) = true.
Proof. unfold fixed_ok, argvar. rewrite numbered_dec. rewrite orb_true_r. reflexivity. Qed.

Section PieceOk.
  Variable P : kstr -> Prop.
  Variable K : key -> Prop.

  Definition piece_ok (pc : piece) : Prop :=
    match pc with
    | PFix w => fixed_ok w = true
    | PRepr s => P (KAtom, s)
    | PNum d => P (KNum, d)
    | PVar v => P (KVar, v)
    | PDef f n => K (f, n)
    end.

  Lemma pjoin_ok sep l : Forall piece_ok sep -> Forall (Forall piece_ok) l -> Forall piece_ok (pjoin sep l).
  Proof.
    intros Hs Hl. induction l as [|x r IH]; [constructor|]. inversion Hl; subst.
    destruct r as [|y r']; [assumption|].
    change (pjoin sep (x :: y :: r')) with (x ++ sep ++ pjoin sep (y :: r')).
    apply Forall_app. split; [assumption|]. apply Forall_app. split; [assumption | apply IH; assumption].
  Qed.

  Lemma classify_pyvar v : classify (pyvar v) = PVar v.
  Proof. unfold classify, pyvar. rewrite strip_prefix_app. reflexivity. Qed.
  Lemma classify_argvar i : classify (argvar i) = PFix (argvar i).
  Proof. reflexivity. Qed.

  Ltac fx := first [ reflexivity | apply fixed_blank | apply fixed_dec | apply fixed_argvar ].

  Lemma sepc_ok : Forall piece_ok [F ","].
  Proof. constructor; [reflexivity | constructor]. Qed.

  Lemma term_pieces_ok t : Forall P (sterm_strs t) -> Forall piece_ok (expr_pieces (compile_expression t)).
  Proof.
    induction t as [a|n|w|f args IH|items IH|h t IHh IHt] using sterm_ind'; intros H; cbn [compile_expression sterm_strs] in *.
    - inversion H; subst. cbn [expr_pieces map pjoin app]. repeat constructor; auto.
    - inversion H; subst. cbn [expr_pieces]. repeat constructor; auto.
    - inversion H; subst. cbn [expr_pieces]. rewrite classify_pyvar. repeat constructor; auto.
    - inversion H as [|? ? Hf Hargs]; subst. cbn [expr_pieces map pjoin app].
      constructor; [reflexivity|]. constructor; [reflexivity|]. constructor; [exact Hf|]. constructor; [reflexivity|].
      constructor; [reflexivity|]. apply Forall_app. split; [|repeat constructor].
      apply Forall_app. split; [|repeat constructor].
      apply pjoin_ok; [apply sepc_ok|]. rewrite map_map. apply Forall_forall. intros l Hl. apply in_map_iff in Hl.
      destruct Hl as [t [<- Ht]]. rewrite Forall_forall in IH. apply IH; [exact Ht|].
      apply Forall_forall. intros x Hx. rewrite Forall_forall in Hargs. apply Hargs. apply in_flat_map_iff. eauto.
    - destruct items as [|i0 ir].
      + cbn [expr_pieces]. repeat constructor.
      + remember (i0 :: ir) as its eqn:Eits.
        assert (Hp : Forall piece_ok (pjoin [F ","] (map expr_pieces (map compile_expression its)))).
        { apply pjoin_ok; [apply sepc_ok|]. rewrite map_map. apply Forall_forall. intros l Hl. apply in_map_iff in Hl.
          destruct Hl as [t [<- Ht]]. rewrite Forall_forall in IH. apply IH; [exact Ht|].
          apply Forall_forall. intros x Hx. rewrite Forall_forall in H. apply H. apply in_flat_map_iff. eauto. }
        remember (map compile_expression its) as es eqn:Ees.
        cbn [expr_pieces map pjoin app].
        constructor; [reflexivity|]. constructor; [reflexivity|]. constructor; [reflexivity|].
        apply Forall_app. split; [|repeat constructor]. apply Forall_app. split; [|repeat constructor]. exact Hp.
    - apply Forall_app in H. destruct H as [H1 H2]. cbn [expr_pieces map pjoin app].
      constructor; [reflexivity|]. constructor; [reflexivity|].
      apply Forall_app. split; [|repeat constructor].
      apply Forall_app. split; [apply IHh; exact H1|]. constructor; [reflexivity|]. apply IHt; exact H2.
  Qed.

  Lemma term_expr_pieces_ok e : term_expr P e -> Forall piece_ok (expr_pieces e).
  Proof. intros [t [-> Ht]]. apply term_pieces_ok. exact Ht. Qed.

  Lemma pind_ok n l : Forall piece_ok l -> Forall piece_ok (pind n l).
  Proof. intros H. constructor; [apply fixed_blank | exact H]. Qed.

  Lemma plabel_ok l : Forall piece_ok (plabel l).
  Proof. constructor; [reflexivity|]. constructor; [apply fixed_dec | constructor]. Qed.

  Lemma pbreak_ok i : Forall (Forall piece_ok) (pbreak_code i).
  Proof. repeat constructor; apply fixed_blank. Qed.

  Variable A : nat.

  Lemma list_pieces_ok c : Forall (fun st => stmt_ok P A st -> forall i lv, Forall (Forall piece_ok) (stmt_pieces st i lv)) c ->
    Forall (stmt_ok P A) c -> forall i lv, Forall (Forall piece_ok) (list_pieces c i lv).
  Proof.
    induction c as [|st r IH]; intros H Hok i lv; [constructor|]. inversion H; subst. inversion Hok; subst.
    cbn [list_pieces]. apply Forall_app. split; auto.
  Qed.

  Lemma stmt_pieces_ok st : stmt_ok P A st -> forall i lv, Forall (Forall piece_ok) (stmt_pieces st i lv).
  Proof.
    induction st as [x e|it body IH| | | |l body IH|l] using stmt_ind'; intros H i lv; inversion H; subst.
    - cbn [stmt_pieces]. rewrite classify_pyvar. constructor; [|constructor]. apply pind_ok.
      constructor; [assumption|]. constructor; [reflexivity|]. cbn [expr_pieces]. constructor; [apply fixed_argvar | constructor].
    - cbn [stmt_pieces]. rewrite classify_pyvar. constructor; [|constructor]. apply pind_ok.
      constructor; [assumption|]. constructor; [reflexivity|]. cbn [expr_pieces map pjoin app]. repeat constructor.
    - (* query *)
      change (stmt_pieces (SForeach (ECall (s_ "query") [EStr f; EList args]) body) i lv) with
        (pind i (F "for l" :: PFix (dec_of_nat (S lv)) :: F " in " :: expr_pieces (ECall (s_ "query") [EStr f; EList args]) ++ [F ":"])
         :: (match body with [] => [pind (S i) [F "pass"]] | _ => list_pieces body (S i) (S lv) end) ++ pbreak_code i).
      constructor.
      + apply pind_ok. constructor; [reflexivity|]. constructor; [apply fixed_dec|]. constructor; [reflexivity|].
        apply Forall_app. split; [|repeat constructor].
        cbn [expr_pieces map pjoin app]. constructor; [reflexivity|]. constructor; [reflexivity|]. constructor; [assumption|].
        constructor; [reflexivity|]. constructor; [reflexivity|]. apply Forall_app. split; [|repeat constructor].
        apply Forall_app. split; [|repeat constructor].
        apply pjoin_ok; [apply sepc_ok|]. apply Forall_forall. intros pl Hpl. apply in_map_iff in Hpl. destruct Hpl as [a [<- Ha]].
        apply term_expr_pieces_ok. match goal with Hf : Forall (term_expr P) _ |- _ => rewrite Forall_forall in Hf; apply Hf; exact Ha end.
      + apply Forall_app. split; [|apply pbreak_ok].
        destruct body as [|b0 br]; [repeat constructor; apply fixed_blank|].
        change (Forall (Forall piece_ok) (list_pieces (b0 :: br) (S i) (S lv))). apply list_pieces_ok; assumption.
    - (* unify *)
      change (stmt_pieces (SForeach (ECall (s_ "unify") [EVar (argvar i0); a]) body) i lv) with
        (pind i (F "for l" :: PFix (dec_of_nat (S lv)) :: F " in " :: expr_pieces (ECall (s_ "unify") [EVar (argvar i0); a]) ++ [F ":"])
         :: (match body with [] => [pind (S i) [F "pass"]] | _ => list_pieces body (S i) (S lv) end) ++ pbreak_code i).
      constructor.
      + apply pind_ok. constructor; [reflexivity|]. constructor; [apply fixed_dec|]. constructor; [reflexivity|].
        apply Forall_app. split; [|repeat constructor].
        cbn [expr_pieces map pjoin app]. constructor; [reflexivity|]. constructor; [reflexivity|].
        constructor; [apply fixed_argvar|]. constructor; [reflexivity|].
        apply Forall_app. split; [|repeat constructor].
        apply term_expr_pieces_ok. assumption.
      + apply Forall_app. split; [|apply pbreak_ok].
        destruct body as [|b0 br]; [repeat constructor; apply fixed_blank|].
        change (Forall (Forall piece_ok) (list_pieces (b0 :: br) (S i) (S lv))). apply list_pieces_ok; assumption.
    - repeat constructor; apply fixed_blank.
    - repeat constructor; apply fixed_blank.
    - repeat constructor; apply fixed_blank.
    - (* block *)
      change (stmt_pieces (SBlock l body) i lv) with
        (pind i (plabel l ++ [F " = False"])
         :: (match body with [] => [] | _ => pind i [F "for _ in [1]:"] :: list_pieces body (S i) lv end)
         ++ [pind i (F "if " :: plabel l ++ [F ":"]); pind (S i) [F "doBreak = False"]] ++ pbreak_code i).
      constructor; [apply pind_ok; apply Forall_app; split; [apply plabel_ok | repeat constructor]|].
      apply Forall_app. split.
      + destruct body as [|b0 br]; [constructor|]. constructor; [repeat constructor; apply fixed_blank|].
        change (Forall (Forall piece_ok) (list_pieces (b0 :: br) (S i) lv)). apply list_pieces_ok; assumption.
      + constructor; [apply pind_ok; constructor; [reflexivity|]; apply Forall_app; split; [apply plabel_ok | repeat constructor]|].
        constructor; [repeat constructor; apply fixed_blank | apply pbreak_ok].
    - cbn [stmt_pieces]. constructor; [apply pind_ok; apply Forall_app; split; [apply plabel_ok | repeat constructor]|].
      repeat constructor; apply fixed_blank.
  Qed.
End PieceOk.

Lemma parg_names_ok P K n : Forall (Forall (piece_ok P K)) (parg_names n).
Proof.
  unfold parg_names. apply Forall_forall. intros l Hl. apply in_map_iff in Hl. destruct Hl as [x [<- Hx]].
  apply arg_names_form in Hx. destruct Hx as [i [-> _]]. constructor; [apply fixed_argvar | constructor].
Qed.

Lemma function_pieces_ok (P : kstr -> Prop) (K : key -> Prop) f : func_ok P f -> K (fn_key f) -> Forall (Forall (piece_ok P K)) (function_pieces f).
Proof.
  intros Hok Hk. unfold function_pieces.
  constructor.
  { constructor; [reflexivity|]. constructor; [exact Hk|]. constructor; [reflexivity|].
    apply Forall_app. split; [|repeat constructor]. apply pjoin_ok; [repeat constructor | apply parg_names_ok]. }
  constructor; [repeat constructor; apply fixed_blank|]. constructor; [repeat constructor; apply fixed_blank|].
  apply Forall_app. split; [|repeat constructor; apply fixed_blank].
  destruct (fn_body f) as [|b0 br] eqn:E; [repeat constructor; apply fixed_blank|].
  unfold func_ok in Hok. rewrite E in Hok. apply list_pieces_ok with (A := fn_arity f); [|exact Hok].
  apply Forall_forall. intros st _. apply stmt_pieces_ok.
Qed.

(* PIECES_OK (C12 source_text_positions): in the text of every program the compiler produces, every
   piece that is not one of the four renderings of a source string is fixed text *)
Theorem pieces_ok p ir : compile_program p = Some ir ->
  Forall (Forall (piece_ok (inl_ (program_strs p)) (fun k => In k (head_keys p)))) (program_pieces ir).
Proof.
  intros H. destruct (compile_program_shape p ir H) as [Hs Hk].
  unfold program_pieces. apply Forall_app. split; [repeat constructor|]. apply Forall_app. split; [repeat constructor|].
  destruct ir as [|f0 fr]; [repeat constructor|].
  apply Forall_forall. intros l Hl. apply in_flat_map_iff in Hl. destruct Hl as [f [Hf Hl]].
  apply in_app_iff in Hl. destruct Hl as [Hl|[<-|[]]]; [|constructor].
  rewrite Forall_forall in Hs. destruct (Hs f Hf) as [cs [Hi [Hkk [Hok _]]]].
  assert (Hfo : Forall (Forall (piece_ok (inl_ (program_strs p)) (fun k => In k (head_keys p)))) (function_pieces f)).
  { apply function_pieces_ok.
    - unfold func_ok in *. eapply stmts_ok_mono; [|exact Hok]. intros x Hx. unfold inl_ in *.
      apply in_flat_map_iff in Hx. destruct Hx as [c [Hc Hx]]. unfold program_strs. apply in_flat_map_iff. exists c. split; [apply Hi; exact Hc | exact Hx].
    - rewrite <- Hk. apply in_map. exact Hf. }
  rewrite Forall_forall in Hfo. apply Hfo. exact Hl.
Qed.
