(* What the compiler can produce: a structural characterisation of the intermediate code
   that compile_expression / comp (compile_body) / compile_clause / compile_program build.

   Every string of the source program that reaches the intermediate code does so in one of
   FOUR kinds of position, and nothing else of the code depends on source text:
     KAtom  an atom, functor name or goal name  -> EStr s        (emitted as repr(s))
     KNum   a numeral                           -> ENum digits   (emitted as str(int(digits)))
     KVar   a variable name                     -> EVar / SAssign target  pyvar v = "V_" ++ v
     (the fourth, the clause-head name, is the fn_name of the function record)
   All other identifiers of the code are fixed (query unify atom functor listpair makelist
   variable ATOM_NIL) or numbered by the compiler (arg<i>, and in the emitter l<n>, cutIf<n>). *)
From Coq Require Import String.
From Coq Require Import List Arith Bool NArith Lia Setoid.
Import ListNotations.
From YP Require Import Base.Str Lang.Ast Comp.IR Comp.CompileBody Comp.CompileClause Comp.CompileTotal.
Local Open Scope string_scope.
Local Open Scope list_scope.

(* ------------------------------------------------------------------ induction principles *)

Section ExprInd.
  Variable P : expr -> Prop.
  Hypothesis Hv : forall x, P (EVar x).
  Hypothesis Hs : forall s, P (EStr s).
  Hypothesis Hn : forall n, P (ENum n).
  Hypothesis Hc : forall f args, Forall P args -> P (ECall f args).
  Hypothesis Hl : forall items, Forall P items -> P (EList items).
  Fixpoint expr_ind' (e : expr) : P e :=
    let go := fix go (l : list expr) : Forall P l :=
      match l with [] => Forall_nil P | x :: r => Forall_cons x (expr_ind' x) (go r) end in
    match e with
    | EVar x => Hv x | EStr s => Hs s | ENum n => Hn n
    | ECall f args => Hc f args (go args)
    | EList items => Hl items (go items)
    end.
End ExprInd.

Section StmtInd.
  Variable P : stmt -> Prop.
  Hypothesis Ha : forall x e, P (SAssign x e).
  Hypothesis Hf : forall it body, Forall P body -> P (SForeach it body).
  Hypothesis Hyf : P SYieldFalse.
  Hypothesis Hyt : P SYieldTrue.
  Hypothesis Hr : P SReturn.
  Hypothesis Hb : forall l body, Forall P body -> P (SBlock l body).
  Hypothesis Hbb : forall l, P (SBreakBlock l).
  Fixpoint stmt_ind' (st : stmt) : P st :=
    let go := fix go (l : list stmt) : Forall P l :=
      match l with [] => Forall_nil P | x :: r => Forall_cons x (stmt_ind' x) (go r) end in
    match st with
    | SAssign x e => Ha x e
    | SForeach it body => Hf it body (go body)
    | SYieldFalse => Hyf | SYieldTrue => Hyt | SReturn => Hr
    | SBlock l body => Hb l body (go body)
    | SBreakBlock l => Hbb l
    end.
End StmtInd.

(* ------------------------------------------------------------------ the strings of a program, by kind *)

Inductive kind := KVar | KAtom | KNum.
Definition kstr := (kind * str)%type.

Fixpoint sterm_strs (t : sterm) : list kstr :=
  match t with
  | SAtom a => [(KAtom, a)]
  | SNum n => [(KNum, n)]
  | SVar v => [(KVar, v)]
  | SFun f args => (KAtom, f) :: flat_map sterm_strs args
  | SList items => flat_map sterm_strs items
  | SPair h t => sterm_strs h ++ sterm_strs t
  end.

Fixpoint body_strs (b : body) : list kstr :=
  match b with
  | BTrue | BFail | BCut | BMark _ => []
  | BCall f args => (KAtom, f) :: flat_map sterm_strs args
  | BAnd a b | BOr a b | BIf a b => body_strs a ++ body_strs b
  | BNot a => body_strs a
  end.

Definition clause_strs (c : clause) : list kstr := flat_map sterm_strs (c_args c) ++ body_strs (c_body c).
Definition program_strs (p : program) : list kstr := flat_map clause_strs p.

Lemma in_flat_map_iff {A B} (f : A -> list B) l y : In y (flat_map f l) <-> exists x, In x l /\ In y (f x).
Proof. apply in_flat_map. Qed.

Lemma sterm_vars_strs t v : In v (sterm_vars t) <-> In (KVar, v) (sterm_strs t).
Proof.
  induction t as [a|n|w|f args IH|items IH|h t IHh IHt] using sterm_ind'; cbn [sterm_vars sterm_strs].
  - simpl. split; [tauto | intros [H|[]]; discriminate].
  - simpl. split; [tauto | intros [H|[]]; discriminate].
  - simpl. split; [intros [->|[]]; auto | intros [H|[]]; injection H; auto].
  - rewrite Forall_forall in IH. split.
    + intros H. apply in_flat_map_iff in H. destruct H as [x [Hx Hv]]. right. apply in_flat_map_iff. exists x. split; auto. apply IH; auto.
    + intros [H|H]; [discriminate|]. apply in_flat_map_iff in H. destruct H as [x [Hx Hv]]. apply in_flat_map_iff. exists x. split; auto.
      apply IH; auto.
  - rewrite Forall_forall in IH.
    split; intros H; apply in_flat_map_iff in H; destruct H as [x [Hx Hv]]; apply in_flat_map_iff; exists x; (split; [auto | apply IH; auto]).
  - split; intros H; apply in_app_iff in H; apply in_app_iff; destruct H as [H|H]; [left; apply IHh|right; apply IHt|left; apply IHh|right; apply IHt]; exact H.
Qed.

Lemma args_vars_strs args v : In v (flat_map sterm_vars args) <-> In (KVar, v) (flat_map sterm_strs args).
Proof.
  split; intros H; apply in_flat_map_iff in H; destruct H as [x [Hx Hv]]; apply in_flat_map_iff; exists x; (split; [auto | apply sterm_vars_strs; auto]).
Qed.

Lemma body_vars_strs b v : In v (body_vars b) <-> In (KVar, v) (body_strs b).
Proof.
  induction b; cbn [body_vars body_strs]; try (simpl; tauto); try exact IHb;
    try (split; intros H; apply in_app_iff in H; apply in_app_iff; destruct H as [H|H]; [left; apply IHb1|right; apply IHb2|left; apply IHb1|right; apply IHb2]; exact H).
  split.
  - intros H. right. apply args_vars_strs. exact H.
  - intros [H|H]; [discriminate | apply args_vars_strs; exact H].
Qed.

(* ------------------------------------------------------------------ the shape of the code *)

Definition ATOM_NIL : str := s_ "ATOM_NIL".

Section Shape.
  Variable P : kstr -> Prop.       (* the strings of the source that may occur *)

  (* the image of compile_expression on terms over the allowed strings *)
  Definition term_expr (e : expr) : Prop := exists t, e = compile_expression t /\ Forall P (sterm_strs t).

  Variable A : nat.                (* arity of the function: arg1 .. argA are its parameters *)

  Inductive stmt_ok : stmt -> Prop :=
  | so_alias v i : P (KVar, v) -> i < A -> stmt_ok (SAssign (pyvar v) (EVar (argvar i)))
  | so_decl v : P (KVar, v) -> stmt_ok (SAssign (pyvar v) (ECall (s_ "variable") []))
  | so_query f args body : P (KAtom, f) -> Forall term_expr args -> Forall stmt_ok body ->
      stmt_ok (SForeach (ECall (s_ "query") [EStr f; EList args]) body)
  | so_unify i a body : i < A -> term_expr a -> Forall stmt_ok body ->
      stmt_ok (SForeach (ECall (s_ "unify") [EVar (argvar i); a]) body)
  | so_yf : stmt_ok SYieldFalse
  | so_yt : stmt_ok SYieldTrue
  | so_ret : stmt_ok SReturn
  | so_block l body : Forall stmt_ok body -> stmt_ok (SBlock l body)
  | so_break l : stmt_ok (SBreakBlock l).
End Shape.

Lemma term_expr_mono (P Q : kstr -> Prop) : (forall x, P x -> Q x) -> forall e, term_expr P e -> term_expr Q e.
Proof.
  intros PQ e [t [-> H]]. exists t. split; [reflexivity|]. eapply Forall_impl; [|exact H]. exact PQ.
Qed.

Lemma stmt_ok_mono (P Q : kstr -> Prop) A : (forall x, P x -> Q x) -> forall st, stmt_ok P A st -> stmt_ok Q A st.
Proof.
  intros PQ st. induction st as [x e|it body IH| | | |l body IH|l] using stmt_ind'; intros H; inversion H; subst;
    try (constructor; auto; fail).
  - constructor; auto.
    + eapply Forall_impl; [|eassumption]. apply term_expr_mono; exact PQ.
    + rewrite Forall_forall in *. auto.
  - constructor; auto.
    + eapply term_expr_mono; eauto.
    + rewrite Forall_forall in *. auto.
  - constructor. rewrite Forall_forall in *. auto.
Qed.

Lemma stmts_ok_mono (P Q : kstr -> Prop) A : (forall x, P x -> Q x) -> forall c, Forall (stmt_ok P A) c -> Forall (stmt_ok Q A) c.
Proof. intros PQ c H. eapply Forall_impl; [|exact H]. apply stmt_ok_mono; exact PQ. Qed.

Definition inl_ (l : list kstr) : kstr -> Prop := fun x => In x l.

Lemma compile_expression_ok t : term_expr (inl_ (sterm_strs t)) (compile_expression t).
Proof. exists t. split; [reflexivity|]. apply Forall_forall. auto. Qed.

(* ------------------------------------------------------------------ compile_body *)

Ltac incl_tac :=
  let z := fresh "z" in let Hz := fresh "Hz" in
  intros z Hz; unfold inl_ in Hz |- *; simpl in Hz |- *; repeat rewrite in_app_iff in Hz; repeat rewrite in_app_iff; simpl in Hz |- *; tauto.

Lemma body_strs_loc m b : body_strs (loc m b) = body_strs b.
Proof. induction b; cbn [loc body_strs]; try reflexivity; congruence. Qed.

Lemma comp_ok A : forall n b cnt code k, comp n b cnt = Some (code, k) -> Forall (stmt_ok (inl_ (body_strs b)) A) code.
Proof.
  induction n as [|n IH]; intros b cnt code k H; [discriminate|].
  cbn [comp] in H.
  assert (RW : forall b', comp n b' cnt = Some (code, k) -> (forall x, In x (body_strs b') -> In x (body_strs b)) ->
               Forall (stmt_ok (inl_ (body_strs b)) A) code).
  { intros b' Hc Hi. eapply stmts_ok_mono; [|eapply IH; exact Hc]. exact Hi. }
  destruct b as [g ga| | | |l|a K|x y|c t|x].
  - apply (RW _ H). incl_tac.
  - injection H as <- _. repeat constructor.
  - apply (RW _ H). incl_tac.
  - injection H as <- _. repeat constructor.
  - apply (RW _ H). incl_tac.
  - destruct a as [g ga| | | |l|x y|x y|c t|x].
    + destruct (comp n K cnt) as [[c k0]|] eqn:E; [|discriminate]. injection H as <- _.
      constructor; [|constructor]. constructor.
      * unfold inl_. cbn [body_strs app In]. auto.
      * apply Forall_forall. intros e He. apply in_map_iff in He. destruct He as [t [<- Ht]].
        eapply term_expr_mono; [|apply compile_expression_ok].
        unfold inl_. intros z Hz. cbn [body_strs]. rewrite in_app_iff. left. right. apply in_flat_map. eauto.
      * eapply stmts_ok_mono; [|eapply IH; exact E]. incl_tac.
    + apply (RW _ H). incl_tac.
    + injection H as <- _. constructor.
    + destruct (comp n K cnt) as [[c k0]|] eqn:E; [|discriminate]. injection H as <- _.
      apply Forall_app. split; [|repeat constructor].
      eapply stmts_ok_mono; [|eapply IH; exact E]. incl_tac.
    + destruct (comp n K cnt) as [[c k0]|] eqn:E; [|discriminate]. injection H as <- _.
      apply Forall_app. split; [|repeat constructor].
      eapply stmts_ok_mono; [|eapply IH; exact E]. incl_tac.
    + apply (RW _ H). incl_tac.
    + destruct x; apply (RW _ H); incl_tac.
    + apply (RW _ H). incl_tac.
    + apply (RW _ H). incl_tac.
  - assert (PL : forall x', (forall c1 k1 c2 k2, comp n x' cnt = Some (c1, k1) -> comp n y k1 = Some (c2, k2) -> True) ->
       match comp n x' cnt with Some (c1,k1) => match comp n y k1 with Some (c2,k2) => Some (c1++c2,k2) | None => None end | None => None end = Some (code, k) ->
       (forall z, In z (body_strs x') -> In z (body_strs (BOr x y))) ->
       Forall (stmt_ok (inl_ (body_strs (BOr x y))) A) code).
    { intros x' _ Hc Hi. destruct (comp n x' cnt) as [[c1 k1]|] eqn:E1; [|discriminate].
      destruct (comp n y k1) as [[c2 k2]|] eqn:E2; [|discriminate]. injection Hc as <- _.
      apply Forall_app. split.
      - eapply stmts_ok_mono; [|eapply IH; exact E1]. exact Hi.
      - eapply stmts_ok_mono; [|eapply IH; exact E2]. incl_tac. }
    destruct x as [g ga| | | |l|x1 x2|x1 x2|c t|x1]; try (apply (PL _ (fun _ _ _ _ _ _ => Logic.I) H); incl_tac).
    destruct (tcut c).
    { match type of H with match comp n ?X ?c0 with _ => _ end = _ => destruct (comp n X c0) as [[c1 k1]|] eqn:E1; [|discriminate] end.
      destruct (comp n y k1) as [[c2 k2]|] eqn:E2; [|discriminate].
      injection H as <- _. constructor; [|constructor]. constructor.
      constructor.
      - constructor. eapply stmts_ok_mono; [|eapply IH; exact E1].
        intros z Hz. unfold inl_ in Hz |- *. cbn [body_strs] in Hz |- *. rewrite body_strs_loc in Hz.
        repeat rewrite in_app_iff in Hz. repeat rewrite in_app_iff. cbn [In] in Hz. tauto.
      - eapply stmts_ok_mono; [|eapply IH; exact E2]. incl_tac. }
    match type of H with match comp n ?X ?c0 with _ => _ end = _ => destruct (comp n X c0) as [[c1 k1]|] eqn:E1; [|discriminate] end.
    injection H as <- _. constructor; [|constructor]. constructor.
    eapply stmts_ok_mono; [|eapply IH; exact E1]. incl_tac.
  - apply (RW _ H). incl_tac.
  - apply (RW _ H). incl_tac.
Qed.

(* ------------------------------------------------------------------ compile_clause *)

Lemma mem_str_In x l : mem_str x l = true <-> In x l.
Proof.
  induction l as [|y r IH]; simpl; [split; [discriminate|tauto]|].
  rewrite orb_true_iff, IH, str_eqb_eq. split; intros [H|H]; auto.
Qed.

Lemma dedup_acc_sub seen l x : In x (dedup_acc seen l) -> In x l.
Proof.
  revert seen; induction l as [|y r IH]; intros seen H; simpl in *; [exact H|].
  destruct (mem_str y seen); [right; eapply IH; eauto|].
  destruct H as [H|H]; [auto | right; eapply IH; eauto].
Qed.

Lemma dedup_acc_cover l : forall seen x, In x l -> In x seen \/ In x (dedup_acc seen l).
Proof.
  induction l as [|y r IH]; intros seen x H; simpl in *; [tauto|].
  destruct (mem_str y seen) eqn:E.
  - destruct H as [<-|H]; [left; apply mem_str_In; exact E | apply IH; exact H].
  - destruct H as [<-|H]; [right; left; reflexivity|].
    destruct (IH (y :: seen) x H) as [[<-|H1]|H1]; [right; left; reflexivity | left; exact H1 | right; right; exact H1].
Qed.

Lemma filter_free_sub bound vars x : In x (filter_free bound vars) -> In x vars.
Proof. unfold filter_free, dedup. intros H. apply dedup_acc_sub in H. apply filter_In in H. tauto. Qed.

Lemma filter_free_cover bound vars x : In x vars -> In x bound \/ In x (filter_free bound vars).
Proof.
  intros H. destruct (mem_str x bound) eqn:E; [left; apply mem_str_In; exact E|]. right.
  unfold filter_free, dedup. destruct (dedup_acc_cover (filter (fun v => negb (mem_str v bound)) vars) [] x) as [[]|H1]; [|exact H1].
  apply filter_In. split; [exact H|]. rewrite E. reflexivity.
Qed.

Lemma head_args_by_pos_length args : length (head_args_by_pos args) = length args.
Proof. unfold head_args_by_pos. apply map_length. Qed.

Lemma head_args_by_pos_sub args v : In (Some v) (head_args_by_pos args) -> In v (flat_map sterm_vars args).
Proof.
  unfold head_args_by_pos. intros H. apply in_map_iff in H. destruct H as [t [Ht Hin]].
  destruct t; simpl in Ht; try discriminate.
  destruct (Nat.eqb _ 1); [|discriminate]. injection Ht as <-.
  apply in_flat_map_iff. exists (SVar v0). split; [exact Hin | simpl; auto].
Qed.

Lemma some_list_In l v : In v (some_list l) <-> In (Some v) l.
Proof.
  unfold some_list. split.
  - intros H. apply in_flat_map_iff in H. destruct H as [[w|] [Hx Hv]]; simpl in Hv; [|tauto]. destruct Hv as [<-|[]]. exact Hx.
  - intros H. apply in_flat_map_iff. exists (Some v). split; [exact H | simpl; auto].
Qed.

Section ClauseShape.
  Variable P : kstr -> Prop.
  Variable A : nat.

  Lemma head_aliases_ok pos : forall i, (forall v, In (Some v) pos -> P (KVar, v)) -> i + length pos <= A ->
    Forall (stmt_ok P A) (head_aliases i pos).
  Proof.
    induction pos as [|[v|] r IH]; intros i Hv Hl; simpl in *; [constructor| |].
    - constructor; [constructor; [apply Hv; auto | lia] | apply IH; [auto | lia]].
    - apply IH; [auto | lia].
  Qed.

  Lemma arg_unifications_ok code : Forall (stmt_ok P A) code ->
    forall pos args i, i + length args <= A -> Forall (fun a => term_expr P (compile_expression a)) args ->
    Forall (stmt_ok P A) (arg_unifications i pos args code).
  Proof.
    intros Hc pos. induction pos as [|[v|] pr IH]; intros args i Hl Ha; destruct args as [|a ar]; simpl in *; try exact Hc.
    - apply IH; [lia | inversion Ha; auto].
    - inversion Ha; subst. constructor; [|constructor]. constructor; [lia | assumption | apply IH; [lia | assumption]].
  Qed.
End ClauseShape.

Lemma compile_clause_ok c cnt code k : compile_clause c cnt = Some (code, k) ->
  Forall (stmt_ok (inl_ (clause_strs c)) (length (c_args c))) code.
Proof.
  unfold compile_clause. intros H.
  destruct (comp (fuel_body (c_body c)) (c_body c) cnt) as [[bc k1]|] eqn:E; [|discriminate]. injection H as <- _.
  set (P := inl_ (clause_strs c)).
  assert (HV : forall v, In v (flat_map sterm_vars (c_args c)) -> P (KVar, v)).
  { intros v Hv. unfold P, inl_, clause_strs. apply in_app_iff. left. apply args_vars_strs. exact Hv. }
  assert (HB : forall v, In v (body_vars (c_body c)) -> P (KVar, v)).
  { intros v Hv. unfold P, inl_, clause_strs. apply in_app_iff. right. apply body_vars_strs. exact Hv. }
  repeat (apply Forall_app; split).
  - apply head_aliases_ok; [|rewrite head_args_by_pos_length; lia].
    intros v Hv. apply HV. apply head_args_by_pos_sub. exact Hv.
  - apply Forall_forall. intros st Hst. apply in_map_iff in Hst. destruct Hst as [v [<- Hv]].
    constructor. apply HV. eapply filter_free_sub; eauto.
  - apply Forall_forall. intros st Hst. apply in_map_iff in Hst. destruct Hst as [v [<- Hv]].
    constructor. apply HB. eapply filter_free_sub; eauto.
  - apply arg_unifications_ok; [| lia |].
    + eapply stmts_ok_mono; [|eapply comp_ok; exact E].
      intros x Hx. unfold P, inl_, clause_strs in *. apply in_app_iff. right. exact Hx.
    + apply Forall_forall. intros a Ha. eapply term_expr_mono; [|apply compile_expression_ok].
      intros x Hx. unfold P, inl_, clause_strs in *. apply in_app_iff. left. apply in_flat_map_iff. eauto.
Qed.

(* ------------------------------------------------------------------ grouping *)

Lemma key_eqb_eq a b : key_eqb a b = true <-> a = b.
Proof.
  unfold key_eqb. destruct a as [a1 a2], b as [b1 b2]. simpl.
  rewrite andb_true_iff, str_eqb_eq, Nat.eqb_eq. split; [intros [-> ->]; reflexivity | intros H; injection H; auto].
Qed.

(* the head keys of a program: (name, arity) of every clause, first occurrence kept, in order *)
Definition has_key (k : key) (ks : list key) : bool := existsb (fun k' => key_eqb k' k) ks.
Definition head_keys (p : program) : list key :=
  fold_left (fun ks c => if has_key (clause_key c) ks then ks else ks ++ [clause_key c]) p [].

Lemma has_key_In k ks : has_key k ks = true <-> In k ks.
Proof.
  unfold has_key. rewrite existsb_exists. split.
  - intros [x [Hx He]]. apply key_eqb_eq in He. subst. exact Hx.
  - intros H. exists k. split; [exact H | apply key_eqb_eq; reflexivity].
Qed.

Lemma group_insert_keys c gs :
  map fst (group_insert c gs) = if has_key (clause_key c) (map fst gs) then map fst gs else map fst gs ++ [clause_key c].
Proof.
  induction gs as [|[k cs] r IH]; simpl; [reflexivity|].
  destruct (key_eqb k (clause_key c)) eqn:E; simpl; [reflexivity|].
  rewrite IH. destruct (has_key (clause_key c) (map fst r)); reflexivity.
Qed.

Lemma group_fold_keys p : forall gs,
  map fst (fold_left (fun g c => group_insert c g) p gs) =
  fold_left (fun ks c => if has_key (clause_key c) ks then ks else ks ++ [clause_key c]) p (map fst gs).
Proof.
  induction p as [|c r IH]; intros gs; simpl; [reflexivity|].
  rewrite IH, group_insert_keys. reflexivity.
Qed.

Lemma group_program_keys p : map fst (group_program p) = head_keys p.
Proof. unfold group_program, head_keys. rewrite group_fold_keys. reflexivity. Qed.

Lemma NoDup_snoc {A} (l : list A) x : NoDup l -> ~ In x l -> NoDup (l ++ [x]).
Proof.
  induction l as [|y r IH]; intros Hnd Hn; simpl.
  - constructor; [simpl; tauto | constructor].
  - inversion Hnd; subst. constructor.
    + rewrite in_app_iff. simpl. intros [H|[H|[]]]; [tauto | subst; apply Hn; simpl; auto].
    + apply IH; [assumption | intros H; apply Hn; simpl; auto].
Qed.

Lemma head_keys_fold_spec p : forall ks, NoDup ks ->
  let r := fold_left (fun ks c => if has_key (clause_key c) ks then ks else ks ++ [clause_key c]) p ks in
  NoDup r /\ (forall k, In k r <-> In k ks \/ In k (map clause_key p)).
Proof.
  induction p as [|c q IH]; intros ks Hnd; simpl.
  - split; [exact Hnd | intros k; tauto].
  - destruct (has_key (clause_key c) ks) eqn:E.
    + destruct (IH ks Hnd) as [H1 H2]. split; [exact H1|]. intros k. rewrite H2.
      apply has_key_In in E. split; [tauto | intros [H|[<-|H]]; auto].
    + assert (Hn : ~ In (clause_key c) ks) by (intros H; apply has_key_In in H; congruence).
      assert (Hnd' : NoDup (ks ++ [clause_key c])).
      { apply NoDup_snoc; assumption. }
      destruct (IH _ Hnd') as [H1 H2]. split; [exact H1|]. intros k. rewrite H2, in_app_iff. simpl. tauto.
Qed.

Theorem head_keys_spec p : NoDup (head_keys p) /\ (forall k, In k (head_keys p) <-> In k (map clause_key p)).
Proof.
  destruct (head_keys_fold_spec p [] (NoDup_nil _)) as [H1 H2]. split; [exact H1|].
  intros k. unfold head_keys. rewrite H2. simpl. tauto.
Qed.

(* every group holds clauses of the program with the group's key *)
Definition group_inv (p : program) (g : key * list clause) : Prop :=
  Forall (fun c => clause_key c = fst g /\ In c p) (snd g).

Lemma group_insert_inv p c gs : In c p -> Forall (group_inv p) gs -> Forall (group_inv p) (group_insert c gs).
Proof.
  intros Hc. induction gs as [|[k cs] r IH]; intros H; simpl.
  - constructor; [|constructor]. constructor; [|constructor]. simpl. auto.
  - inversion H as [|? ? H1 H2]; subst. destruct (key_eqb k (clause_key c)) eqn:E.
    + constructor; [|exact H2]. apply key_eqb_eq in E. unfold group_inv in *. simpl in *.
      apply Forall_app. split; [exact H1 | constructor; [auto | constructor]].
    + constructor; [exact H1 | apply IH; exact H2].
Qed.

Lemma group_fold_inv p q : forall gs, incl q p -> Forall (group_inv p) gs ->
  Forall (group_inv p) (fold_left (fun g c => group_insert c g) q gs).
Proof.
  induction q as [|c r IH]; intros gs Hi H; simpl; [exact H|].
  apply IH; [intros x Hx; apply Hi; simpl; auto|]. apply group_insert_inv; [apply Hi; simpl; auto | exact H].
Qed.

Lemma group_program_inv p : Forall (group_inv p) (group_program p).
Proof. unfold group_program. apply group_fold_inv; [apply incl_refl | constructor]. Qed.

(* ------------------------------------------------------------------ assigned variables *)

(* the targets of the assignment statements of a piece of code *)
Fixpoint stmt_assigned (st : stmt) : list str :=
  match st with
  | SAssign x _ => [x]
  | SForeach _ body => flat_map stmt_assigned body
  | SBlock _ body => flat_map stmt_assigned body
  | _ => []
  end.
Definition assigned (code : list stmt) : list str := flat_map stmt_assigned code.

Lemma assigned_app a b : assigned (a ++ b) = assigned a ++ assigned b.
Proof. unfold assigned. apply flat_map_app. Qed.

Lemma head_aliases_assigned pos v : forall i, In (Some v) pos -> In (pyvar v) (assigned (head_aliases i pos)).
Proof.
  induction pos as [|[w|] r IH]; intros i H; simpl in *; [tauto| |].
  - destruct H as [H|H]; [injection H as ->; left; reflexivity | right; apply IH; exact H].
  - destruct H as [H|H]; [discriminate | apply IH; exact H].
Qed.

Lemma declare_assigned vs v : In v vs -> In (pyvar v) (assigned (map declare vs)).
Proof.
  intros H. unfold assigned. apply in_flat_map_iff. exists (declare v). split; [apply in_map; exact H | simpl; auto].
Qed.

(* every variable of a clause is assigned at the start of the clause's code: aliased to its
   argument or declared as a fresh variable() *)
Lemma compile_clause_declares c cnt code k : compile_clause c cnt = Some (code, k) ->
  forall v, In (KVar, v) (clause_strs c) -> In (pyvar v) (assigned code).
Proof.
  unfold compile_clause. intros H v Hv.
  destruct (comp (fuel_body (c_body c)) (c_body c) cnt) as [[bc k1]|] eqn:E; [|discriminate]. injection H as <- _.
  rewrite !assigned_app, !in_app_iff.
  set (pos := head_args_by_pos (c_args c)) in *.
  assert (HH : forall v, In v (flat_map sterm_vars (c_args c)) ->
     In (pyvar v) (assigned (head_aliases 0 pos)) \/
     In (pyvar v) (assigned (map declare (filter_free (some_list pos) (flat_map sterm_vars (c_args c)))))).
  { intros w Hw. destruct (filter_free_cover (some_list pos) _ w Hw) as [H|H].
    - left. apply head_aliases_assigned. apply some_list_In. exact H.
    - right. apply declare_assigned. exact H. }
  unfold clause_strs in Hv. apply in_app_iff in Hv. destruct Hv as [Hv|Hv].
  - apply args_vars_strs in Hv. destruct (HH v Hv); tauto.
  - apply body_vars_strs in Hv.
    destruct (filter_free_cover (some_list pos ++ filter_free (some_list pos) (flat_map sterm_vars (c_args c))) _ v Hv) as [H|H].
    + apply in_app_iff in H. destruct H as [H|H].
      * left. apply head_aliases_assigned. apply some_list_In. exact H.
      * right. left. apply declare_assigned. exact H.
    + right. right. left. apply declare_assigned. exact H.
Qed.

(* ------------------------------------------------------------------ compile_program *)

Definition func_ok (P : kstr -> Prop) (f : func) : Prop := Forall (stmt_ok P (fn_arity f)) (fn_body f).
Definition fn_key (f : func) : key := (fn_name f, fn_arity f).

(* f is the code of the clauses cs of p (all with f's key): its statements have the shapes of
   stmt_ok over the strings of cs, and every variable of cs is assigned in f *)
Definition func_shape (p : program) (f : func) : Prop :=
  exists cs, incl cs p /\ Forall (fun c => clause_key c = fn_key f) cs /\
    func_ok (inl_ (flat_map clause_strs cs)) f /\
    (forall v, In (KVar, v) (flat_map clause_strs cs) -> In (pyvar v) (assigned (fn_body f))).

Lemma compile_clauses_ok A cs : (forall c, In c cs -> length (c_args c) = A) ->
  forall cnt code k, compile_clauses cs cnt = Some (code, k) ->
  Forall (stmt_ok (inl_ (flat_map clause_strs cs)) A) code /\
  (forall v, In (KVar, v) (flat_map clause_strs cs) -> In (pyvar v) (assigned code)).
Proof.
  induction cs as [|c r IH]; intros Hcs cnt code k H; simpl in H.
  - injection H as <- _. split; [constructor | simpl; tauto].
  - destruct (compile_clause c cnt) as [[c1 k1]|] eqn:E1; [|discriminate].
    destruct (compile_clauses r k1) as [[c2 k2]|] eqn:E2; [|discriminate]. injection H as <- _.
    destruct (IH (fun c' Hc' => Hcs c' (or_intror Hc')) _ _ _ E2) as [I1 I2]. split.
    + apply Forall_app. split.
      * rewrite <- (Hcs c (or_introl eq_refl)).
        eapply stmts_ok_mono; [|eapply compile_clause_ok; exact E1].
        intros x Hx. unfold inl_ in *. simpl. apply in_app_iff. auto.
      * eapply stmts_ok_mono; [|exact I1]. intros x Hx. unfold inl_ in *. simpl. apply in_app_iff. auto.
    + intros v Hv. rewrite assigned_app. apply in_app_iff. simpl in Hv. apply in_app_iff in Hv. destruct Hv as [Hv|Hv].
      * left. eapply compile_clause_declares; eauto.
      * right. apply I2. exact Hv.
Qed.

Lemma compile_groups_ok p gs : Forall (group_inv p) gs ->
  forall cnt fs k, compile_groups gs cnt = Some (fs, k) ->
  Forall (func_shape p) fs /\ map fn_key fs = map fst gs.
Proof.
  induction gs as [|[key cs] r IH]; intros Hinv cnt fs k H; simpl in H.
  - injection H as <- _. split; [constructor | reflexivity].
  - inversion Hinv as [|? ? H1 H2]; subst.
    destruct (compile_clauses cs cnt) as [[code k1]|] eqn:E1; [|discriminate].
    destruct (compile_groups r k1) as [[fs' k2]|] eqn:E2; [|discriminate]. injection H as <- _.
    destruct (IH H2 _ _ _ E2) as [I1 I2]. split.
    + constructor; [|exact I1]. unfold group_inv in H1. simpl in H1. rewrite Forall_forall in H1.
      exists cs. unfold func_ok, fn_key. simpl.
      assert (HA : forall c, In c cs -> length (c_args c) = snd key).
      { intros c Hc. destruct (H1 c Hc) as [Hk _]. rewrite <- Hk. reflexivity. }
      destruct (compile_clauses_ok (snd key) cs HA _ _ _ E1) as [J1 J2].
      split; [intros c Hc; apply H1; exact Hc|]. split; [|split; assumption].
      apply Forall_forall. intros c Hc. destruct (H1 c Hc) as [Hk _]. rewrite Hk. destruct key; reflexivity.
    + simpl. rewrite I2. unfold fn_key. simpl. destruct key; reflexivity.
Qed.

(* COMPILE_PROGRAM_SHAPE: the functions of the code are exactly the head keys of the program, in
   first-occurrence order; every function is the code of clauses of the program with its key: all
   its statements have one of the nine shapes of stmt_ok over the strings of those clauses, and
   every Prolog variable of those clauses is assigned in the function *)
Theorem compile_program_shape p ir : compile_program p = Some ir ->
  Forall (func_shape p) ir /\ map fn_key ir = head_keys p.
Proof.
  unfold compile_program. intros H.
  destruct (compile_groups (group_program p) 0) as [[fs k]|] eqn:E; [|discriminate]. injection H as <-.
  destruct (compile_groups_ok p _ (group_program_inv p) _ _ _ E) as [H1 H2].
  split; [exact H1 | rewrite H2; apply group_program_keys].
Qed.
