(* FRONT_LEXICAL: every program the front end returns is lexically well-formed in the sense of
   Comp/EmitLines.v lexical_ok: variable names are non-empty words over [A-Za-z0-9_] (VARIABLE tokens, or the
   visitor's x<n> for anonymous variables), numerals are non-empty digit strings (NUMERAL tokens), clause-head
   names passed the identifier test.  Proof: the parse tree's leaves are the tokens (parse_yield), every token
   is in the language of its lexer rule (lex_exact), and the visitor copies token texts. *)
From Coq Require Import String.
From Coq Require Import List Arith Bool NArith Lia.
Import ListNotations.
From YP Require Import Base.Str Lang.Ast Lang.Lexer Lang.Cst Lang.Parser Lang.ParserSound Lang.Unquote Lang.Literals Lang.Front
  Comp.EmitShape Comp.EmitLines Comp.CompileTextSound.
From YP Require Engine.Keys.
Local Open Scope list_scope.

Definition tok_ok (t : tok) : Prop :=
  match fst t with
  | R_VARIABLE => chars_ok (snd t) = true
  | R_NUMERAL => Keys.digits_ok (snd t) = true
  | _ => True
  end.

Definition lexed (x : kstr) : Prop := kstr_lex_ok x = true.

Lemma rule_lang_tok_ok it : rule_lang (fst it) (snd it) -> tok_ok (norm it).
Proof.
  destruct it as [r w]. unfold norm. simpl. destruct r; simpl; try exact (fun _ => Logic.I); unfold tok_ok; simpl.
  - intros [c [w' [-> [Hc Hw]]]]. simpl. rewrite Hw. unfold is_varstart in Hc. unfold is_character, is_lc.
    apply orb_true_iff in Hc. destruct Hc as [Hc|Hc]; rewrite Hc; rewrite ?orb_true_r; reflexivity.
  - intros [c [w' [-> [Hc Hw]]]]. unfold Keys.digits_ok. simpl. change Keys.is_digit with is_digit. rewrite Hc, Hw. reflexivity.
Qed.

Lemma sep_commas_Forall (Q : tok -> Prop) ls : Forall Q (sep_commas ls) -> Forall (Forall Q) ls.
Proof.
  induction ls as [|x r IH]; intros H; [constructor|]. destruct r as [|y r'].
  - constructor; [exact H | constructor].
  - change (sep_commas (x :: y :: r')) with (x ++ fx R_COMMA :: sep_commas (y :: r')) in H.
    apply Forall_app in H. destruct H as [H1 H2]. inversion H2; subst. constructor; [exact H1 | apply IH; assumption].
Qed.

Lemma anon_name_ok k : chars_ok (anon_name k) = true.
Proof.
  unfold anon_name, chars_ok. simpl. apply (digits_ok_chars _ (Keys.dec_of_nat_digits (S k))).
Qed.

Lemma v_var_lexed v k x k' : v_var v k = (x, k') -> tok_ok (R_VARIABLE, v) -> Forall lexed (sterm_strs x).
Proof.
  unfold v_var. destruct (is_anon v); intros H Hv; injection H as <- <-; simpl; constructor; try constructor.
  - apply anon_name_ok.
  - exact Hv.
Qed.

Lemma sterm_strs_fold_pairs items x :
  sterm_strs (fold_pairs items x) = flat_map sterm_strs items ++ sterm_strs x.
Proof.
  unfold fold_pairs. induction items as [|a r IH]; cbn [fold_right flat_map sterm_strs app]; [reflexivity|].
  rewrite IH, app_assoc. reflexivity.
Qed.

Definition term_lexed (t : cterm) : Prop :=
  forall k st k', v_term t k = (Some st, k') -> Forall tok_ok (y_term t) -> Forall lexed (sterm_strs st).

Lemma v_terms_lexed l : Forall term_lexed l ->
  forall k sts k', v_terms l k = (Some sts, k') -> Forall (fun t => Forall tok_ok (y_term t)) l -> Forall lexed (flat_map sterm_strs sts).
Proof.
  induction 1 as [|t l Ht _ IH]; intros k sts k' H Hy; cbn [v_terms] in H.
  - injection H as <- <-. constructor.
  - destruct (v_term t k) as [x' k1] eqn:Et. destruct (v_terms l k1) as [r' k2] eqn:Er.
    destruct x' as [x'|]; destruct r' as [r'|]; simpl in H; try discriminate.
    injection H as <- <-. inversion Hy; subst. simpl. apply Forall_app. split; [eapply Ht; eauto | eapply IH; eauto].
Qed.

Lemma Forall_mid {A} (Q : A -> Prop) a l b : Forall Q (a :: l ++ [b]) -> Forall Q l.
Proof. intros H. inversion H; subst. match goal with H2 : Forall Q (l ++ [b]) |- _ => apply Forall_app in H2; tauto end. Qed.

Lemma v_term_lexed : forall t, term_lexed t.
Proof.
  induction t as [a|a args IH|a n|v|op t IH|l op r IHl IHr|op l r IHl IHr|t IH|items IH|h v IH|h rest v IHh IHr]
    using cterm_ind'; intros k st k' H Hy.
  - destruct a; simpl in H; injection H as <- <-; simpl; constructor; try constructor; try reflexivity.
    inversion Hy; subst. assumption.
  - rewrite v_term_functor in H. destruct (v_terms args k) as [args' k1] eqn:E.
    destruct (atom_name a); destruct args' as [args'|]; simpl in H; try discriminate.
    injection H as <- <-. simpl. constructor; [reflexivity|].
    cbn [y_term] in Hy. inversion Hy as [|? ? _ Hy2]; subst. apply Forall_mid in Hy2.
    eapply v_terms_lexed; eauto. apply sep_commas_Forall in Hy2. rewrite Forall_map in Hy2. exact Hy2.
  - simpl in H. discriminate.
  - simpl in H. destruct (v_var v k) as [x k1] eqn:E. injection H as <- <-. eapply v_var_lexed; eauto.
    inversion Hy; subst. assumption.
  - simpl in H. destruct (v_term t k) as [t' k1] eqn:E. destruct t' as [t'|]; simpl in H; [|discriminate].
    injection H as <- <-. simpl. constructor; [reflexivity|]. rewrite app_nil_r. eapply IH; eauto.
    cbn [y_term] in Hy. inversion Hy; subst. assumption.
  - simpl in H. destruct (v_term l k) as [l' k1] eqn:El. destruct (v_term r k1) as [r' k2] eqn:Er.
    destruct l' as [l'|]; destruct r' as [r'|]; simpl in H; try discriminate.
    injection H as <- <-. simpl. constructor; [reflexivity|]. rewrite app_nil_r.
    cbn [y_term] in Hy. apply Forall_app in Hy. destruct Hy as [Hy1 Hy2]. inversion Hy2; subst.
    apply Forall_app. split; [eapply IHl | eapply IHr]; eauto.
  - simpl in H. destruct (v_term l k) as [l' k1] eqn:El. destruct (v_term r k1) as [r' k2] eqn:Er.
    destruct l' as [l'|]; destruct r' as [r'|]; simpl in H; try discriminate.
    injection H as <- <-. simpl. constructor; [reflexivity|]. rewrite app_nil_r.
    cbn [y_term] in Hy. inversion Hy as [|? ? _ Hy1]; subst. inversion Hy1 as [|? ? _ Hy2]; subst.
    apply Forall_app in Hy2. destruct Hy2 as [Hya Hyb]. inversion Hyb as [|? ? _ Hyc]; subst. apply Forall_app in Hyc. destruct Hyc as [Hyc _].
    apply Forall_app. split; [eapply IHl | eapply IHr]; eauto.
  - simpl in H. eapply IH; eauto. cbn [y_term] in Hy. apply Forall_mid in Hy. exact Hy.
  - rewrite v_term_list in H. destruct (v_terms items k) as [l k1] eqn:E.
    destruct l as [l|]; simpl in H; [|discriminate]. injection H as <- <-. simpl.
    cbn [y_term] in Hy. apply Forall_mid in Hy.
    eapply v_terms_lexed; eauto. apply sep_commas_Forall in Hy. rewrite Forall_map in Hy. exact Hy.
  - simpl in H. destruct (v_term h k) as [h' k1] eqn:Eh. destruct (v_var v k1) as [x k2] eqn:Ev.
    destruct h' as [h'|]; simpl in H; [|discriminate]. injection H as <- <-.
    cbn [y_term] in Hy. inversion Hy as [|? ? _ Hy1]; subst. apply Forall_app in Hy1. destruct Hy1 as [Hya Hyb].
    inversion Hyb as [|? ? _ Hyc]; subst. inversion Hyc as [|? ? Hv _]; subst.
    simpl. apply Forall_app. split; [eapply IH; eauto | eapply v_var_lexed; eauto].
  - rewrite v_term_listpair2 in H. destruct (v_term h k) as [h' k1] eqn:Eh.
    destruct (v_terms rest k1) as [l k2] eqn:Er. destruct (v_var v k2) as [x k3] eqn:Ev.
    destruct h' as [h'|]; destruct l as [l|]; cbn [opt2] in H; try discriminate. injection H as <- <-.
    cbn [y_term] in Hy. inversion Hy as [|? ? _ Hy1]; subst. apply Forall_app in Hy1. destruct Hy1 as [Hya Hyb].
    inversion Hyb as [|? ? _ Hyc]; subst. apply Forall_app in Hyc. destruct Hyc as [Hyd Hye].
    inversion Hye as [|? ? _ Hyf]; subst. inversion Hyf as [|? ? Hv _]; subst.
    cbn [sterm_strs]. rewrite sterm_strs_fold_pairs.
    apply Forall_app. split; [eapply IHh; eauto|].
    apply Forall_app. split; [|eapply v_var_lexed; eauto].
    eapply v_terms_lexed; eauto. apply sep_commas_Forall in Hyd. rewrite Forall_map in Hyd. exact Hyd.
Qed.

Lemma v_callable_lexed t k f args k1 : v_callable t k = Some (f, args, k1) -> Forall tok_ok (y_term t) ->
  Forall lexed (flat_map sterm_strs args).
Proof.
  unfold v_callable. destruct (callable_shape t); [|discriminate]. destruct (v_term t k) as [o k'] eqn:E.
  destruct o as [st|]; [|discriminate]. destruct st; try discriminate; intros H Hy; injection H as <- <- <-.
  - constructor.
  - pose proof (v_term_lexed t _ _ _ E Hy) as L. simpl in L. inversion L; assumption.
Qed.

Lemma v_goal_lexed sp k b k1 : v_goal sp k = Some (b, k1) -> Forall tok_ok (y_simple sp) -> Forall lexed (body_strs b).
Proof.
  destruct sp as [| | |t]; simpl; intros H Hy; try (injection H as <- <-; constructor).
  destruct (v_callable t k) as [[[f args] k2]|] eqn:E; [|discriminate]. injection H as <- <-.
  simpl. constructor; [reflexivity | eapply v_callable_lexed; eauto].
Qed.

Lemma v_pe_lexed p : forall k b k1, v_pe p k = Some (b, k1) -> Forall tok_ok (y_pe p) -> Forall lexed (body_strs b).
Proof.
  induction p as [sp|a IH|a IHa b IHb|a IHa b IHb|a IHa b IHb|a IH]; intros k bd k1 H Hy; cbn [v_pe y_pe] in *.
  - eapply v_goal_lexed; eauto.
  - destruct (v_pe a k) as [[a' k2]|] eqn:E; [|discriminate]. injection H as <- <-. simpl.
    inversion Hy; subst. eapply IH; eauto.
  - destruct (v_pe a k) as [[a' k2]|] eqn:Ea; [|discriminate]. destruct (v_pe b k2) as [[b' k3]|] eqn:Eb; [|discriminate].
    injection H as <- <-. apply Forall_app in Hy. destruct Hy as [Hy1 Hy2]. inversion Hy2; subst.
    simpl. apply Forall_app. split; [eapply IHa | eapply IHb]; eauto.
  - destruct (v_pe a k) as [[a' k2]|] eqn:Ea; [|discriminate]. destruct (v_pe b k2) as [[b' k3]|] eqn:Eb; [|discriminate].
    injection H as <- <-. apply Forall_app in Hy. destruct Hy as [Hy1 Hy2]. inversion Hy2; subst.
    simpl. apply Forall_app. split; [eapply IHa | eapply IHb]; eauto.
  - destruct (v_pe a k) as [[a' k2]|] eqn:Ea; [|discriminate]. destruct (v_pe b k2) as [[b' k3]|] eqn:Eb; [|discriminate].
    injection H as <- <-. apply Forall_app in Hy. destruct Hy as [Hy1 Hy2]. inversion Hy2; subst.
    simpl. apply Forall_app. split; [eapply IHa | eapply IHb]; eauto.
  - eapply IH; eauto. apply Forall_mid in Hy. exact Hy.
Qed.

Lemma v_head_lexed sp k f args k1 : v_head sp k = Some (f, args, k1) -> Forall tok_ok (y_simple sp) ->
  Forall lexed (flat_map sterm_strs args).
Proof.
  destruct sp as [| | |t]; simpl; try discriminate. intros H Hy.
  destruct (v_callable t k) as [[[f' args'] k2]|] eqn:E; [|discriminate].
  destruct (valid_pred_name f'); [|discriminate]. injection H as <- <- <-. eapply v_callable_lexed; eauto.
Qed.

Lemma v_clause_lexed c k cl k1 : v_clause c k = Some (cl, k1) -> Forall tok_ok (y_clause c) -> Forall lexed (clause_strs cl).
Proof.
  destruct c as [h|h b]; simpl; intros H Hy.
  - destruct (v_head h k) as [[[f args] k2]|] eqn:E; [|discriminate]. injection H as <- <-.
    apply Forall_app in Hy. destruct Hy as [Hy1 _]. unfold clause_strs. simpl. rewrite app_nil_r. eapply v_head_lexed; eauto.
  - destruct (v_head h k) as [[[f args] k2]|] eqn:E; [|discriminate].
    destruct (v_pe b k2) as [[b' k3]|] eqn:Eb; [|discriminate]. injection H as <- <-.
    apply Forall_app in Hy. destruct Hy as [Hy1 Hy2]. inversion Hy2 as [|? ? _ Hy3]; subst. apply Forall_app in Hy3. destruct Hy3 as [Hy3 _].
    unfold clause_strs. simpl. apply Forall_app. split; [eapply v_head_lexed; eauto | eapply v_pe_lexed; eauto].
Qed.

Lemma v_program_lexed cst : forall k p k1, v_program cst k = Some (p, k1) -> Forall tok_ok (yield cst) -> Forall lexed (program_strs p).
Proof.
  induction cst as [|c r IH]; intros k p k1 H Hy; simpl in H.
  - injection H as <- <-. constructor.
  - unfold yield in Hy. cbn [flat_map] in Hy. apply Forall_app in Hy. destruct Hy as [Hy1 Hy2]. destruct c as [cc|sp].
    + destruct (v_clause cc k) as [[cl k2]|] eqn:E; [|discriminate].
      destruct (v_program r k2) as [[l k3]|] eqn:Er; [|discriminate]. injection H as <- <-.
      unfold program_strs. cbn [flat_map]. apply Forall_app. split; [eapply v_clause_lexed; eauto | eapply IH; eauto].
    + destruct (v_directive sp k) as [k2|]; [|discriminate]. eapply IH; eauto.
Qed.

(* FRONT_LEXICAL *)
Theorem front_lexical s p : front s = Some p -> lexical_ok p = true.
Proof.
  intros H. pose proof (front_head_names s p H) as Hn.
  apply front_whole_input in H. destruct H as [items [cst [k [_ [_ [Hl [Hy [Hv _]]]]]]]].
  assert (Ht : Forall tok_ok (yield cst)).
  { rewrite Hy. apply Forall_forall. intros t Ht. apply in_map_iff in Ht. destruct Ht as [it [<- Hit]].
    apply filter_In in Hit. destruct Hit as [Hit _]. apply rule_lang_tok_ok. rewrite Forall_forall in Hl. apply Hl. exact Hit. }
  pose proof (v_program_lexed cst 0 p k Hv Ht) as L.
  unfold lexical_ok. apply andb_true_iff. split.
  - apply forallb_forall. intros x Hx. rewrite Forall_forall in L. apply L. exact Hx.
  - apply forallb_forall. intros c Hc. rewrite Forall_forall in Hn. apply Hn. exact Hc.
Qed.

(* the unconditional forms of the line and lexeme theorems for accepted source texts *)
Theorem text_lines_exact printable s text : CompileText.compile_text printable s = CompileText.CText text ->
  exists p ir, front s = Some p /\ CompileClause.compile_program p = Some ir /\
    split_nl text = EmitPieces.emit_lines (PyRepr.py_repr printable) ir.
Proof.
  intros H. destruct (text_lines printable s text H) as [p [ir [Hf [Hc Hl]]]]. exists p, ir.
  split; [exact Hf|]. split; [exact Hc|]. apply Hl. eapply front_lexical; eauto.
Qed.
