(* The intermediate code of yp_generator.py (YPCode* classes), one constructor per class
   that the compiler can produce:

     YPCodeVar(name)            EVar name        a Python identifier (V_X, argN, ATOM_NIL)
     YPCodeExpr(s)              EStr s           emitted as repr(s): a Python string literal
     YPCodeValue(digits)        ENum digits      emitted as str(int(digits))
     YPCodeCall(f, args)        ECall f args     f in atom functor listpair makelist variable query unify
     YPCodeList(items)          EList items

     YPCodeAssign(lhs, rhs)     SAssign lhs rhs
     YPCodeForeach(expr, code)  SForeach expr code
     YPCodeYieldFalse / YieldTrue / YieldBreak        SYieldFalse / SYieldTrue / SReturn
     YPCodeBreakableBlock(label, code)                SBlock label code     (label "cutIf<n>")
     YPCodeBreakBlock(label)                          SBreakBlock label
     YPCodeFunction(name, args, body)                 {| fn_name; fn_arity; fn_body |}     *)
From Coq Require Import List Arith.
Import ListNotations.
From YP Require Import Base.Str.

Inductive expr :=
| EVar (name : str)
| EStr (s : str)
| ENum (digits : str)
| ECall (f : str) (args : list expr)
| EList (items : list expr).

Inductive stmt :=
| SAssign (lhs : str) (rhs : expr)
| SForeach (it : expr) (body : list stmt)
| SYieldFalse | SYieldTrue | SReturn
| SBlock (label : nat) (body : list stmt)
| SBreakBlock (label : nat).

Record func := { fn_name : str; fn_arity : nat; fn_body : list stmt }.
Definition ir_program := list func.
