(* The size limits of the host interpreter that decide whether the emitted text can be loaded
   (fix D13: _compile_prolog_from_stream byte-compiles its own output and raises
   CompilerError "program too large for Python" when CPython refuses it), as a STATIC function
   of the intermediate code.  CPython 3.12 constants (named in the trusted base, compared with the
   implementation's verdict on boundary inputs on every run):

     CO_MAXBLOCKS = 20   Python/compile.c, compiler_push_fblock: a `for` statement pushes one frame
                         block; pushing when 20 are open is "too many statically nested blocks".
                         `if` statements push none.  In the emitted text the `for` statements are:
                         the wrapper `for _ in [1]:` of every function, one per YPCodeForeach, one
                         `for _ in [1]:` per YPCodeBreakableBlock with a non-empty body.
     MAXLEVEL = 200      Parser/tokenizer.c: opening a bracket when 200 are open is "too many nested
                         parentheses".  Brackets inside string literals are not tokens.  In the
                         emitted text every expression starts at bracket level 0; a call and a
                         list display open one bracket each.
     4300 digits         sys.int_info.default_max_str_digits: int(text) of a decimal text with more
                         than 4300 digits raises ValueError - generate_value computes
                         str(int(numeral)), so such a numeral makes the generator itself raise.  *)
From Coq Require Import List Arith Bool.
Import ListNotations.
From YP Require Import Base.Str Comp.IR.

Definition CO_MAXBLOCKS : nat := 20.
Definition MAXLEVEL : nat := 200.
Definition MAX_STR_DIGITS : nat := 4300.

Definition list_max (l : list nat) : nat := fold_right Nat.max 0 l.

(* deepest nesting of open brackets in emit_expr e *)
Fixpoint bdepth (e : expr) : nat :=
  match e with
  | EVar _ | EStr _ | ENum _ => 0
  | ECall _ args => S (list_max (map bdepth args))
  | EList items => S (list_max (map bdepth items))
  end.

(* all numerals short enough for int() *)
Fixpoint nums_ok (e : expr) : bool :=
  match e with
  | EVar _ | EStr _ => true
  | ENum digits => Nat.leb (length digits) MAX_STR_DIGITS
  | ECall _ args => forallb nums_ok args
  | EList items => forallb nums_ok items
  end.

(* deepest nesting of `for` statements in emit_stmt st *)
Fixpoint fdepth (st : stmt) : nat :=
  match st with
  | SForeach _ body => S (list_max (map fdepth body))
  | SBlock _ body => match body with [] => 0 | _ => S (list_max (map fdepth body)) end
  | _ => 0
  end.

(* deepest bracket nesting of any expression of the statement *)
Fixpoint sbdepth (st : stmt) : nat :=
  match st with
  | SAssign _ e => bdepth e
  | SForeach it body => Nat.max (bdepth it) (list_max (map sbdepth body))
  | SBlock _ body => list_max (map sbdepth body)
  | _ => 0
  end.

Fixpoint snums_ok (st : stmt) : bool :=
  match st with
  | SAssign _ e => nums_ok e
  | SForeach it body => nums_ok it && forallb snums_ok body
  | SBlock _ body => forallb snums_ok body
  | _ => true
  end.

(* the wrapper loop of generate_function counts *)
Definition func_fdepth (f : func) : nat := S (list_max (map fdepth (fn_body f))).
Definition func_bdepth (f : func) : nat := list_max (map sbdepth (fn_body f)).

Definition func_fits (f : func) : bool :=
  Nat.leb (func_fdepth f) CO_MAXBLOCKS && Nat.leb (func_bdepth f) MAXLEVEL.

(* compile(pythoncode) succeeds *)
Definition py_limits (p : ir_program) : bool := forallb func_fits p.
(* generate() does not raise *)
Definition ir_nums_ok (p : ir_program) : bool := forallb (fun f => forallb snums_ok (fn_body f)) p.
