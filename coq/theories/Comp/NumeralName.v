(* The compiler's own refusal of a compound term or goal whose name is a numeral (`1(a)`).

   The visitor builds Functor(NumeralTerm('1'), [..]) without complaint; compile_expression / compile_predicate
   raise AttributeError (`expr.name.value`) when they are CALLED on it -- and only then: compile_body drops the
   continuation of `fail` as dead code, so `p :- fail, 1(a).` compiles while `p :- (fail ; a), 1(a).` raises.
   The front end model (Lang/Unquote.v) keeps such a functor in the AST under the name backslash ++ digits; no atom
   of a source text has a backslash in its name (unquoteString removes them all) and the only other names that
   begin with a backslash are the operators \= and \==.  The compiler reaches the functor exactly when that name
   appears in the intermediate code. *)
From Coq Require Import List NArith Bool.
Import ListNotations.
From YP Require Import Base.Str Comp.IR.

Definition digit_cp (c : N) : bool := ((48 <=? c) && (c <=? 57))%N.
Definition bad_name (s : str) : bool := match s with 92%N :: c :: _ => digit_cp c | _ => false end.

Fixpoint expr_bad (e : expr) : bool :=
  let go := fix go (l : list expr) : bool := match l with [] => false | x :: r => expr_bad x || go r end in
  match e with
  | EStr s => bad_name s
  | ECall _ args => go args
  | EList items => go items
  | EVar _ | ENum _ => false
  end.

Fixpoint stmt_bad (st : stmt) : bool :=
  let go := fix go (l : list stmt) : bool := match l with [] => false | x :: r => stmt_bad x || go r end in
  match st with
  | SAssign _ e => expr_bad e
  | SForeach it body => expr_bad it || go body
  | SBlock _ body => go body
  | _ => false
  end.

Definition ir_bad (ir : ir_program) : bool := existsb (fun f => existsb stmt_bad (fn_body f)) ir.
