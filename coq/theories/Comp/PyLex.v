(* The Python lexer for SHORT string literals (one line, one quote character on each side),
   restricted to the escape sequences that repr() produces.

     py_lex_string input = Some (denoted string, rest of the input)   or None (no short
     string literal of the modelled sub-language starts here).

   What CPython's tokenizer + string-literal decoder do and this model restates:
     * the literal starts with a single or a double quote; THREE equal quotes open a
       triple-quoted literal (so two quotes followed by a third are NOT the empty string:
       the model answers None, "not a short literal");
     * the literal ends at the first unescaped occurrence of the opening quote;
     * a raw line feed, a raw carriage return (the tokenizer reads source with universal
       newlines), a raw NUL (CPython 3.12 rejects source text with null bytes), a raw surrogate
       code point (source text must be encodable as UTF-8; the ESCAPE \ud800 is fine) or the
       end of the input inside the literal is an error;
     * backslash followed by: backslash, single quote, double quote -> that character;
       n r t -> LF CR TAB;  x + 2 hex digits, u + 4, U + 8 -> that code point (either case of
       hex digits; a value above 0x10ffff is an error, as is a missing digit).
   Deliberately NOT modelled (the model answers None = error, which is conservative: the
   theorem in PyReprSound.v shows that repr() never produces them): the escapes
   a b f v, octal, N{name}, backslash-newline, and unknown escapes (which CPython keeps
   verbatim with a SyntaxWarning); string prefixes (r b u f).  The correspondence check
   compares this lexer with CPython's own tokenizer/ast on random literal-like texts: whenever
   the model answers Some, CPython must lex exactly the same literal and denote the same string. *)
From Coq Require Import List NArith Bool Lia.
Import ListNotations.
From YP Require Import Base.Str Comp.PyRepr.
Local Open Scope N_scope.

Definition unhex_digit (c : N) : option N :=
  if (48 <=? c) && (c <=? 57) then Some (c - 48)
  else if (97 <=? c) && (c <=? 102) then Some (c - 87)
  else if (65 <=? c) && (c <=? 70) then Some (c - 55)
  else None.

(* lexer state inside the literal *)
Inductive lstate :=
| LNorm                               (* ordinary position *)
| LEsc                                (* just after a backslash *)
| LHex (more : nat) (acc : N).        (* in a hex escape: `more` digits follow the next one *)

Definition MAXCP : N := 1114112.      (* 0x110000 *)

Definition is_surrogate (c : N) : bool := (55296 <=? c) && (c <=? 57343).   (* U+D800..U+DFFF *)

(* raw code points that cannot occur inside a short literal *)
Definition bad_raw (c : N) : bool :=
  (c =? 10) || (c =? 13) || (c =? 0) || is_surrogate c || (MAXCP <=? c).

Definition cons_res (c : N) (r : option (str * str)) : option (str * str) :=
  match r with Some (s, rest) => Some (c :: s, rest) | None => None end.

Fixpoint lex_body (q : N) (st : lstate) (s : str) : option (str * str) :=
  match s with
  | [] => None                                            (* end of input inside the literal *)
  | c :: r =>
      match st with
      | LNorm =>
          if c =? q then Some ([], r)
          else if c =? BS then lex_body q LEsc r
          else if bad_raw c then None
          else cons_res c (lex_body q LNorm r)
      | LEsc =>
          if (c =? BS) || (c =? SQ) || (c =? DQ) then cons_res c (lex_body q LNorm r)
          else if c =? 110 then cons_res 10 (lex_body q LNorm r)
          else if c =? 114 then cons_res 13 (lex_body q LNorm r)
          else if c =? 116 then cons_res 9 (lex_body q LNorm r)
          else if c =? 120 then lex_body q (LHex 1 0) r
          else if c =? 117 then lex_body q (LHex 3 0) r
          else if c =? 85 then lex_body q (LHex 7 0) r
          else None
      | LHex more acc =>
          match unhex_digit c with
          | None => None
          | Some v =>
              let acc' := acc * 16 + v in
              match more with
              | O => if acc' <? MAXCP then cons_res acc' (lex_body q LNorm r) else None
              | S more' => lex_body q (LHex more' acc') r
              end
          end
      end
  end.

(* short literal without the triple-quote rule (the rule the tokenizer applies once it
   knows that the literal is a short one) *)
Definition py_lex_short (input : str) : option (str * str) :=
  match input with
  | q :: r => if (q =? SQ) || (q =? DQ) then lex_body q LNorm r else None
  | [] => None
  end.

Definition opens_triple (input : str) : bool :=
  match input with
  | q :: q1 :: q2 :: _ => (q1 =? q) && (q2 =? q)
  | _ => false
  end.

Definition py_lex_string (input : str) : option (str * str) :=
  if opens_triple input then None else py_lex_short input.

(* ------------------------------------------------------------------ general facts *)

Lemma unhex_hexdigit v : v < 16 -> unhex_digit (hexdigit v) = Some v.
Proof.
  intros Hv. unfold hexdigit, unhex_digit.
  destruct (N.ltb_spec v 10) as [H|H].
  - replace ((48 <=? 48 + v) && (48 + v <=? 57)) with true.
    + f_equal. lia.
    + symmetry. apply andb_true_iff. split; apply N.leb_le; lia.
  - replace ((48 <=? 87 + v) && (87 + v <=? 57)) with false.
    + replace ((97 <=? 87 + v) && (87 + v <=? 102)) with true.
      * f_equal. lia.
      * symmetry. apply andb_true_iff. split; apply N.leb_le; lia.
    + symmetry. apply andb_false_iff. right. apply N.leb_gt. lia.
Qed.

(* the lexer consumes a prefix of its input: input = consumed ++ rest *)
Lemma lex_body_suffix q : forall s st out rest,
  lex_body q st s = Some (out, rest) -> exists lit, s = lit ++ rest /\ lit <> [].
Proof.
  induction s as [|c r IH]; intros st out rest H; cbn [lex_body] in H; [discriminate|].
  assert (Hcons : forall x st', cons_res x (lex_body q st' r) = Some (out, rest) ->
                                 exists lit, c :: r = lit ++ rest /\ lit <> []).
  { intros x st' Hc. destruct (lex_body q st' r) as [[o' r']|] eqn:E; cbn in Hc; [|discriminate].
    inversion Hc; subst. destruct (IH _ _ _ E) as [lit [-> _]].
    exists (c :: lit). split; [reflexivity | discriminate]. }
  assert (Hstep : forall st', lex_body q st' r = Some (out, rest) ->
                              exists lit, c :: r = lit ++ rest /\ lit <> []).
  { intros st' E. destruct (IH _ _ _ E) as [lit [-> _]].
    exists (c :: lit). split; [reflexivity | discriminate]. }
  destruct st as [| |more acc].
  - destruct (c =? q).
    { inversion H; subst. exists [c]. split; [reflexivity | discriminate]. }
    destruct (c =? BS); [eauto|].
    destruct (bad_raw c); [discriminate | eauto].
  - destruct ((c =? BS) || (c =? SQ) || (c =? DQ)); [eauto|].
    destruct (c =? 110); [eauto|]. destruct (c =? 114); [eauto|]. destruct (c =? 116); [eauto|].
    destruct (c =? 120); [eauto|]. destruct (c =? 117); [eauto|]. destruct (c =? 85); [eauto|].
    discriminate.
  - destruct (unhex_digit c) as [v|]; [|discriminate].
    destruct more as [|more'].
    + destruct (acc * 16 + v <? MAXCP); [eauto | discriminate].
    + eauto.
Qed.

Lemma py_lex_string_short input r : py_lex_string input = Some r -> py_lex_short input = Some r.
Proof. unfold py_lex_string. destruct (opens_triple input); [discriminate | auto]. Qed.

Lemma py_lex_string_suffix input out rest :
  py_lex_string input = Some (out, rest) -> exists lit, input = lit ++ rest /\ (2 <= length lit)%nat.
Proof.
  intros H. apply py_lex_string_short in H. unfold py_lex_short in H.
  destruct input as [|q r]; [discriminate|].
  destruct ((q =? SQ) || (q =? DQ)); [|discriminate].
  destruct (lex_body_suffix _ _ _ _ _ H) as [lit [-> Hne]].
  exists (q :: lit). split; [reflexivity|]. destruct lit; [congruence | cbn; lia].
Qed.

(* ------------------------------------------------------------------ shape of an accepted literal *)

Lemma unhex_digit_ok c v : unhex_digit c = Some v -> bad_raw c = false /\ v < 16.
Proof.
  unfold unhex_digit, bad_raw, is_surrogate, MAXCP. intros H.
  destruct ((48 <=? c) && (c <=? 57)) eqn:E1.
  { apply andb_true_iff in E1. destruct E1 as [A B]. apply N.leb_le in A. apply N.leb_le in B.
    inversion H; subst. split; [|lia].
    repeat (apply orb_false_iff; split); try (apply N.eqb_neq; lia); try (apply N.leb_gt; lia).
    apply andb_false_iff. left. apply N.leb_gt. lia. }
  destruct ((97 <=? c) && (c <=? 102)) eqn:E2.
  { apply andb_true_iff in E2. destruct E2 as [A B]. apply N.leb_le in A. apply N.leb_le in B.
    inversion H; subst. split; [|lia].
    repeat (apply orb_false_iff; split); try (apply N.eqb_neq; lia); try (apply N.leb_gt; lia).
    apply andb_false_iff. left. apply N.leb_gt. lia. }
  destruct ((65 <=? c) && (c <=? 70)) eqn:E3; [|discriminate].
  apply andb_true_iff in E3. destruct E3 as [A B]. apply N.leb_le in A. apply N.leb_le in B.
  inversion H; subst. split; [|lia].
  repeat (apply orb_false_iff; split); try (apply N.eqb_neq; lia); try (apply N.leb_gt; lia).
  apply andb_false_iff. left. apply N.leb_gt. lia.
Qed.

(* Whatever the lexer accepts has the form  body ++ quote :: rest  where no code point of the body
   is a line break, NUL, a surrogate or out of range (so an accepted literal never spans lines),
   and the denoted string consists of valid code points. *)
Lemma lex_body_shape q : forall s st out rest,
  lex_body q st s = Some (out, rest) ->
  exists body, s = body ++ q :: rest /\ Forall (fun c => bad_raw c = false) body /\
               Forall (fun c => c < MAXCP) out.
Proof.
  induction s as [|c r IH]; intros st out rest H; cbn [lex_body] in H; [discriminate|].
  assert (Hcons : forall x st', bad_raw c = false -> x < MAXCP ->
             cons_res x (lex_body q st' r) = Some (out, rest) ->
             exists body, c :: r = body ++ q :: rest /\ Forall (fun c => bad_raw c = false) body /\
                          Forall (fun c => c < MAXCP) out).
  { intros x st' Hc Hx Hr. destruct (lex_body q st' r) as [[o' r']|] eqn:E; cbn in Hr; [|discriminate].
    inversion Hr; subst. destruct (IH _ _ _ E) as [body [-> [Hb Ho]]].
    exists (c :: body). split; [reflexivity|]. split; constructor; assumption. }
  assert (Hstep : forall st', bad_raw c = false -> lex_body q st' r = Some (out, rest) ->
             exists body, c :: r = body ++ q :: rest /\ Forall (fun c => bad_raw c = false) body /\
                          Forall (fun c => c < MAXCP) out).
  { intros st' Hc E. destruct (IH _ _ _ E) as [body [-> [Hb Ho]]].
    exists (c :: body). split; [reflexivity|]. split; [constructor; assumption | assumption]. }
  destruct st as [| |more acc].
  - destruct (N.eqb_spec c q) as [->|Hq].
    { inversion H; subst. exists []. split; [reflexivity|]. split; constructor. }
    destruct (N.eqb_spec c BS) as [->|Hb]; [apply (Hstep LEsc); [reflexivity | exact H]|].
    destruct (bad_raw c) eqn:Eb; [discriminate|].
    apply (Hcons c LNorm); auto.
    unfold bad_raw in Eb. apply orb_false_iff in Eb. destruct Eb as [_ Eb]. apply N.leb_gt in Eb. exact Eb.
  - destruct ((c =? BS) || (c =? SQ) || (c =? DQ)) eqn:E0.
    { assert (Hc : c = BS \/ c = SQ \/ c = DQ).
      { apply orb_true_iff in E0. destruct E0 as [E0|E0]; [apply orb_true_iff in E0; destruct E0 as [E0|E0]|];
          apply N.eqb_eq in E0; auto. }
      apply (Hcons c LNorm); auto; destruct Hc as [->|[->| ->]]; reflexivity. }
    destruct (N.eqb_spec c 110) as [->|_]; [apply (Hcons 10 LNorm); auto; reflexivity|].
    destruct (N.eqb_spec c 114) as [->|_]; [apply (Hcons 13 LNorm); auto; reflexivity|].
    destruct (N.eqb_spec c 116) as [->|_]; [apply (Hcons 9 LNorm); auto; reflexivity|].
    destruct (N.eqb_spec c 120) as [->|_]; [apply (Hstep (LHex 1 0)); auto|].
    destruct (N.eqb_spec c 117) as [->|_]; [apply (Hstep (LHex 3 0)); auto|].
    destruct (N.eqb_spec c 85) as [->|_]; [apply (Hstep (LHex 7 0)); auto|].
    discriminate.
  - destruct (unhex_digit c) as [v|] eqn:Eu; [|discriminate].
    destruct (unhex_digit_ok _ _ Eu) as [Hc _].
    destruct more as [|more'].
    + destruct (N.ltb_spec (acc * 16 + v) MAXCP) as [Hlt|]; [|discriminate].
      apply (Hcons (acc * 16 + v) LNorm); auto.
    + apply (Hstep (LHex more' (acc * 16 + v))); auto.
Qed.

Theorem py_lex_string_shape input out rest :
  py_lex_string input = Some (out, rest) ->
  exists q body, input = q :: body ++ q :: rest /\ (q = SQ \/ q = DQ) /\
                 Forall (fun c => bad_raw c = false) body /\ Forall (fun c => c < MAXCP) out.
Proof.
  intros H. apply py_lex_string_short in H. unfold py_lex_short in H.
  destruct input as [|q r]; [discriminate|].
  destruct ((q =? SQ) || (q =? DQ)) eqn:Eq; [|discriminate].
  destruct (lex_body_shape _ _ _ _ _ H) as [body [-> [Hb Ho]]].
  exists q, body. split; [reflexivity|]. split; [|split; assumption].
  apply orb_true_iff in Eq. destruct Eq as [E|E]; apply N.eqb_eq in E; auto.
Qed.

Corollary py_lex_string_one_line input out rest :
  py_lex_string input = Some (out, rest) ->
  exists lit, input = lit ++ rest /\ Forall (fun c => c <> 10 /\ c <> 13) lit.
Proof.
  intros H. destruct (py_lex_string_shape _ _ _ H) as [q [body [-> [Hq [Hb _]]]]].
  exists (q :: body ++ [q]). split.
  - cbn [app]. rewrite <- app_assoc. reflexivity.
  - assert (Hqq : q <> 10 /\ q <> 13) by (destruct Hq; subst; split; discriminate).
    constructor; [exact Hqq|]. apply Forall_app. split; [|constructor; [exact Hqq | constructor]].
    eapply Forall_impl; [|exact Hb]. intros c Hc. cbv beta in Hc. unfold bad_raw in Hc.
    repeat (apply orb_false_iff in Hc; destruct Hc as [Hc ?]).
    apply N.eqb_neq in Hc. split; [exact Hc|]. apply N.eqb_neq. assumption.
Qed.
