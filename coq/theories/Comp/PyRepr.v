(* CPython 3.12 repr() of a str object (Objects/unicodeobject.c, unicode_repr), as an
   executable function over code-point strings.

   This is a MODEL of the substrate: the generator writes every Prolog atom / string that
   reaches the emitted Python text as `repr(text)` (yp_generator.py, generate_expr).  The
   function below restates what unicode_repr does, in the same order of tests:

     first pass   count single and double quotes;
     quote        the single quote, unless the string contains a single quote and no
                  double quote: then the double quote;
     second pass  per code point ch:
                    ch == quote or ch == backslash -> backslash, ch
                    TAB, LF, CR                    -> \t \n \r
                    ch < 0x20 or ch == 0x7f        -> \xhh
                    ch < 0x7f                      -> ch
                    Py_UNICODE_ISPRINTABLE(ch)     -> ch
                    ch <= 0xff                     -> \xhh
                    ch <= 0xffff                   -> \uhhhh
                    otherwise                      -> \Uhhhhhhhh      (lowercase hex digits)

   Py_UNICODE_ISPRINTABLE (the Unicode database: str.isprintable per code point) is the
   Section variable `printable`; nothing is assumed about it.  The correspondence check
   (harness/props/c12repr.py) compares py_repr with the running interpreter's repr() on
   every generated string, with `printable` instantiated by a finite table built from
   str.isprintable for the code points of the case. *)
From Coq Require Import List NArith Bool Lia.
Import ListNotations.
From YP Require Import Base.Str.
Local Open Scope N_scope.

(* ------------------------------------------------------------------ hexadecimal *)

(* Py_hexdigits[v]: 0123456789abcdef *)
Definition hexdigit (v : N) : N := if v <? 10 then 48 + v else 87 + v.

(* k hexadecimal digits of c, most significant first:
   hexdigits[(c >> 4*(k-1)) & 15] ... hexdigits[c & 15] *)
Fixpoint hexN (k : nat) (c : N) : str :=
  match k with
  | O => []
  | S k' => hexdigit ((c / 16 ^ N.of_nat k') mod 16) :: hexN k' c
  end.

(* ------------------------------------------------------------------ repr *)

Fixpoint count (c : N) (s : str) : N :=
  match s with
  | [] => 0
  | x :: r => (if x =? c then 1 else 0) + count c r
  end.

Definition SQ : N := 39.   (* single quote *)
Definition DQ : N := 34.   (* double quote *)
Definition BS : N := 92.   (* backslash *)

(* quote = SQ; if (squote) { if (dquote) (keep SQ and escape them) else quote = DQ; } *)
Definition quote_of (s : str) : N :=
  if 0 <? count SQ s then (if 0 <? count DQ s then SQ else DQ) else SQ.

Section Repr.
  Variable printable : N -> bool.

  Definition repr_char (q c : N) : str :=
    if (c =? q) || (c =? BS) then [BS; c]
    else if c =? 9 then [BS; 116]                       (* \t *)
    else if c =? 10 then [BS; 110]                      (* \n *)
    else if c =? 13 then [BS; 114]                      (* \r *)
    else if (c <? 32) || (c =? 127) then BS :: 120 :: hexN 2 c     (* \xhh *)
    else if c <? 127 then [c]
    else if printable c then [c]
    else if c <=? 255 then BS :: 120 :: hexN 2 c        (* \xhh *)
    else if c <=? 65535 then BS :: 117 :: hexN 4 c      (* \uhhhh *)
    else BS :: 85 :: hexN 8 c.                          (* \Uhhhhhhhh *)

  Definition repr_body (q : N) (s : str) : str := flat_map (repr_char q) s.

  Definition py_repr (s : str) : str :=
    let q := quote_of s in q :: repr_body q s ++ [q].
End Repr.

(* ------------------------------------------------------------------ basic facts *)

Lemma quote_of_cases s : quote_of s = SQ \/ quote_of s = DQ.
Proof. unfold quote_of. destruct (0 <? count SQ s), (0 <? count DQ s); auto. Qed.

Lemma count_pos_In c s : 0 < count c s <-> In c s.
Proof.
  induction s as [|x r IH]; cbn [count In].
  - split; [lia | tauto].
  - destruct (N.eqb_spec x c) as [->|Hne].
    + split; [auto | lia].
    + rewrite N.add_0_l, IH. split; [auto | intros [H|H]; [congruence | exact H]].
Qed.

(* the quote choice, as a specification: double quotes exactly when the text contains a
   single quote and no double quote *)
Lemma quote_of_spec s :
  quote_of s = (if in_dec N.eq_dec SQ s then if in_dec N.eq_dec DQ s then SQ else DQ else SQ).
Proof.
  unfold quote_of.
  destruct (N.ltb_spec 0 (count SQ s)) as [Hs|Hs]; destruct (in_dec N.eq_dec SQ s) as [Is|Is];
    try (apply count_pos_In in Hs; tauto); try (apply count_pos_In in Is; lia); try reflexivity.
  destruct (N.ltb_spec 0 (count DQ s)) as [Hd|Hd]; destruct (in_dec N.eq_dec DQ s) as [Id|Id];
    try (apply count_pos_In in Hd; tauto); try (apply count_pos_In in Id; lia); reflexivity.
Qed.

Lemma hexdigit_range v : v < 16 -> (48 <= hexdigit v <= 57) \/ (97 <= hexdigit v <= 102).
Proof. unfold hexdigit. intros Hv. destruct (N.ltb_spec v 10); lia. Qed.

Lemma hexN_length k c : length (hexN k c) = k.
Proof. induction k as [|k IH]; cbn [hexN length]; congruence. Qed.

Lemma hexN_chars k c : Forall (fun x => (48 <= x <= 57) \/ (97 <= x <= 102)) (hexN k c).
Proof.
  induction k as [|k IH]; cbn [hexN]; constructor; [|exact IH].
  apply hexdigit_range. apply N.mod_lt. lia.
Qed.
