(* repr() output cannot escape its quotes: the Python string-literal lexer (Comp/PyLex.v),
   started on  py_repr s ++ rest,  consumes exactly  py_repr s  and denotes exactly  s.
   Proved for every `printable` oracle (Section variable: nothing is assumed about the
   Unicode database) and every string of valid code points. *)
From Coq Require Import List NArith Bool Lia.
Import ListNotations.
From YP Require Import Base.Str Comp.PyRepr Comp.PyLex.
Local Open Scope N_scope.

(* ------------------------------------------------------------------ hexadecimal round trip *)

Definition p16 (k : nat) : N := 16 ^ N.of_nat k.

Lemma p16_0 : p16 0 = 1.
Proof. reflexivity. Qed.

Lemma p16_S k : p16 (S k) = p16 k * 16.
Proof. unfold p16. rewrite Nat2N.inj_succ, N.pow_succ_r'. lia. Qed.

Lemma p16_pos k : 0 < p16 k.
Proof. induction k as [|k IH]; [rewrite p16_0 | rewrite p16_S]; lia. Qed.

Lemma mod_p16_S c k : c mod p16 (S k) = c mod p16 k + p16 k * ((c / p16 k) mod 16).
Proof.
  rewrite p16_S. apply N.mod_mul_r; [|lia]. pose proof (p16_pos k). lia.
Qed.

(* reading the k+1 digits that hexN wrote, with `acc` already accumulated *)
Lemma lex_hex q : forall k acc c tail,
  lex_body q (LHex k acc) (hexN (S k) c ++ tail) =
  (let v := acc * p16 (S k) + c mod p16 (S k) in
   if v <? MAXCP then cons_res v (lex_body q LNorm tail) else None).
Proof.
  induction k as [|k IH]; intros acc c tail.
  - cbn [hexN app lex_body].
    rewrite unhex_hexdigit by (apply N.mod_lt; lia).
    cbv zeta. fold (p16 0). rewrite p16_S, p16_0, N.div_1_r, N.mul_1_l. reflexivity.
  - change (hexN (S (S k)) c) with (hexdigit ((c / p16 (S k)) mod 16) :: hexN (S k) c).
    cbn [app lex_body].
    rewrite unhex_hexdigit by (apply N.mod_lt; lia).
    cbv zeta. rewrite IH. cbv zeta.
    rewrite (mod_p16_S c (S k)). rewrite (p16_S (S k)).
    replace ((acc * 16 + (c / p16 (S k)) mod 16) * p16 (S k) + c mod p16 (S k))
      with (acc * (p16 (S k) * 16) + (c mod p16 (S k) + p16 (S k) * ((c / p16 (S k)) mod 16))) by lia.
    reflexivity.
Qed.

Lemma lex_hex0 q k c tail :
  c < p16 (S k) -> c < MAXCP ->
  lex_body q (LHex k 0) (hexN (S k) c ++ tail) = cons_res c (lex_body q LNorm tail).
Proof.
  intros Hk Hc. rewrite lex_hex. cbv zeta.
  rewrite N.mul_0_l, N.add_0_l, N.mod_small by exact Hk.
  apply N.ltb_lt in Hc. rewrite Hc. reflexivity.
Qed.

(* the one fact about the Unicode database that is needed: surrogate code points (category
   Cs) are not printable, so repr() always escapes them.  Checked against the running
   interpreter for all 2048 surrogates on every run of the check. *)
Definition surrogates_unprintable (printable : N -> bool) : Prop :=
  forall c, is_surrogate c = true -> printable c = false.

Section Sound.
  Variable printable : N -> bool.
  Hypothesis Hsurr : surrogates_unprintable printable.

  Definition valid (s : str) : Prop := Forall (fun c => c < MAXCP) s.

  (* ---------------------------------------------------------------- one code point *)

  Lemma lex_escape_hex q c k tail e :
    (e = 120 /\ k = 1%nat) \/ (e = 117 /\ k = 3%nat) \/ (e = 85 /\ k = 7%nat) ->
    q = SQ \/ q = DQ -> c < p16 (S k) -> c < MAXCP ->
    lex_body q LNorm ((BS :: e :: hexN (S k) c) ++ tail) = cons_res c (lex_body q LNorm tail).
  Proof.
    intros He Hq Hk Hc.
    change ((BS :: e :: hexN (S k) c) ++ tail) with (BS :: e :: (hexN (S k) c ++ tail)).
    assert (Hbq : BS =? q = false) by (destruct Hq; subst; reflexivity).
    cbn [lex_body]. rewrite Hbq, N.eqb_refl.
    destruct (hexN (S k) c ++ tail) eqn:Ehex.
    { exfalso. apply (f_equal (@length N)) in Ehex. rewrite app_length, hexN_length in Ehex.
      cbn in Ehex. lia. }
    rewrite <- Ehex. clear Ehex.
    destruct He as [[-> ->]|[[-> ->]|[-> ->]]]; cbn -[lex_body hexN]; apply lex_hex0; assumption.
  Qed.

  Lemma lex_repr_char q c tail :
    q = SQ \/ q = DQ -> c < MAXCP ->
    lex_body q LNorm (repr_char printable q c ++ tail) = cons_res c (lex_body q LNorm tail).
  Proof.
    intros Hq Hc. unfold repr_char.
    assert (Hbq : BS =? q = false) by (destruct Hq; subst; reflexivity).
    assert (Hraw : c =? q = false -> c =? BS = false -> 32 <= c -> is_surrogate c = false ->
                   lex_body q LNorm ([c] ++ tail) = cons_res c (lex_body q LNorm tail)).
    { intros E1 E2 H32 Hs. cbn [app lex_body]. rewrite E1, E2.
      replace (bad_raw c) with false; [reflexivity|].
      symmetry. unfold bad_raw. rewrite Hs.
      repeat (apply orb_false_iff; split); try reflexivity; try (apply N.eqb_neq; lia).
      apply N.leb_gt. exact Hc. }
    assert (Hsimple : forall e v,
               (e =? BS) || (e =? SQ) || (e =? DQ) = false ->
               (if e =? 110 then Some 10 else if e =? 114 then Some 13 else if e =? 116 then Some 9 else None) = Some v ->
               lex_body q LNorm ([BS; e] ++ tail) = cons_res v (lex_body q LNorm tail)).
    { intros e v E0 Ev. cbn [app lex_body]. rewrite Hbq, N.eqb_refl, E0.
      destruct (e =? 110); [inversion Ev; reflexivity|].
      destruct (e =? 114); [inversion Ev; reflexivity|].
      destruct (e =? 116); [inversion Ev; reflexivity|]. discriminate. }
    destruct ((c =? q) || (c =? BS)) eqn:E1.
    { cbn [app lex_body]. rewrite Hbq, N.eqb_refl.
      replace ((c =? BS) || (c =? SQ) || (c =? DQ)) with true; [reflexivity|].
      symmetry. apply orb_true_iff in E1. destruct E1 as [E|E].
      - apply N.eqb_eq in E. subst c. destruct Hq as [-> | ->]; reflexivity.
      - rewrite E. reflexivity. }
    apply orb_false_iff in E1. destruct E1 as [Eq Eb].
    destruct (N.eqb_spec c 9) as [->|N9]; [apply Hsimple; reflexivity|].
    destruct (N.eqb_spec c 10) as [->|N10]; [apply Hsimple; reflexivity|].
    destruct (N.eqb_spec c 13) as [->|N13]; [apply Hsimple; reflexivity|].
    destruct ((c <? 32) || (c =? 127)) eqn:E2.
    { apply (lex_escape_hex q c 1 tail 120); auto.
      apply orb_true_iff in E2. destruct E2 as [E|E];
        [apply N.ltb_lt in E | apply N.eqb_eq in E]; rewrite !p16_S, p16_0; lia. }
    apply orb_false_iff in E2. destruct E2 as [E32 E127].
    apply N.ltb_ge in E32.
    destruct (N.ltb_spec c 127) as [L127|L127].
    { apply Hraw; try assumption. unfold is_surrogate.
      apply andb_false_iff. left. apply N.leb_gt. lia. }
    destruct (printable c) eqn:Ep.
    { apply Hraw; try assumption. destruct (is_surrogate c) eqn:Es; [|reflexivity].
      rewrite (Hsurr c Es) in Ep. discriminate. }
    destruct (N.leb_spec c 255) as [L|L].
    { apply (lex_escape_hex q c 1 tail 120); auto. rewrite !p16_S, p16_0; lia. }
    destruct (N.leb_spec c 65535) as [L2|L2].
    { apply (lex_escape_hex q c 3 tail 117); auto. rewrite !p16_S, p16_0; lia. }
    apply (lex_escape_hex q c 7 tail 85); auto. rewrite !p16_S, p16_0. unfold MAXCP in Hc. lia.
  Qed.

  (* ---------------------------------------------------------------- the body *)

  Lemma lex_repr_body q s rest :
    q = SQ \/ q = DQ -> valid s ->
    lex_body q LNorm (repr_body printable q s ++ q :: rest) = Some (s, rest).
  Proof.
    intros Hq Hv. induction Hv as [|c s Hc Hv IH].
    - cbn [repr_body flat_map app lex_body]. rewrite N.eqb_refl. reflexivity.
    - unfold repr_body in *. cbn [flat_map]. rewrite <- app_assoc.
      rewrite lex_repr_char by assumption. rewrite IH. reflexivity.
  Qed.

  (* the first character of a non-empty body is not the quote *)
  Lemma repr_char_head q c : q = SQ \/ q = DQ ->
    exists x r, repr_char printable q c = x :: r /\ x <> q.
  Proof.
    intros Hq. unfold repr_char.
    assert (Hb : BS <> q) by (destruct Hq; subst; discriminate).
    destruct ((c =? q) || (c =? BS)) eqn:E1; [eauto|].
    apply orb_false_iff in E1. destruct E1 as [Eq _]. apply N.eqb_neq in Eq.
    destruct (c =? 9); [eauto|]. destruct (c =? 10); [eauto|]. destruct (c =? 13); [eauto|].
    destruct ((c <? 32) || (c =? 127)); [eauto|].
    destruct (c <? 127); [eauto|]. destruct (printable c); [eauto|].
    destruct (c <=? 255); [eauto|]. destruct (c <=? 65535); eauto.
  Qed.

  (* ---------------------------------------------------------------- main theorems *)

  (* without the triple-quote rule: unconditional in `rest` *)
  Theorem repr_cannot_escape_short : forall s rest,
    valid s -> py_lex_short (py_repr printable s ++ rest) = Some (s, rest).
  Proof.
    intros s rest Hv. unfold py_repr, py_lex_short. cbv zeta.
    cbn [app]. rewrite <- app_assoc. cbn [app].
    pose proof (quote_of_cases s) as Hq. set (q := quote_of s) in *.
    replace ((q =? SQ) || (q =? DQ)) with true by (destruct Hq as [-> | ->]; reflexivity).
    apply lex_repr_body; assumption.
  Qed.

  (* Python reads two quotes followed by a third one as the opening of a triple-quoted
     literal; repr of the EMPTY string followed directly by a single quote is the only way to
     get there *)
  Definition no_triple (s rest : str) : Prop := s <> [] \/ hd_error rest <> Some SQ.

  Lemma repr_not_triple s rest :
    no_triple s rest -> opens_triple (py_repr printable s ++ rest) = false.
  Proof.
    intros Hn. unfold py_repr. cbv zeta. cbn [app]. rewrite <- app_assoc. cbn [app].
    destruct s as [|c s].
    - unfold quote_of, repr_body. cbn [count flat_map app N.ltb N.compare].
      destruct Hn as [Hn|Hn]; [congruence|].
      destruct rest as [|x rest]; [reflexivity|]. cbn [opens_triple].
      rewrite N.eqb_refl. cbn [andb]. apply N.eqb_neq. intros ->. apply Hn. reflexivity.
    - unfold repr_body. cbn [flat_map].
      destruct (repr_char_head (quote_of (c :: s)) c (quote_of_cases _)) as [x [r [-> Hx]]].
      cbn [app opens_triple]. apply N.eqb_neq in Hx. rewrite Hx.
      destruct ((r ++ _) ++ _); reflexivity.
  Qed.

  Theorem repr_cannot_escape : forall s rest,
    valid s -> no_triple s rest ->
    py_lex_string (py_repr printable s ++ rest) = Some (s, rest).
  Proof.
    intros s rest Hv Hn. unfold py_lex_string. rewrite repr_not_triple by exact Hn.
    apply repr_cannot_escape_short. exact Hv.
  Qed.

  (* the hypothesis no_triple is necessary: the unconditional statement is false *)
  Theorem repr_cannot_escape_unconditional_refuted :
    exists s rest, valid s /\ py_lex_string (py_repr printable s ++ rest) <> Some (s, rest).
  Proof. exists [], [SQ]. split; [constructor | cbn; discriminate]. Qed.

  (* in the emitted program a literal is always followed by `)`, `,` or `]` *)
  Corollary repr_cannot_escape_before c s rest :
    valid s -> c <> SQ -> py_lex_string (py_repr printable s ++ c :: rest) = Some (s, c :: rest).
  Proof.
    intros Hv Hc. apply repr_cannot_escape; [exact Hv|]. right. cbn. congruence.
  Qed.

  (* consequently repr is injective on valid strings, and no literal is a prefix of another
     one followed by anything *)
  Theorem repr_prefix_free : forall s1 s2 r1 r2,
    valid s1 -> valid s2 ->
    py_repr printable s1 ++ r1 = py_repr printable s2 ++ r2 -> s1 = s2 /\ r1 = r2.
  Proof.
    intros s1 s2 r1 r2 H1 H2 E.
    pose proof (repr_cannot_escape_short s1 r1 H1) as L1.
    pose proof (repr_cannot_escape_short s2 r2 H2) as L2.
    rewrite E in L1. rewrite L1 in L2. inversion L2. auto.
  Qed.

  Corollary repr_injective : forall s1 s2,
    valid s1 -> valid s2 -> py_repr printable s1 = py_repr printable s2 -> s1 = s2.
  Proof.
    intros s1 s2 H1 H2 E. apply (repr_prefix_free s1 s2 [] [] H1 H2). rewrite E. reflexivity.
  Qed.

  (* ---------------------------------------------------------------- character classes of the output *)

  (* every code point of the output is printable ASCII, or a non-ASCII code point of the
     input that the oracle calls printable *)
  Definition out_ok (s : str) (x : N) : Prop :=
    (32 <= x < 127) \/ (127 < x /\ printable x = true /\ In x s).

  Lemma repr_char_out q c s : q = SQ \/ q = DQ -> In c s -> Forall (out_ok s) (repr_char printable q c).
  Proof.
    intros Hq Hin. unfold repr_char.
    assert (Hx : forall k, Forall (out_ok s) (hexN k c)).
    { intros k. eapply Forall_impl; [|apply hexN_chars]. intros x Hr. left. cbv beta in Hr. lia. }
    assert (Hb : out_ok s BS) by (left; unfold BS; lia).
    assert (Hqo : out_ok s q) by (left; destruct Hq; subst; unfold SQ, DQ; lia).
    assert (Hl : forall x, 32 <= x < 127 -> out_ok s x) by (intros x Hxx; left; exact Hxx).
    assert (F1 : forall a, out_ok s a -> Forall (out_ok s) [a]).
    { intros a Ha. apply Forall_cons; [exact Ha | apply Forall_nil]. }
    assert (F2 : forall a, out_ok s a -> Forall (out_ok s) [BS; a]).
    { intros a Ha. apply Forall_cons; [exact Hb | apply F1; exact Ha]. }
    assert (Fh : forall e k, 32 <= e < 127 -> Forall (out_ok s) (BS :: e :: hexN k c)).
    { intros e k He. apply Forall_cons; [exact Hb|]. apply Forall_cons; [apply Hl; exact He | apply Hx]. }
    destruct ((c =? q) || (c =? BS)) eqn:E1.
    { apply orb_true_iff in E1. destruct E1 as [E|E]; apply N.eqb_eq in E; subst c; apply F2; assumption. }
    destruct (c =? 9); [apply F2, Hl; lia|].
    destruct (c =? 10); [apply F2, Hl; lia|].
    destruct (c =? 13); [apply F2, Hl; lia|].
    destruct ((c <? 32) || (c =? 127)) eqn:E2; [apply Fh; lia|].
    apply orb_false_iff in E2. destruct E2 as [E32 E127]. apply N.ltb_ge in E32. apply N.eqb_neq in E127.
    destruct (N.ltb_spec c 127) as [L|L]; [apply F1, Hl; lia|].
    destruct (printable c) eqn:Ep.
    { apply F1. right. split; [lia | split; assumption]. }
    destruct (c <=? 255); [apply Fh; lia|].
    destruct (c <=? 65535); apply Fh; lia.
  Qed.

  Theorem repr_output_chars : forall s, Forall (out_ok s) (py_repr printable s).
  Proof.
    intros s. unfold py_repr. cbv zeta.
    assert (Hqo : out_ok s (quote_of s)).
    { left. destruct (quote_of_cases s) as [-> | ->]; unfold SQ, DQ; lia. }
    constructor; [exact Hqo|]. apply Forall_app. split; [|apply Forall_cons; [exact Hqo | apply Forall_nil]].
    unfold repr_body. apply Forall_forall. intros x Hx. apply in_flat_map in Hx.
    destruct Hx as [c [Hc Hx]].
    pose proof (repr_char_out (quote_of s) c s (quote_of_cases s) Hc) as HF.
    rewrite Forall_forall in HF. apply HF. exact Hx.
  Qed.

  (* no line break (and no other control character) in the output: a literal never starts a
     new logical or physical line of the emitted program *)
  Theorem repr_no_newline : forall s, Forall (fun x => x <> 10 /\ x <> 13) (py_repr printable s).
  Proof.
    intros s. eapply Forall_impl; [|apply repr_output_chars].
    intros x [H|[H _]]; lia.
  Qed.

  Theorem repr_no_control : forall s, Forall (fun x => 32 <= x /\ x <> 127) (py_repr printable s).
  Proof.
    intros s. eapply Forall_impl; [|apply repr_output_chars].
    intros x [H|[H _]]; lia.
  Qed.

  Theorem repr_ascii_when_nothing_printable : forall s,
    (forall c, In c s -> 127 < c -> printable c = false) ->
    Forall (fun x => 32 <= x < 127) (py_repr printable s).
  Proof.
    intros s Hnp. eapply Forall_impl; [|apply repr_output_chars].
    intros x [H|[H1 [H2 H3]]]; [exact H|]. rewrite (Hnp x H3 H1) in H2. discriminate.
  Qed.

  (* the delimiters: first and last code point are the same quote character *)
  Theorem repr_delimited : forall s, exists body,
    py_repr printable s = quote_of s :: body ++ [quote_of s] /\ (quote_of s = SQ \/ quote_of s = DQ).
  Proof. intros s. exists (repr_body printable (quote_of s) s). split; [reflexivity | apply quote_of_cases]. Qed.
End Sound.
