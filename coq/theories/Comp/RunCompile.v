(* Executable entry points for the correspondence harness (C11, C12):
     run_compile_text tbl source   source text -> emitted Python text | the kind of rejection
     run_compile_ast  tbl program  AST -> the same (used to shrink and for programs given as ASTs)
   The Unicode database is supplied per case as the finite list `tbl` of the non-ASCII code points
   of the case for which str.isprintable is true (as in RunPyRepr.v). *)
From Coq Require Import String.
From Coq Require Import List Arith Bool NArith.
Import ListNotations.
From YP Require Import Base.Str Lang.Ast Lang.Front Comp.IR Comp.CompileBody Comp.CompileClause Comp.Emit
  Comp.PyRepr Comp.Limits Comp.CompileText.
Local Open Scope string_scope.
Local Open Scope list_scope.

Definition table_printable (tbl : list N) (c : N) : bool := existsb (N.eqb c) tbl.

Definition cresult_obs (r : cresult) : obs :=
  match r with
  | CText t => otag "text" [OS t]
  | CRejectFront => otag "reject-front" []
  | CRejectNumeral => otag "reject-numeral" []
  | CTooLarge => otag "too-large" []
  end.

Definition run_compile_text (tbl : list N) (s : str) : obs := cresult_obs (compile_text (table_printable tbl) s).
Definition run_compile_ast (tbl : list N) (p : program) : obs := cresult_obs (compile_ast (table_printable tbl) p).

(* the measures that decide "too large", for the boundary cases of the check *)
Definition run_measures (s : str) : obs :=
  match front s with
  | None => otag "reject-front" []
  | Some p =>
      match compile_program p with
      | None => otag "stuck" []
      | Some ir => otag "measures" [OL (map (fun f => OL [onat (func_fdepth f); onat (func_bdepth f)]) ir); obool (ir_nums_ok ir)]
      end
  end.
