(* Executable entry point for the correspondence harness: AST -> emitted Python text. *)
From Coq Require Import String.
From Coq Require Import List Arith Bool NArith.
Import ListNotations.
From YP Require Import Base.Str Lang.Ast Comp.IR Comp.CompileBody Comp.CompileClause Comp.Emit.
Local Open Scope string_scope.
Local Open Scope list_scope.

(* temporary repr for strings without quotes, backslashes, control or non-ASCII characters;
   RunCompile2 uses the full model Comp/PyRepr.v *)
Definition repr_simple (s : str) : str := 39%N :: flat_map (fun c => if N.eqb c 92 then [92%N; 92%N] else [c]) s ++ [39%N].

Definition run_compile_with (repr : str -> str) (p : program) : obs :=
  match compile_program p with
  | Some ir => otag "text" [OS (emit_program repr ir)]
  | None => otag "stuck" []
  end.
Definition run_compile (p : program) : obs := run_compile_with repr_simple p.
