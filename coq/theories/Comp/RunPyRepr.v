(* Executable entry points of the repr / string-literal-lexer model for the correspondence
   check C12R (harness/props/c12repr.py).  The Unicode database is supplied per case as the
   finite list of the non-ASCII code points of the case for which str.isprintable is true. *)
From Coq Require Import String.
From Coq Require Import List NArith ZArith Bool.
Import ListNotations.
Local Open Scope string_scope.
From YP Require Import Base.Str Comp.PyRepr Comp.PyLex.

Definition table_printable (tbl : list N) (c : N) : bool := existsb (N.eqb c) tbl.

Definition lex_obs (r : option (str * str)) : obs :=
  oopt (fun p => OL [OS (fst p); OS (snd p)]) r.

(* 0: the lexer rejects; 1: it returns exactly (s, rest); 2: it returns something else *)
Definition lex_flag (s rest : str) (r : option (str * str)) : obs :=
  match r with
  | None => OZ 0%Z
  | Some (a, b) => if andb (str_eqb a s) (str_eqb b rest) then OZ 1%Z else OZ 2%Z
  end.

(* repr(s); the lexer on repr(s) ++ rest, with and without the triple-quote rule *)
Definition run_repr (tbl : list N) (s rest : str) : obs :=
  let r := py_repr (table_printable tbl) s in
  otag "repr" [OS r; lex_flag s rest (py_lex_string (r ++ rest)%list); lex_flag s rest (py_lex_short (r ++ rest)%list)].

(* the same for a block of consecutive code points lo, lo+1, ..., generated here instead of being
   parsed from a literal (much faster); the printable code points are given as inclusive ranges *)
Definition blk (lo : N) (n : nat) : str := map (fun i => (lo + N.of_nat i)%N) (seq 0 n).
Definition range_printable (r : list (N * N)) (c : N) : bool :=
  existsb (fun p => andb (N.leb (fst p) c) (N.leb c (snd p))) r.
Definition run_block (r : list (N * N)) (lo : N) (n : nat) (rest : str) : obs :=
  let s := blk lo n in
  let o := py_repr (range_printable r) s in
  otag "repr" [OS o; lex_flag s rest (py_lex_string (o ++ rest)%list); lex_flag s rest (py_lex_short (o ++ rest)%list)].

(* the lexer on an arbitrary text *)
Definition run_lex (text : str) : obs :=
  otag "lex" [lex_obs (py_lex_string text)].

(* the table oracle used by the harness satisfies the premise of the theorems whenever the table
   contains no surrogate (the harness builds it from str.isprintable, which is false for them) *)
From YP Require Import Comp.PyReprSound.
Lemma table_printable_surrogates tbl :
  Forall (fun c => is_surrogate c = false) tbl -> surrogates_unprintable (table_printable tbl).
Proof.
  intros H c Hc. unfold table_printable.
  destruct (existsb (N.eqb c) tbl) eqn:E; [|reflexivity].
  apply existsb_exists in E. destruct E as [x [Hin Hx]]. apply N.eqb_eq in Hx. subst x.
  rewrite Forall_forall in H. rewrite (H c Hin) in Hc. discriminate.
Qed.
