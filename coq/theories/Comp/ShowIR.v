(* Observation of the intermediate code, for the structural tie between the emitted text as CPython's
   own parser reads it (harness/lib/py2ir.py maps `ast.parse(text)` back to this form) and the
   intermediate code whose semantics Sem/IRSem.v defines. *)
From Coq Require Import String.
From Coq Require Import List Arith Bool NArith ZArith.
Import ListNotations.
From YP Require Import Base.Str Lang.Ast Lang.Front Comp.IR Comp.CompileBody Comp.CompileClause Comp.Emit
  Comp.PyRepr Comp.Limits Comp.CompileText Comp.RunCompile.
Local Open Scope string_scope.
Local Open Scope list_scope.

Fixpoint expr_obs (e : expr) : obs :=
  match e with
  | EVar v => OL [OS (s_ "v"); OS v]
  | EStr s => OL [OS (s_ "s"); OS s]
  | ENum ds => OL [OS (s_ "n"); OS (strip_zeros ds)]
  | ECall f args => OL [OS (s_ "c"); OS f; OL (map expr_obs args)]
  | EList items => OL [OS (s_ "l"); OL (map expr_obs items)]
  end.

Fixpoint stmt_obs (st : stmt) : obs :=
  match st with
  | SAssign x e => OL [OS (s_ "asg"); OS x; expr_obs e]
  | SForeach it body => OL [OS (s_ "for"); expr_obs it; OL (map stmt_obs body)]
  | SYieldFalse => OL [OS (s_ "yf")]
  | SYieldTrue => OL [OS (s_ "yt")]
  | SReturn => OL [OS (s_ "ret")]
  | SBlock l body => OL [OS (s_ "blk"); onat l; OL (map stmt_obs body)]
  | SBreakBlock l => OL [OS (s_ "brk"); onat l]
  end.

Definition func_obs (f : func) : obs := OL [OS (fn_name f); onat (fn_arity f); OL (map stmt_obs (fn_body f))].

(* verdict + text as run_compile_text, and the intermediate code of an accepted source *)
Definition run_compile_text_ir (tbl : list N) (s : str) : obs :=
  OL [run_compile_text tbl s;
      match front s with
      | Some p => match compile_program p with Some ir => OL (map func_obs ir) | None => OL [] end
      | None => OL []
      end].
