(* C17: YP.evaluate_bounded (engine.py) as a state machine over
     - the interpreter's recursion limit (global state, sys.get/setrecursionlimit),
     - the query generator (fresh / suspended after k answers / finished),
     - the outcome of the projection function at the k-th answer (a value or an exception).

       old_recursionlimit = sys.getrecursionlimit()
       result = []
       try:
           sys.setrecursionlimit(recursion_limit)
           result = []
           for x in query:
               result.append(projection_function(x))
       except RuntimeError:        # RecursionError is a subclass
           pass
       except StopIteration:
           pass
       finally:
           sys.setrecursionlimit(old_recursionlimit)
           if hasattr(query, 'close'):
               query.close()
       return result

   A query is modelled abstractly as a depth-indexed answer sequence  ans : nat -> list A * fin
   (fin = Norm: the search ended; Err: the recursion limit was hit after those answers) that is
   prefix-monotone in the depth.  This is what a step-indexed semantics of the engine gives; the
   second half of the file defines such a semantics (depth-first SLD resolution over the C02
   unification model, indexed by call depth) and PROVES that it is prefix-monotone.

   NOT modelled (partial): how many Python frames one unit of depth costs, i.e. the exact frame
   count at which RecursionError strikes.  `budget limit cur` (recursion limit, current interpreter
   depth |-> depth units available to the query) is an arbitrary function: every theorem holds for
   all of them. *)
From Coq Require Import List Arith Bool Lia ZArith.
Import ListNotations.
From YP Require Import Base.Str Term.Term Unify.Unify.
Set Implicit Arguments.

(* ------------------------------------------------------------------ partial answer lists *)

Inductive fin := Norm | Err.
Definition res (A : Type) : Type := (list A * fin)%type.

Definition prefix {A} (l m : list A) : Prop := exists r, m = l ++ r.

Lemma prefix_refl {A} (l : list A) : prefix l l.
Proof. exists []. rewrite app_nil_r. reflexivity. Qed.
Lemma prefix_trans {A} (a b c : list A) : prefix a b -> prefix b c -> prefix a c.
Proof. intros [x ->] [y ->]. exists (x ++ y). rewrite app_assoc. reflexivity. Qed.
Lemma prefix_nil {A} (l : list A) : prefix [] l.
Proof. exists l. reflexivity. Qed.
Lemma prefix_app {A} (a b c : list A) : prefix b c -> prefix (a ++ b) (a ++ c).
Proof. intros [x ->]. exists x. rewrite app_assoc. reflexivity. Qed.
Lemma prefix_app_l {A} (a b : list A) : prefix a (a ++ b).
Proof. exists b. reflexivity. Qed.

(* r2 is what a deeper search delivers: if the shallower search r1 ended normally nothing changes,
   if it hit the limit its answers are a prefix *)
Definition res_le {A} (r1 r2 : res A) : Prop :=
  match snd r1 with Norm => r2 = r1 | Err => prefix (fst r1) (fst r2) end.

Lemma res_le_refl {A} (r : res A) : res_le r r.
Proof. unfold res_le. destruct (snd r); [reflexivity | apply prefix_refl]. Qed.

Lemma res_le_prefix {A} (r1 r2 : res A) : res_le r1 r2 -> prefix (fst r1) (fst r2).
Proof. unfold res_le. destruct (snd r1); [intros ->; apply prefix_refl | auto]. Qed.

Lemma res_le_trans {A} (a b c : res A) : res_le a b -> res_le b c -> res_le a c.
Proof.
  unfold res_le. destruct a as [la fa], b as [lb fb], c as [lc fc]; simpl.
  destruct fa.
  - intros E. injection E as -> ->. auto.
  - intros P. destruct fb.
    + intros E. injection E as -> ->. exact P.
    + intros Q. eapply prefix_trans; eauto.
Qed.

(* ------------------------------------------------------------------ exceptions, generator, interpreter state *)

(* ERuntime: RuntimeError and its subclasses (RecursionError); EStop: StopIteration;
   EOther: every other exception class (ValueError, KeyError, YPException, ...) *)
Inductive exc := ERuntime | EStop | EOther (tag : nat).
Definition caught (e : exc) : bool := match e with ERuntime | EStop => true | EOther _ => false end.

Inductive pout (B : Type) := PVal (b : B) | PRaise (e : exc).
Arguments PRaise {B} e.

(* the generator object: not finished and k answers delivered so far (Susp 0 = fresh), or finished
   (exhausted, ended by an exception that went through it, or closed) *)
Inductive gstate := Susp (k : nat) | Done.

Record istate := { rl : nat; gs : gstate }.

Inductive outcome (B : Type) := Return (r : list B) | Propagate (e : exc).
Arguments Propagate {B} e.

Definition value_error : exc := EOther 0.

Section EvaluateBounded.
  Variables A B : Type.
  (* the query *)
  Variable ans : nat -> res A.
  Hypothesis ans_mono : forall n m, n <= m -> res_le (ans n) (ans m).
  (* the exception that ends the enumeration at depth d when snd (ans d) = Err: RecursionError (ERuntime) for a search
     that the limit cuts short, or the exception of a registered Python predicate that came up through the generator *)
  Variable gexc : nat -> exc.
  (* projection function at the k-th answer (k from 0), called when the recursion limit is r:
     a value or an exception, and the recursion limit it leaves behind (a well-behaved projection
     leaves r; one that calls evaluate_bounded itself does so by rlimit_restored) *)
  Variable proj : nat -> A -> nat -> pout B * nat.
  Variable budget : nat -> nat -> nat.
  (* interpreter depth of the evaluate_bounded frame: constant during the call *)
  Variable cur : nat.
  (* hasattr(query, 'close'): true for every generator, in particular for YP.query *)
  Variable has_close : bool.

  (* sys.setrecursionlimit(new) at depth cur: ValueError below 1, RecursionError when the current
     depth does not fit under the new limit, otherwise the limit is new *)
  Definition setrl (new : nat) : exc + nat :=
    if new <? 1 then inl value_error else if new <=? cur then inl ERuntime else inr new.

  (* for x in query: result.append(projection_function(x))
     l, f: what the generator still has to deliver under the depth available; k: index of the next
     answer; r: recursion limit; acc: result so far.
     Returns (exception leaving the loop, result, recursion limit, generator state). *)
  Fixpoint loop (x : exc) (l : list A) (f : fin) (k : nat) (r : nat) (acc : list B) : option exc * list B * nat * gstate :=
    match l with
    | [] => match f with
            | Norm => (None, acc, r, Done)                   (* StopIteration ends the for loop *)
            | Err => (Some x, acc, r, Done)                  (* the exception x came up through the generator *)
            end
    | a :: l' => match proj k a r with
                 | (PVal b, r') => loop x l' f (S k) r' (acc ++ [b])
                 | (PRaise e, r') => (Some e, acc, r', Susp (S k))    (* generator stays suspended *)
                 end
    end.

  (* the except clauses *)
  Definition handle (e : option exc) (acc : list B) : outcome B :=
    match e with
    | None => Return acc
    | Some e => if caught e then Return acc else Propagate e
    end.

  (* the finally block, entered with recursion limit r, generator g and pending outcome o.
     An exception raised in it replaces the pending outcome and skips the close. *)
  Definition finally_ (old : nat) (r : nat) (g : gstate) (o : outcome B) : outcome B * istate :=
    match setrl old with
    | inl e => (Propagate e, {| rl := r; gs := g |})
    | inr r' => (o, {| rl := r'; gs := if has_close then Done else g |})
    end.

  Definition depth_of (limit : nat) : nat := budget limit cur.

  Definition evaluate_bounded (st : istate) (limit : nat) : outcome B * istate :=
    let old := rl st in
    match setrl limit with
    | inl e => finally_ old (rl st) (gs st) (handle (Some e) [])
    | inr r1 =>
        match gs st with
        | Done => finally_ old r1 Done (Return [])         (* a finished generator: StopIteration at once *)
        | Susp k0 =>
            let d := depth_of limit in
            match loop (gexc d) (skipn k0 (fst (ans d))) (snd (ans d)) k0 r1 [] with
            | (e, acc, r2, g2) => finally_ old r2 g2 (handle e acc)
            end
        end
    end.

  (* ---------------------------------------------------------------- the query side *)

  Theorem prefix_mono n m : n <= m ->
    prefix (fst (ans n)) (fst (ans m)) /\ (snd (ans n) = Norm -> ans m = ans n).
  Proof.
    intros L. specialize (ans_mono L). split; [apply res_le_prefix; exact ans_mono|].
    unfold res_le in ans_mono. intros E. rewrite E in ans_mono. exact ans_mono.
  Qed.

  (* ---------------------------------------------------------------- the interpreter side *)

  (* a running interpreter is below its recursion limit *)
  Definition running (st : istate) : Prop := cur < rl st.

  Lemma setrl_old st : running st -> setrl (rl st) = inr (rl st).
  Proof.
    unfold running, setrl. intros R.
    destruct (rl st <? 1) eqn:E1; [apply Nat.ltb_lt in E1; lia|].
    destruct (rl st <=? cur) eqn:E2; [apply Nat.leb_le in E2; lia|]. reflexivity.
  Qed.

  Lemma finally_running st r g o : running st ->
    finally_ (rl st) r g o = (o, {| rl := rl st; gs := if has_close then Done else g |}).
  Proof. intros R. unfold finally_. rewrite (setrl_old R). reflexivity. Qed.

  (* the recursion limit is afterwards what it was before the call: on EVERY branch (limit rejected
     with ValueError or RecursionError, finished generator, loop ended normally, by RecursionError,
     by an exception of the projection function of any class at any k, and whatever the
     projection function did to the limit) *)
  Theorem rlimit_restored st limit : running st -> rl (snd (evaluate_bounded st limit)) = rl st.
  Proof.
    intros R. unfold evaluate_bounded.
    destruct (setrl limit) as [e|r1]; [rewrite finally_running; auto|].
    destruct (gs st) as [k0|]; [|rewrite finally_running; auto].
    destruct (loop _ _ _ _ _ _) as [[[e acc] r2] g2]. rewrite finally_running; auto.
  Qed.

  (* the query object is closed on every branch *)
  Theorem generator_closed_on_every_branch st limit : running st -> has_close = true ->
    gs (snd (evaluate_bounded st limit)) = Done.
  Proof.
    intros R C. unfold evaluate_bounded.
    destruct (setrl limit) as [e|r1]; [rewrite finally_running; auto; simpl; rewrite C; reflexivity|].
    destruct (gs st) as [k0|]; [|rewrite finally_running; auto; simpl; destruct has_close; reflexivity].
    destruct (loop _ _ _ _ _ _) as [[[e acc] r2] g2]. rewrite finally_running; auto. simpl. rewrite C. reflexivity.
  Qed.

  (* even for an iterable without close(): unless the projection function raised, the generator is
     finished anyway (it ended itself, normally or by the RecursionError that went through it) *)
  Lemma loop_gen x0 l f : forall k r acc e acc' r' g', loop x0 l f k r acc = (e, acc', r', g') ->
    g' = Done \/ (exists j a r0 r1 x, g' = Susp (S j) /\ proj j a r0 = (PRaise x, r1) /\ e = Some x).
  Proof.
    induction l as [|a l IH]; intros k r acc e acc' r' g' H; simpl in H.
    - destruct f; injection H as <- <- <- <-; left; reflexivity.
    - destruct (proj k a r) as [[b|x] r1] eqn:P.
      + eapply IH; exact H.
      + injection H as <- <- <- <-. right. exists k, a, r, r1, x. auto.
  Qed.

  (* Restoring contract of the generator (C03: frame_restores): a finished generator holds no
     binding; holds g = the bindings made by the frames of the generator in state g *)
  Section Heap.
    Variable Hp : Type.
    Variable h0 : Hp.
    Variable holds : gstate -> Hp.
    Hypothesis Restoring : holds Done = h0.
    Corollary vars_unbound_after st limit : running st -> has_close = true ->
      holds (gs (snd (evaluate_bounded st limit))) = h0.
    Proof. intros R C. rewrite generator_closed_on_every_branch; auto. Qed.
  End Heap.

  (* what leaves the loop *)
  Lemma loop_exc x0 l f : forall k r acc e acc' r' g', loop x0 l f k r acc = (Some e, acc', r', g') ->
    (e = x0 /\ g' = Done /\ f = Err) \/ (exists j a r0 r1, proj j a r0 = (PRaise e, r1)).
  Proof.
    induction l as [|a l IH]; intros k r acc e acc' r' g' H; simpl in H.
    - destruct f; [discriminate|]. injection H as <- <- <- <-. left; auto.
    - destruct (proj k a r) as [[b|x] r1] eqn:P.
      + eapply IH; exact H.
      + injection H as <- <- <- <-. right. exists k, a, r, r1. exact P.
  Qed.

  (* no recursion-depth error (no RuntimeError at all, no StopIteration) escapes; what does escape is
     the ValueError of setrecursionlimit for a limit below 1, an exception of another class raised
     by the projection function, or an exception of another class that ended the enumeration itself
     (raised by a registered Python predicate) *)
  Theorem no_depth_error_escapes st limit e : running st ->
    fst (evaluate_bounded st limit) = Propagate e ->
    caught e = false /\
    ((limit < 1 /\ e = value_error) \/ (exists k a r0 r1, proj k a r0 = (PRaise e, r1)) \/
     (e = gexc (depth_of limit) /\ snd (ans (depth_of limit)) = Err)).
  Proof.
    intros R. unfold evaluate_bounded.
    destruct (setrl limit) as [x|r1] eqn:S1.
    - rewrite finally_running; auto. simpl. unfold setrl in S1.
      destruct (limit <? 1) eqn:E1.
      + injection S1 as <-. simpl. intros H; injection H as <-. split; auto. left. apply Nat.ltb_lt in E1. auto.
      + destruct (limit <=? cur); [|discriminate]. injection S1 as <-. simpl. discriminate.
    - destruct (gs st) as [k0|]; [|rewrite finally_running; auto; simpl; discriminate].
      destruct (loop _ _ _ _ _ _) as [[[x acc] r2] g2] eqn:L. rewrite finally_running; auto. simpl.
      destruct x as [x|]; simpl; [|discriminate].
      destruct (caught x) eqn:Cx; [discriminate|]. intros H; injection H as <-. split; auto.
      destruct (loop_exc _ _ _ _ _ _ L) as [[-> [_ Hf]]|Hp]; [right; right; split; [reflexivity|exact Hf] | right; left; exact Hp].
  Qed.

  (* ---------------------------------------------------------------- the result *)

  (* r is, element by element and in order, what the projection function returned for the answers l,
     the first of which has index k *)
  Inductive projected : nat -> list A -> list B -> Prop :=
  | projected_nil k : projected k [] []
  | projected_cons k a l b r r0 r1 : proj k a r0 = (PVal b, r1) -> projected (S k) l r -> projected k (a :: l) (b :: r).

  Lemma projected_app k l1 r1 l2 r2 : projected k l1 r1 -> projected (k + length l1) l2 r2 ->
    projected k (l1 ++ l2) (r1 ++ r2).
  Proof.
    induction 1 as [k|k a l b r r0 r1' P H IH]; simpl; intros H2.
    - rewrite Nat.add_0_r in H2. exact H2.
    - econstructor; [exact P|]. apply IH. replace (S k + length l) with (k + S (length l)) by lia. exact H2.
  Qed.

  Lemma loop_result x0 l f : forall k r acc e acc' r' g', loop x0 l f k r acc = (e, acc', r', g') ->
    exists l0 res0, acc' = acc ++ res0 /\ prefix l0 l /\ projected k l0 res0 /\
                    (e = None -> l0 = l /\ f = Norm) /\
                    (g' = Done -> l0 = l).
  Proof.
    induction l as [|a l IH]; intros k r acc e acc' r' g' H; simpl in H.
    - exists [], []. rewrite app_nil_r.
      destruct f; injection H as <- <- <- <-; repeat split; auto using prefix_refl; try constructor; discriminate.
    - destruct (proj k a r) as [[b|x] r1] eqn:P.
      + destruct (IH _ _ _ _ _ _ _ H) as [l0 [res0 [E [Pf [Pj [N D]]]]]].
        exists (a :: l0), (b :: res0). rewrite E, <- app_assoc. simpl. split; [reflexivity|]. split.
        * destruct Pf as [x ->]. exists x. reflexivity.
        * split; [econstructor; eauto|]. split.
          -- intros En. destruct (N En) as [-> ->]. auto.
          -- intros Dn. rewrite (D Dn). reflexivity.
      + injection H as <- <- <- <-. exists [], []. rewrite app_nil_r.
        repeat split; auto using prefix_nil; try constructor; discriminate.
  Qed.

  (* whatever happens, a returned result is the projection, in order, of a prefix of the answers -
     of the answer sequence at EVERY depth m at least the one the interpreter's limit corresponds to,
     hence of the true (unbounded) sequence *)
  Theorem result_is_prefix st limit res_ : gs st = Susp 0 ->
    fst (evaluate_bounded st limit) = Return res_ -> running st ->
    forall m, depth_of limit <= m ->
    exists l0, prefix l0 (fst (ans m)) /\ projected 0 l0 res_.
  Proof.
    intros G H R m Lm. unfold evaluate_bounded in H. rewrite G in H.
    destruct (setrl limit) as [x|r1].
    - rewrite finally_running in H; auto. simpl in H. exists []. split; [apply prefix_nil|].
      destruct (caught x); [injection H as <-; constructor | discriminate].
    - simpl in H. destruct (loop _ _ _ _ _ _) as [[[x acc] r2] g2] eqn:L.
      rewrite finally_running in H; auto. simpl in H.
      destruct (loop_result _ _ _ _ _ _ L) as [l0 [res0 [E [Pf [Pj _]]]]]. simpl in E. subst acc.
      assert (res_ = res0).
      { destruct x as [x|]; simpl in H; [destruct (caught x); [|discriminate]|]; injection H as <-; reflexivity. }
      subst res0. exists l0. split; auto.
      eapply prefix_trans; [exact Pf|]. apply (prefix_mono Lm).
  Qed.

  Lemma loop_total x0 : (forall k a r, exists b, proj k a r = (PVal b, r)) ->
    forall l k r acc, exists acc', loop x0 l Norm k r acc = (None, acc', r, Done).
  Proof.
    intros T. induction l as [|a l IH]; intros k r acc; simpl.
    - exists acc. reflexivity.
    - destruct (T k a r) as [b P]. rewrite P. apply IH.
  Qed.

  (* a finite search within the limit, a projection function that returns: the projection of every
     answer in order *)
  Theorem complete_when_shallow st limit : gs st = Susp 0 -> running st ->
    setrl limit = inr limit ->
    snd (ans (depth_of limit)) = Norm ->
    (forall k a r, exists b, proj k a r = (PVal b, r)) ->
    exists res_, fst (evaluate_bounded st limit) = Return res_ /\
      forall m, depth_of limit <= m -> projected 0 (fst (ans m)) res_ /\ snd (ans m) = Norm.
  Proof.
    intros G R S1 N T. unfold evaluate_bounded. rewrite G, S1. simpl.
    destruct (loop _ _ _ _ _ _) as [[[x acc] r2] g2] eqn:L.
    rewrite finally_running; auto. simpl.
    destruct (loop_result _ _ _ _ _ _ L) as [l0 [res0 [E [Pf [Pj [Hn Hd]]]]]]. simpl in E. subst acc.
    assert (Hx : x = None /\ g2 = Done).
    { rewrite N in L. destruct (loop_total (gexc (depth_of limit)) T (fst (ans (depth_of limit))) 0 limit []) as [acc' E'].
      rewrite E' in L. injection L as <- _ _ <-. auto. }
    destruct Hx as [-> ->]. exists res0. split; [reflexivity|].
    intros m Lm. destruct (Hn eq_refl) as [-> _].
    destruct (prefix_mono Lm) as [_ Eq]. rewrite (Eq N). auto.
  Qed.

  (* the result is exactly what the projection function returned: nothing is dropped when the loop is
     left by an exception (the result collected so far is returned) *)
  Theorem result_collected_so_far st limit k0 : gs st = Susp k0 ->
    running st -> forall r1, setrl limit = inr r1 ->
    let d := depth_of limit in
    forall e acc r2 g2, loop (gexc d) (skipn k0 (fst (ans d))) (snd (ans d)) k0 r1 [] = (e, acc, r2, g2) ->
    fst (evaluate_bounded st limit) = handle e acc.
  Proof.
    intros G R r1 S1 d e acc r2 g2 L. unfold evaluate_bounded. rewrite G, S1. fold d. rewrite L.
    rewrite finally_running; auto.
  Qed.
End EvaluateBounded.

(* evaluate_bounded used inside a projection function (nested): by rlimit_restored it leaves the
   limit alone, so it is a well-behaved projection for the outer call.  The inner call has its own
   query, projection, depth (deeper than the outer frame) and limit. *)
Definition nested_projection {A A' B'} (ans' : A -> nat -> res A') (proj' : nat -> A' -> nat -> pout B' * nat)
  (budget : nat -> nat -> nat) (cur' : nat) (limit' : nat) : nat -> A -> nat -> pout (list B') * nat :=
  fun _ a r =>
    match evaluate_bounded (ans' a) (fun _ => ERuntime) proj' budget cur' true {| rl := r; gs := Susp 0 |} limit' with
    | (Return x, st') => (PVal x, rl st')
    | (Propagate e, st') => (PRaise e, rl st')
    end.

Theorem nested_keeps_rlimit {A A' B'} (ans' : A -> nat -> res A') proj' budget cur' limit' k a r :
  cur' < r -> snd (@nested_projection A A' B' ans' proj' budget cur' limit' k a r) = r.
Proof.
  intros R. unfold nested_projection.
  pose proof (@rlimit_restored A' B' (ans' a) (fun _ => ERuntime) proj' budget cur' true {| rl := r; gs := Susp 0 |} limit' R) as H.
  destruct (evaluate_bounded _ _ _ _ _ _ _) as [[x|e] st']; simpl in *; exact H.
Qed.

(* the two statements as Properties/C17.v quotes them *)
Lemma generator_closed_every_generator (A B : Type) (ans : nat -> res A) (gexc : nat -> exc)
  (proj : nat -> A -> nat -> pout B * nat) budget cur st limit :
  running cur st -> gs (snd (evaluate_bounded ans gexc proj budget cur true st limit)) = Done.
Proof. intros R. apply generator_closed_on_every_branch; auto. Qed.

Lemma nested_keeps_rlimit_all : forall (A A' B' : Type) (ans' : A -> nat -> res A') proj' budget cur' limit' k a r,
  cur' < r -> snd (@nested_projection A A' B' ans' proj' budget cur' limit' k a r) = r.
Proof. intros A A' B'. exact (@nested_keeps_rlimit A A' B'). Qed.
