(* C17, round 4: evaluate_bounded when query.close() itself RAISES.

   engine.py:
        finally:
            sys.setrecursionlimit(old_recursionlimit)
            if hasattr(query, 'close'):
                query.close()
   The two statements are consecutive, not nested try/finally: an exception raised by the second one leaves the finally
   block at once.  close() of a suspended YP.query raises what the clean-up of a registered Python predicate raises when
   it is closed early and is reached from the query by `yield from` delegation only (goal of the query itself, call/N).
   Engine/Bounded.v models close() as total; here it may raise: `cexc g` = what close() raises on a generator in state g.
   The recursion limit is restored all the same BECAUSE it is restored first; with the two statements swapped
   (finally_swapped) it is not - `swapped_order_leaks` exhibits the difference, so the theorem really is about the order. *)
From Coq Require Import List Arith Bool Lia.
Import ListNotations.
From YP Require Import Engine.Bounded.
Set Implicit Arguments.

Section CloseRaises.
  Variables A B : Type.
  Variable ans : nat -> res A.
  Variable gexc : nat -> exc.
  Variable proj : nat -> A -> nat -> pout B * nat.
  Variable budget : nat -> nat -> nat.
  Variable cur : nat.
  (* query.close() on a generator in state g: None = it returns, Some e = the clean-up of a Python predicate raised e *)
  Variable cexc : gstate -> option exc.

  (* the finally block of engine.py: limit first, then close; an exception of close() replaces the pending outcome *)
  Definition finally_c (old r : nat) (g : gstate) (o : outcome B) : outcome B * istate :=
    match setrl cur old with
    | inl e => (Propagate e, {| rl := r; gs := g |})
    | inr r' => match cexc g with
                | Some e => (Propagate e, {| rl := r'; gs := Done |})
                | None => (o, {| rl := r'; gs := Done |})
                end
    end.

  Definition evaluate_bounded_c (st : istate) (limit : nat) : outcome B * istate :=
    let old := rl st in
    match setrl cur limit with
    | inl e => finally_c old (rl st) (gs st) (handle (Some e) [])
    | inr r1 =>
        match gs st with
        | Done => finally_c old r1 Done (Return [])
        | Susp k0 =>
            let d := depth_of budget cur limit in
            match loop proj (gexc d) (skipn k0 (fst (ans d))) (snd (ans d)) k0 r1 [] with
            | (e, acc, r2, g2) => finally_c old r2 g2 (handle e acc)
            end
        end
    end.

  Lemma finally_c_running st r g o : running cur st ->
    snd (finally_c (rl st) r g o) = {| rl := rl st; gs := Done |}.
  Proof.
    intros R. unfold finally_c. rewrite (setrl_old R). destruct (cexc g); reflexivity.
  Qed.

  (* limit restored and generator finished on EVERY branch, whatever close() raises *)
  Theorem close_raises_state st limit : running cur st ->
    snd (evaluate_bounded_c st limit) = {| rl := rl st; gs := Done |}.
  Proof.
    intros R. unfold evaluate_bounded_c.
    destruct (setrl cur limit) as [e|r1]; [apply finally_c_running; exact R|].
    destruct (gs st) as [k0|]; [|apply finally_c_running; exact R].
    destruct (loop _ _ _ _ _ _ _) as [[[e acc] r2] g2]. apply finally_c_running; exact R.
  Qed.

  Theorem close_raises_rlimit_restored st limit : running cur st ->
    rl (snd (evaluate_bounded_c st limit)) = rl st.
  Proof. intros R. rewrite (close_raises_state limit R). reflexivity. Qed.

  Lemma finally_c_out st r g o : running cur st ->
    fst (finally_c (rl st) r g o) = match cexc g with Some e => Propagate e | None => o end.
  Proof. intros R. unfold finally_c. rewrite (setrl_old R). destruct (cexc g); reflexivity. Qed.

  Lemma finally_out st r g (o : outcome B) : running cur st ->
    fst (finally_ cur true (rl st) r g o) = o.
  Proof. intros R. rewrite (@finally_running B cur true st r g o R). reflexivity. Qed.

  (* what comes out: the exception of close(), or exactly what Bounded.evaluate_bounded (total close) gives *)
  Theorem close_raises_outcome st limit : running cur st ->
    (exists g e, cexc g = Some e /\ fst (evaluate_bounded_c st limit) = Propagate e) \/
    fst (evaluate_bounded_c st limit) = fst (evaluate_bounded ans gexc proj budget cur true st limit).
  Proof.
    intros R. unfold evaluate_bounded_c, evaluate_bounded.
    assert (G : forall r g (o : outcome B),
      (exists g0 e, cexc g0 = Some e /\ fst (finally_c (rl st) r g o) = Propagate e) \/
      fst (finally_c (rl st) r g o) = fst (finally_ cur true (rl st) r g o)).
    { intros r g o. rewrite (finally_c_out r g o R), (finally_out r g o R).
      destruct (cexc g) as [e|] eqn:E; [left; exists g, e; split; [exact E|reflexivity]|right; reflexivity]. }
    destruct (setrl cur limit) as [e|r1]; [apply G|].
    destruct (gs st) as [k0|]; [|apply G].
    destruct (loop _ _ _ _ _ _ _) as [[[e acc] r2] g2]. apply G.
  Qed.

  (* a close() that never raises: the model of Bounded.v *)
  Theorem close_total_same st limit : running cur st -> (forall g, cexc g = None) ->
    evaluate_bounded_c st limit = evaluate_bounded ans gexc proj budget cur true st limit.
  Proof.
    intros R N. unfold evaluate_bounded_c, evaluate_bounded.
    assert (G : forall r g (o : outcome B), finally_c (rl st) r g o = finally_ cur true (rl st) r g o).
    { intros r g o. unfold finally_c, finally_. rewrite (setrl_old R), N. reflexivity. }
    destruct (setrl cur limit) as [e|r1]; [apply G|].
    destruct (gs st) as [k0|]; [|apply G].
    destruct (loop _ _ _ _ _ _ _) as [[[e acc] r2] g2]. apply G.
  Qed.

  (* ---- the two statements of the finally block swapped: close first, then the limit *)
  Definition finally_swapped (old r : nat) (g : gstate) (o : outcome B) : outcome B * istate :=
    match cexc g with
    | Some e => (Propagate e, {| rl := r; gs := Done |})          (* the restore is skipped *)
    | None => match setrl cur old with
              | inl e => (Propagate e, {| rl := r; gs := Done |})
              | inr r' => (o, {| rl := r'; gs := Done |})
              end
    end.

  Definition evaluate_bounded_swapped (st : istate) (limit : nat) : outcome B * istate :=
    let old := rl st in
    match setrl cur limit with
    | inl e => finally_swapped old (rl st) (gs st) (handle (Some e) [])
    | inr r1 =>
        match gs st with
        | Done => finally_swapped old r1 Done (Return [])
        | Susp k0 =>
            let d := depth_of budget cur limit in
            match loop proj (gexc d) (skipn k0 (fst (ans d))) (snd (ans d)) k0 r1 [] with
            | (e, acc, r2, g2) => finally_swapped old r2 g2 (handle e acc)
            end
        end
    end.
End CloseRaises.

(* the order matters: one answer, the projection raises at it (the query stays suspended), close() of the suspended query
   raises; interpreter limit 1000, bound 150, caller at depth 10.  engine.py's order gives back 1000, the swapped order 150. *)
Definition ex_ans (_ : nat) : res nat := ([7; 8], Norm).
Definition ex_proj (k : nat) (_ : nat) (r : nat) : pout nat * nat := (PRaise (EOther 3), r).
Definition ex_cexc (g : gstate) : option exc := match g with Susp _ => Some (EOther 9) | Done => None end.
Definition ex_st : istate := {| rl := 1000; gs := Susp 0 |}.

Lemma swapped_order_leaks :
  running 10 ex_st /\
  evaluate_bounded_c ex_ans (fun _ => ERuntime) ex_proj (fun l c => l - c) 10 ex_cexc ex_st 150
    = (Propagate (EOther 9), {| rl := 1000; gs := Done |}) /\
  evaluate_bounded_swapped ex_ans (fun _ => ERuntime) ex_proj (fun l c => l - c) 10 ex_cexc ex_st 150
    = (Propagate (EOther 9), {| rl := 150; gs := Done |}).
Proof. split; [unfold running; simpl; lia|]. split; reflexivity. Qed.

Theorem close_raises_rlimit_restored_all : forall (A B : Type) (ans : nat -> res A) (gexc : nat -> exc)
  (proj : nat -> A -> nat -> pout B * nat) budget cur (cexc : gstate -> option exc) st limit,
  running cur st ->
  snd (evaluate_bounded_c ans gexc proj budget cur cexc st limit) = {| rl := rl st; gs := Done |}.
Proof. intros. apply close_raises_state; assumption. Qed.

Theorem close_raises_outcome_all : forall (A B : Type) (ans : nat -> res A) (gexc : nat -> exc)
  (proj : nat -> A -> nat -> pout B * nat) budget cur (cexc : gstate -> option exc) st limit,
  running cur st ->
  (exists g e, cexc g = Some e /\ fst (evaluate_bounded_c ans gexc proj budget cur cexc st limit) = Propagate e) \/
  fst (evaluate_bounded_c ans gexc proj budget cur cexc st limit) = fst (evaluate_bounded ans gexc proj budget cur true st limit).
Proof. intros. apply close_raises_outcome; assumption. Qed.
