(* C17, "all query variables are unbound again": evaluate_bounded on the generator-frame machine of C03
   (Engine/GenMachine.v: generator frames over the mutable heap of Variable cells, leaves = the unification
   generators of engine.py, d = the recursion depth that the limit leaves, RecursionError when a frame would
   be entered at depth 0).

     for x in query: result.append(projection_function(x))      k resumptions of the query generator
     finally: query.close()                                       iclose

   The loop is left after k resumptions for ANY reason - the generator ended by itself, a RecursionError
   came up through its frames, the projection function raised at the k-th answer - and the finally block
   closes whatever generator state is left.  For every program, heap, fuel, depth d and every k the heap
   after the close is the heap before the call: no Variable that the search bound stays bound
   (Restore.query_restores_unify, the frame theorem of C03). *)
From Coq Require Import List Arith Bool.
Import ListNotations.
From YP Require Import Base.Str Term.Term Unify.UnifyGen Engine.GenMachine Engine.Restore.

Section EbHeap.
  Variable E P : Type.
  Variable prog : P -> code (term * term) E P * E.
  Variable gho : E -> nat.          (* ghost of the frame machine (C03): not used by the execution *)

  (* the heap that evaluate_bounded leaves: k resumptions (stopping early if one does not yield), then close *)
  Definition eb_final_heap (n d k : nat) (h : heap) (c : code (term * term) E P) (e : E) : option heap :=
    match nexts umkleaf ulnext ulclose prog gho n d k h (IFresh c e) with
    | Some (hf, itf, _, _) => Some (iclose (L:=gen) (X:=term*term) (E:=E) (P:=P) ulclose hf itf)
    | None => None
    end.

  Theorem eb_heap_restored n d k h c e h' : eb_final_heap n d k h c e = Some h' -> h' = h.
  Proof.
    unfold eb_final_heap. destruct (nexts _ _ _ _ _ _ _ _ _ _) as [[[[hf itf] ys] r]|] eqn:N; [|discriminate].
    intros H. injection H as <-.
    exact (proj1 (@query_restores_unify E P prog gho n d k h c e hf itf ys r N)).
  Qed.

  (* a search that ended by itself (exhausted, or by the RecursionError) holds no binding even before the close *)
  Theorem eb_heap_restored_at_end n d k h c e hf itf ys r :
    nexts umkleaf ulnext ulclose prog gho n d k h (IFresh c e) = Some (hf, itf, ys, r) -> r <> RYield -> hf = h.
  Proof.
    intros N NY. exact (proj1 (proj2 (@query_restores_unify E P prog gho n d k h c e hf itf ys r N)) NY).
  Qed.
End EbHeap.
Arguments eb_final_heap {E P} prog gho n d k h c e.
