(* C17 for the engine model of compiled programs (Sem/Machine.v):

     query n ir name args st     n = nesting depth of YP.query calls that fits under the recursion limit;
                                 at n = 0 the call raises (RecursionError)

   Proved here: the answer sequence of EVERY query against EVERY IR program (with the builtins =, \=, call/N,
   once/1, findall/3) is prefix-monotone in n - the hypothesis `ans_mono` of Engine/Bounded.v.  The reason is
   structural: nothing in the emitted code or in the builtins catches an exception, answers delivered before
   it stay delivered (Sem/ExecMono.v), once/1 and if-then-else look at the first answer only, findall/3 and
   \+ deliver nothing when the inner search raises. *)
From Coq Require Import String.
From Coq Require Import List Arith Bool Lia ZArith.
Import ListNotations.
From YP Require Import Base.Str Term.Term Term.Fast Unify.Unify Lang.Ast Comp.IR Comp.CompileBody Sem.IRSem Sem.ExecMono Sem.Machine
  Sem.RunSem Engine.Bounded Engine.RunBoundedM.
Local Open Scope string_scope.
Local Open Scope list_scope.

Definition callT := str -> list term -> st -> list st * bool.
Definition call_le (c1 c2 : callT) : Prop := forall name args s, le_b (c1 name args s) (c2 name args s).

(* ------------------------------------------------------------------ the builtins *)

Lemma call_goal_mono c1 c2 : call_le c1 c2 -> forall g extra s, le_b (call_goal c1 g extra s) (call_goal c2 g extra s).
Proof.
  intros H g extra s. unfold call_goal. destruct (den_fast (sto s) g); try apply le_b_refl; apply H.
Qed.

Definition ole {A} (o1 o2 : option (list A * bool)) : Prop :=
  match o1, o2 with
  | Some r1, Some r2 => le_b r1 r2
  | None, None => True
  | _, _ => False
  end.

Lemma ole_refl {A} (o : option (list A * bool)) : ole o o.
Proof. destruct o; simpl; [apply le_b_refl | exact I]. Qed.

Lemma once_mono (r1 r2 : list st * bool) : le_b r1 r2 ->
  le_b (match r1 with (x :: _, _) => ([x], false) | ([], e) => ([], e) end)
       (match r2 with (x :: _, _) => ([x], false) | ([], e) => ([], e) end).
Proof.
  destruct r1 as [l1 e1], r2 as [l2 e2]. unfold le_b; cbn [fst snd]. destruct e1.
  - intros [more ->]. destruct l1 as [|x l1]; cbn [app fst snd].
    + apply prefixl_nil.
    + reflexivity.
  - intros E. injection E as -> ->. destruct l1; reflexivity.
Qed.

Lemma findall_mono (r1 r2 : list st * bool) (k : list st -> list st * bool) : le_b r1 r2 ->
  le_b (let '(xs, e) := r1 in if e then ([], true) else k xs)
       (let '(xs, e) := r2 in if e then ([], true) else k xs).
Proof.
  destruct r1 as [l1 e1], r2 as [l2 e2]. unfold le_b at 1; cbn [fst snd]. destruct e1.
  - intros _. unfold le_b; cbn [fst snd]. apply prefixl_nil.
  - intros E. injection E as -> ->. apply le_b_refl.
Qed.

Lemma builtin_mono c1 c2 : call_le c1 c2 -> forall name args s, ole (builtin c1 name args s) (builtin c2 name args s).
Proof.
  intros H name args s. unfold builtin.
  destruct (str_eqb name (s_ "=")); [apply ole_refl|].
  destruct (str_eqb name (s_ "\=")); [apply ole_refl|].
  destruct (str_eqb name (s_ "call")).
  { destruct args as [|g extra]; [apply ole_refl|]. cbn [ole]. apply call_goal_mono; exact H. }
  destruct (str_eqb name (s_ "once")).
  { destruct args as [|g [|? ?]]; try apply ole_refl. cbn [ole]. apply once_mono. apply call_goal_mono; exact H. }
  destruct (str_eqb name (s_ "findall")).
  { destruct args as [|t [|g [|l [|? ?]]]]; try apply ole_refl. cbn [ole].
    exact (@findall_mono _ _ (fun xs => let '(es, b) := collect 0 (nxt s) t xs in
                                        unify_st {| sto := sto s; nxt := b |} l (mk_list es))
                         (@call_goal_mono _ _ H g [] s)). }
  exact I.
Qed.

(* ------------------------------------------------------------------ iterator expressions, generator functions *)

Lemma iter_mono c1 c2 : call_le c1 c2 -> forall it c, le_b (iter c1 it c) (iter c2 it c).
Proof.
  intros H it [r s]. unfold iter.
  destruct it as [| | |f args|]; try apply le_b_refl.
  destruct args as [|a [|b [|? ?]]]; try apply le_b_refl.
  destruct (str_eqb f (s_ "unify")); [apply le_b_refl|].
  destruct (str_eqb f (s_ "query")); [|apply le_b_refl].
  destruct a; try apply le_b_refl. destruct b; try apply le_b_refl.
  pose proof (H s0 (map (eval_expr r) items) s) as L.
  apply (le_b_map (fun x : st => (r, x))) in L.
  destruct (c1 s0 (map (eval_expr r) items) s) as [xs1 e1]. destruct (c2 s0 (map (eval_expr r) items) s) as [xs2 e2].
  exact L.
Qed.

Definition run_res (r : list cfg * compl) : list st * bool :=
  (map snd (fst r), match snd r with CErr => true | _ => false end).

Lemma run_res_mono (r1 r2 : list cfg * compl) : le_run r1 r2 -> le_b (run_res r1) (run_res r2).
Proof.
  destruct r1 as [ys1 k1], r2 as [ys2 k2]. unfold le_run, run_res, le_b; cbn [fst snd].
  destruct k1; try (intros E; injection E as -> ->; reflexivity).
  apply prefixl_map.
Qed.

Lemma query_S n p name args s : query (S n) p name args s =
  match find_func p name (length args) with
  | Some f => run_res (run_function (iter (query n p)) assign (fn_body f) (bind_args 0 args, s))
  | None => match builtin (query n p) name args s with Some r => r | None => ([], false) end
  end.
Proof.
  cbn [query]. destruct (find_func p name (length args)); [|reflexivity].
  unfold run_res. destruct (run_function _ _ _ _) as [ys k]. reflexivity.
Qed.

Lemma query_step_mono p c1 c2 : call_le c1 c2 -> forall name args s,
  le_b (match find_func p name (length args) with
        | Some f => run_res (run_function (iter c1) assign (fn_body f) (bind_args 0 args, s))
        | None => match builtin c1 name args s with Some r => r | None => ([], false) end end)
       (match find_func p name (length args) with
        | Some f => run_res (run_function (iter c2) assign (fn_body f) (bind_args 0 args, s))
        | None => match builtin c2 name args s with Some r => r | None => ([], false) end end).
Proof.
  intros H name args s. destruct (find_func p name (length args)) as [f|].
  - apply run_res_mono. apply run_function_mono. apply iter_mono. exact H.
  - pose proof (@builtin_mono _ _ H name args s) as B.
    destruct (builtin c1 name args s), (builtin c2 name args s); simpl in B; try contradiction; [exact B | apply le_b_refl].
Qed.

Lemma query_mono_S p : forall n, call_le (query n p) (query (S n) p).
Proof.
  induction n as [|n IH]; intros name args s.
  - unfold le_b; cbn [query fst snd]. apply prefixl_nil.
  - rewrite (query_S (S n)), (query_S n). apply query_step_mono. exact IH.
Qed.

Theorem query_mono p n m : n <= m -> call_le (query n p) (query m p).
Proof.
  induction 1 as [|m L IH]; intros name args s; [apply le_b_refl|].
  eapply le_b_trans; [apply IH | apply query_mono_S].
Qed.

(* ------------------------------------------------------------------ in the vocabulary of Engine/Bounded.v *)

Lemma prefixl_prefix {A} (a b : list A) : prefixl a b -> prefix a b.
Proof. intros [x ->]. exists x. reflexivity. Qed.

Lemma le_b_res_le {A B} (f : A -> B) (r1 r2 : list A * bool) : le_b r1 r2 ->
  res_le (map f (fst r1), fin_of_bool (snd r1)) (map f (fst r2), fin_of_bool (snd r2)).
Proof.
  destruct r1 as [l1 e1], r2 as [l2 e2]. unfold le_b, res_le; cbn [fst snd]. destruct e1; cbn [fin_of_bool].
  - intros P. apply prefixl_prefix. apply prefixl_map. exact P.
  - intros E. injection E as -> ->. reflexivity.
Qed.

(* the hypothesis ans_mono of Engine/Bounded.v holds for every query of the machine *)
Theorem machine_ans_mono ir name args nq n m : n <= m ->
  res_le (machine_ans ir name args nq n) (machine_ans ir name args nq m).
Proof.
  intros L. unfold machine_ans. apply le_b_res_le. apply query_mono. exact L.
Qed.

Section MachineBounded.
  Variable ir : ir_program.
  Variable name : str.
  Variable args : list term.
  Variable nq : nat.
  Variable B : Type.
  Variable proj : nat -> list term -> nat -> pout B * nat.
  Variable budget : nat -> nat -> nat.
  Variable cur : nat.

  Definition ebm := evaluate_bounded (machine_ans ir name args nq) (fun _ => ERuntime) proj budget cur true.

  Theorem machine_prefix_mono n m : n <= m ->
    prefix (fst (machine_ans ir name args nq n)) (fst (machine_ans ir name args nq m)) /\
    (snd (machine_ans ir name args nq n) = Norm -> machine_ans ir name args nq m = machine_ans ir name args nq n).
  Proof. apply prefix_mono. intros; apply machine_ans_mono; assumption. Qed.

  Theorem machine_result_is_prefix st limit res_ : gs st = Susp 0 ->
    fst (ebm st limit) = Return res_ -> running cur st ->
    forall m, budget limit cur <= m ->
    exists l0, prefix l0 (fst (machine_ans ir name args nq m)) /\ projected proj 0 l0 res_.
  Proof. apply result_is_prefix. intros; apply machine_ans_mono; assumption. Qed.

  Theorem machine_complete_when_shallow st limit : gs st = Susp 0 -> running cur st ->
    setrl cur limit = inr limit ->
    snd (machine_ans ir name args nq (budget limit cur)) = Norm ->
    (forall k a r, exists b, proj k a r = (PVal b, r)) ->
    exists res_, fst (ebm st limit) = Return res_ /\
      forall m, budget limit cur <= m ->
        projected proj 0 (fst (machine_ans ir name args nq m)) res_ /\ snd (machine_ans ir name args nq m) = Norm.
  Proof.
    intros G R S1 N T.
    exact (@complete_when_shallow _ _ (machine_ans ir name args nq)
             (fun n m L => @machine_ans_mono ir name args nq n m L) (fun _ => ERuntime) proj budget cur true st limit G R S1 N T).
  Qed.
End MachineBounded.
