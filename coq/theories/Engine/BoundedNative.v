(* C17 for the full YP.query (Sem/Native.v, Sem/NativeExc.v): loaded script + dynamic facts + registered Python
   predicates that may raise.  The enumeration can now end in three ways: exhausted, cut short by the recursion limit
   (RecursionError, caught by evaluate_bounded), or by the exception object of a Python predicate (propagates through
   evaluate_bounded like an exception of the projection function; limit restored, generator closed). *)
From Coq Require Import String.
From Coq Require Import List Arith Bool Lia ZArith.
Import ListNotations.
From YP Require Import Base.Str Term.Term Term.Fast Unify.Unify Lang.Ast Comp.IR Sem.ExecMono Sem.Machine Sem.RunSem
  Sem.Native Sem.NativeExc Engine.Bounded Engine.RunBoundedM Engine.BoundedMachine Engine.NativeMono.
Local Open Scope list_scope.

(* the Python exception class of the model's exception objects: the engine's RecursionError is a RuntimeError; a goal that
   is not callable, a malformed iterator and the objects of the Python predicates are of other classes *)
Definition exc_of (e : exn) : exc :=
  match e with
  | XDepth | XUnify => ERuntime
  | XGoal => EOther 4
  | XCode => EOther 5
  | XPy t => EOther (10 + t)
  end.

Definition world_ans (w : worldE) (name : str) (args : list term) (nq : nat) (n : nat) : res (list term) :=
  let r := nqueryE n w name args (st0 nq) in (map (answer_of nq) (fst r), fin_of_bool (eb (snd r))).

Definition world_gexc (w : worldE) (name : str) (args : list term) (nq : nat) (n : nat) : exc :=
  match snd (nqueryE n w name args (st0 nq)) with Some e => exc_of e | None => ERuntime end.

Theorem world_ans_mono w name args nq n m : n <= m -> res_le (world_ans w name args nq n) (world_ans w name args nq m).
Proof.
  intros L. unfold world_ans.
  pose proof (erase_nqueryE w n name args (st0 nq)) as En. pose proof (erase_nqueryE w m name args (st0 nq)) as Em.
  pose proof (@nquery_depth_mono (erase_world w) n m L name args (st0 nq)) as M. rewrite <- En, <- Em in M.
  apply (le_b_res_le (answer_of nq)) in M. exact M.
Qed.

Section WorldBounded.
  Variable w : worldE.
  Variable name : str.
  Variable args : list term.
  Variable nq : nat.
  Variable B : Type.
  Variable proj : nat -> list term -> nat -> pout B * nat.
  Variable budget : nat -> nat -> nat.
  Variable cur : nat.

  Definition ebw := evaluate_bounded (world_ans w name args nq) (world_gexc w name args nq) proj budget cur true.

  Theorem world_result_is_prefix st limit res_ : gs st = Susp 0 ->
    fst (ebw st limit) = Return res_ -> running cur st ->
    forall m, budget limit cur <= m ->
    exists l0, prefix l0 (fst (world_ans w name args nq m)) /\ projected proj 0 l0 res_.
  Proof. apply result_is_prefix. intros; apply world_ans_mono; assumption. Qed.

  (* what escapes is not a recursion-depth error: a ValueError for a limit below 1, an exception that the projection
     function raised, or the exception object of a Python predicate / a goal that is not callable *)
  Theorem world_no_depth_error_escapes st limit e : running cur st ->
    fst (ebw st limit) = Propagate e ->
    caught e = false /\
    ((limit < 1 /\ e = value_error) \/ (exists k a r0 r1, proj k a r0 = (PRaise e, r1)) \/
     (exists x, snd (nqueryE (budget limit cur) w name args (st0 nq)) = Some x /\ e = exc_of x /\ x <> XDepth /\ x <> XUnify)).
  Proof.
    intros R H. destruct (@no_depth_error_escapes _ _ (world_ans w name args nq) (world_gexc w name args nq) proj budget cur true st limit e R H) as [C [A|[A|[A1 A2]]]]; split; auto.
    right; right. unfold world_gexc, depth_of in A1. unfold world_ans, depth_of in A2. cbn [snd] in A2.
    destruct (snd (nqueryE (budget limit cur) w name args (st0 nq))) as [x|]; cbn in A2; [|discriminate].
    exists x. split; [reflexivity|]. split; [exact A1|]. subst e. destruct x; cbn in C; try discriminate; split; discriminate.
  Qed.
End WorldBounded.
