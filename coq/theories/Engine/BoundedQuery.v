(* A concrete recursive query model for C17: depth-first, left-to-right SLD resolution of pure
   clauses over the C02 unification model, step-indexed by CALL DEPTH (the nesting of predicate
   calls - what consumes the interpreter's recursion depth).  call 0 = "the recursion limit is hit
   here" (Err); an Err ends the whole enumeration but everything delivered before it stays
   delivered, exactly like a RecursionError that travels up through the nested generators.

   Proved: the answer sequence is prefix-monotone in the depth (sld_ans_mono), which is the
   hypothesis ans_mono of Engine/Bounded.v.  So all theorems there hold for these queries. *)
From Coq Require Import List Arith Bool Lia ZArith.
Import ListNotations.
From YP Require Import Base.Str Term.Term Unify.Unify Engine.Bounded.
Set Implicit Arguments.

(* ------------------------------------------------------------------ combinators on partial answer lists *)

Definition app_res {X} (r1 r2 : res X) : res X :=
  match snd r1 with Norm => (fst r1 ++ fst r2, snd r2) | Err => r1 end.

(* for x in (l ending with f): deliver k x *)
Fixpoint bind {X Y} (l : list X) (f : fin) (k : X -> res Y) : res Y :=
  match l with
  | [] => ([], f)
  | x :: l' => app_res (k x) (bind l' f k)
  end.

Lemma app_res_mono {X} (a a' b b' : res X) : res_le a a' -> res_le b b' -> res_le (app_res a b) (app_res a' b').
Proof.
  destruct a as [la fa], a' as [la' fa'], b as [lb fb], b' as [lb' fb'].
  unfold res_le, app_res; simpl. destruct fa.
  - intros E. injection E as -> ->. simpl. destruct fb.
    + intros E. injection E as -> ->. reflexivity.
    + intros P. apply prefix_app; exact P.
  - intros P _. simpl. destruct fa'; simpl; [|exact P].
    eapply prefix_trans; [exact P | apply prefix_app_l].
Qed.

Lemma bind_mono_gen {X Y} (k k' : X -> res Y) (f f' : fin) (x : list X) :
  (forall a, res_le (k a) (k' a)) -> (f = Norm -> x = [] /\ f' = Norm) ->
  forall l, res_le (bind l f k) (bind (l ++ x) f' k').
Proof.
  intros K F. induction l as [|a l IH]; simpl.
  - destruct f.
    + destruct (F eq_refl) as [-> ->]. apply res_le_refl.
    + unfold res_le; simpl. apply prefix_nil.
  - apply app_res_mono; auto.
Qed.

Lemma bind_mono {X Y} (r r' : res X) (k k' : X -> res Y) :
  res_le r r' -> (forall a, res_le (k a) (k' a)) -> res_le (bind (fst r) (snd r) k) (bind (fst r') (snd r') k').
Proof.
  intros R K. destruct r as [l f], r' as [l' f']. unfold res_le in R. simpl in *. destruct f.
  - injection R as -> ->. rewrite <- (app_nil_r l) at 2. apply bind_mono_gen; auto.
  - destruct R as [x ->]. apply bind_mono_gen; auto. discriminate.
Qed.

(* ------------------------------------------------------------------ SLD resolution *)

Definition clause : Type := (term * list term)%type.      (* head :- goals *)
Definition sstate : Type := (store * nat)%type.           (* active bindings, next unused variable *)

Fixpoint shift (off : nat) (t : term) : term :=
  match t with
  | TVar v => TVar (v + off)
  | TFun f args => TFun f (map (shift off) args)
  | _ => t
  end.

Fixpoint maxvar (t : term) : nat :=
  match t with
  | TVar v => S v
  | TFun _ args => fold_right (fun a m => Nat.max (maxvar a) m) 0 args
  | _ => 0
  end.

Definition cl_vars (c : clause) : nat :=
  Nat.max (maxvar (fst c)) (fold_right (fun a m => Nat.max (maxvar a) m) 0 (snd c)).

Section Sld.
  Variable P : list clause.
  Variable fu : nat.                       (* fuel of the unification model; independent of the depth *)

  Section Goals.
    Variable I : term -> sstate -> res sstate.      (* how a call is answered *)
    (* the nested for loops of a clause body *)
    Fixpoint conj (goals : list term) (st : sstate) : res sstate :=
      match goals with
      | [] => ([st], Norm)
      | g :: gs => let r := I g st in bind (fst r) (snd r) (conj gs)
      end.

    (* the clauses of the predicate function, in order; each with fresh variables *)
    Fixpoint clauses (cs : list clause) (g : term) (st : sstate) : res sstate :=
      match cs with
      | [] => ([], Norm)
      | c :: cs' =>
          let nv := snd st in
          let r := match unify fu (fst st) g (shift nv (fst c)) with
                   | UOk s' => conj (map (shift nv) (snd c)) (s', nv + cl_vars c)
                   | _ => ([], Norm)
                   end in
          app_res r (clauses cs' g st)
      end.
  End Goals.

  Fixpoint call (n : nat) (g : term) (st : sstate) : res sstate :=
    match n with
    | O => ([], Err)
    | S n' => clauses (call n') P g st
    end.

  Lemma conj_mono I I' : (forall g st, res_le (I g st) (I' g st)) ->
    forall goals st, res_le (conj I goals st) (conj I' goals st).
  Proof.
    intros H. induction goals as [|g gs IH]; intros st; simpl; [apply res_le_refl|].
    apply bind_mono; auto.
  Qed.

  Lemma clauses_mono I I' : (forall g st, res_le (I g st) (I' g st)) ->
    forall cs g st, res_le (clauses I cs g st) (clauses I' cs g st).
  Proof.
    intros H. induction cs as [|c cs IH]; intros g st; simpl; [apply res_le_refl|].
    apply app_res_mono; auto.
    destruct (unify fu (fst st) g (shift (snd st) (fst c))); try apply res_le_refl.
    apply conj_mono; auto.
  Qed.

  Lemma call_mono_S n : forall g st, res_le (call n g st) (call (S n) g st).
  Proof.
    induction n as [|n IH]; intros g st.
    - unfold res_le; simpl. apply prefix_nil.
    - change (res_le (clauses (call n) P g st) (clauses (call (S n)) P g st)).
      apply clauses_mono. exact IH.
  Qed.

  Theorem call_mono n m g st : n <= m -> res_le (call n g st) (call m g st).
  Proof.
    induction 1 as [|m L IH]; [apply res_le_refl|].
    eapply res_le_trans; [exact IH | apply call_mono_S].
  Qed.

  (* the answers of the query q, as the caller sees them: q resolved at each answer *)
  Definition sld_ans (q : term) (n : nat) : res term :=
    let r := call n q ([], maxvar q) in (map (fun st => den (fst st) q) (fst r), snd r).

  Theorem sld_ans_mono q n m : n <= m -> res_le (sld_ans q n) (sld_ans q m).
  Proof.
    intros L. pose proof (call_mono q ([], maxvar q) L) as H. unfold sld_ans, res_le in *. simpl.
    destruct (snd (call n q ([], maxvar q))) eqn:E.
    - rewrite H, E. reflexivity.
    - destruct H as [x ->]. rewrite map_app. apply prefix_app_l.
  Qed.
End Sld.

(* ------------------------------------------------------------------ the C17 theorems for SLD queries *)

Section SldBounded.
  Variable P : list clause.
  Variable fu : nat.
  Variable q : term.
  Variable B : Type.
  Variable proj : nat -> term -> nat -> pout B * nat.
  Variable budget : nat -> nat -> nat.
  Variable cur : nat.

  Definition eb := evaluate_bounded (sld_ans P fu q) (fun _ => ERuntime) proj budget cur true.

  Theorem sld_prefix_mono n m : n <= m ->
    prefix (fst (sld_ans P fu q n)) (fst (sld_ans P fu q m)) /\
    (snd (sld_ans P fu q n) = Norm -> sld_ans P fu q m = sld_ans P fu q n).
  Proof. apply prefix_mono. apply sld_ans_mono. Qed.

  Theorem sld_result_is_prefix st limit res_ : gs st = Susp 0 ->
    fst (eb st limit) = Return res_ -> running cur st ->
    forall m, budget limit cur <= m ->
    exists l0, prefix l0 (fst (sld_ans P fu q m)) /\ projected proj 0 l0 res_.
  Proof. apply result_is_prefix. apply sld_ans_mono. Qed.

  Theorem sld_complete_when_shallow st limit : gs st = Susp 0 -> running cur st ->
    setrl cur limit = inr limit ->
    snd (sld_ans P fu q (budget limit cur)) = Norm ->
    (forall k a r, exists b, proj k a r = (PVal b, r)) ->
    exists res_, fst (eb st limit) = Return res_ /\
      forall m, budget limit cur <= m -> projected proj 0 (fst (sld_ans P fu q m)) res_ /\ snd (sld_ans P fu q m) = Norm.
  Proof.
    intros G R S1 N T.
    exact (@complete_when_shallow _ _ (sld_ans P fu q) (@sld_ans_mono P fu q) (fun _ => ERuntime) proj budget cur true st limit G R S1 N T).
  Qed.
End SldBounded.
