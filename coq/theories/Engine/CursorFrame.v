(* Frame property of a suspended query (cursor): if everything the cursor holds is over its own set of
   cells P and the heap is closed for P, then resuming it on the shared heap and resuming it on the
   heap restricted to P give the same cursor, the same answer, the same atoms; the bindings of all
   other cells stay exactly where they are.  Consequence: two cursors over disjoint sets of cells,
   advanced in any interleaving, each produce their stand-alone answers (same_engine_disjoint). *)
From Coq Require Import String.
From Coq Require Import List Arith Bool Lia ZArith.
Import ListNotations.
From YP Require Import Base.Str Term.Term Unify.Unify Engine.Deref Engine.Frame Engine.World.
Set Implicit Arguments.

Lemma strip_app (a h : store) : strip (a ++ h) h = a.
Proof.
  unfold strip. rewrite app_length, Nat.add_sub.
  rewrite <- (Nat.add_0_r (length a)), firstn_app_2. simpl. apply app_nil_r.
Qed.

Section CF.
Variable P : nat -> bool.

Lemma tin_rn f t : (forall k, P (f k) = true) -> tin P (rn f t).
Proof.
  intros Hf. induction t as [a|z|q|v|g args IH] using term_ind'; simpl;
    try (intros w Hw; discriminate).
  - apply tin_var. apply Hf.
  - apply tin_fun. apply Forall_forall. intros x Hx. apply in_map_iff in Hx as [y [<- Hy]].
    rewrite Forall_forall in IH. auto.
Qed.
Lemma lin_rn f l : (forall k, P (f k) = true) -> Forall (tin P) (map (rn f) l).
Proof.
  intros Hf. apply Forall_forall. intros x Hx. apply in_map_iff in Hx as [y [<- _]]. apply tin_rn; auto.
Qed.

Definition gin (g : goal) : Prop := Forall (tin P) (snd g).

Inductive fgood : frame -> Prop :=
| FG1 tr cnt gs : good P tr -> Forall gin gs -> fgood (FGoals tr cnt gs)
| FG2 tr cnt args f rest : good P tr -> Forall (tin P) args -> Forall gin rest -> fgood (FFact tr cnt args f rest)
| FG3 tr cnt fn args rest : good P tr -> Forall (tin P) args -> Forall gin rest -> fgood (FFun tr cnt fn args rest)
| FG4 tr cnt args cl rest : good P tr -> Forall (tin P) args -> Forall gin rest -> fgood (FClause tr cnt args cl rest).

Lemma gin_rn f l : (forall k, P (f k) = true) -> Forall gin (map (rn_goal f) l).
Proof.
  intros Hf. apply Forall_forall. intros x Hx. apply in_map_iff in Hx as [y [<- _]].
  unfold gin, rn_goal. simpl. apply lin_rn; auto.
Qed.

(* one head/fact unification on  own bindings ++ rest of the heap *)
Lemma ua_step tr h0 xs ys : good P tr -> closed P h0 -> Forall (tin P) xs -> Forall (tin P) ys ->
  match unify_arrays2 UF (tr ++ h0) xs ys with
  | UOk s' => exists tr', s' = tr' ++ h0 /\ good P tr' /\
                          unify_arrays2 UF (tr ++ fP P h0) xs ys = UOk (tr' ++ fP P h0)
  | r => unify_arrays2 UF (tr ++ fP P h0) xs ys = r
  end.
Proof.
  intros G C Hx Hy. rewrite !unify_arrays2_eq.
  assert (E0 : tr ++ fP P h0 = fP P (tr ++ h0)) by (rewrite fP_app, (fP_good G); reflexivity).
  rewrite E0.
  assert (C1 : closed P (tr ++ h0)) by (apply closed_app; auto using good_closed).
  destruct (unify_arrays_frame UF C1 Hx Hy) as [E Po]. rewrite E.
  destruct (unify_arrays UF (tr ++ h0) xs ys) as [s'| | |]; simpl; auto.
  destruct Po as [nw [-> Gn]]. exists (nw ++ tr). rewrite app_assoc. split; [reflexivity|].
  split; [apply good_app; auto|]. rewrite fP_app, (fP_good (good_app Gn G)). reflexivity.
Qed.

Variable fresh : nat -> nat.
Hypothesis Hfresh : forall k, P (fresh k) = true.

Definition sgood (r : sres) : Prop :=
  match r with SAns tr fr _ => good P tr /\ Forall fgood fr | _ => True end.

Lemma search_frame d h0 : closed P h0 -> forall fuel fr names, Forall fgood fr ->
  search fuel d (fP P h0) fresh fr names = search fuel d h0 fresh fr names
  /\ sgood (search fuel d h0 fresh fr names).
Proof.
  intros C. induction fuel as [|fuel IH]; intros fr names Hfr; [simpl; auto|].
  destruct fr as [|f r]; [simpl; auto|].
  pose proof (Forall_inv Hfr) as Hf. pose proof (Forall_inv_tail Hfr) as Hr.
  destruct f as [tr cnt gs|tr cnt args f gs|tr cnt fn args gs|tr cnt args cl gs];
    inversion Hf as [tr0 cnt0 gs0 Gt Gg|tr0 cnt0 a0 f0 r0 Gt Ga Gg|tr0 cnt0 n0 a0 r0 Gt Ga Gg|tr0 cnt0 a0 c0 r0 Gt Ga Gg]; subst.
  - destruct gs as [|[nm args] gs]; [simpl; auto|].
    cbn [search]. apply IH. apply Forall_app. split.
    + apply Forall_forall. intros x Hx. apply in_map_iff in Hx as [y [<- _]].
      constructor; auto; [exact (Forall_inv Gg)|exact (Forall_inv_tail Gg)].
    + constructor; auto. constructor; auto; [exact (Forall_inv Gg)|exact (Forall_inv_tail Gg)].
  - cbn [search].
    assert (Hy : Forall (tin P) (map (rn (fun i => fresh (cnt + i))) f)) by (apply lin_rn; auto).
    pose proof (ua_step Gt C Ga Hy) as St.
    destruct (unify_arrays2 UF (tr ++ h0) args (map (rn (fun i => fresh (cnt + i))) f)) as [s'| | |] eqn:E.
    + destruct St as [tr' [-> [Gt' ->]]]. rewrite !strip_app. apply IH. constructor; auto. constructor; auto.
    + rewrite St. apply IH; auto.
    + rewrite St. simpl; auto.
    + rewrite St. simpl; auto.
  - cbn [search]. destruct fn as [ds|]; [|apply IH; auto].
    destruct (clauses_of ds) as [cls|]; [|simpl; auto].
    apply IH. apply Forall_app. split; auto.
    apply Forall_forall. intros x Hx. apply in_map_iff in Hx as [y [<- _]]. constructor; auto.
  - cbn [search].
    assert (Hy : Forall (tin P) (fst (rn_clause (fun i => fresh (cnt + i)) cl))) by (apply lin_rn; auto).
    pose proof (ua_step Gt C Ga Hy) as St.
    destruct (unify_arrays2 UF (tr ++ h0) args (fst (rn_clause (fun i => fresh (cnt + i)) cl))) as [s'| | |] eqn:E.
    + destruct St as [tr' [-> [Gt' ->]]]. rewrite !strip_app. apply IH. constructor; auto. constructor; auto.
      apply Forall_app. split; auto. apply gin_rn; auto.
    + rewrite St. apply IH; auto.
    + rewrite St. simpl; auto.
    + rewrite St. simpl; auto.
Qed.

End CF.

(* ---------------------------------------------------------------- filters *)
Lemma filter_comm {A} (f g : A -> bool) l : filter f (filter g l) = filter g (filter f l).
Proof.
  induction l as [|x l IH]; simpl; auto.
  destruct (g x) eqn:G; destruct (f x) eqn:F; simpl; rewrite ?G, ?F, IH; auto.
Qed.
Lemma filter_filter_impl {A} (f g : A -> bool) l :
  (forall x, f x = true -> g x = true) -> filter f (filter g l) = filter f l.
Proof.
  intros H. induction l as [|x l IH]; simpl; auto.
  destruct (g x) eqn:G; simpl.
  - rewrite IH. reflexivity.
  - destruct (f x) eqn:F; auto. rewrite (H x F) in G. discriminate.
Qed.
Lemma fP_disjoint (P1 P2 : nat -> bool) h h' :
  (forall v, P2 v = true -> P1 v = false) -> fN P1 h' = fN P1 h -> fP P2 h' = fP P2 h.
Proof.
  intros D E. unfold fP, fN in *.
  rewrite <- (filter_filter_impl (fun e : nat * term => P2 (fst e)) (fun e => negb (P1 (fst e))) h').
  - rewrite E. apply filter_filter_impl. intros x Hx. rewrite (D _ Hx). reflexivity.
  - intros x Hx. rewrite (D _ Hx). reflexivity.
Qed.

Section CN.
Variable P : nat -> bool.
Variable fresh : nat -> nat.
Hypothesis Hfresh : forall k, P (fresh k) = true.

Definition cgood (c : cursor) : Prop :=
  Forall (tin P) (cargs c) /\ Forall (fgood P) (cfr c) /\ good P (ctrail c).
(* every binding of h' was already in h or binds a cell of P *)
Definition newP (h h' : store) : Prop := forall v t, In (v, t) h' -> In (v, t) h \/ P v = true.

Lemma unbind_fP tr h : unbind tr (fP P h) = fP P (unbind tr h).
Proof. unfold unbind, fP. apply filter_comm. Qed.
Lemma unbind_in tr h v t : In (v, t) (unbind tr h) -> In (v, t) h.
Proof. unfold unbind. intros H. apply filter_In in H. tauto. Qed.
Lemma unbind_closed tr h : closed P h -> closed P (unbind tr h).
Proof. intros C v t H. apply (C v t). eapply unbind_in; eauto. Qed.
Lemma good_notin tr v : good P tr -> P v = false -> existsb (Nat.eqb v) (map fst tr) = false.
Proof.
  intros G Pv. induction tr as [|[w t] tr IH]; simpl; auto.
  destruct (G w t (or_introl eq_refl)) as [Pw _].
  destruct (Nat.eqb_spec v w) as [->|N]; [congruence|]. simpl. apply IH.
  intros v' t' H. apply G. right. exact H.
Qed.
Lemma unbind_fN tr h : good P tr -> fN P (unbind tr h) = fN P h.
Proof.
  intros G. unfold unbind, fN. apply filter_filter_impl.
  intros [v t] H. simpl in *. apply negb_true_iff in H. rewrite (good_notin G H). reflexivity.
Qed.

Lemma cnext_frame fuel d h c c' h' r names : closed P h -> cgood c ->
  cnext fuel d fresh h c = (c', h', r, names) ->
  cnext fuel d fresh (fP P h) c = (c', fP P h', r, names)
  /\ fN P h' = fN P h /\ cgood c' /\ closed P h' /\ newP h h'.
Proof.
  intros C [Ga [Gf Gt]]. unfold cnext. rewrite unbind_fP.
  pose proof (unbind_closed (ctrail c) C) as C0.
  pose proof (unbind_fN h Gt) as EN.
  destruct (@search_frame P fresh Hfresh d _ C0 fuel _ [] Gf) as [E S]. rewrite E.
  destruct (search fuel d (unbind (ctrail c) h) fresh (cfr c) []) as [tr fr nm|nm|k]; simpl in S;
    intros Q; inversion Q; subst; clear Q.
  - destruct S as [Gtr Gfr].
    assert (C1 : closed P (tr ++ unbind (ctrail c) h)) by (apply closed_app; auto using good_closed).
    assert (E1 : fP P (tr ++ unbind (ctrail c) h) = tr ++ fP P (unbind (ctrail c) h))
      by (rewrite fP_app, (fP_good Gtr); reflexivity).
    assert (Em : map (den2 (tr ++ fP P (unbind (ctrail c) h))) (cargs c)
                 = map (den2 (tr ++ unbind (ctrail c) h)) (cargs c)).
    { apply map_ext_in. intros a Ha. rewrite !den2_den, <- E1.
      apply den_filter; auto. rewrite Forall_forall in Ga. auto. }
    split; [simpl; rewrite Em, E1; reflexivity|].
    split; [rewrite fN_app, (fN_good Gtr); exact EN|].
    split; [split; [exact Ga|split; [exact Gfr|exact Gtr]]|].
    split; [exact C1|].
    intros v0 t0 Hi. apply in_app_or in Hi as [Hi|Hi];
      [right; exact (proj1 (Gtr _ _ Hi))|left; eapply unbind_in; eauto].
  - split; [reflexivity|]. split; [exact EN|].
    split; [split; [exact Ga|split; [constructor|apply good_nil]]|].
    split; [exact C0|]. intros v0 t0 Hi. left. eapply unbind_in; eauto.
  - split; [reflexivity|]. split; [reflexivity|].
    split; [split; [exact Ga|split; [exact Gf|exact Gt]]|].
    split; [exact C|]. intros v0 t0 Hi. left. exact Hi.
Qed.

Lemma cclose_frame h c : closed P h -> cgood c ->
  cclose (fP P h) c = (fst (cclose h c), fP P (snd (cclose h c)))
  /\ fN P (snd (cclose h c)) = fN P h /\ cgood (fst (cclose h c)) /\ closed P (snd (cclose h c))
  /\ newP h (snd (cclose h c)).
Proof.
  intros C [Ga [Gf Gt]]. unfold cclose. simpl. rewrite unbind_fP.
  split; [reflexivity|]. split; [apply unbind_fN; exact Gt|].
  split; [split; [exact Ga|split; [constructor|apply good_nil]]|].
  split; [apply unbind_closed; exact C|]. intros v0 t0 Hi. left. eapply unbind_in; eauto.
Qed.

End CN.

(* ---------------------------------------------------------------- two cursors of one engine *)
(* advance one cursor n times on its own *)
Fixpoint run1 (fuel : nat) (d : db) (fresh : nat -> nat) (h : store) (c : cursor) (n : nat) : list cres :=
  match n with
  | O => []
  | S n => let '(c', h', r, _) := cnext fuel d fresh h c in r :: run1 fuel d fresh h' c' n
  end.
(* advance two cursors over the same heap as the schedule says (true: the first one) *)
Fixpoint run2 (fuel : nat) (d : db) (f1 f2 : nat -> nat) (h : store) (c1 c2 : cursor) (sched : list bool)
  : list cres * list cres :=
  match sched with
  | [] => ([], [])
  | true :: s => let '(c1', h', r, _) := cnext fuel d f1 h c1 in
                 let '(o1, o2) := run2 fuel d f1 f2 h' c1' c2 s in (r :: o1, o2)
  | false :: s => let '(c2', h', r, _) := cnext fuel d f2 h c2 in
                  let '(o1, o2) := run2 fuel d f1 f2 h' c1 c2' s in (o1, r :: o2)
  end.
Definition times (b : bool) (sched : list bool) : nat := length (filter (Bool.eqb b) sched).

Lemma closed_other (P1 P2 : nat -> bool) h h' :
  (forall v, P1 v = true -> P2 v = false) -> closed P2 h -> newP P1 h h' -> closed P2 h'.
Proof.
  intros D C N v t H Pv. destruct (N v t H) as [H'|H']; [eauto|].
  rewrite (D v H') in Pv. discriminate.
Qed.

Theorem same_engine_disjoint (P1 P2 : nat -> bool) (f1 f2 : nat -> nat) :
  (forall v, P1 v = true -> P2 v = false) ->
  (forall k, P1 (f1 k) = true) -> (forall k, P2 (f2 k) = true) ->
  forall fuel d sched h c1 c2,
  closed P1 h -> closed P2 h -> cgood P1 c1 -> cgood P2 c2 ->
  run2 fuel d f1 f2 h c1 c2 sched =
  (run1 fuel d f1 (fP P1 h) c1 (times true sched), run1 fuel d f2 (fP P2 h) c2 (times false sched)).
Proof.
  intros D12 F1 F2 fuel d.
  assert (D21 : forall v, P2 v = true -> P1 v = false).
  { intros v H. destruct (P1 v) eqn:E; auto. rewrite (D12 v E) in H. discriminate. }
  induction sched as [|b s IH]; intros h c1 c2 C1 C2 G1 G2; [reflexivity|].
  destruct b; cbn [run2 times filter Bool.eqb length].
  - destruct (cnext fuel d f1 h c1) as [[[c1' h'] r] nm] eqn:E.
    destruct (@cnext_frame P1 f1 F1 fuel d _ _ _ _ _ _ C1 G1 E) as [A [EN [G1' [C1' N]]]].
    rewrite (IH h' c1' c2 C1' (@closed_other P1 P2 h h' D12 C2 N) G1' G2).
    cbn [run1]. rewrite A. rewrite (@fP_disjoint P1 P2 h h' D21 EN). reflexivity.
  - destruct (cnext fuel d f2 h c2) as [[[c2' h'] r] nm] eqn:E.
    destruct (@cnext_frame P2 f2 F2 fuel d _ _ _ _ _ _ C2 G2 E) as [A [EN [G2' [C2' N]]]].
    rewrite (IH h' c1 c2' (@closed_other P2 P1 h h' D21 C1 N) C2' G1 G2').
    cbn [run1]. rewrite A. rewrite (@fP_disjoint P2 P1 h h' D12 EN). reflexivity.
Qed.
