(* Frame property of a suspended query (cursor): if everything the cursor holds is over its own set of
   cells P and the heap is closed for P, then resuming it on the shared heap and resuming it on the
   heap restricted to P give the same cursor, the same answer, the same access log (atoms) and the same new
   fact store (clause bodies may assert / retract); the bindings of all other cells stay exactly where they
   are.  Proved for one step of the frame machine (sstep_frame) and lifted to search / cnext.  Consequence
   (Engine/Slots.v): cursors over disjoint sets of cells influence each other through the fact store only. *)
From Coq Require Import String.
From Coq Require Import List Arith Bool Lia ZArith.
Import ListNotations.
From YP Require Import Base.Str Term.Term Unify.Unify Engine.Deref Engine.Frame Engine.Db Engine.World.
Set Implicit Arguments.

Lemma strip_app (a h : store) : strip (a ++ h) h = a.
Proof.
  unfold strip. rewrite app_length, Nat.add_sub.
  rewrite <- (Nat.add_0_r (length a)), firstn_app_2. simpl. apply app_nil_r.
Qed.

Section CF.
Variable P : nat -> bool.

Lemma tin_rn f t : (forall k, P (f k) = true) -> tin P (rn f t).
Proof.
  intros Hf. induction t as [a|z|q|v|g args IH] using term_ind'; simpl;
    try (intros w Hw; discriminate).
  - apply tin_var. apply Hf.
  - apply tin_fun. apply Forall_forall. intros x Hx. apply in_map_iff in Hx as [y [<- Hy]].
    rewrite Forall_forall in IH. auto.
Qed.
Lemma lin_rn f l : (forall k, P (f k) = true) -> Forall (tin P) (map (rn f) l).
Proof.
  intros Hf. apply Forall_forall. intros x Hx. apply in_map_iff in Hx as [y [<- _]]. apply tin_rn; auto.
Qed.

Definition gin (g : goal) : Prop := Forall (tin P) (snd g).

Inductive fgood : frame -> Prop :=
| FG1 tr cnt gs : good P tr -> Forall gin gs -> fgood (FGoals tr cnt gs)
| FG2 tr cnt args f rest : good P tr -> Forall (tin P) args -> Forall gin rest -> fgood (FFact tr cnt args f rest)
| FG3 tr cnt fn args rest : good P tr -> Forall (tin P) args -> Forall gin rest -> fgood (FFun tr cnt fn args rest)
| FG4 tr cnt args cl rest : good P tr -> Forall (tin P) args -> Forall gin rest -> fgood (FClause tr cnt args cl rest)
| FG5 tr cnt nm args f rest : good P tr -> Forall (tin P) args -> Forall gin rest -> fgood (FRet tr cnt nm args f rest)
| FG6 : fgood FBar
| FG7 tr cnt rest : good P tr -> Forall gin rest -> fgood (FNeg tr cnt rest)
| FG8 tr cnt bag acc nc rest : good P tr -> tin P bag -> Forall (tin P) acc -> Forall gin rest ->
    fgood (FColl tr cnt bag acc nc rest).

Lemma gin_rn f l : (forall k, P (f k) = true) -> Forall gin (map (rn_goal f) l).
Proof.
  intros Hf. apply Forall_forall. intros x Hx. apply in_map_iff in Hx as [y [<- _]].
  unfold gin, rn_goal. simpl. apply lin_rn; auto.
Qed.

(* one head/fact unification on  own bindings ++ rest of the heap *)
Lemma ua_step tr h0 xs ys : good P tr -> closed P h0 -> Forall (tin P) xs -> Forall (tin P) ys ->
  match unify_arrays2 UF (tr ++ h0) xs ys with
  | UOk s' => exists tr', s' = tr' ++ h0 /\ good P tr' /\
                          unify_arrays2 UF (tr ++ fP P h0) xs ys = UOk (tr' ++ fP P h0)
  | r => unify_arrays2 UF (tr ++ fP P h0) xs ys = r
  end.
Proof.
  intros G C Hx Hy. rewrite !unify_arrays2_eq.
  assert (E0 : tr ++ fP P h0 = fP P (tr ++ h0)) by (rewrite fP_app, (fP_good G); reflexivity).
  rewrite E0.
  assert (C1 : closed P (tr ++ h0)) by (apply closed_app; auto using good_closed).
  destruct (unify_arrays_frame UF C1 Hx Hy) as [E Po]. rewrite E.
  destruct (unify_arrays UF (tr ++ h0) xs ys) as [s'| | |]; simpl; auto.
  destruct Po as [nw [-> Gn]]. exists (nw ++ tr). rewrite app_assoc. split; [reflexivity|].
  split; [apply good_app; auto|]. rewrite fP_app, (fP_good (good_app Gn G)). reflexivity.
Qed.

(* dereferencing a term of the cursor on  own bindings ++ rest of the heap *)
Lemma den2_step tr h0 t : good P tr -> closed P h0 -> tin P t ->
  den2 (tr ++ fP P h0) t = den2 (tr ++ h0) t /\ tin P (den2 (tr ++ h0) t).
Proof.
  intros G C Ht.
  assert (E0 : tr ++ fP P h0 = fP P (tr ++ h0)) by (rewrite fP_app, (fP_good G); reflexivity).
  assert (C1 : closed P (tr ++ h0)) by (apply closed_app; auto using good_closed).
  rewrite !den2_den, E0. split; [apply den_filter; auto|apply den_tin; auto].
Qed.

Lemma callable_tin t nm fa : tin P t -> callable t = Some (nm, fa) -> Forall (tin P) fa.
Proof.
  destruct t as [a|z|q|v|g args]; simpl; intros Ht E; inversion E; subst; [constructor|].
  apply (proj1 (tin_fun P nm fa)). exact Ht.
Qed.

Lemma retract_list_frame h fr args fs : closed P h -> (forall k, P (fr k) = true) -> Forall (tin P) args ->
  retract_list (fP P h) fr args fs = retract_list h fr args fs.
Proof.
  intros C Hf Ha. induction fs as [|f r IH]; [reflexivity|].
  cbn [retract_list]. rewrite IH. rewrite !unify_arrays2_eq.
  destruct (@unify_arrays_frame P UF h args (map (rn fr) (fargs f)) C Ha (lin_rn fr (fargs f) Hf)) as [E _].
  rewrite E. destruct (unify_arrays UF h args (map (rn fr) (fargs f))); reflexivity.
Qed.

Variable fresh : nat -> nat.
Hypothesis Hfresh : forall k, P (fresh k) = true.
Variable newid : nat -> nat.

Definition kgood (r : kres) : Prop :=
  match r with
  | KGo m => Forall fgood (mfr m)
  | KAns tr m => good P tr /\ Forall fgood (mfr m)
  | _ => True
  end.
Definition mgood (x : mres) : Prop := match x with MGo fr => Forall fgood fr | MErr _ => True end.

Lemma cut_to_good p r : Forall fgood r -> Forall fgood (cut_to p r).
Proof.
  induction r as [|f r IH]; intros H; cbn [cut_to]; [constructor|].
  destruct (p f); [exact (Forall_inv_tail H)|apply IH; exact (Forall_inv_tail H)].
Qed.
Lemma collect_into_good t' r : Forall fgood r -> Forall fgood (collect_into fresh t' r).
Proof.
  induction r as [|f r IH]; intros H; cbn [collect_into]; [constructor|].
  pose proof (Forall_inv H) as Hf. pose proof (Forall_inv_tail H) as Hr.
  destruct f; try (constructor; [exact Hf|apply IH; exact Hr]).
  inversion Hf as [| | | | | | |tr0 cnt0 b0 a0 n0 r0 Gt Gb Ga Gg]; subst.
  constructor; [|exact Hr]. constructor; auto. apply Forall_app. split; [|exact Ga].
  apply lin_rn. intros k. apply Hfresh.
Qed.
Lemma mk_list_tin l : Forall (tin P) l -> tin P (mk_list l).
Proof.
  induction l as [|x l IH]; intros H; cbn [mk_list]; [apply tin_atom|].
  apply tin_fun. constructor; [exact (Forall_inv H)|]. constructor; [|constructor].
  apply IH. exact (Forall_inv_tail H).
Qed.

Lemma ctl_goal_frame h0 tr cnt nm args gs r : closed P h0 ->
  good P tr -> Forall (tin P) args -> Forall gin gs -> Forall fgood r ->
  ctl_goal (fP P h0) fresh tr cnt nm args gs r = ctl_goal h0 fresh tr cnt nm args gs r
  /\ match ctl_goal h0 fresh tr cnt nm args gs r with Some x => mgood x | None => True end.
Proof.
  intros C Gt Ga Gg Hr. unfold ctl_goal.
  destruct (str_eqb nm cut_mark).
  { split; [reflexivity|]. cbn [mgood]. constructor; [constructor; auto|apply cut_to_good; exact Hr]. }
  destruct (str_eqb nm neg_mark).
  { split; [reflexivity|]. cbn [mgood]. apply cut_to_good; exact Hr. }
  destruct (str_eqb nm coll_mark); [|split; [reflexivity|exact I]].
  destruct args as [|t [|t2 args]]; try (split; [reflexivity|exact Hr]).
  destruct (den2_step Gt C (Forall_inv Ga)) as [E D]. rewrite E.
  split; [reflexivity|]. cbn [mgood]. apply collect_into_good. exact Hr.
Qed.

Lemma metastep_frame h0 b tr cnt args gs r : closed P h0 ->
  good P tr -> Forall (tin P) args -> Forall gin gs -> Forall fgood r ->
  metastep (fP P h0) b tr cnt args gs r = metastep h0 b tr cnt args gs r
  /\ mgood (metastep h0 b tr cnt args gs r).
Proof.
  intros C Gt Ga Gg Hr. unfold metastep.
  destruct b.
  - destruct args as [|x [|y [|z args]]]; try (split; [reflexivity|exact I]).
    split; [reflexivity|]. cbn [mgood].
    constructor; [|constructor; [constructor; auto|exact Hr]].
    constructor; [exact Gt|]. constructor; [exact Ga|]. constructor; [constructor|constructor].
  - destruct args as [|g extra]; [split; [reflexivity|exact I]|].
    destruct (den2_step Gt C (Forall_inv Ga)) as [E D]. rewrite E.
    destruct (callable (den2 (tr ++ h0) g)) as [[nm fa]|] eqn:Ec; [|split; [reflexivity|exact I]].
    split; [reflexivity|]. cbn [mgood]. constructor; [|exact Hr]. constructor; [exact Gt|].
    constructor; [|exact Gg]. unfold gin. cbn [snd]. apply Forall_app. split.
    + eapply callable_tin; eauto.
    + exact (Forall_inv_tail Ga).
  - destruct args as [|g [|g2 args]]; try (split; [reflexivity|exact I]).
    destruct (den2_step Gt C (Forall_inv Ga)) as [E D]. rewrite E.
    destruct (callable (den2 (tr ++ h0) g)) as [[nm fa]|] eqn:Ec; [|split; [reflexivity|exact I]].
    split; [reflexivity|]. cbn [mgood]. constructor; [|constructor; [constructor|exact Hr]].
    constructor; [exact Gt|]. constructor; [|constructor; [constructor|exact Gg]].
    unfold gin. cbn [snd]. eapply callable_tin; eauto.
  - destruct args as [|t [|g [|bag [|z args]]]]; try (split; [reflexivity|exact I]).
    pose proof (Forall_inv (Forall_inv_tail Ga)) as Hg.
    destruct (den2_step Gt C Hg) as [E D]. rewrite E.
    destruct (callable (den2 (tr ++ h0) g)) as [[nm fa]|] eqn:Ec; [|split; [reflexivity|exact I]].
    split; [reflexivity|]. cbn [mgood]. constructor.
    + constructor; [exact Gt|]. constructor; [unfold gin; cbn [snd]; eapply callable_tin; eauto|].
      constructor; [|constructor]. unfold gin. cbn [snd]. constructor; [exact (Forall_inv Ga)|constructor].
    + constructor; [|exact Hr]. constructor; auto.
      exact (Forall_inv (Forall_inv_tail (Forall_inv_tail Ga))).
Qed.

Lemma coll_finish_frame h0 tr cnt bag acc nc gs r : closed P h0 ->
  good P tr -> tin P bag -> Forall (tin P) acc -> Forall gin gs -> Forall fgood r ->
  coll_finish (fP P h0) tr cnt bag acc nc gs r = coll_finish h0 tr cnt bag acc nc gs r
  /\ mgood (coll_finish h0 tr cnt bag acc nc gs r).
Proof.
  intros C Gt Gb Ga Gg Hr. unfold coll_finish.
  assert (Hx : Forall (tin P) [bag]) by (constructor; auto).
  assert (Hy : Forall (tin P) [mk_list (rev acc)]).
  { constructor; [|constructor]. apply mk_list_tin. apply Forall_rev. exact Ga. }
  pose proof (ua_step Gt C Hx Hy) as St.
  destruct (unify_arrays2 UF (tr ++ h0) [bag] [mk_list (rev acc)]) as [s'| | |] eqn:E.
  - destruct St as [tr' [-> [Gt' ->]]]. rewrite !strip_app. split; [reflexivity|].
    cbn [mgood]. constructor; auto. constructor; auto.
  - rewrite St. split; [reflexivity|exact Hr].
  - rewrite St. split; [reflexivity|exact I].
  - rewrite St. split; [reflexivity|exact I].
Qed.

Lemma lift_m_frame m x y : x = y -> mgood y -> lift_m m x = lift_m m y /\ kgood (lift_m m y).
Proof. intros -> G. split; [reflexivity|]. destruct y; simpl; auto. Qed.


Definition sgood (r : sres) : Prop :=
  match r with SAns tr m => good P tr /\ Forall fgood (mfr m) | _ => True end.

Lemma dbstep_frame h0 m b tr cnt t gs r : closed P h0 ->
  good P tr -> tin P t -> Forall gin gs -> Forall fgood r ->
  dbstep (fP P h0) fresh newid m b tr cnt t gs r = dbstep h0 fresh newid m b tr cnt t gs r
  /\ kgood (dbstep h0 fresh newid m b tr cnt t gs r).
Proof.
  intros C Gt Ht Gg Hr. unfold dbstep.
  destruct (den2_step Gt C Ht) as [E D]. rewrite E.
  assert (G1 : Forall fgood (FGoals tr cnt gs :: r)) by (constructor; auto; constructor; auto).
  destruct b as [app| |].
  - destruct (callable (den2 (tr ++ h0) t)) as [[nm fa]|]; cbn [kgood mfr]; auto.
  - destruct (callable (den2 (tr ++ h0) t)) as [[nm fa]|] eqn:Ec; cbn [kgood mfr]; auto.
    split; [reflexivity|]. apply Forall_app. split; auto.
    apply Forall_forall. intros x Hx. apply in_map_iff in Hx as [y [<- _]].
    constructor; auto. eapply callable_tin; eauto.
  - destruct (callable (den2 (tr ++ h0) t)) as [[nm fa]|] eqn:Ec; cbn [kgood mfr]; auto.
    assert (E0 : tr ++ fP P h0 = fP P (tr ++ h0)) by (rewrite fP_app, (fP_good Gt); reflexivity).
    assert (C1 : closed P (tr ++ h0)) by (apply closed_app; auto using good_closed).
    rewrite E0, retract_list_frame; auto; [|eapply callable_tin; eauto].
    destruct (retract_list (tr ++ h0) (fun i => fresh (cnt + i)) fa (find_facts (mdb m) nm (length fa)));
      cbn [kgood mfr]; auto.
Qed.

Lemma sstep_frame h0 m : closed P h0 -> Forall fgood (mfr m) ->
  sstep (fP P h0) fresh newid m = sstep h0 fresh newid m /\ kgood (sstep h0 fresh newid m).
Proof.
  intros C Hfr. unfold sstep. destruct (mfr m) as [|f r]; [simpl; auto|].
  pose proof (Forall_inv Hfr) as Hf. pose proof (Forall_inv_tail Hfr) as Hr.
  destruct f as [tr cnt gs|tr cnt args f gs|tr cnt fn args gs|tr cnt args cl gs|tr cnt nm args f gs| |tr cnt gs
                 |tr cnt bag acc nc gs];
    inversion Hf as [tr0 cnt0 gs0 Gt Gg|tr0 cnt0 a0 f0 r0 Gt Ga Gg|tr0 cnt0 n0 a0 r0 Gt Ga Gg|tr0 cnt0 a0 c0 r0 Gt Ga Gg
                     |tr0 cnt0 n0 a0 f0 r0 Gt Ga Gg| |tr0 cnt0 r0 Gt Gg|tr0 cnt0 b0 a0 n0 r0 Gt Gb Ga Gg]; subst.
  6: { apply lift_m_frame; [reflexivity|exact Hr]. }
  6: { apply lift_m_frame; [reflexivity|]. cbn [mgood]. constructor; [constructor; auto|exact Hr]. }
  6: { destruct (coll_finish_frame cnt nc C Gt Gb Ga Gg Hr) as [E G]. apply lift_m_frame; auto. }
  - destruct gs as [|[nm args] gs]; [simpl; auto|].
    destruct (@ctl_goal_frame h0 tr cnt nm args gs r C Gt (Forall_inv Gg) (Forall_inv_tail Gg) Hr) as [E G].
    rewrite E. destruct (ctl_goal h0 fresh tr cnt nm args gs r) as [x|].
    { apply lift_m_frame; auto. }
    split; [reflexivity|]. cbn [kgood mfr]. apply Forall_app. split.
    + apply Forall_forall. intros x Hx. apply in_map_iff in Hx as [y [<- _]].
      constructor; auto; [exact (Forall_inv Gg)|exact (Forall_inv_tail Gg)].
    + constructor; auto. constructor; auto; [exact (Forall_inv Gg)|exact (Forall_inv_tail Gg)].
  - assert (Hy : Forall (tin P) (map (rn (fun i => fresh (cnt + i))) f)) by (apply lin_rn; auto).
    pose proof (ua_step Gt C Ga Hy) as St.
    destruct (unify_arrays2 UF (tr ++ h0) args (map (rn (fun i => fresh (cnt + i))) f)) as [s'| | |] eqn:E.
    + destruct St as [tr' [-> [Gt' ->]]]. rewrite !strip_app. split; [reflexivity|].
      cbn [kgood mfr]. constructor; auto. constructor; auto.
    + rewrite St. simpl; auto.
    + rewrite St. simpl; auto.
    + rewrite St. simpl; auto.
  - destruct fn as [ds|]; [|simpl; auto].
    destruct (meta_builtin ds) as [mb|].
    { destruct (@metastep_frame h0 mb tr cnt args gs r C Gt Ga Gg Hr) as [E G]. apply lift_m_frame; auto. }
    destruct (db_builtin ds) as [b|].
    + destruct args as [|t [|t2 args]]; [simpl; auto| |simpl; auto].
      apply dbstep_frame; auto. exact (Forall_inv Ga).
    + destruct (clauses_of ds) as [cls|]; [|simpl; auto].
      split; [reflexivity|]. cbn [kgood mfr]. apply Forall_app. split; auto.
      apply Forall_forall. intros x Hx. apply in_map_iff in Hx as [y [<- _]]. constructor; auto.
  - assert (Hy : Forall (tin P) (fst (rn_clause (fun i => fresh (cnt + i)) cl))) by (apply lin_rn; auto).
    pose proof (ua_step Gt C Ga Hy) as St.
    destruct (unify_arrays2 UF (tr ++ h0) args (fst (rn_clause (fun i => fresh (cnt + i)) cl))) as [s'| | |] eqn:E.
    + destruct St as [tr' [-> [Gt' ->]]]. rewrite !strip_app. split; [reflexivity|].
      cbn [kgood mfr]. constructor; auto. constructor; auto.
      apply Forall_app. split; auto. apply gin_rn; auto.
    + rewrite St. simpl; auto.
    + rewrite St. simpl; auto.
    + rewrite St. simpl; auto.
  - assert (Hy : Forall (tin P) (map (rn (fun i => fresh (cnt + i))) (fargs f))) by (apply lin_rn; auto).
    pose proof (ua_step Gt C Ga Hy) as St.
    destruct (unify_arrays2 UF (tr ++ h0) args (map (rn (fun i => fresh (cnt + i))) (fargs f))) as [s'| | |] eqn:E.
    + destruct St as [tr' [-> [Gt' ->]]]. rewrite !strip_app. split; [reflexivity|].
      destruct (has_id (fid f) (find_facts (mdb m) nm (length args))); cbn [kgood mfr]; auto.
      constructor; auto. constructor; auto.
    + rewrite St. simpl; auto.
    + rewrite St. simpl; auto.
    + rewrite St. simpl; auto.
Qed.

Lemma search_frame h0 : closed P h0 -> forall fuel m, Forall fgood (mfr m) ->
  search fuel (fP P h0) fresh newid m = search fuel h0 fresh newid m
  /\ sgood (search fuel h0 fresh newid m).
Proof.
  intros C. induction fuel as [|fuel IH]; intros m Hfr; [simpl; auto|].
  cbn [search]. destruct (sstep_frame m C Hfr) as [E G]. rewrite E.
  destruct (sstep h0 fresh newid m) as [m'|tr m'| |k m']; cbn [kgood] in G; simpl; auto.
Qed.

End CF.

(* ---------------------------------------------------------------- filters *)
Lemma filter_comm {A} (f g : A -> bool) l : filter f (filter g l) = filter g (filter f l).
Proof.
  induction l as [|x l IH]; simpl; auto.
  destruct (g x) eqn:G; destruct (f x) eqn:F; simpl; rewrite ?G, ?F, IH; auto.
Qed.
Lemma filter_filter_impl {A} (f g : A -> bool) l :
  (forall x, f x = true -> g x = true) -> filter f (filter g l) = filter f l.
Proof.
  intros H. induction l as [|x l IH]; simpl; auto.
  destruct (g x) eqn:G; simpl.
  - rewrite IH. reflexivity.
  - destruct (f x) eqn:F; auto. rewrite (H x F) in G. discriminate.
Qed.
Lemma fP_disjoint (P1 P2 : nat -> bool) h h' :
  (forall v, P2 v = true -> P1 v = false) -> fN P1 h' = fN P1 h -> fP P2 h' = fP P2 h.
Proof.
  intros D E. unfold fP, fN in *.
  rewrite <- (filter_filter_impl (fun e : nat * term => P2 (fst e)) (fun e => negb (P1 (fst e))) h').
  - rewrite E. apply filter_filter_impl. intros x Hx. rewrite (D _ Hx). reflexivity.
  - intros x Hx. rewrite (D _ Hx). reflexivity.
Qed.

Section CN.
Variable P : nat -> bool.
Variable fresh : nat -> nat.
Hypothesis Hfresh : forall k, P (fresh k) = true.

Definition cgood (c : cursor) : Prop :=
  Forall (tin P) (cargs c) /\ Forall (fgood P) (cfr c) /\ good P (ctrail c).
(* every binding of h' was already in h or binds a cell of P *)
Definition newP (h h' : store) : Prop := forall v t, In (v, t) h' -> In (v, t) h \/ P v = true.

Lemma unbind_fP tr h : unbind tr (fP P h) = fP P (unbind tr h).
Proof. unfold unbind, fP. apply filter_comm. Qed.
Lemma unbind_in tr h v t : In (v, t) (unbind tr h) -> In (v, t) h.
Proof. unfold unbind. intros H. apply filter_In in H. tauto. Qed.
Lemma unbind_closed tr h : closed P h -> closed P (unbind tr h).
Proof. intros C v t H. apply (C v t). eapply unbind_in; eauto. Qed.
Lemma good_notin tr v : good P tr -> P v = false -> existsb (Nat.eqb v) (map fst tr) = false.
Proof.
  intros G Pv. induction tr as [|[w t] tr IH]; simpl; auto.
  destruct (G w t (or_introl eq_refl)) as [Pw _].
  destruct (Nat.eqb_spec v w) as [->|N]; [congruence|]. simpl. apply IH.
  intros v' t' H. apply G. right. exact H.
Qed.
Lemma unbind_fN tr h : good P tr -> fN P (unbind tr h) = fN P h.
Proof.
  intros G. unfold unbind, fN. apply filter_filter_impl.
  intros [v t] H. simpl in *. apply negb_true_iff in H. rewrite (good_notin G H). reflexivity.
Qed.

Lemma cnext_frame fuel d h c c' h' r lg d' : closed P h -> cgood c ->
  cnext fuel d fresh h c = (c', h', r, lg, d') ->
  cnext fuel d fresh (fP P h) c = (c', fP P h', r, lg, d')
  /\ fN P h' = fN P h /\ cgood c' /\ closed P h' /\ newP h h'.
Proof.
  intros C [Ga [Gf Gt]]. unfold cnext. rewrite unbind_fP.
  pose proof (unbind_closed (ctrail c) C) as C0.
  pose proof (unbind_fN h Gt) as EN.
  destruct (@search_frame P fresh Hfresh (qfid (cown c)) _ C0 fuel (mkms d (cnf c) (cfr c) []) Gf) as [E S]. rewrite E.
  destruct (search fuel (unbind (ctrail c) h) fresh (qfid (cown c)) (mkms d (cnf c) (cfr c) [])) as [tr m|m|k m]; simpl in S;
    intros Q; inversion Q; subst; clear Q.
  - destruct S as [Gtr Gfr].
    assert (C1 : closed P (tr ++ unbind (ctrail c) h)) by (apply closed_app; auto using good_closed).
    assert (E1 : fP P (tr ++ unbind (ctrail c) h) = tr ++ fP P (unbind (ctrail c) h))
      by (rewrite fP_app, (fP_good Gtr); reflexivity).
    assert (Em : map (den2 (tr ++ fP P (unbind (ctrail c) h))) (cargs c)
                 = map (den2 (tr ++ unbind (ctrail c) h)) (cargs c)).
    { apply map_ext_in. intros a Ha. rewrite !den2_den, <- E1.
      apply den_filter; auto. rewrite Forall_forall in Ga. auto. }
    split; [simpl; rewrite Em, E1; reflexivity|].
    split; [rewrite fN_app, (fN_good Gtr); exact EN|].
    split; [split; [exact Ga|split; [exact Gfr|exact Gtr]]|].
    split; [exact C1|].
    intros v0 t0 Hi. apply in_app_or in Hi as [Hi|Hi];
      [right; exact (proj1 (Gtr _ _ Hi))|left; eapply unbind_in; eauto].
  - split; [reflexivity|]. split; [exact EN|].
    split; [split; [exact Ga|split; [constructor|apply good_nil]]|].
    split; [exact C0|]. intros v0 t0 Hi. left. eapply unbind_in; eauto.
  - split; [reflexivity|]. split; [reflexivity|].
    split; [split; [exact Ga|split; [exact Gf|exact Gt]]|].
    split; [exact C|]. intros v0 t0 Hi. left. exact Hi.
Qed.

Lemma cclose_frame h c : closed P h -> cgood c ->
  cclose (fP P h) c = (fst (cclose h c), fP P (snd (cclose h c)))
  /\ fN P (snd (cclose h c)) = fN P h /\ cgood (fst (cclose h c)) /\ closed P (snd (cclose h c))
  /\ newP h (snd (cclose h c)).
Proof.
  intros C [Ga [Gf Gt]]. unfold cclose. simpl. rewrite unbind_fP.
  split; [reflexivity|]. split; [apply unbind_fN; exact Gt|].
  split; [split; [exact Ga|split; [constructor|apply good_nil]]|].
  split; [apply unbind_closed; exact C|]. intros v0 t0 Hi. left. eapply unbind_in; eauto.
Qed.

End CN.

Lemma closed_other (P1 P2 : nat -> bool) h h' :
  (forall v, P1 v = true -> P2 v = false) -> closed P2 h -> newP P1 h h' -> closed P2 h'.
Proof.
  intros D C N v t H Pv. destruct (N v t H) as [H'|H']; [eauto|].
  rewrite (D v H') in Pv. discriminate.
Qed.

