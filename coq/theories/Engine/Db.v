(* The dynamic fact database of engine.py (YP._predicates_store and the code that reads and
   replaces its entries), generic in the matching function.

   Layout as in the code: a dictionary (name, arity) -> list of Answer objects.  A fact is
   (id, args): the id stands for the object identity of the Answer (retract tests membership
   with `is`).  The list stored under a key is never mutated: every update builds a new list
   and publishes it with _update_predicate (upd).  A key that was never written reads as the
   empty list (_find_predicates_or_empty; match_dynamic turns the YPException of
   _find_predicates into "no answers", assert_fact into "start from []").

   [mt pat args] is Answer.match for the pattern pat against the stored arguments args
   (copy_term with a new mapping, then unify_arrays): MYes a = it yields, a being the
   dereferenced pattern at the yield; MNo = it does not yield; MStuck = outside the specified
   domain (the match would build a cyclic term, or the model ran out of fuel).  The concrete
   function is Engine/DbFacts.v match_fact. *)
From Coq Require Import List Arith Bool Lia.
Import ListNotations.
From YP Require Import Base.Str Term.Term.
Set Implicit Arguments.

Definition key := (str * nat)%type.
Definition key_eqb (a b : key) : bool := str_eqb (fst a) (fst b) && Nat.eqb (snd a) (snd b).

Lemma key_eqb_spec a b : reflect (a = b) (key_eqb a b).
Proof.
  destruct a as [n1 a1], b as [n2 a2]. unfold key_eqb. simpl.
  destruct (str_eqb_spec n1 n2) as [->|Hn]; simpl.
  - destruct (Nat.eqb_spec a1 a2) as [->|Ha]; constructor; congruence.
  - constructor; congruence.
Qed.
Lemma key_eqb_refl a : key_eqb a a = true.
Proof. destruct (key_eqb_spec a a); congruence. Qed.

Record fact := mkfact { fid : nat; fargs : list term }.

Definition db := key -> list fact.
Definition empty_db : db := fun _ => [].
(* _update_predicate: publish a new list object under the key *)
Definition upd (k : key) (l : list fact) (d : db) : db := fun k' => if key_eqb k' k then l else d k'.

Lemma upd_same k l d : upd k l d k = l.
Proof. unfold upd. rewrite key_eqb_refl. reflexivity. Qed.
Lemma upd_other k k' l d : k' <> k -> upd k l d k' = d k'.
Proof. unfold upd. intros H. destruct (key_eqb_spec k' k); congruence. Qed.

(* asserta / assertz / retract / retractall look at the dereferenced goal: a compound term gives
   (name, args), an atom gives (name, []); anything else (unbound variable, number, string) is not
   a callable term *)
Definition callable (t : term) : option (str * list term) :=
  match t with
  | TFun f args => Some (f, args)
  | TAtom a => Some (a, [])
  | _ => None
  end.

(* assert_fact: clauses + [answer]  or  [answer] + clauses *)
Definition ins (front : bool) (f : fact) (l : list fact) : list fact :=
  if front then f :: l else l ++ [f].

Definition has_id (i : nat) (l : list fact) : bool := existsb (fun c => Nat.eqb (fid c) i) l.
(* [c for c in current if c is not clause] *)
Definition del_id (i : nat) (l : list fact) : list fact := filter (fun c => negb (Nat.eqb (fid c) i)) l.
Definition del_ids (is : list nat) (l : list fact) : list fact :=
  filter (fun c => negb (existsb (Nat.eqb (fid c)) is)) l.

Inductive mres := MYes (a : list term) | MNo | MStuck.

Section Scan.
  Variable mt : list term -> list term -> mres.

  (* _match_all_clauses, one resumption: the next clause of the list that matches.
     None = stuck; Some None = list exhausted; Some (Some (f, a, rest)) = yield at f *)
  Fixpoint qscan (pat : list term) (l : list fact) : option (option (fact * list term * list fact)) :=
    match l with
    | [] => Some None
    | f :: r =>
        match mt pat (fargs f) with
        | MYes a => Some (Some (f, a, r))
        | MNo => qscan pat r
        | MStuck => None
        end
    end.

  (* retract, one resumption: the next clause of the snapshot that matches AND is (by identity)
     still in the list that is current now *)
  Fixpoint rscan (pat : list term) (cur : list fact) (l : list fact) : option (option (fact * list term * list fact)) :=
    match l with
    | [] => Some None
    | f :: r =>
        match mt pat (fargs f) with
        | MYes a => if has_id (fid f) cur then Some (Some (f, a, r)) else rscan pat cur r
        | MNo => rscan pat cur r
        | MStuck => None
        end
    end.

  (* retractall: the clauses that do not match, in order (remaining_clauses), and the ids of the others *)
  Fixpoint rall (pat : list term) (l : list fact) : option (list fact * list nat) :=
    match l with
    | [] => Some ([], [])
    | f :: r =>
        match mt pat (fargs f) with
        | MYes _ => match rall pat r with Some (keep, gone) => Some (keep, fid f :: gone) | None => None end
        | MNo => match rall pat r with Some (keep, gone) => Some (f :: keep, gone) | None => None end
        | MStuck => None
        end
    end.

  (* a whole enumeration at once (used for read-back and for the atomic histories of C07) *)
  Fixpoint qall (pat : list term) (l : list fact) : option (list (list term)) :=
    match l with
    | [] => Some []
    | f :: r =>
        match mt pat (fargs f) with
        | MYes a => match qall pat r with Some x => Some (a :: x) | None => None end
        | MNo => qall pat r
        | MStuck => None
        end
    end.

  (* the answers a list of facts gives to a pattern, where a stuck match counts as no match
     (specification side; the theorems are stated for runs in which the model is not stuck) *)
  Definition yes (pat : list term) (args : list term) : option (list term) :=
    match mt pat args with MYes a => Some a | _ => None end.

  Fixpoint matches (pat : list term) (l : list fact) : list (fact * list term) :=
    match l with
    | [] => []
    | f :: r => match yes pat (fargs f) with Some a => (f, a) :: matches pat r | None => matches pat r end
    end.

  Lemma qscan_some pat l f a r : qscan pat l = Some (Some (f, a, r)) ->
    matches pat l = (f, a) :: matches pat r /\ exists nm, l = nm ++ f :: r /\ matches pat nm = [].
  Proof.
    induction l as [|x l IH]; simpl; intros H; [discriminate|].
    unfold yes. destruct (mt pat (fargs x)) eqn:E.
    - inversion H; subst. split; auto. exists []. auto.
    - destruct (IH H) as [A [nm [B C]]]. split; auto. exists (x :: nm). subst l. split; auto.
      simpl. unfold yes. rewrite E. exact C.
    - discriminate.
  Qed.

  Lemma qscan_none pat l : qscan pat l = Some None -> matches pat l = [].
  Proof.
    induction l as [|x l IH]; simpl; intros H; auto.
    unfold yes. destruct (mt pat (fargs x)) eqn:E; try discriminate. auto.
  Qed.

  Lemma qall_matches pat l x : qall pat l = Some x -> x = map snd (matches pat l).
  Proof.
    revert x. induction l as [|f l IH]; simpl; intros x H.
    - inversion H; reflexivity.
    - unfold yes. destruct (mt pat (fargs f)) eqn:E; try discriminate.
      + destruct (qall pat l) as [y|]; [|discriminate]. inversion H; subst. simpl. f_equal. auto.
      + auto.
  Qed.

  Lemma matches_app pat a b : matches pat (a ++ b) = matches pat a ++ matches pat b.
  Proof.
    induction a as [|x a IH]; simpl; auto. destruct (yes pat (fargs x)); simpl; rewrite IH; auto.
  Qed.

  Lemma matches_in pat l f a : In (f, a) (matches pat l) -> In f l /\ yes pat (fargs f) = Some a.
  Proof.
    induction l as [|x l IH]; simpl; intros H; [contradiction|].
    destruct (yes pat (fargs x)) eqn:E.
    - destruct H as [H|H]; [inversion H; subst; auto|]. destruct (IH H); auto.
    - destruct (IH H); auto.
  Qed.

  (* rscan yields only facts of the snapshot that match and are present in cur *)
  Lemma rscan_some pat cur l f a r : rscan pat cur l = Some (Some (f, a, r)) ->
    has_id (fid f) cur = true /\ yes pat (fargs f) = Some a /\ exists pre, l = pre ++ f :: r.
  Proof.
    induction l as [|x l IH]; simpl; intros H; [discriminate|].
    destruct (mt pat (fargs x)) eqn:E; try discriminate.
    - destruct (has_id (fid x) cur) eqn:Hc.
      + inversion H; subst. unfold yes. rewrite E. repeat split; auto. exists []. reflexivity.
      + destruct (IH H) as [A [B [pre C]]]. repeat split; auto. exists (x :: pre). subst l. reflexivity.
    - destruct (IH H) as [A [B [pre C]]]. repeat split; auto. exists (x :: pre). subst l. reflexivity.
  Qed.
End Scan.

(* ------------------------------------------------------------------ *)
(* facts about identities *)

Lemma has_id_in i l : has_id i l = true <-> In i (map fid l).
Proof.
  unfold has_id. rewrite existsb_exists. split.
  - intros [c [H E]]. apply Nat.eqb_eq in E. subst. apply in_map. exact H.
  - intros H. apply in_map_iff in H as [c [E H]]. exists c. split; auto. apply Nat.eqb_eq. exact E.
Qed.

Lemma del_id_in i l c : In c (del_id i l) <-> In c l /\ fid c <> i.
Proof.
  unfold del_id. rewrite filter_In. split; intros [A B]; split; auto.
  - apply negb_true_iff in B. apply Nat.eqb_neq in B. exact B.
  - apply negb_true_iff. apply Nat.eqb_neq. exact B.
Qed.

Lemma del_id_notin i l : ~ In i (map fid l) -> del_id i l = l.
Proof.
  induction l as [|c l IH]; simpl; intros H; auto.
  destruct (Nat.eqb_spec (fid c) i) as [E|E]; simpl.
  - exfalso. apply H. left. exact E.
  - f_equal. apply IH. intros X. apply H. right. exact X.
Qed.

Lemma del_id_app i a b : del_id i (a ++ b) = del_id i a ++ del_id i b.
Proof. unfold del_id. apply filter_app. Qed.

Lemma ids_filter (p : fact -> bool) l i : In i (map fid (filter p l)) -> In i (map fid l).
Proof.
  intros H. apply in_map_iff in H as [c [E H]]. apply filter_In in H as [H _].
  apply in_map_iff. exists c. auto.
Qed.

Lemma nodup_ids_filter (p : fact -> bool) l : NoDup (map fid l) -> NoDup (map fid (filter p l)).
Proof.
  induction l as [|c l IH]; simpl; intros H; [constructor|].
  inversion H as [|? ? N D]; subst. destruct (p c); simpl; auto.
  constructor; auto. intros X. apply N. eapply ids_filter; eauto.
Qed.

Lemma del_id_not_has i l : has_id i (del_id i l) = false.
Proof.
  destruct (has_id i (del_id i l)) eqn:E; auto.
  apply has_id_in in E. apply in_map_iff in E as [c [E H]]. apply del_id_in in H as [_ H]. congruence.
Qed.

(* removing, by identity, a fact that occurs once *)
Lemma del_id_middle i a f b : fid f = i -> NoDup (map fid (a ++ f :: b)) -> del_id i (a ++ f :: b) = a ++ b.
Proof.
  intros E N. rewrite del_id_app. simpl. rewrite E, Nat.eqb_refl. simpl.
  rewrite map_app in N. simpl in N. apply NoDup_remove in N as [N1 N2]. rewrite E in N2.
  rewrite !del_id_notin; auto; intros X; apply N2; apply in_or_app; auto.
Qed.

Lemma nodup_snoc (l : list nat) x : NoDup l -> ~ In x l -> NoDup (l ++ [x]).
Proof.
  induction l as [|y l IH]; simpl; intros N H.
  - constructor; auto.
  - inversion N as [|? ? N1 N2]; subst. constructor.
    + rewrite in_app_iff. simpl. intros [X|[X|[]]]; auto.
    + apply IH; auto.
Qed.
