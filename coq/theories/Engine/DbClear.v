(* clear() while cursors are suspended (round 4).

   engine.py: YP.clear() replaces `_predicates_store` by a new dictionary; the Answer objects and the list
   objects that suspended generators hold are not touched.  A suspended QUERY therefore goes on in the list
   it read (C14: "works on the facts as they were when the goal started").  A suspended RETRACT tests every
   matching candidate of its snapshot for membership, by identity, in the list that is current NOW
   (`any(c is clause for c in current)`), and after clear() that list is empty (or holds only Answers that
   were created later, which are different objects even when they are equal as terms): it finds none of
   its candidates, yields nothing, removes nothing.  The cursor machine says exactly that (EClear = the
   empty database, cursors untouched; rscan against the current list); the theorems:

   - retract_answer_is_stored: at every point of every history an answer of a retract cursor - however long
     it was suspended, whatever happened meanwhile (clear included) - returns a fact that IS in the store at
     that moment, under the key of the cursor, and the fact is in no list of the store afterwards;
   - after_clear_no_retract_answer: after clear(), as long as nothing is asserted, NO retract cursor gives
     an answer, no event changes the store (it stays empty), whatever cursors were suspended in whatever
     snapshots;
   - after_clear_only_new_facts: after clear(), every Answer a retract returns or a retractall removes was
     created after the clear. *)
From Coq Require Import List Arith Bool Lia.
Import ListNotations.
From YP Require Import Base.Str Term.Term Engine.Db Engine.DbCursor Engine.DbCursorThms.
Set Implicit Arguments.

Definition is_assert (e : ev) : bool :=
  match e with EAssert _ _ | EAssertFact _ _ _ => true | _ => false end.
Definition is_ret (o : out) : bool :=
  match o with ORet _ _ _ => true | _ => false end.
Definition db_empty (s : st) : Prop := forall k, sdb s k = [].

Section Clear.
  Variable mt : list term -> list term -> mres.

  Theorem retract_answer_is_stored : forall evs s s1 outs1 e s2 k i a,
    ids_ok (sdb s) (snext s) -> run mt s evs = Some (s1, outs1) -> step mt s1 e = Some (s2, ORet k i a) ->
    In i (map fid (sdb s1 k)) /\ (forall k', ~ In i (map fid (sdb s2 k'))).
  Proof.
    intros evs s s1 outs1 e s2 k i a I R S.
    destruct (@no_lost_update mt evs s s1 outs1 I R) as [_ I1].
    destruct (@step_out_facts mt s1 e s2 _ I1 S) as [_ F]. simpl in F.
    destruct (@step_removed mt s1 e s2 _ I1 S) as [_ [_ [C _]]].
    split; [exact F|]. intros k'. apply C. simpl. auto.
  Qed.

  Lemma rscan_empty pat : forall l, rscan mt pat [] l = None \/ rscan mt pat [] l = Some None.
  Proof.
    induction l as [|f r IH]; simpl; auto.
    destruct (mt pat (fargs f)); auto.
  Qed.

  Lemma step_empty s e s' o : db_empty s -> is_assert e = false -> step mt s e = Some (s', o) ->
    db_empty s' /\ is_ret o = false.
  Proof.
    intros E A H.
    assert (Q: forall c pat l, qnext mt s c pat l = Some (s', o) -> db_empty s' /\ is_ret o = false).
    { intros c pat l HQ. unfold qnext in HQ.
      destruct (qscan mt pat l) as [[[[f a] r]|]|]; inversion HQ; subst; split; auto. }
    assert (R: forall c k pat l, rnext mt s c k pat l = Some (s', o) -> db_empty s' /\ is_ret o = false).
    { intros c k pat l HR. unfold rnext in HR. rewrite (E k) in HR.
      destruct (rscan_empty pat l) as [X|X]; rewrite X in HR; inversion HR; subst; split; auto. }
    destruct e as [front t|name args app|c' q|c'|c'|t|name args|]; simpl in A; try discriminate; simpl in H.
    - inversion H; subst. split; auto.
    - destruct (scur s c') as [|k pat|pat rest|t|k pat rest|]; eauto.
      + inversion H; subst; split; auto.
      + destruct (callable t) as [[n a]|]; eauto. inversion H; subst; split; auto.
      + inversion H; subst; split; auto.
    - destruct (scur s c'); inversion H; subst; split; auto.
    - destruct (callable t) as [[n a]|]; [|inversion H; subst; split; auto].
      rewrite (E (n, length a)) in H. simpl in H. inversion H; subst. split; auto.
      intros k. simpl. unfold upd. destruct (key_eqb k (n, length a)); auto.
    - destruct (qall mt args (sdb s (name, length args))); inversion H; subst; split; auto.
    - inversion H; subst. split; auto. intros k. reflexivity.
  Qed.

  Theorem after_clear_no_retract_answer : forall evs s s' outs,
    db_empty s -> forallb (fun e => negb (is_assert e)) evs = true -> run mt s evs = Some (s', outs) ->
    db_empty s' /\ forallb (fun o => negb (is_ret o)) outs = true.
  Proof.
    induction evs as [|e r IH]; intros s s' outs E A H; simpl in H.
    - inversion H; subst. split; auto.
    - simpl in A. apply andb_true_iff in A as [A1 A2]. apply negb_true_iff in A1.
      destruct (step mt s e) as [[s1 o]|] eqn:ES; [|discriminate].
      destruct (run mt s1 r) as [[s2 os]|] eqn:ER; [|discriminate]. inversion H; subst. clear H.
      destruct (@step_empty s e s1 o E A1 ES) as [E1 O1]. destruct (IH s1 s' os E1 A2 ER) as [E2 O2].
      split; auto. simpl. rewrite O1, O2. reflexivity.
  Qed.

  (* the form in which the history is read: ... clear(), then anything but asserts *)
  Corollary clear_then_resume : forall evs s s' outs,
    forallb (fun e => negb (is_assert e)) evs = true -> run mt s (EClear :: evs) = Some (s', outs) ->
    db_empty s' /\ forallb (fun o => negb (is_ret o)) outs = true.
  Proof.
    intros evs s s' outs A H. simpl in H.
    destruct (run mt (set_db s empty_db) evs) as [[s2 os]|] eqn:ER; [|discriminate]. inversion H; subst. clear H.
    assert (E: db_empty (set_db s empty_db)) by (intros k; reflexivity).
    destruct (@after_clear_no_retract_answer evs _ s' os E A ER) as [E2 O2]. split; auto.
  Qed.

  (* with asserts after the clear: whatever is removed later was created after the clear *)
  Lemma run_ids_lower : forall evs s s' outs n,
    ids_ok (sdb s) (snext s) -> n <= snext s -> (forall k i, In i (map fid (sdb s k)) -> n <= i) ->
    run mt s evs = Some (s', outs) -> forall i, In i (removed outs) -> n <= i.
  Proof.
    induction evs as [|e r IH]; intros s s' outs n I Hn L H i Hi; simpl in H.
    - inversion H; subst. simpl in Hi. contradiction.
    - destruct (step mt s e) as [[s1 o]|] eqn:ES; [|discriminate].
      destruct (run mt s1 r) as [[s2 os]|] eqn:ER; [|discriminate]. inversion H; subst. clear H.
      destruct (@step_removed mt s e s1 o I ES) as [_ [B [_ [D G]]]].
      destruct (@step_db mt s e s1 o I ES) as [_ I1].
      unfold removed in Hi. simpl in Hi. apply in_app_iff in Hi as [Hi|Hi].
      + destruct (B i Hi) as [k Hk]. eapply L; eauto.
      + apply (IH s1 s' os n I1); auto; [lia|].
        intros k j Hj. destruct (D _ _ Hj) as [X|X]; [eapply L; eauto|lia].
  Qed.

  Theorem after_clear_only_new_facts : forall evs s s' outs,
    ids_ok (sdb s) (snext s) -> run mt s (EClear :: evs) = Some (s', outs) ->
    forall i, In i (removed outs) -> snext s <= i.
  Proof.
    intros evs s s' outs I H i Hi. simpl in H.
    destruct (run mt (set_db s empty_db) evs) as [[s2 os]|] eqn:ER; [|discriminate]. inversion H; subst. clear H.
    unfold removed in Hi. simpl in Hi.
    apply (@run_ids_lower evs (set_db s empty_db) s' os (snext s)); auto.
    - simpl. apply ids_ok_empty.
    - simpl. intros k j Hj. contradiction.
  Qed.
End Clear.
