(* Histories over the fact database with suspended cursors (engine.py: YP.query ->
   match_dynamic -> _match_all_clauses; YP.retract; YP.asserta/assertz/assert_fact;
   YP.retractall; YP.clear), in any interleaving.

   A cursor is a Python generator object.  YP.query and YP.retract are generator functions:
   creating the generator (EStart) runs nothing; the FIRST next() dereferences the goal, reads the
   list that is stored under the key at that moment and keeps that list object (the snapshot);
   every later next() continues in the snapshot.  A retract cursor tests, for each candidate of
   its snapshot that matches, whether that very Answer object is in the list that is current NOW,
   publishes the current list without it, and yields.  asserta/assertz/retractall are plain
   functions that do their work when they are called and return a one-shot iterator.
   Bindings of a cursor's pattern live only between two next() of that cursor; every cursor uses
   its own variables (see the harness), so a match is a function of (pattern, fact). *)
From Coq Require Import List Arith Bool Lia.
Import ListNotations.
From YP Require Import Base.Str Term.Term Engine.Db.
Set Implicit Arguments.

Inductive qry :=
| QQuery (name : str) (args : list term)    (* yp.query(name, args) / a goal name(args) in compiled code *)
| QRetract (t : term).                      (* retract(t) *)

Inductive ev :=
| EAssert (front : bool) (t : term)                        (* asserta(t) / assertz(t), t dereferenced *)
| EAssertFact (name : str) (args : list term) (append : bool)   (* YP.assert_fact *)
| EStart (c : nat) (q : qry)
| ENext (c : nat)
| EClose (c : nat)
| ERetractAll (t : term)
| EQueryAll (name : str) (args : list term)                (* a query run to exhaustion at once *)
| EClear.

Inductive cursor :=
| CNone                                                    (* no such generator *)
| CQNew (k : key) (pat : list term)                        (* created, not started *)
| CQRun (pat : list term) (rest : list fact)               (* suspended in its snapshot *)
| CRNew (t : term)
| CRRun (k : key) (pat : list term) (rest : list fact)
| CDone.                                                   (* exhausted or closed *)

(* what an event returns; fact ids and keys are ghost information for the theorems, the harness
   sees only out_obs (RunDb.v) *)
Inductive out :=
| OIns (k : key) (front : bool) (f : fact)   (* an assert stored f; the builtin succeeded once *)
| ONop                                       (* asserta/assertz of a non-callable term: succeeds, stores nothing *)
| ORAll (k : key) (gone : list nat)          (* retractall succeeded once *)
| OFailed                                    (* retractall of a non-callable term fails *)
| OClr
| OStart
| OClosed
| OEnd                                       (* StopIteration *)
| OBad                                       (* next/close of a generator that was never created (harness error) *)
| OAns (id : nat) (a : list term)            (* a query cursor yields: dereferenced pattern *)
| ORet (k : key) (id : nat) (a : list term)  (* a retract cursor yields, having removed fact id *)
| OAll (l : list (list term)).

Record st := mkst { sdb : db; snext : nat; scur : nat -> cursor }.

Definition init : st := mkst empty_db 0 (fun _ => CNone).

Definition set_cur (s : st) (c : nat) (x : cursor) : st :=
  mkst (sdb s) (snext s) (fun c' => if Nat.eqb c' c then x else scur s c').
Definition set_db (s : st) (d : db) : st := mkst d (snext s) (scur s).

Section Machine.
  Variable mt : list term -> list term -> mres.

  Definition do_assert (s : st) (name : str) (args : list term) (front : bool) : st * out :=
    let k := (name, length args) in
    let f := mkfact (snext s) args in
    (mkst (upd k (ins front f (sdb s k)) (sdb s)) (S (snext s)) (scur s), OIns k front f).

  Definition qnext (s : st) (c : nat) (pat : list term) (l : list fact) : option (st * out) :=
    match qscan mt pat l with
    | None => None
    | Some None => Some (set_cur s c CDone, OEnd)
    | Some (Some (f, a, r)) => Some (set_cur s c (CQRun pat r), OAns (fid f) a)
    end.

  Definition rnext (s : st) (c : nat) (k : key) (pat : list term) (l : list fact) : option (st * out) :=
    match rscan mt pat (sdb s k) l with
    | None => None
    | Some None => Some (set_cur s c CDone, OEnd)
    | Some (Some (f, a, r)) =>
        Some (set_cur (set_db s (upd k (del_id (fid f) (sdb s k)) (sdb s))) c (CRRun k pat r), ORet k (fid f) a)
    end.

  Definition step (s : st) (e : ev) : option (st * out) :=
    match e with
    | EAssertFact name args append => Some (do_assert s name args (negb append))
    | EAssert front t =>
        match callable t with
        | Some (n, args) => Some (do_assert s n args front)
        | None => Some (s, ONop)
        end
    | EStart c q =>
        Some (set_cur s c (match q with
                           | QQuery n args => CQNew (n, length args) args
                           | QRetract t => CRNew t
                           end), OStart)
    | ENext c =>
        match scur s c with
        | CNone => Some (s, OBad)
        | CDone => Some (s, OEnd)
        | CQNew k pat => qnext s c pat (sdb s k)
        | CQRun pat rest => qnext s c pat rest
        | CRNew t =>
            match callable t with
            | None => Some (set_cur s c CDone, OEnd)
            | Some (n, args) => rnext s c (n, length args) args (sdb s (n, length args))
            end
        | CRRun k pat rest => rnext s c k pat rest
        end
    | EClose c =>
        match scur s c with
        | CNone => Some (s, OBad)
        | _ => Some (set_cur s c CDone, OClosed)
        end
    | ERetractAll t =>
        match callable t with
        | None => Some (s, OFailed)
        | Some (n, args) =>
            let k := (n, length args) in
            match rall mt args (sdb s k) with
            | None => None
            | Some (keep, gone) => Some (set_db s (upd k keep (sdb s)), ORAll k gone)
            end
        end
    | EQueryAll n args =>
        match qall mt args (sdb s (n, length args)) with
        | None => None
        | Some l => Some (s, OAll l)
        end
    | EClear => Some (set_db s empty_db, OClr)
    end.

  Fixpoint run (s : st) (evs : list ev) : option (st * list out) :=
    match evs with
    | [] => Some (s, [])
    | e :: r =>
        match step s e with
        | None => None
        | Some (s1, o) =>
            match run s1 r with
            | None => None
            | Some (s2, os) => Some (s2, o :: os)
            end
        end
    end.

  Lemma run_app s a b : run s (a ++ b) =
    match run s a with
    | None => None
    | Some (s1, o1) => match run s1 b with None => None | Some (s2, o2) => Some (s2, o1 ++ o2) end
    end.
  Proof.
    revert s. induction a as [|e a IH]; intros s; simpl.
    - destruct (run s b) as [[s2 o2]|]; reflexivity.
    - destruct (step s e) as [[s1 o]|]; [|reflexivity]. rewrite IH.
      destruct (run s1 a) as [[s2 o2]|]; [|reflexivity].
      destruct (run s2 b) as [[s3 o3]|]; reflexivity.
  Qed.

  Lemma run_length s evs s' outs : run s evs = Some (s', outs) -> length outs = length evs.
  Proof.
    revert s s' outs. induction evs as [|e r IH]; intros s s' outs H; simpl in H.
    - inversion H; reflexivity.
    - destruct (step s e) as [[s1 o]|]; [|discriminate].
      destruct (run s1 r) as [[s2 os]|] eqn:E; [|discriminate]. inversion H; subst. simpl. f_equal. eauto.
  Qed.

  (* ---------------------------------------------------------------- *)
  (* the effect of an event on the database is the atomic update named by its output,
     applied to the database that is current when the event happens *)
  Definition apply_out (o : out) (d : db) : db :=
    match o with
    | OIns k front f => upd k (ins front f (d k)) d
    | ORet k id _ => upd k (del_id id (d k)) d
    | ORAll k gone => upd k (del_ids gone (d k)) d
    | OClr => empty_db
    | _ => d
    end.

  (* invariants on identities: ids are allocated from a counter, so the facts that are stored
     have pairwise different ids (within a key and across keys) *)
  Definition ids_ok (d : db) (n : nat) : Prop :=
    (forall k, NoDup (map fid (d k))) /\
    (forall k f, In f (d k) -> fid f < n) /\
    (forall k k' i, In i (map fid (d k)) -> In i (map fid (d k')) -> k = k').

  Lemma ids_ok_empty n : ids_ok empty_db n.
  Proof. repeat split; intros; try constructor; try contradiction. Qed.

  Lemma ids_ok_sub d n k l : ids_ok d n -> (forall f, In f l -> In f (d k)) -> NoDup (map fid l) ->
    ids_ok (upd k l d) n.
  Proof.
    intros [A [B C]] Hs Hn. repeat split.
    - intros k0. unfold upd. destruct (key_eqb k0 k); auto.
    - intros k0 f. unfold upd. destruct (key_eqb k0 k); intros H; eauto.
    - intros k1 k2 i. unfold upd.
      assert (Hin: forall i, In i (map fid l) -> In i (map fid (d k))).
      { intros j Hj. apply in_map_iff in Hj as [f [E Hf]]. apply in_map_iff. exists f. auto. }
      destruct (key_eqb_spec k1 k) as [->|N1]; destruct (key_eqb_spec k2 k) as [->|N2]; intros H1 H2; auto.
      + apply (C k k2 i); auto.
      + apply (C k1 k i); auto.
      + apply (C k1 k2 i); auto.
  Qed.

  Lemma ids_ok_ins d n k front args : ids_ok d n -> ids_ok (upd k (ins front (mkfact n args) (d k)) d) (S n).
  Proof.
    intros [A [B C]].
    assert (Fresh: forall k0, ~ In n (map fid (d k0))).
    { intros k0 H. apply in_map_iff in H as [f [E H]]. apply B in H. lia. }
    assert (InIns: forall i, In i (map fid (ins front (mkfact n args) (d k))) -> i = n \/ In i (map fid (d k))).
    { intros i. unfold ins. destruct front; simpl.
      - intros [H|H]; auto.
      - rewrite map_app, in_app_iff. simpl. intros [H|[H|[]]]; auto. }
    repeat split.
    - intros k0. unfold upd. destruct (key_eqb k0 k); auto.
      unfold ins. destruct front; simpl.
      + constructor; auto.
      + rewrite map_app. simpl. apply nodup_snoc; auto.
    - intros k0 f. unfold upd. destruct (key_eqb k0 k).
      + unfold ins. destruct front; simpl.
        * intros [H|H]; [subst; simpl; lia|]. apply B in H. lia.
        * rewrite in_app_iff. simpl. intros [H|[H|[]]]; [apply B in H; lia|subst; simpl; lia].
      + intros H. apply B in H. lia.
    - intros k1 k2 i. unfold upd.
      destruct (key_eqb_spec k1 k) as [->|N1]; destruct (key_eqb_spec k2 k) as [->|N2]; intros H1 H2; auto.
      + apply InIns in H1 as [->|H1]; [exfalso; eapply Fresh; eauto|]. apply (C k k2 i); auto.
      + apply InIns in H2 as [->|H2]; [exfalso; eapply Fresh; eauto|]. apply (C k1 k i); auto.
      + apply (C k1 k2 i); auto.
  Qed.
End Machine.
