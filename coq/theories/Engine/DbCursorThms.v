(* Theorems about arbitrary interleavings of updates and suspended cursors (C14), for every
   matching function. *)
From Coq Require Import List Arith Bool Lia.
Import ListNotations.
From YP Require Import Base.Str Term.Term Engine.Db Engine.DbCursor.
Set Implicit Arguments.

Lemma nodup_app (a b : list nat) : NoDup a -> NoDup b -> (forall x, In x a -> ~ In x b) -> NoDup (a ++ b).
Proof.
  induction a as [|x a IH]; simpl; intros Na Nb D; auto.
  inversion Na as [|? ? N1 N2]; subst. constructor.
  - rewrite in_app_iff. intros [H|H]; auto. apply (D x); auto.
  - apply IH; auto.
Qed.

Section Thms.
  Variable mt : list term -> list term -> mres.
  Notation step := (step mt).
  Notation run := (run mt).

  (* ---------------------------------------------------------------- *)
  (* events that do not address cursor c leave it alone *)
  Definition acts_on (c : nat) (e : ev) : bool :=
    match e with
    | ENext c' | EStart c' _ | EClose c' => Nat.eqb c' c
    | _ => false
    end.

  Lemma set_cur_other s c x c' : c' <> c -> scur (set_cur s c x) c' = scur s c'.
  Proof. intros H. simpl. destruct (Nat.eqb_spec c' c); congruence. Qed.
  Lemma set_cur_same s c x : scur (set_cur s c x) c = x.
  Proof. simpl. rewrite Nat.eqb_refl. reflexivity. Qed.

  Lemma qnext_other s c pat l s' o c' : qnext mt s c pat l = Some (s', o) -> c' <> c -> scur s' c' = scur s c'.
  Proof.
    unfold qnext. intros H N. destruct (qscan mt pat l) as [[[[f a] r]|]|]; inversion H; subst;
      apply set_cur_other; auto.
  Qed.
  Lemma rnext_other s c k pat l s' o c' : rnext mt s c k pat l = Some (s', o) -> c' <> c -> scur s' c' = scur s c'.
  Proof.
    unfold rnext. intros H N. destruct (rscan mt pat (sdb s k) l) as [[[[f a] r]|]|]; inversion H; subst.
    - rewrite set_cur_other; auto.
    - apply set_cur_other; auto.
  Qed.

  Lemma step_other s e s' o c : step s e = Some (s', o) -> acts_on c e = false -> scur s' c = scur s c.
  Proof.
    intros H A. destruct e as [front t|name args app|c' q|c'|c'|t|name args|]; simpl in *.
    - destruct (callable t) as [[n a]|]; inversion H; subst; reflexivity.
    - inversion H; subst; reflexivity.
    - apply Nat.eqb_neq in A. inversion H; subst. apply set_cur_other; auto.
    - apply Nat.eqb_neq in A.
      destruct (scur s c') as [|k pat|pat rest|t|k pat rest|] eqn:E.
      + inversion H; subst; reflexivity.
      + eapply qnext_other; eauto.
      + eapply qnext_other; eauto.
      + destruct (callable t) as [[n a]|].
        * eapply rnext_other; eauto.
        * inversion H; subst. apply set_cur_other; auto.
      + eapply rnext_other; eauto.
      + inversion H; subst; reflexivity.
    - apply Nat.eqb_neq in A.
      destruct (scur s c'); inversion H; subst; try reflexivity; apply set_cur_other; auto.
    - destruct (callable t) as [[n a]|]; [|inversion H; subst; reflexivity].
      destruct (rall mt a (sdb s (n, length a))) as [[keep gone]|]; inversion H; subst; reflexivity.
    - destruct (qall mt args (sdb s (name, length args))); inversion H; subst; reflexivity.
    - inversion H; subst; reflexivity.
  Qed.

  (* what the next() calls on cursor c returned, in order *)
  Fixpoint outs_of (c : nat) (evs : list ev) (outs : list out) : list out :=
    match evs, outs with
    | e :: es, o :: os =>
        match e with
        | ENext c' => if Nat.eqb c' c then o :: outs_of c es os else outs_of c es os
        | _ => outs_of c es os
        end
    | _, _ => []
    end.

  (* the cursor is neither re-created nor closed by the caller *)
  Definition ctl (c : nat) (e : ev) : bool :=
    match e with EStart c' _ | EClose c' => Nat.eqb c' c | _ => false end.
  Definition no_ctl (c : nat) (evs : list ev) : Prop := forall e, In e evs -> ctl c e = false.
  Definition no_start (c : nat) (evs : list ev) : Prop := forall e q, In e evs -> e <> EStart c q.

  (* the first n elements of  L ++ [OEnd; OEnd; ...] *)
  Fixpoint expect (L : list out) (n : nat) : list out :=
    match n with
    | O => []
    | S n' => match L with [] => OEnd :: expect [] n' | x :: L' => x :: expect L' n' end
    end.

  (* the answers a query cursor owes: the matching facts of its snapshot, in snapshot order *)
  Definition qstream (pat : list term) (l : list fact) : list out :=
    map (fun fa => OAns (fid (fst fa)) (snd fa)) (matches mt pat l).

  Definition cur_stream (cu : cursor) : option (list out) :=
    match cu with
    | CQRun pat rest => Some (qstream pat rest)
    | CDone => Some []
    | _ => None
    end.

  (* C14.1: whatever happens between its next() calls, a query cursor returns exactly the matching
     facts of its snapshot, in order, then StopIteration for ever *)
  Theorem cursor_visits_snapshot : forall evs s s' outs c L,
    cur_stream (scur s c) = Some L -> no_ctl c evs -> run s evs = Some (s', outs) ->
    outs_of c evs outs = expect L (length (outs_of c evs outs)).
  Proof.
    induction evs as [|e r IH]; intros s s' outs c L HL NC H; simpl in H.
    - inversion H; subst. reflexivity.
    - destruct (step s e) as [[s1 o]|] eqn:ES; [|discriminate].
      destruct (DbCursor.run mt s1 r) as [[s2 os]|] eqn:ER; [|discriminate]. inversion H; subst. clear H.
      assert (NC': no_ctl c r) by (intros x Hx; apply NC; right; exact Hx).
      assert (Other: acts_on c e = false -> outs_of c (e :: r) (o :: os) = outs_of c r os).
      { intros A. destruct e; simpl in *; auto. rewrite A. reflexivity. }
      destruct (acts_on c e) eqn:A.
      + destruct e as [| |c' q|c'|c'| | |]; simpl in A; try discriminate.
        * specialize (NC (EStart c' q) (or_introl eq_refl)). simpl in NC. congruence.
        * apply Nat.eqb_eq in A. subst c'. simpl. rewrite Nat.eqb_refl. simpl.
          simpl in ES. destruct (scur s c) as [|k pat|pat rest|t|k pat rest|] eqn:EC; simpl in HL; try discriminate.
          -- inversion HL; subst L. clear HL. unfold qnext in ES.
             destruct (qscan mt pat rest) as [[[[f a] rr]|]|] eqn:Q; [| |discriminate]; inversion ES; subst; clear ES.
             ++ destruct (qscan_some _ _ _ Q) as [M _]. unfold qstream at 1. rewrite M. simpl. f_equal.
                apply (IH (set_cur s c (CQRun pat rr)) s' os c); auto. rewrite set_cur_same. reflexivity.
             ++ apply qscan_none in Q. unfold qstream. rewrite Q. simpl. f_equal.
                apply (IH (set_cur s c CDone) s' os c); auto. rewrite set_cur_same. reflexivity.
          -- inversion HL; subst L. inversion ES; subst. simpl. f_equal. apply (IH s1 s' os c); auto. rewrite EC. reflexivity.
        * specialize (NC (EClose c') (or_introl eq_refl)). simpl in NC. congruence.
      + rewrite (Other eq_refl). apply (IH s1 s' os c); auto.
        rewrite (@step_other _ _ _ _ c ES A). exact HL.
  Qed.

  (* the snapshot is the list that is stored when the goal is started, i.e. at the first next() *)
  Corollary query_snapshot_at_first_next : forall evs s s' outs c k pat,
    scur s c = CQNew k pat -> no_ctl c evs -> run s (ENext c :: evs) = Some (s', outs) ->
    outs_of c (ENext c :: evs) outs = expect (qstream pat (sdb s k)) (length (outs_of c (ENext c :: evs) outs)).
  Proof.
    intros evs s s' outs c k pat EC NC H. simpl in H. rewrite EC in H. unfold qnext in H.
    destruct (qscan mt pat (sdb s k)) as [[[[f a] rr]|]|] eqn:Q; [| |discriminate].
    - destruct (DbCursor.run mt (set_cur s c (CQRun pat rr)) evs) as [[s2 os]|] eqn:ER; [|discriminate].
      inversion H; subst. simpl. rewrite Nat.eqb_refl. simpl.
      destruct (qscan_some _ _ _ Q) as [M _]. unfold qstream at 1. rewrite M. simpl. f_equal.
      apply (@cursor_visits_snapshot evs (set_cur s c (CQRun pat rr)) s' os c); auto.
      rewrite set_cur_same. reflexivity.
    - destruct (DbCursor.run mt (set_cur s c CDone) evs) as [[s2 os]|] eqn:ER; [|discriminate].
      inversion H; subst. simpl. rewrite Nat.eqb_refl. simpl.
      apply qscan_none in Q. unfold qstream. rewrite Q. simpl. f_equal.
      apply (@cursor_visits_snapshot evs (set_cur s c CDone) s' os c); auto.
      rewrite set_cur_same. reflexivity.
  Qed.

  (* ---------------------------------------------------------------- *)
  (* C14.4: a cursor yields at most as many answers as its snapshot has facts left, whatever is
     asserted or retracted meanwhile *)
  Definition is_ans (o : out) : bool := match o with OAns _ _ | ORet _ _ _ => true | _ => false end.
  Definition count_ans (l : list out) : nat := length (filter is_ans l).
  Definition cur_left (cu : cursor) : option nat :=
    match cu with
    | CQRun _ rest | CRRun _ _ rest => Some (length rest)
    | CDone => Some 0
    | _ => None
    end.

  Theorem cursor_finite : forall evs s s' outs c n,
    cur_left (scur s c) = Some n -> no_start c evs -> run s evs = Some (s', outs) ->
    count_ans (outs_of c evs outs) <= n.
  Proof.
    induction evs as [|e r IH]; intros s s' outs c n HL NS H; simpl in H.
    - inversion H; subst. unfold count_ans. simpl. lia.
    - destruct (step s e) as [[s1 o]|] eqn:ES; [|discriminate].
      destruct (DbCursor.run mt s1 r) as [[s2 os]|] eqn:ER; [|discriminate]. inversion H; subst. clear H.
      assert (NS': no_start c r) by (intros x q Hx; apply NS; right; exact Hx).
      assert (Other: acts_on c e = false -> outs_of c (e :: r) (o :: os) = outs_of c r os).
      { intros A. destruct e; simpl in *; auto. rewrite A. reflexivity. }
      destruct (acts_on c e) eqn:A.
      + destruct e as [| |c' q|c'|c'| | |]; simpl in A; try discriminate; apply Nat.eqb_eq in A; subst c'.
        * exfalso. apply (NS (EStart c q) q); auto. left; reflexivity.
        * simpl. rewrite Nat.eqb_refl. simpl in ES.
          destruct (scur s c) as [|k pat|pat rest|t|k pat rest|] eqn:EC; simpl in HL; try discriminate; inversion HL; subst n; clear HL.
          -- unfold qnext in ES.
             destruct (qscan mt pat rest) as [[[[f a] rr]|]|] eqn:Q; [| |discriminate]; inversion ES; subst; clear ES.
             ++ destruct (qscan_some _ _ _ Q) as [_ [nm [E _]]]. subst rest.
                assert (X: count_ans (outs_of c r os) <= length rr).
                { apply (IH (set_cur s c (CQRun pat rr)) s' os c); auto. rewrite set_cur_same. reflexivity. }
                unfold count_ans in *. simpl. rewrite app_length. simpl. lia.
             ++ assert (X: count_ans (outs_of c r os) <= 0).
                { apply (IH (set_cur s c CDone) s' os c); auto. rewrite set_cur_same. reflexivity. }
                unfold count_ans in *. simpl. lia.
          -- unfold rnext in ES.
             destruct (rscan mt pat (sdb s k) rest) as [[[[f a] rr]|]|] eqn:Q; [| |discriminate]; inversion ES; subst; clear ES.
             ++ destruct (rscan_some _ _ _ _ Q) as [_ [_ [pre E]]]. subst rest.
                assert (X: count_ans (outs_of c r os) <= length rr).
                { eapply IH; [|exact NS'|exact ER]. rewrite set_cur_same. reflexivity. }
                unfold count_ans in *. simpl. rewrite app_length. simpl. lia.
             ++ assert (X: count_ans (outs_of c r os) <= 0).
                { apply (IH (set_cur s c CDone) s' os c); auto. rewrite set_cur_same. reflexivity. }
                unfold count_ans in *. simpl. lia.
          -- inversion ES; subst.
             assert (X: count_ans (outs_of c r os) <= 0).
             { apply (IH s1 s' os c); auto. rewrite EC. reflexivity. }
             unfold count_ans in *. simpl. lia.
        * simpl. simpl in ES.
          assert (X: count_ans (outs_of c r os) <= 0); [|lia].
          destruct (scur s c) eqn:EC; simpl in HL; try discriminate; inversion ES; subst;
            (apply (IH (set_cur s c CDone) s' os c); auto; rewrite set_cur_same; reflexivity).
      + rewrite (Other eq_refl). apply (IH s1 s' os c); auto.
        rewrite (@step_other _ _ _ _ c ES A). exact HL.
  Qed.

  (* the failure-driven update loop  retract(c(N)), ..., assertz(c(N1)), fail : the retract goal is
     started once (its first next()), every iteration of the loop is one more next() on it, and the
     events in between (evs) are arbitrary - in particular they may assert new matching facts.  The
     goal answers at most as often as there were facts when it started. *)
  Corollary retract_goal_finite : forall evs s s' outs c t name args,
    scur s c = CRNew t -> callable t = Some (name, args) -> no_start c evs ->
    run s (ENext c :: evs) = Some (s', outs) ->
    count_ans (outs_of c (ENext c :: evs) outs) <= length (sdb s (name, length args)).
  Proof.
    intros evs s s' outs c t name args EC CA NS H. simpl in H. rewrite EC, CA in H. unfold rnext in H.
    set (k := (name, length args)) in *.
    destruct (rscan mt args (sdb s k) (sdb s k)) as [[[[f a] rr]|]|] eqn:Q; [| |discriminate].
    - match type of H with match ?R with _ => _ end = _ => destruct R as [[s2 os]|] eqn:ER; [|discriminate] end.
      inversion H; subst. simpl. rewrite Nat.eqb_refl.
      destruct (rscan_some _ _ _ _ Q) as [_ [_ [pre E]]].
      assert (X: count_ans (outs_of c evs os) <= length rr).
      { eapply cursor_finite; [|exact NS|exact ER]. rewrite set_cur_same. reflexivity. }
      rewrite E. unfold count_ans in *. simpl. rewrite app_length. simpl. lia.
    - match type of H with match ?R with _ => _ end = _ => destruct R as [[s2 os]|] eqn:ER; [|discriminate] end.
      inversion H; subst. simpl. rewrite Nat.eqb_refl.
      assert (X: count_ans (outs_of c evs os) <= 0).
      { eapply cursor_finite; [|exact NS|exact ER]. rewrite set_cur_same. reflexivity. }
      unfold count_ans in *. simpl. lia.
  Qed.

  (* ---------------------------------------------------------------- *)
  (* C14.3: no update is lost.  Every event changes the database by exactly the atomic update that
     its output names, applied to the database that is current at that moment; in particular a
     suspended cursor never writes back a list it read earlier. *)
  Lemma del_ids_cons_notin i g l : ~ In i (map fid l) -> del_ids (i :: g) l = del_ids g l.
  Proof.
    intros H. unfold del_ids. apply filter_ext_in. intros c Hc. simpl.
    destruct (Nat.eqb_spec (fid c) i) as [E|E]; auto.
    exfalso. apply H. apply in_map_iff. exists c. auto.
  Qed.

  Lemma del_ids_hit g f r : del_ids (fid f :: g) (f :: r) = del_ids (fid f :: g) r.
  Proof. unfold del_ids. simpl. rewrite Nat.eqb_refl. reflexivity. Qed.
  Lemma del_ids_miss g f r : existsb (Nat.eqb (fid f)) g = false -> del_ids g (f :: r) = f :: del_ids g r.
  Proof. intros H. unfold del_ids. simpl. rewrite H. reflexivity. Qed.

  Lemma rall_spec pat : forall l keep gone, NoDup (map fid l) -> rall mt pat l = Some (keep, gone) ->
    keep = del_ids gone l /\ (forall i, In i gone -> In i (map fid l)) /\ NoDup gone /\ (forall f, In f keep -> In f l).
  Proof.
    induction l as [|f r IH]; intros keep gone N H; simpl in H.
    - inversion H; subst. repeat split; auto; try constructor; intros; contradiction.
    - inversion N as [|? ? N1 N2]; subst.
      destruct (mt pat (fargs f)) eqn:M; [| |discriminate];
        destruct (rall mt pat r) as [[k' g']|] eqn:R; try discriminate; inversion H; subst; clear H;
        destruct (IH _ _ N2 eq_refl) as [A [B [C D]]].
      + repeat split.
        * rewrite del_ids_hit, del_ids_cons_notin; auto.
        * intros i [<-|Hi]; simpl; auto.
        * constructor; auto.
        * intros x Hx. right. auto.
      + assert (NG: existsb (Nat.eqb (fid f)) gone = false).
        { destruct (existsb (Nat.eqb (fid f)) gone) eqn:X; auto. apply existsb_exists in X as [i [Hi E]].
          apply Nat.eqb_eq in E. subst i. exfalso. apply N1. auto. }
        repeat split; auto.
        * rewrite del_ids_miss; auto. f_equal. exact A.
        * intros i Hi. simpl. right. auto.
        * intros x [<-|Hx]; simpl; auto.
  Qed.

  Lemma step_db s e s' o : ids_ok (sdb s) (snext s) -> step s e = Some (s', o) ->
    (forall k, sdb s' k = apply_out o (sdb s) k) /\ ids_ok (sdb s') (snext s').
  Proof.
    intros I H.
    assert (Same: forall x, ids_ok (sdb s) (snext s) -> sdb x = sdb s -> snext x = snext s -> ids_ok (sdb x) (snext x)).
    { intros x _ E1 E2. rewrite E1, E2. exact I. }
    destruct e as [front t|name args app|c' q|c'|c'|t|name args|]; simpl in H.
    - destruct (callable t) as [[n a]|]; inversion H; subst; simpl; split; auto. apply ids_ok_ins; auto.
    - inversion H; subst; simpl; split; auto. apply ids_ok_ins; auto.
    - inversion H; subst; simpl; split; auto.
    - assert (Q: forall pat l, qnext mt s c' pat l = Some (s', o) ->
                 (forall k, sdb s' k = apply_out o (sdb s) k) /\ ids_ok (sdb s') (snext s')).
      { intros pat l HQ. unfold qnext in HQ.
        destruct (qscan mt pat l) as [[[[f a] r]|]|]; inversion HQ; subst; simpl; split; auto. }
      assert (R: forall k pat l, rnext mt s c' k pat l = Some (s', o) ->
                 (forall k, sdb s' k = apply_out o (sdb s) k) /\ ids_ok (sdb s') (snext s')).
      { intros k pat l HR. unfold rnext in HR.
        destruct (rscan mt pat (sdb s k) l) as [[[[f a] r]|]|]; inversion HR; subst; simpl; split; auto.
        apply ids_ok_sub; auto.
        - intros x Hx. apply del_id_in in Hx. tauto.
        - apply nodup_ids_filter. destruct I as [I1 _]. apply I1. }
      destruct (scur s c') as [|k pat|pat rest|t|k pat rest|]; eauto.
      + inversion H; subst; simpl; split; auto.
      + destruct (callable t) as [[n a]|]; eauto. inversion H; subst; simpl; split; auto.
      + inversion H; subst; simpl; split; auto.
    - destruct (scur s c'); inversion H; subst; simpl; split; auto.
    - destruct (callable t) as [[n a]|]; [|inversion H; subst; simpl; split; auto].
      destruct (rall mt a (sdb s (n, length a))) as [[keep gone]|] eqn:R; inversion H; subst; clear H. simpl.
      destruct I as [I1 [I2 I3]].
      destruct (rall_spec _ _ (I1 (n, length a)) R) as [A [B [C D]]].
      split.
      + intros k. rewrite A. reflexivity.
      + apply ids_ok_sub; auto.
        * repeat split; auto.
        * rewrite A. apply nodup_ids_filter. apply I1.
    - destruct (qall mt args (sdb s (name, length args))); inversion H; subst; simpl; split; auto.
    - inversion H; subst; simpl; split; auto. apply ids_ok_empty.
  Qed.

  Definition apply_outs (outs : list out) (d : db) : db := fold_left (fun d o => apply_out o d) outs d.

  Lemma apply_out_ext o d1 d2 : (forall k, d1 k = d2 k) -> forall k, apply_out o d1 k = apply_out o d2 k.
  Proof.
    intros E k. destruct o; simpl; auto; unfold upd; destruct (key_eqb k k0); auto; rewrite E; reflexivity.
  Qed.
  Lemma apply_outs_ext outs : forall d1 d2, (forall k, d1 k = d2 k) -> forall k, apply_outs outs d1 k = apply_outs outs d2 k.
  Proof.
    induction outs as [|o r IH]; intros d1 d2 E k; simpl; auto.
    apply IH. apply apply_out_ext. exact E.
  Qed.

  Theorem no_lost_update : forall evs s s' outs,
    ids_ok (sdb s) (snext s) -> run s evs = Some (s', outs) ->
    (forall k, sdb s' k = apply_outs outs (sdb s) k) /\ ids_ok (sdb s') (snext s').
  Proof.
    induction evs as [|e r IH]; intros s s' outs I H; simpl in H.
    - inversion H; subst. split; auto.
    - destruct (step s e) as [[s1 o]|] eqn:ES; [|discriminate].
      destruct (DbCursor.run mt s1 r) as [[s2 os]|] eqn:ER; [|discriminate]. inversion H; subst. clear H.
      destruct (@step_db s e s1 o I ES) as [A B]. destruct (IH _ _ _ B ER) as [C D]. split; auto.
      intros k. rewrite C. simpl. apply apply_outs_ext. exact A.
  Qed.

  (* ---------------------------------------------------------------- *)
  (* C14.2: over all cursors and all retractall calls of a history, every fact is removed, and
     returned by a retract, at most once *)
  Definition removed_of (o : out) : list nat :=
    match o with ORet _ i _ => [i] | ORAll _ g => g | _ => [] end.
  Definition removed (outs : list out) : list nat := flat_map removed_of outs.

  Lemma del_ids_in g l c : In c (del_ids g l) <-> In c l /\ ~ In (fid c) g.
  Proof.
    unfold del_ids. rewrite filter_In. split; intros [A B]; split; auto.
    - intros X. apply negb_true_iff in B.
      assert (Y: existsb (Nat.eqb (fid c)) g = true); [|congruence].
      apply existsb_exists. exists (fid c). split; auto. apply Nat.eqb_refl.
    - apply negb_true_iff. destruct (existsb (Nat.eqb (fid c)) g) eqn:X; auto.
      apply existsb_exists in X as [i [Hi E]]. apply Nat.eqb_eq in E. subst i. contradiction.
  Qed.

  Lemma step_out_facts s e s' o : ids_ok (sdb s) (snext s) -> step s e = Some (s', o) ->
    snext s <= snext s' /\
    match o with
    | ORet k i _ => In i (map fid (sdb s k))
    | ORAll k gone => NoDup gone /\ forall i, In i gone -> In i (map fid (sdb s k))
    | OIns _ _ f => fid f = snext s
    | _ => True
    end.
  Proof.
    intros I H.
    destruct e as [front t|name args app|c' q|c'|c'|t|name args|]; simpl in H.
    - destruct (callable t) as [[n a]|]; inversion H; subst; simpl; auto.
    - inversion H; subst; simpl; auto.
    - inversion H; subst; simpl; auto.
    - assert (Q: forall pat l, qnext mt s c' pat l = Some (s', o) -> snext s <= snext s' /\
                 match o with ORet k i _ => In i (map fid (sdb s k))
                 | ORAll k gone => NoDup gone /\ forall i, In i gone -> In i (map fid (sdb s k))
                 | OIns _ _ f => fid f = snext s | _ => True end).
      { intros pat l HQ. unfold qnext in HQ.
        destruct (qscan mt pat l) as [[[[f a] r]|]|]; inversion HQ; subst; simpl; auto. }
      assert (R: forall k pat l, rnext mt s c' k pat l = Some (s', o) -> snext s <= snext s' /\
                 match o with ORet k i _ => In i (map fid (sdb s k))
                 | ORAll k gone => NoDup gone /\ forall i, In i gone -> In i (map fid (sdb s k))
                 | OIns _ _ f => fid f = snext s | _ => True end).
      { intros k pat l HR. unfold rnext in HR.
        destruct (rscan mt pat (sdb s k) l) as [[[[f a] r]|]|] eqn:RS; inversion HR; subst; simpl; auto.
        split; auto. apply has_id_in. destruct (rscan_some _ _ _ _ RS) as [X _]. exact X. }
      destruct (scur s c') as [|k pat|pat rest|t|k pat rest|]; eauto.
      + inversion H; subst; simpl; auto.
      + destruct (callable t) as [[n a]|]; eauto. inversion H; subst; simpl; auto.
      + inversion H; subst; simpl; auto.
    - destruct (scur s c'); inversion H; subst; simpl; auto.
    - destruct (callable t) as [[n a]|]; [|inversion H; subst; simpl; auto].
      destruct (rall mt a (sdb s (n, length a))) as [[keep gone]|] eqn:R; inversion H; subst; clear H. simpl.
      destruct I as [I1 _]. destruct (rall_spec _ _ (I1 (n, length a)) R) as [A [B [C D]]]. auto.
    - destruct (qall mt args (sdb s (name, length args))); inversion H; subst; simpl; auto.
    - inversion H; subst; simpl; auto.
  Qed.

  Lemma step_removed s e s' o : ids_ok (sdb s) (snext s) -> step s e = Some (s', o) ->
    NoDup (removed_of o) /\
    (forall i, In i (removed_of o) -> exists k, In i (map fid (sdb s k))) /\
    (forall i, In i (removed_of o) -> forall k, ~ In i (map fid (sdb s' k))) /\
    (forall i k, In i (map fid (sdb s' k)) -> In i (map fid (sdb s k)) \/ i = snext s) /\
    snext s <= snext s'.
  Proof.
    intros I H. destruct (@step_db s e s' o I H) as [D _]. destruct (@step_out_facts s e s' o I H) as [L F].
    destruct I as [I1 [I2 I3]].
    assert (Sub: forall (p : fact -> bool) k0 i k, In i (map fid (upd k0 (filter p (sdb s k0)) (sdb s) k)) -> In i (map fid (sdb s k))).
    { intros p k0 i k. unfold upd. destruct (key_eqb_spec k k0) as [->|]; auto. apply ids_filter. }
    split; [|split; [|split; [|split]]]; auto.
    - destruct o as [k front f| |k gone| | | | | | |id a|k id a|l]; simpl; try constructor; auto; try constructor.
      destruct F as [F1 F2]. exact F1.
    - destruct o as [k front f| |k gone| | | | | | |id a|k id a|l]; simpl; intros i Hi; try contradiction.
      + destruct F as [F1 F2]. exists k. auto.
      + destruct Hi as [<-|[]]. exists k. exact F.
    - destruct o as [k front f| |k gone| | | | | | |id a|k id a|l]; simpl; intros i Hi k0 X; try contradiction.
      + destruct F as [F1 F2]. rewrite D in X. simpl in X. unfold upd in X.
        destruct (key_eqb_spec k0 k) as [EK|N].
        * apply in_map_iff in X as [c [E X]]. apply del_ids_in in X as [_ X]. subst i. contradiction.
        * apply N. apply (I3 k0 k i); auto.
      + destruct Hi as [<-|[]]. rewrite D in X. simpl in X. unfold upd in X.
        destruct (key_eqb_spec k0 k) as [EK|N].
        * apply in_map_iff in X as [c [E X]]. apply del_id_in in X as [_ X]. congruence.
        * apply N. apply (I3 k0 k id); auto.
    - intros i k0 Hi. rewrite D in Hi.
      destruct o as [k front f| |k gone| | | | | | |id a|k id a|l]; simpl in Hi; auto.
      + unfold upd in Hi. destruct (key_eqb_spec k0 k) as [EK|N]; [subst k0|auto].
        unfold ins in Hi. destruct front; simpl in Hi.
        * destruct Hi as [Hi|Hi]; [right; simpl in F; congruence|left; exact Hi].
        * rewrite map_app, in_app_iff in Hi. simpl in Hi. destruct Hi as [Hi|[Hi|[]]]; [left; exact Hi|right; simpl in F; congruence].
      + left. eapply Sub; eauto.
      + unfold empty_db in Hi. simpl in Hi. contradiction.
      + left. eapply Sub; eauto.
  Qed.

  Lemma run_removed : forall evs s s' outs R,
    ids_ok (sdb s) (snext s) ->
    (forall i, In i R -> i < snext s /\ forall k, ~ In i (map fid (sdb s k))) -> NoDup R ->
    run s evs = Some (s', outs) -> NoDup (R ++ removed outs).
  Proof.
    induction evs as [|e r IH]; intros s s' outs R I HR N H; simpl in H.
    - inversion H; subst. simpl. rewrite app_nil_r. exact N.
    - destruct (step s e) as [[s1 o]|] eqn:ES; [|discriminate].
      destruct (DbCursor.run mt s1 r) as [[s2 os]|] eqn:ER; [|discriminate]. inversion H; subst. clear H.
      destruct (@step_removed s e s1 o I ES) as [A [B [C [D E]]]].
      destruct (@step_db s e s1 o I ES) as [_ I'].
      simpl. rewrite app_assoc. apply (IH s1 s' os); auto.
      + intros i Hi. apply in_app_iff in Hi as [Hi|Hi].
        * destruct (HR i Hi) as [X Y]. split; [lia|]. intros k Z. destruct (D _ _ Z) as [W|W]; [apply (Y k W)|lia].
        * split; [|apply C; auto]. destruct (B i Hi) as [k Hk]. destruct I as [_ [I2 _]].
          apply in_map_iff in Hk as [f [Ef Hf]]. subst i. specialize (I2 k f Hf). lia.
      + apply nodup_app; auto. intros i Hi Hj. destruct (HR i Hi) as [_ Y]. destruct (B i Hj) as [k Hk]. apply (Y k Hk).
  Qed.

  Theorem retract_at_most_once : forall evs s s' outs,
    ids_ok (sdb s) (snext s) -> run s evs = Some (s', outs) -> NoDup (removed outs).
  Proof.
    intros evs s s' outs I H. apply (@run_removed evs s s' outs []); auto; [intros i []|constructor].
  Qed.
End Thms.
