(* Stored facts as independent copies (engine.py: copy_term, Answer.__init__, Answer.match).

   copy_term(term, mapping): dereference (deep get_value), replace every variable that is still
   unbound by a NEW variable, the same one for the same variable (the mapping dictionary), copy
   compound terms argument by argument.  Answer.__init__ copies all arguments of the asserted
   term with ONE mapping; Answer.match copies the stored arguments again with one new mapping and
   unifies the goal's arguments with that copy.

   Variables are cells numbered by an allocation counter: `Variable()` returns cell n and the
   counter becomes n+1.  The heap is a triangular store (Term.v); den s = deep get_value. *)
From Coq Require Import List Arith Bool Lia ZArith.
Import ListNotations.
From YP Require Import Base.Str Term.Term Unify.Unify Engine.Db.
Set Implicit Arguments.

(* mapping dictionary of copy_term (old cell -> new cell) and allocation counter *)
Definition rstate := (list (nat * nat) * nat)%type.

Fixpoint mfind (v : nat) (m : list (nat * nat)) : option nat :=
  match m with
  | [] => None
  | (a, b) :: r => if Nat.eqb v a then Some b else mfind v r
  end.

(* copy_term on a term that is already dereferenced *)
Fixpoint ren (t : term) (st : rstate) {struct t} : term * rstate :=
  match t with
  | TVar v =>
      match mfind v (fst st) with
      | Some w => (TVar w, st)
      | None => (TVar (snd st), ((v, snd st) :: fst st, S (snd st)))
      end
  | TFun f args =>
      let r := (fix go (l : list term) (st : rstate) {struct l} : list term * rstate :=
                  match l with
                  | [] => ([], st)
                  | x :: r => let (x', st1) := ren x st in let (r', st2) := go r st1 in (x' :: r', st2)
                  end) args st in
      (TFun f (fst r), snd r)
  | _ => (t, st)
  end.

Fixpoint ren_list (l : list term) (st : rstate) : list term * rstate :=
  match l with
  | [] => ([], st)
  | x :: r => let (x', st1) := ren x st in let (r', st2) := ren_list r st1 in (x' :: r', st2)
  end.

Lemma ren_fun f args st : ren (TFun f args) st = (TFun f (fst (ren_list args st)), snd (ren_list args st)).
Proof.
  simpl.
  assert (E: forall l st0, (fix go (l : list term) (st : rstate) {struct l} : list term * rstate :=
                  match l with
                  | [] => ([], st)
                  | x :: r => let (x', st1) := ren x st in let (r', st2) := go r st1 in (x' :: r', st2)
                  end) l st0 = ren_list l st0).
  { induction l as [|x r IH]; intros st0; simpl; auto.
    all: try (destruct (ren x st0) as [x' st1]; rewrite IH; reflexivity). }
  rewrite E. reflexivity.
Qed.

(* [copy_term(v, mapping) for v in values] under the bindings s, allocating from cell n *)
Definition copy_args (s : store) (values : list term) (n : nat) : list term * nat :=
  let r := ren_list (map (den s) values) ([], n) in (fst r, snd (snd r)).

(* Answer(values) *)
Definition answer_init (s : store) (n : nat) (values : list term) : list term * nat := copy_args s values n.

(* Answer.match(args): the result of unify_arrays under s, and the new allocation counter *)
Definition answer_match (fuel : nat) (s : store) (n : nat) (goal stored : list term) : ures * nat :=
  let (cs, n') := copy_args s stored n in (unify_arrays fuel s goal cs, n').

(* largest cell mentioned in a term, plus one *)
Fixpoint bound (t : term) : nat :=
  match t with
  | TVar v => S v
  | TFun _ args => fold_right (fun x n => Nat.max (bound x) n) 0 args
  | _ => 0
  end.
Definition bound_list (l : list term) : nat := fold_right (fun x n => Nat.max (bound x) n) 0 l.

(* the matching function of the cursor machine (DbCursor.v): every cursor has its own pattern
   variables and nothing else is bound, so the match starts from the empty store; the copy of the
   fact is allocated beyond every cell of the pattern and of the stored fact *)
Definition match_fact (fuel : nat) (pat args : list term) : mres :=
  match answer_match fuel [] (Nat.max (bound_list pat) (bound_list args)) pat args with
  | (UOk s, _) => MYes (map (den s) pat)
  | (UFail, _) => MNo
  | _ => MStuck
  end.

(* "binds the pattern to it": an answer is the pattern under bindings that make it equal to the
   fresh copy of the stored fact *)
Lemma match_fact_sound fuel pat args a : match_fact fuel pat args = MYes a ->
  exists s, wf s /\ a = map (den s) pat /\
            a = map (den s) (fst (copy_args [] args (Nat.max (bound_list pat) (bound_list args)))).
Proof.
  unfold match_fact, answer_match. destruct (copy_args [] args (Nat.max (bound_list pat) (bound_list args))) as [cs n'] eqn:C.
  destruct (unify_arrays fuel [] pat cs) as [s| | |] eqn:U; try discriminate. intros H. inversion H; subst.
  destruct (unify_arrays_sound _ _ _ wf_nil U) as [W [_ E]]. exists s. simpl. auto.
Qed.
