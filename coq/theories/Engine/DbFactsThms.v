(* What copy_term produces (C13): the stored arguments of a fact are the value of the asserted
   arguments at assertion time, with the variables that are still unbound replaced - injectively,
   and consistently across the whole fact - by cells that did not exist before. *)
From Coq Require Import List Arith Bool Lia ZArith.
Import ListNotations.
From YP Require Import Base.Str Term.Term Unify.Unify Engine.Db Engine.DbFacts.
Set Implicit Arguments.

(* applying a mapping dictionary to a term *)
Fixpoint mapp (m : list (nat * nat)) (t : term) : term :=
  match t with
  | TVar v => match mfind v m with Some w => TVar w | None => TVar v end
  | TFun f args => TFun f (map (mapp m) args)
  | _ => t
  end.

Definition covered (t : term) (m : list (nat * nat)) : Prop := forall v, occurs v t = true -> mfind v m <> None.
Definition mext (m m' : list (nat * nat)) : Prop := forall v w, mfind v m = Some w -> mfind v m' = Some w.
Definition minj (m : list (nat * nat)) : Prop := forall v v' w, mfind v m = Some w -> mfind v' m = Some w -> v = v'.
Definition mrange (m : list (nat * nat)) (lo hi : nat) : Prop := forall v w, mfind v m = Some w -> lo <= w < hi.

Definition rinv (n0 : nat) (m : list (nat * nat)) (n : nat) : Prop := mrange m n0 n /\ minj m /\ n0 <= n.

Lemma occurs_fun v f args : occurs v (TFun f args) = true <-> exists x, In x args /\ occurs v x = true.
Proof. simpl. apply existsb_exists. Qed.

Lemma mapp_ext m m' t : mext m m' -> covered t m -> mapp m' t = mapp m t.
Proof.
  intros E. induction t as [a|z|q|v|f args IH] using term_ind'; intros C; simpl; auto.
  - destruct (mfind v m) as [w|] eqn:F.
    + rewrite (E _ _ F). reflexivity.
    + exfalso. apply (C v); auto. simpl. apply Nat.eqb_refl.
  - f_equal. apply map_ext_in. intros x Hx. rewrite Forall_forall in IH. apply IH; auto.
    intros v Hv. apply C. apply occurs_fun. exists x. auto.
Qed.

Definition Qren (n0 : nat) (m : list (nat * nat)) (n : nat) (m' : list (nat * nat)) (n' : nat) : Prop :=
  rinv n0 m' n' /\ n <= n' /\ mext m m'.

Lemma ren_spec n0 : forall t m n t' m' n', rinv n0 m n -> ren t (m, n) = (t', (m', n')) ->
  Qren n0 m n m' n' /\ t' = mapp m' t /\ covered t m'.
Proof.
  induction t as [a|z|q|v|f args IH] using term_ind'; intros m n t' m' n' I H.
  1-3: simpl in H; inversion H; subst;
    (split; [split; [exact I|split; [lia|intros v0 w0 X; exact X]]|split; [reflexivity|intros v0 Hv; discriminate]]).
  - simpl in H. destruct (mfind v m) as [w|] eqn:F; inversion H; subst; clear H.
    + split; [split; [exact I|split; [lia|intros v0 w0 X; exact X]]|split].
      * simpl. rewrite F. reflexivity.
      * intros v0 Hv. simpl in Hv. apply Nat.eqb_eq in Hv. subst v0. congruence.
    + destruct I as [Rg [Inj Lo]].
      assert (Rg': mrange ((v, n) :: m) n0 (S n)).
      { intros v0 w0. simpl. destruct (Nat.eqb v0 v); intros X; [inversion X; subst; lia|]. apply Rg in X. lia. }
      split; [split; [split; [exact Rg'|split; [|lia]]|split; [lia|]]|split].
      * intros v1 v2 w0. simpl. destruct (Nat.eqb_spec v1 v) as [->|N1]; destruct (Nat.eqb_spec v2 v) as [->|N2]; intros X Y; auto.
        -- inversion X; subst. apply Rg in Y. lia.
        -- inversion Y; subst. apply Rg in X. lia.
        -- eapply Inj; eauto.
      * intros v0 w0 X. simpl. destruct (Nat.eqb_spec v0 v) as [->|N]; auto. congruence.
      * simpl. rewrite Nat.eqb_refl. reflexivity.
      * intros v0 Hv. simpl in Hv. apply Nat.eqb_eq in Hv. subst v0. simpl. rewrite Nat.eqb_refl. discriminate.
  - rewrite ren_fun in H.
    assert (L: forall l, Forall (fun t => forall m n t' m' n', rinv n0 m n -> ren t (m, n) = (t', (m', n')) ->
                   Qren n0 m n m' n' /\ t' = mapp m' t /\ covered t m') l ->
               forall m n l' m' n', rinv n0 m n -> ren_list l (m, n) = (l', (m', n')) ->
               Qren n0 m n m' n' /\ l' = map (mapp m') l /\ (forall x, In x l -> covered x m')).
    { clear. induction l as [|x r IHl]; intros F m n l' m' n' I H; simpl in H.
      - inversion H; subst. split; [split; [exact I|split; [lia|intros v0 w0 X; exact X]]|split; [reflexivity|intros x0 []]].
      - inversion F as [|? ? Fx Fr]; subst.
        destruct (ren x (m, n)) as [x' [m1 n1]] eqn:E1.
        destruct (ren_list r (m1, n1)) as [r' [m2 n2]] eqn:E2. inversion H; subst; clear H.
        destruct (Fx _ _ _ _ _ I E1) as [[I1 [L1 X1]] [T1 C1]].
        destruct (IHl Fr _ _ _ _ _ I1 E2) as [[I2 [L2 X2]] [T2 C2]].
        split; [split; [exact I2|split; [lia|]]|split].
        + intros v w X. apply X2. apply X1. exact X.
        + simpl. f_equal; auto. rewrite T1. symmetry. apply mapp_ext; auto.
        + intros y [<-|Hy]; auto. intros v Hv. specialize (C1 v Hv).
          destruct (mfind v m1) as [w|] eqn:Fw; [|congruence]. rewrite (X2 _ _ Fw). discriminate. }
    destruct (ren_list args (m, n)) as [l' [m1 n1]] eqn:E. simpl in H. inversion H; subst; clear H.
    destruct (L args IH _ _ _ _ _ I E) as [Q [T C]]. split; [exact Q|split].
    + simpl. f_equal. exact T.
    + intros v Hv. apply occurs_fun in Hv as [x [Hx Ox]]. apply (C x Hx v Ox).
Qed.

Lemma ren_list_spec n0 : forall l m n l' m' n', rinv n0 m n -> ren_list l (m, n) = (l', (m', n')) ->
  Qren n0 m n m' n' /\ l' = map (mapp m') l /\ (forall x, In x l -> covered x m').
Proof.
  induction l as [|x r IHl]; intros m n l' m' n' I H; simpl in H.
  - inversion H; subst. split; [split; [exact I|split; [lia|intros v0 w0 X; exact X]]|split; [reflexivity|intros x0 []]].
  - destruct (ren x (m, n)) as [x' [m1 n1]] eqn:E1.
    destruct (ren_list r (m1, n1)) as [r' [m2 n2]] eqn:E2. inversion H; subst; clear H.
    destruct (@ren_spec n0 _ _ _ _ _ _ I E1) as [[I1 [L1 X1]] [T1 C1]].
    destruct (IHl _ _ _ _ _ I1 E2) as [[I2 [L2 X2]] [T2 C2]].
    split; [split; [exact I2|split; [lia|]]|split].
    + intros v w X. apply X2. apply X1. exact X.
    + simpl. f_equal; auto. rewrite T1. symmetry. apply mapp_ext; auto.
    + intros y [<-|Hy]; auto. intros v Hv. specialize (C1 v Hv).
      destruct (mfind v m1) as [w|] eqn:Fw; [|congruence]. rewrite (X2 _ _ Fw). discriminate.
Qed.

(* every cell of a copy is one of the new cells *)
Lemma mapp_vars m t w : covered t m -> occurs w (mapp m t) = true -> exists v, occurs v t = true /\ mfind v m = Some w.
Proof.
  induction t as [a|z|q|v|f args IH] using term_ind'; intros C H; simpl in H; try discriminate.
  - destruct (mfind v m) as [u|] eqn:F.
    + simpl in H. apply Nat.eqb_eq in H. subst u. exists v. split; auto. simpl. apply Nat.eqb_refl.
    + exfalso. apply (C v); auto. simpl. apply Nat.eqb_refl.
  - apply existsb_exists in H as [y [Hy Oy]]. apply in_map_iff in Hy as [x [<- Hx]].
    rewrite Forall_forall in IH.
    assert (Cx: covered x m) by (intros v0 Hv; apply C; apply occurs_fun; exists x; auto).
    destruct (IH x Hx Cx Oy) as [v1 [Ov Fv]].
    exists v1. split; auto. apply occurs_fun. exists x. auto.
Qed.

Definition occurs_l (v : nat) (l : list term) : bool := existsb (occurs v) l.

(* C13.1: the stored value.  Answer(values) under the bindings s, allocating from cell n *)
Theorem stored_value_at_assert_time s n values stored n' :
  answer_init s n values = (stored, n') ->
  exists m, stored = map (mapp m) (map (den s) values) /\
            minj m /\ mrange m n n' /\ n <= n' /\
            (forall x, In x values -> covered (den s x) m) /\
            (forall w, occurs_l w stored = true -> n <= w < n').
Proof.
  unfold answer_init, copy_args. intros H.
  destruct (ren_list (map (den s) values) ([], n)) as [l' [m' n2]] eqn:E. simpl in H. inversion H; subst; clear H.
  assert (I: rinv n [] n).
  { split; [intros v0 w0 X; discriminate|split; [intros v0 v1 w0 X; discriminate|lia]]. }
  destruct (@ren_list_spec n _ _ _ _ _ _ I E) as [[[Rg [Inj Lo]] [L X]] [T C]].
  exists m'. split; [exact T|]. split; [exact Inj|]. split; [exact Rg|]. split; [lia|]. split.
  - intros x Hx. apply C. apply in_map. exact Hx.
  - intros w H. unfold occurs_l in H. apply existsb_exists in H as [y [Hy Oy]]. rewrite T in Hy.
    apply in_map_iff in Hy as [x [<- Hx]]. destruct (@mapp_vars m' x w (C x Hx) Oy) as [v [_ F]]. apply Rg in F. lia.
Qed.

(* C13.2: the copy that a use of the fact unifies with does not depend on the heap, as long as the
   fact's own cells are unbound in it (they always are: DbHeapThms.fact_vars_never_bound) *)
Theorem stored_independent_of_later_heap s1 s2 n stored :
  (forall t, In t stored -> free_in s1 t) -> (forall t, In t stored -> free_in s2 t) ->
  copy_args s1 stored n = copy_args s2 stored n.
Proof.
  intros F1 F2. unfold copy_args.
  assert (E: map (den s1) stored = map (den s2) stored).
  { apply map_ext_in. intros t Ht. rewrite (den_id (F1 t Ht)), (den_id (F2 t Ht)). reflexivity. }
  rewrite E. reflexivity.
Qed.

Corollary answer_match_independent fuel s n goal stored :
  (forall t, In t stored -> free_in s t) ->
  answer_match fuel s n goal stored = (unify_arrays fuel s goal (fst (copy_args [] stored n)), snd (copy_args [] stored n)).
Proof.
  intros F. unfold answer_match.
  rewrite (@stored_independent_of_later_heap s [] n stored F) by (intros t _ w _; reflexivity).
  destruct (copy_args [] stored n). reflexivity.
Qed.

(* C13.3 (local part): two uses of one fact work on copies that share no cell with each other nor
   with the fact *)
Theorem two_uses_disjoint s1 s2 stored n1 cs1 n1' n2 cs2 n2' :
  copy_args s1 stored n1 = (cs1, n1') -> n1' <= n2 -> copy_args s2 stored n2 = (cs2, n2') ->
  (forall w, occurs_l w stored = true -> w < n1) ->
  forall w, (occurs_l w cs1 = true -> occurs_l w cs2 = false /\ occurs_l w stored = false) /\
            (occurs_l w cs2 = true -> occurs_l w stored = false).
Proof.
  intros C1 L C2 B w.
  destruct (@stored_value_at_assert_time s1 n1 stored cs1 n1' C1) as [m1 [_ [_ [_ [L1 [_ R1]]]]]].
  destruct (@stored_value_at_assert_time s2 n2 stored cs2 n2' C2) as [m2 [_ [_ [_ [L2 [_ R2]]]]]].
  split.
  - intros H. apply R1 in H. split.
    + destruct (occurs_l w cs2) eqn:X; auto. apply R2 in X. lia.
    + destruct (occurs_l w stored) eqn:X; auto. apply B in X. lia.
  - intros H. apply R2 in H. destruct (occurs_l w stored) eqn:X; auto. apply B in X. lia.
Qed.
