(* The fact database on a shared heap of variable cells (engine.py: Variable cells bound by unify,
   Answer.__init__ / Answer.match copying through copy_term, asserta/assertz dereferencing the goal,
   match_dynamic / _match_all_clauses enumerating a snapshot).

   This machine is the store-aware companion of DbCursor.v: goals share variables, bindings made by
   a suspended goal stay active for the goals that follow, and suspended generators are resumed or
   closed in LIFO order (as nested `for` loops of compiled code do).  It is used for C13: what a
   stored fact contains and which cells a use of it can touch. *)
From Coq Require Import List Arith Bool Lia ZArith.
Import ListNotations.
From YP Require Import Base.Str Term.Term Unify.Unify Engine.Db Engine.DbFacts.
Set Implicit Arguments.

Inductive frame :=
| FUnify (mark : nat)                                       (* a suspended unify generator; mark = number of bindings before it *)
| FQuery (pat : list term) (rest : list fact) (mark : nat). (* a suspended query: goal arguments, rest of its snapshot *)

Record hst := mkh { hs : store; hn : nat; hdb : db; hnext : nat; hstk : list frame }.

Inductive hop :=
| HUnify (t1 t2 : term)               (* start unify(t1,t2) and keep it suspended at its yield *)
| HAssert (front : bool) (t : term)   (* asserta(t) / assertz(t) under the current bindings *)
| HCall (name : str) (args : list term)   (* start the goal name(args); it stays suspended at its first answer *)
| HRedo                               (* resume the most recent suspended generator *)
| HPop                                (* close the most recent suspended generator *)
| HObs (ts : list term)               (* look at terms (deep get_value) *)
| HRead (name : str) (ar : nat).      (* run name(V1..Var) with new variables to exhaustion *)

Inductive hout :=
| HOk | HFail | HEnd | HBad
| HAns (a : list term)
| HSeen (a : list term)
| HAll (l : list (list term)).

(* undo the bindings made after the mark (generator finalisation in LIFO order) *)
Definition restore (s : store) (mark : nat) : store := skipn (length s - mark) s.

Section Heap.
  Variable fuel : nat.

  (* _match_all_clauses: the next fact of the snapshot whose copy unifies with the goal *)
  Fixpoint hscan (s : store) (n : nat) (pat : list term) (l : list fact) : option (option (store * list fact) * nat) :=
    match l with
    | [] => Some (None, n)
    | f :: r =>
        match answer_match fuel s n pat (fargs f) with
        | (UOk s', n') => Some (Some (s', r), n')
        | (UFail, n') => hscan s n' pat r
        | _ => None
        end
    end.

  (* all answers of an all-variable goal, each taken and undone *)
  Fixpoint hall (s : store) (n : nat) (pat : list term) (l : list fact) : option (list (list term) * nat) :=
    match l with
    | [] => Some ([], n)
    | f :: r =>
        match answer_match fuel s n pat (fargs f) with
        | (UOk s', n') => match hall s n' pat r with Some (x, n2) => Some (map (den s') pat :: x, n2) | None => None end
        | (UFail, n') => hall s n' pat r
        | _ => None
        end
    end.

  Definition hstep (h : hst) (o : hop) : option (hst * hout) :=
    match o with
    | HUnify t1 t2 =>
        match unify fuel (hs h) t1 t2 with
        | UOk s' => Some (mkh s' (hn h) (hdb h) (hnext h) (FUnify (length (hs h)) :: hstk h), HOk)
        | UFail => Some (h, HFail)
        | _ => None
        end
    | HAssert front t =>
        match callable (den (hs h) t) with
        | None => Some (h, HOk)
        | Some (name, args) =>
            let (stored, n') := answer_init (hs h) (hn h) args in
            let k := (name, length args) in
            Some (mkh (hs h) n' (upd k (ins front (mkfact (hnext h) stored) (hdb h k)) (hdb h)) (S (hnext h)) (hstk h), HOk)
        end
    | HCall name args =>
        match hscan (hs h) (hn h) args (hdb h (name, length args)) with
        | None => None
        | Some (None, n') => Some (mkh (hs h) n' (hdb h) (hnext h) (hstk h), HFail)
        | Some (Some (s', r), n') =>
            Some (mkh s' n' (hdb h) (hnext h) (FQuery args r (length (hs h)) :: hstk h), HAns (map (den s') args))
        end
    | HRedo =>
        match hstk h with
        | [] => Some (h, HBad)
        | FUnify mark :: stk => Some (mkh (restore (hs h) mark) (hn h) (hdb h) (hnext h) stk, HEnd)
        | FQuery pat rest mark :: stk =>
            let s0 := restore (hs h) mark in
            match hscan s0 (hn h) pat rest with
            | None => None
            | Some (None, n') => Some (mkh s0 n' (hdb h) (hnext h) stk, HEnd)
            | Some (Some (s', r), n') =>
                Some (mkh s' n' (hdb h) (hnext h) (FQuery pat r mark :: stk), HAns (map (den s') pat))
            end
        end
    | HPop =>
        match hstk h with
        | [] => Some (h, HBad)
        | FUnify mark :: stk | FQuery _ _ mark :: stk => Some (mkh (restore (hs h) mark) (hn h) (hdb h) (hnext h) stk, HOk)
        end
    | HObs ts => Some (h, HSeen (map (den (hs h)) ts))
    | HRead name ar =>
        let vs := map TVar (seq (hn h) ar) in
        match hall (hs h) (hn h + ar) vs (hdb h (name, ar)) with
        | None => None
        | Some (l, n') => Some (mkh (hs h) n' (hdb h) (hnext h) (hstk h), HAll l)
        end
    end.

  Fixpoint hrun (h : hst) (ops : list hop) : option (hst * list hout) :=
    match ops with
    | [] => Some (h, [])
    | o :: r =>
        match hstep h o with
        | None => None
        | Some (h1, x) => match hrun h1 r with None => None | Some (h2, xs) => Some (h2, x :: xs) end
        end
    end.
End Heap.

(* the program owns the cells 0 .. p-1 (its variables); everything else is allocated later *)
Definition hinit (p : nat) : hst := mkh [] p empty_db 0 [].
