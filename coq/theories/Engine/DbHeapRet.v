(* C13 across TIME: answers that outlive the use of the fact that produced them.

   The heap machine of DbHeap.v is extended by
     - findall/3 (engine.py YP.findall: run the goal on the stored facts to exhaustion, collect
       a copy of the template (new variables) per answer, unify the bag with the list of the results and stay suspended
       at that unification), the construct through which compiled code keeps answers of a use of a
       fact after that use has ended;
     - the list K of RETAINED ANSWERS: every answer the machine ever handed out (the arguments of a goal
       at each of its answers, every row of a read), as the terms they were at that moment - what a
       Python caller holds who kept `X.get_value()` of an answer; RKept renders all of them under the
       bindings of the moment.

   Theorems (all histories): every retained answer, and its value under the bindings of any later
   moment, mentions only cells that exist at that moment and no cell owned by a stored fact; the copy
   that the NEXT use of any stored fact unifies with consists of cells that do not exist yet.  Hence a
   later use of a fact shares no variable with any answer of an earlier use, with any binding of the
   heap (a findall result), or with the value of any program variable: "fresh at every use" over time. *)
From Coq Require Import String.
From Coq Require Import List Arith Bool Lia ZArith.
Import ListNotations.
From YP Require Import Base.Str Term.Term Term.Fast Term.Show Unify.Unify Engine.Frame Engine.Db Engine.DbFacts Engine.DbFactsThms
  Engine.DbHeap Engine.DbHeapThms Engine.RunDb.
Set Implicit Arguments.

Inductive rop :=
| RBase (o : hop)
| RKept                                                              (* look at all retained answers *)
| RFindall (tmpl : term) (name : str) (args : list term) (bag : term). (* findall(tmpl, name(args), bag), suspended *)

(* makelist *)
Definition mk_list (l : list term) : term := fold_right (fun x r => TFun (d "."%string) [x; r]) (TAtom (d "[]"%string)) l.

Section Ret.
  Variable fuel : nat.

  (* [copy_term(template, {}) for r in q] over the snapshot of the facts: each collected instance is a COPY with new
     cells (engine.py YP.findall since the repair D27; copy_args is the model of copy_term, DbFacts.v) *)
  Fixpoint hall_t (s : store) (n : nat) (tmpl : term) (pat : list term) (l : list fact) : option (list term * nat) :=
    match l with
    | [] => Some ([], n)
    | f :: r =>
        match answer_match fuel s n pat (fargs f) with
        | (UOk s', n') =>
            let '(cs, n1) := copy_args s' [tmpl] n' in
            match hall_t s n1 tmpl pat r with Some (x, n2) => Some (cs ++ x, n2) | None => None end
        | (UFail, n') => hall_t s n' tmpl pat r
        | _ => None
        end
    end.

  Definition rstep (h : hst) (o : rop) : option (hst * hout) :=
    match o with
    | RBase b => hstep fuel h b
    | RKept => Some (h, HOk)
    | RFindall tmpl name args bag =>
        match hall_t (hs h) (hn h) tmpl args (hdb h (name, length args)) with
        | None => None
        | Some (rs, n') =>
            match unify fuel (hs h) bag (mk_list rs) with
            | UOk s' => Some (mkh s' n' (hdb h) (hnext h) (FUnify (length (hs h)) :: hstk h), HOk)
            | UFail => Some (mkh (hs h) n' (hdb h) (hnext h) (hstk h), HFail)
            | _ => None
            end
        end
    end.

  (* the answers a step hands out *)
  Definition answers_of (x : hout) : list (list term) :=
    match x with HAns a => [a] | HAll l => l | _ => [] end.

  Fixpoint rrun (h : hst) (ops : list rop) : option (hst * list hout) :=
    match ops with
    | [] => Some (h, [])
    | o :: r =>
        match rstep h o with
        | None => None
        | Some (h1, x) => match rrun h1 r with None => None | Some (h2, xs) => Some (h2, x :: xs) end
        end
    end.

  Definition kept (outs : list hout) : list (list term) := flat_map answers_of outs.

  (* executable: observations step by step; RKept prints every retained answer under the current bindings *)
  Fixpoint rrun_obs (h : hst) (K : list (list term)) (ops : list rop) : list obs :=
    match ops with
    | [] => []
    | o :: r =>
        match rstep h o with
        | None => [otag "stuck"%string []]
        | Some (h1, x) =>
            let K1 := K ++ answers_of x in
            match o with
            | RKept => otag "kept"%string [OL (map (fun a => args_obs (map (den_fast (hs h1)) a)) K1)]
            | _ => hout_obs x
            end :: rrun_obs h1 K1 r
        end
    end.

  (* ------------------------------------------------------------------ allocation only grows *)
  Lemma answer_match_mono s n pat args r n' : answer_match fuel s n pat args = (r, n') -> n <= n'.
  Proof.
    unfold answer_match. destruct (copy_args s args n) as [cs n2] eqn:Cp. intros H. inversion H; subst.
    destruct (copy_cells Cp). assumption.
  Qed.

  Lemma hscan_mono pat : forall l s n r n', hscan fuel s n pat l = Some (r, n') -> n <= n'.
  Proof.
    induction l as [|f l IH]; intros s n r n' H; cbn [hscan] in H.
    - inversion H; subst. auto.
    - destruct (answer_match fuel s n pat (fargs f)) as [u n1] eqn:M. pose proof M as L; apply answer_match_mono in L.
      destruct u; try discriminate.
      + inversion H; subst. exact L.
      + apply IH in H. lia.
  Qed.

  Lemma hall_mono pat : forall l s n x n', hall fuel s n pat l = Some (x, n') -> n <= n'.
  Proof.
    induction l as [|f l IH]; intros s n x n' H; cbn [hall] in H.
    - inversion H; subst. auto.
    - destruct (answer_match fuel s n pat (fargs f)) as [u n1] eqn:M. pose proof M as L; apply answer_match_mono in L.
      destruct u; try discriminate.
      + destruct (hall fuel s n1 pat l) as [[y n2]|] eqn:E; [|discriminate]. inversion H; subst. apply IH in E. lia.
      + apply IH in H. lia.
  Qed.

  Lemma hall_t_mono tmpl pat : forall l s n x n', hall_t s n tmpl pat l = Some (x, n') -> n <= n'.
  Proof.
    induction l as [|f l IH]; intros s n x n' H; cbn [hall_t] in H.
    - inversion H; subst. auto.
    - destruct (answer_match fuel s n pat (fargs f)) as [u n1] eqn:M. pose proof M as L; apply answer_match_mono in L.
      destruct u as [s1| | |]; try discriminate.
      + destruct (copy_args s1 [tmpl] n1) as [cs n1c] eqn:Cp. destruct (copy_cells Cp) as [Lc _].
        destruct (hall_t s n1c tmpl pat l) as [[y n2]|] eqn:E; [|discriminate]. inversion H; subst. apply IH in E. lia.
      + apply IH in H. lia.
  Qed.

  Lemma hstep_mono h o h' x : hstep fuel h o = Some (h', x) -> hn h <= hn h'.
  Proof.
    destruct o as [t1 t2|front t|name args| | |ts|name ar]; cbn [hstep]; intros H.
    - destruct (unify fuel (hs h) t1 t2); try discriminate; inversion H; subst; simpl; auto.
    - destruct (callable (den (hs h) t)) as [[name args]|].
      + destruct (answer_init (hs h) (hn h) args) as [stored n'] eqn:AI. inversion H; subst. simpl.
        unfold answer_init in AI. destruct (copy_cells AI). assumption.
      + inversion H; subst. auto.
    - destruct (hscan fuel (hs h) (hn h) args (hdb h (name, length args))) as [[r n']|] eqn:HS; [|discriminate].
      apply hscan_mono in HS. destruct r as [[s' rest]|]; inversion H; subst; simpl; exact HS.
    - destruct (hstk h) as [|[mk|pat rest mk] stk]; try (inversion H; subst; simpl; auto; fail).
      destruct (hscan fuel (restore (hs h) mk) (hn h) pat rest) as [[r n']|] eqn:HS; [|discriminate].
      apply hscan_mono in HS. destruct r as [[s' rest']|]; inversion H; subst; simpl; exact HS.
    - destruct (hstk h) as [|[mk|pat rest mk] stk]; inversion H; subst; simpl; auto.
    - inversion H; subst. auto.
    - destruct (hall fuel (hs h) (hn h + ar) (map TVar (seq (hn h) ar)) (hdb h (name, ar))) as [[l n']|] eqn:HA; [|discriminate].
      apply hall_mono in HA. inversion H; subst. simpl. lia.
  Qed.

  (* ------------------------------------------------------------------ what the answers mention *)
  Lemma hall_out F pat : forall l s n x n',
    good (Pc n F) s -> (forall w, F w = true -> w < n) -> lin (Pc n F) pat -> Forall (fact_cells F) l ->
    hall fuel s n pat l = Some (x, n') -> Forall (lin (Pc n' F)) x.
  Proof.
    induction l as [|f l IH]; intros s n x n' G R Lp Fl H; cbn [hall] in H.
    - inversion H; subst. constructor.
    - inversion Fl as [|? ? Ff Fl']; subst.
      destruct (answer_match fuel s n pat (fargs f)) as [u n1] eqn:M.
      destruct (@match_inv fuel F s n pat f u n1 G R Lp Ff M) as [L [_ Po]].
      assert (G1: good (Pc n1 F) s) by (eapply good_mono; [|exact G]; intros v; apply Pc_mono; exact L).
      assert (R1: forall w, F w = true -> w < n1) by (intros w Hw; apply R in Hw; lia).
      assert (Lp1: lin (Pc n1 F) pat) by (eapply lin_mono; [|exact Lp]; intros v; apply Pc_mono; exact L).
      destruct u as [s1| | |]; try discriminate.
      + destruct (hall fuel s n1 pat l) as [[y n2]|] eqn:E; [|discriminate]. inversion H; subst.
        pose proof E as L2; apply hall_mono in L2.
        constructor; [|eapply IH; eauto].
        destruct Po as [nw [-> Gn]].
        assert (Gs: good (Pc n1 F) (nw ++ s)) by (apply good_app; auto).
        eapply lin_mono; [intros v; apply Pc_mono; exact L2|].
        apply Forall_forall. intros t Ht. apply in_map_iff in Ht as [a [<- Ha]].
        apply den_tin; [apply good_closed; exact Gs|]. unfold lin in Lp1. rewrite Forall_forall in Lp1. auto.
      + eapply IH; eauto.
  Qed.

  Lemma hall_t_out F tmpl pat : forall l s n x n',
    good (Pc n F) s -> (forall w, F w = true -> w < n) -> lin (Pc n F) pat -> tin (Pc n F) tmpl -> Forall (fact_cells F) l ->
    hall_t s n tmpl pat l = Some (x, n') -> lin (Pc n' F) x.
  Proof.
    induction l as [|f l IH]; intros s n x n' G R Lp Lt Fl H; cbn [hall_t] in H.
    - inversion H; subst. constructor.
    - inversion Fl as [|? ? Ff Fl']; subst.
      destruct (answer_match fuel s n pat (fargs f)) as [u n1] eqn:M.
      destruct (@match_inv fuel F s n pat f u n1 G R Lp Ff M) as [L [_ Po]].
      assert (G1: good (Pc n1 F) s) by (eapply good_mono; [|exact G]; intros v; apply Pc_mono; exact L).
      assert (R1: forall w, F w = true -> w < n1) by (intros w Hw; apply R in Hw; lia).
      assert (Lp1: lin (Pc n1 F) pat) by (eapply lin_mono; [|exact Lp]; intros v; apply Pc_mono; exact L).
      assert (Lt1: tin (Pc n1 F) tmpl) by (eapply tin_mono; [|exact Lt]; intros v; apply Pc_mono; exact L).
      destruct u as [s1| | |]; try discriminate.
      + destruct (copy_args s1 [tmpl] n1) as [cs n1c] eqn:Cp.
        destruct (@copy_lin_new F s1 n1 [tmpl] cs n1c R1 Cp) as [Lc Lcs].
        assert (Gc: good (Pc n1c F) s) by (eapply good_mono; [|exact G1]; intros v; apply Pc_mono; exact Lc).
        assert (Rc: forall w, F w = true -> w < n1c) by (intros w Hw; apply R1 in Hw; lia).
        assert (Lpc: lin (Pc n1c F) pat) by (eapply lin_mono; [|exact Lp1]; intros v; apply Pc_mono; exact Lc).
        assert (Ltc: tin (Pc n1c F) tmpl) by (eapply tin_mono; [|exact Lt1]; intros v; apply Pc_mono; exact Lc).
        destruct (hall_t s n1c tmpl pat l) as [[y n2]|] eqn:E; [|discriminate]. inversion H; subst.
        pose proof E as L2; apply hall_t_mono in L2.
        apply Forall_app. split; [|eapply IH; eauto].
        eapply lin_mono; [intros v; apply Pc_mono; exact L2|exact Lcs].
      + eapply IH; eauto.
  Qed.

  Lemma mk_list_tin P l : lin P l -> tin P (mk_list l).
  Proof.
    induction l as [|x l IH]; intros H; simpl.
    - apply tin_atom.
    - inversion H; subst. apply tin_fun. constructor; [assumption|]. constructor; [auto|constructor].
  Qed.

  Definition rop_ok (p : nat) (o : rop) : Prop :=
    match o with
    | RBase b => op_ok p b
    | RKept => True
    | RFindall tmpl _ args bag => tprog p tmpl /\ Forall (tprog p) args /\ tprog p bag
    end.

  Ltac pack5 I M1 M2 Mo := split; [exact I|split; [exact M1|split; [exact M2|split; [exact Mo|]]]].

  (* one step keeps the invariant of DbHeapThms, and the answers it hands out are over existing cells
     that no stored fact owns *)
  Lemma rstep_inv p F h o h' x : inv p F h -> rop_ok p o -> rstep h o = Some (h', x) ->
    exists F', inv p F' h' /\ (forall w, F w = true -> F' w = true) /\ (forall w, F' w = true -> F w = true \/ hn h <= w) /\
               hn h <= hn h' /\ Forall (lin (Pc (hn h') F')) (answers_of x).
  Proof.
    intros I OK H. pose proof I as [A B C D E].
    assert (R: forall w, F w = true -> w < hn h) by (intros w Hw; apply C in Hw; lia).
    assert (Rp: forall w, F w = true -> p <= w) by (intros w Hw; apply C in Hw; lia).
    destruct o as [b| |tmpl name args bag]; cbn [rstep] in H.
    - (* a step of the base machine *)
      pose proof H as Mo; apply hstep_mono in Mo.
      destruct b as [t1 t2|front t|name args| | |ts|name ar].
      5: { destruct (@hstep_inv fuel p F h _ h' x I OK H) as [F' [I' [M1 M2]]]. exists F'. pack5 I' M1 M2 Mo.
           cbn [hstep] in H. destruct (hstk h) as [|[mk|pat rest mk] stk]; inversion H; subst; constructor. }
      5: { destruct (@hstep_inv fuel p F h _ h' x I OK H) as [F' [I' [M1 M2]]]. exists F'. pack5 I' M1 M2 Mo.
           cbn [hstep] in H. inversion H; subst; constructor. }
      1: { destruct (@hstep_inv fuel p F h _ h' x I OK H) as [F' [I' [M1 M2]]]. exists F'. pack5 I' M1 M2 Mo.
           cbn [hstep] in H. destruct (unify fuel (hs h) t1 t2); try discriminate; inversion H; subst; constructor. }
      1: { destruct (@hstep_inv fuel p F h _ h' x I OK H) as [F' [I' [M1 M2]]]. exists F'. pack5 I' M1 M2 Mo.
           cbn [hstep] in H. destruct (callable (den (hs h) t)) as [[name args]|].
           - destruct (answer_init (hs h) (hn h) args). inversion H; subst; constructor.
           - inversion H; subst; constructor. }
      + (* call: the answer is the value of the goal arguments held by the new top frame *)
        destruct (@hstep_inv fuel p F h _ h' x I OK H) as [F' [I' [M1 M2]]]. exists F'. pack5 I' M1 M2 Mo.
        cbn [hstep] in H.
        destruct (hscan fuel (hs h) (hn h) args (hdb h (name, length args))) as [[r n']|]; [|discriminate].
        destruct r as [[s' rest]|]; inversion H; subst; simpl; [|constructor].
        constructor; [|constructor]. destruct I' as [A' _ _ D' _]. simpl in *. inversion D' as [|? ? Hfr _]; subst.
        simpl in Hfr. destruct Hfr as [Lp _].
        apply Forall_forall. intros t Ht. apply in_map_iff in Ht as [a [<- Ha]].
        apply den_tin; [apply good_closed; exact A'|]. unfold lin in Lp. rewrite Forall_forall in Lp. auto.
      + (* redo *)
        destruct (@hstep_inv fuel p F h _ h' x I OK H) as [F' [I' [M1 M2]]]. exists F'. pack5 I' M1 M2 Mo.
        cbn [hstep] in H.
        destruct (hstk h) as [|[mk|pat rest mk] stk]; try (inversion H; subst; constructor).
        destruct (hscan fuel (restore (hs h) mk) (hn h) pat rest) as [[r n']|]; [|discriminate].
        destruct r as [[s' rest']|]; inversion H; subst; simpl; [|constructor].
        constructor; [|constructor]. destruct I' as [A' _ _ D' _]. simpl in *. inversion D' as [|? ? Hfr _]; subst.
        simpl in Hfr. destruct Hfr as [Lp _].
        apply Forall_forall. intros t Ht. apply in_map_iff in Ht as [a [<- Ha]].
        apply den_tin; [apply good_closed; exact A'|]. unfold lin in Lp. rewrite Forall_forall in Lp. auto.
      + (* read: the rows are values under bindings that are undone again *)
        cbn [hstep] in H.
        destruct (hall fuel (hs h) (hn h + ar) (map TVar (seq (hn h) ar)) (hdb h (name, ar))) as [[l n']|] eqn:HA; [|discriminate].
        inversion H; subst; clear H.
        assert (G1: good (Pc (hn h + ar) F) (hs h)) by (eapply good_mono; [|exact A]; intros v; apply Pc_mono; lia).
        assert (R1: forall w, F w = true -> w < hn h + ar) by (intros w Hw; apply R in Hw; lia).
        assert (Fl: Forall (fact_cells F) (hdb h (name, ar))).
        { apply Forall_forall. intros f Hf. eapply B; eauto. }
        pose proof (@hall_inv fuel F _ _ _ _ _ _ G1 R1 (lin_seq_new F ar R) Fl HA) as L.
        exists F. split; [apply (inv_grow I); lia|]. split; [auto|]. split; [auto|]. split; [simpl; lia|].
        simpl. eapply hall_out; eauto. apply lin_seq_new. exact R.
    - inversion H; subst. exists F. split; [exact I|]. split; [auto|]. split; [auto|]. split; [auto|]. constructor.
    - (* findall *)
      destruct OK as [Ot [Oa Ob]].
      assert (Lp: lin (Pc (hn h) F) args).
      { eapply Forall_impl; [|exact Oa]. intros t0 Ht0. eapply tprog_Pc; eauto. }
      assert (Lt: tin (Pc (hn h) F) tmpl) by (eapply tprog_Pc; eauto).
      assert (Lb: tin (Pc (hn h) F) bag) by (eapply tprog_Pc; eauto).
      assert (Fl: Forall (fact_cells F) (hdb h (name, length args))).
      { apply Forall_forall. intros f Hf. eapply B; eauto. }
      destruct (hall_t (hs h) (hn h) tmpl args (hdb h (name, length args))) as [[rs n']|] eqn:HA; [|discriminate].
      pose proof HA as L; apply hall_t_mono in L.
      pose proof (@hall_t_out F tmpl args _ _ _ _ _ A R Lp Lt Fl HA) as Lr.
      assert (G1: good (Pc n' F) (hs h)) by (eapply good_mono; [|exact A]; intros v; apply Pc_mono; exact L).
      assert (Lb1: tin (Pc n' F) bag) by (eapply tin_mono; [|exact Lb]; intros v; apply Pc_mono; exact L).
      destruct (@unify_frame (Pc n' F) fuel (hs h) bag (mk_list rs) (good_closed G1) Lb1 (mk_list_tin Lr)) as [_ Po].
      destruct (unify fuel (hs h) bag (mk_list rs)) as [s'| | |]; try discriminate; inversion H; subst; clear H.
      + destruct Po as [nw [-> G]]. exists F. split; [|split; [auto|split; [auto|split; [exact L|constructor]]]].
        constructor; simpl.
        * apply good_app; auto.
        * exact B.
        * intros w Hw. apply C in Hw. lia.
        * constructor; [exact Logic.I|]. eapply Forall_impl; [|exact D]. intros fr. apply frame_ok_mono. exact L.
        * lia.
      + exists F. split; [apply (inv_grow I L)|split; [auto|split; [auto|split; [exact L|constructor]]]].
  Qed.

  (* the retained answers stay over existing cells that no stored fact owns, whatever happens later *)
  Theorem rrun_inv : forall ops p F h h' outs K, inv p F h -> Forall (lin (Pc (hn h) F)) K -> Forall (rop_ok p) ops ->
    rrun h ops = Some (h', outs) ->
    exists F', inv p F' h' /\ (forall w, F w = true -> F' w = true) /\ Forall (lin (Pc (hn h') F')) (K ++ kept outs).
  Proof.
    induction ops as [|o r IH]; intros p F h h' outs K I HK OK H; simpl in H.
    - inversion H; subst. exists F. unfold kept. simpl. rewrite app_nil_r. auto.
    - inversion OK as [|? ? O1 O2]; subst.
      destruct (rstep h o) as [[h1 x]|] eqn:ES; [|discriminate].
      destruct (rrun h1 r) as [[h2 xs]|] eqn:ER; [|discriminate]. inversion H; subst; clear H.
      destruct (@rstep_inv p F h o h1 x I O1 ES) as [F1 [I1 [M1 [M2 [Mo Ho]]]]].
      assert (HK1: Forall (lin (Pc (hn h1) F1)) (K ++ answers_of x)).
      { apply Forall_app. split; [|exact Ho].
        eapply Forall_impl; [|exact HK]. intros a. apply lin_mono. intros v Hv. unfold Pc in *.
        apply andb_true_iff in Hv as [X Y]. apply Nat.ltb_lt in X. apply negb_true_iff in Y.
        apply andb_true_iff. split; [apply Nat.ltb_lt; lia|]. apply negb_true_iff.
        destruct (F1 v) eqn:E1; auto. destruct (M2 v E1) as [Z|Z]; [congruence|lia]. }
      destruct (IH p F1 h1 h' xs _ I1 HK1 O2 ER) as [F2 [I2 [M3 HK2]]]. exists F2. split; [exact I2|]. split; [auto|].
      unfold kept in *. simpl. rewrite app_assoc. exact HK2.
  Qed.

  (* C13 over time.  In the state h reached by ANY history (unifications, asserts, goals, findall, LIFO resumption and
     closing, reads), let c be a cell of the copy that the next use of a stored fact f unifies with.  Then c does not
     exist yet (hn h <= c), and therefore c occurs
       - in no answer that was ever handed out, neither as it was then nor in its value under the current bindings,
       - in no binding of the heap (so in no list built by findall and in no value of a program variable).
     Moreover no answer ever handed out mentions a cell of a stored fact: the variables of a fact never escape. *)
  Theorem sequential_uses_fresh : forall p ops h outs,
    Forall (rop_ok p) ops -> rrun (hinit p) ops = Some (h, outs) ->
    forall k f goal, In f (hdb h k) ->
      answer_match fuel (hs h) (hn h) goal (fargs f) =
        (unify_arrays fuel (hs h) goal (fst (copy_args [] (fargs f) (hn h))), snd (copy_args [] (fargs f) (hn h))) /\
      forall c w, In c (fst (copy_args [] (fargs f) (hn h))) -> occurs w c = true ->
        hn h <= w /\
        (forall a t, In a (kept outs) -> In t a -> occurs w t = false /\ occurs w (den (hs h) t) = false) /\
        (forall v u, In (v, u) (hs h) -> v <> w /\ occurs w u = false) /\
        (forall t, tprog p t -> occurs w (den (hs h) t) = false).
  Proof.
    intros p ops h outs OK H k f goal Hf.
    destruct (@rrun_inv ops p _ _ _ _ [] (inv_init p) (Forall_nil _) OK H) as [F [I [_ HK]]]. simpl in HK.
    pose proof I as [A B C D E].
    assert (Fr: forall t, In t (fargs f) -> free_in (hs h) t) by (eapply fact_free; eauto).
    split; [apply answer_match_independent; exact Fr|].
    intros c w Hc Hw. destruct (copy_args [] (fargs f) (hn h)) as [cs n'] eqn:Cp. simpl in Hc.
    destruct (copy_cells Cp) as [L X]. destruct (X c Hc w Hw) as [Y Z].
    assert (NP: Pc (hn h) F w = false).
    { unfold Pc. apply andb_false_iff. left. apply Nat.ltb_ge. exact Y. }
    split; [exact Y|]. split; [|split].
    - intros a t Ha Ht. rewrite Forall_forall in HK. specialize (HK a Ha). unfold lin in HK. rewrite Forall_forall in HK.
      specialize (HK t Ht). split.
      + destruct (occurs w t) eqn:O; auto. apply HK in O. congruence.
      + destruct (occurs w (den (hs h) t)) eqn:O; auto.
        apply (den_tin (good_closed A) HK) in O. congruence.
    - intros v u Hin. destruct (A v u Hin) as [P1 P2]. split.
      + intros ->. congruence.
      + destruct (occurs w u) eqn:O; auto. apply P2 in O. congruence.
    - intros t Ht. destruct (occurs w (den (hs h) t)) eqn:O; auto.
      assert (T: tin (Pc (hn h) F) t).
      { eapply tprog_Pc; eauto. intros w0 Hw0. apply C in Hw0. lia. }
      apply (den_tin (good_closed A) T) in O. congruence.
  Qed.

  (* the variables of stored facts never escape into an answer, a findall result or a program variable *)
  Theorem fact_vars_never_escape : forall p ops h outs,
    Forall (rop_ok p) ops -> rrun (hinit p) ops = Some (h, outs) ->
    forall k f u w, In f (hdb h k) -> In u (fargs f) -> occurs w u = true ->
      (forall a t, In a (kept outs) -> In t a -> occurs w t = false /\ occurs w (den (hs h) t) = false) /\
      (forall t, tprog p t -> occurs w (den (hs h) t) = false).
  Proof.
    intros p ops h outs OK H k f u w Hf Hu Hw.
    destruct (@rrun_inv ops p _ _ _ _ [] (inv_init p) (Forall_nil _) OK H) as [F [I [_ HK]]]. simpl in HK.
    pose proof I as [A B C D E].
    assert (Fw: F w = true).
    { specialize (B k f Hf). unfold fact_cells, lin in B. rewrite Forall_forall in B. exact (B u Hu w Hw). }
    assert (NP: Pc (hn h) F w = false) by (unfold Pc; rewrite Fw; apply andb_false_r).
    split.
    - intros a t Ha Ht. rewrite Forall_forall in HK. specialize (HK a Ha). unfold lin in HK. rewrite Forall_forall in HK.
      specialize (HK t Ht). split.
      + destruct (occurs w t) eqn:O; auto. apply HK in O. congruence.
      + destruct (occurs w (den (hs h) t)) eqn:O; auto.
        apply (den_tin (good_closed A) HK) in O. congruence.
    - intros t Ht. destruct (occurs w (den (hs h) t)) eqn:O; auto.
      assert (T: tin (Pc (hn h) F) t).
      { eapply tprog_Pc; eauto. intros w0 Hw0. apply C in Hw0. lia. }
      apply (den_tin (good_closed A) T) in O. congruence.
  Qed.
End Ret.

(* p = number of program variables (cells 0..p-1) *)
Definition run_heap_ret (fuel : nat) (p : nat) (ops : list rop) : obs := OL (rrun_obs fuel (hinit p) [] ops).

(* what the executable prints is what the theorems speak about: a final RKept prints `kept outs` of the run (after the
   answers K retained before it), each answer under the bindings of the final state *)
Lemma kept_obs_den s K :
  map (fun a => args_obs (map (den_fast s) a)) K = map (fun a => args_obs (map (den s) a)) K.
Proof. apply map_ext. intros a. f_equal. apply map_ext. intros t. apply den_fast_eq. Qed.

Lemma rrun_obs_kept fuel : forall ops h K h' outs, rrun fuel h ops = Some (h', outs) ->
  rrun_obs fuel h K (ops ++ [RKept]) =
  rrun_obs fuel h K ops ++ [otag "kept"%string [OL (map (fun a => args_obs (map (den (hs h')) a)) (K ++ kept outs))]].
Proof.
  induction ops as [|o r IH]; intros h K h' outs H; simpl in H.
  - inversion H; subst. unfold kept. simpl. rewrite app_nil_r. rewrite kept_obs_den. reflexivity.
  - destruct (rstep fuel h o) as [[h1 x]|] eqn:ES; [|discriminate].
    destruct (rrun fuel h1 r) as [[h2 xs]|] eqn:E; [|discriminate]. inversion H; subst; clear H.
    cbn [app rrun_obs]. rewrite ES. cbn [app]. f_equal.
    rewrite (IH h1 (K ++ answers_of x)%list h' xs E). unfold kept. simpl. rewrite app_assoc. reflexivity.
Qed.
