(* C13.3: the cells of stored facts are never bound - an invariant over ALL histories of the heap
   machine (DbHeap.v): unifications that stay suspended, asserts under any bindings, goals on the stored
   facts that stay suspended, resumption and closing in LIFO order, reads.

   Cells are partitioned by a ghost set F ("owned by a stored fact": allocated by Answer.__init__).
   Invariant: every binding of the heap binds a cell that exists (< allocation counter) and is not in F,
   to a value that mentions only such cells; the arguments of every stored fact (and of every fact in a
   snapshot held by a suspended goal) mention only cells of F; the goal arguments held by suspended goals
   mention no cell of F.  The program's terms mention only the program's cells (< p), which are not in F:
   the public API gives no access to the Variable objects inside an Answer.

   Consequences: fact cells are unbound in every reachable state (fact_vars_never_bound); no binding and
   no suspended goal mentions one (so a use of a fact can constrain another use, or the asserting clause,
   only through the goal's own variables); every use of a fact unifies the goal with a copy that is a
   function of the stored arguments and the allocation counter alone (uses_see_stored_value). *)
From Coq Require Import List Arith Bool Lia ZArith.
Import ListNotations.
From YP Require Import Base.Str Term.Term Unify.Unify Engine.Frame Engine.Db Engine.DbFacts Engine.DbFactsThms Engine.DbHeap.
Set Implicit Arguments.

(* existing cells that are not owned by a fact *)
Definition Pc (n : nat) (F : nat -> bool) (v : nat) : bool := (v <? n) && negb (F v).

Definition lin (P : nat -> bool) (l : list term) : Prop := Forall (tin P) l.
Definition fact_cells (F : nat -> bool) (f : fact) : Prop := lin F (fargs f).
Definition facts_in (F : nat -> bool) (d : db) : Prop := forall k f, In f (d k) -> fact_cells F f.

Definition frame_ok (n : nat) (F : nat -> bool) (fr : frame) : Prop :=
  match fr with
  | FUnify _ => True
  | FQuery pat rest _ => lin (Pc n F) pat /\ Forall (fact_cells F) rest
  end.

Record inv (p : nat) (F : nat -> bool) (h : hst) : Prop := mkinv {
  inv_store : good (Pc (hn h) F) (hs h);
  inv_facts : facts_in F (hdb h);
  inv_range : forall w, F w = true -> p <= w < hn h;
  inv_stack : Forall (frame_ok (hn h) F) (hstk h);
  inv_p : p <= hn h }.

(* the terms the program writes mention only its own variables *)
Definition tprog (p : nat) (t : term) : Prop := tin (fun v => v <? p) t.
Definition op_ok (p : nat) (o : hop) : Prop :=
  match o with
  | HUnify a b => tprog p a /\ tprog p b
  | HAssert _ t => tprog p t
  | HCall _ args => Forall (tprog p) args
  | HObs ts => Forall (tprog p) ts
  | _ => True
  end.

(* ------------------------------------------------------------------ monotonicity *)
Lemma tin_mono (P Q : nat -> bool) t : (forall v, P v = true -> Q v = true) -> tin P t -> tin Q t.
Proof. intros H T w Hw. apply H. apply T. exact Hw. Qed.
Lemma lin_mono (P Q : nat -> bool) l : (forall v, P v = true -> Q v = true) -> lin P l -> lin Q l.
Proof. intros H. apply Forall_impl. intros t. apply tin_mono. exact H. Qed.
Lemma good_mono (P Q : nat -> bool) s : (forall v, P v = true -> Q v = true) -> good P s -> good Q s.
Proof. intros H G v t Hin. destruct (G v t Hin) as [A B]. split; [apply H; exact A|eapply tin_mono; eauto]. Qed.

Lemma Pc_mono n n' F v : n <= n' -> Pc n F v = true -> Pc n' F v = true.
Proof.
  unfold Pc. intros L H. apply andb_true_iff in H as [A B]. apply Nat.ltb_lt in A.
  apply andb_true_iff. split; [apply Nat.ltb_lt; lia|exact B].
Qed.

Lemma tprog_Pc p n F t : p <= n -> (forall w, F w = true -> p <= w) -> tprog p t -> tin (Pc n F) t.
Proof.
  intros L R T w Hw. specialize (T w Hw). apply Nat.ltb_lt in T. unfold Pc.
  apply andb_true_iff. split; [apply Nat.ltb_lt; lia|].
  destruct (F w) eqn:E; auto. apply R in E. lia.
Qed.

Lemma frame_ok_mono n n' F fr : n <= n' -> frame_ok n F fr -> frame_ok n' F fr.
Proof.
  intros L. destruct fr as [m|pat rest m]; simpl; auto. intros [A B]. split; auto.
  eapply lin_mono; [|exact A]. intros v. apply Pc_mono. exact L.
Qed.

Lemma lookup_in v s t : lookup v s = Some t -> In (v, t) s.
Proof.
  induction s as [|[w u] s IH]; simpl; [discriminate|].
  destruct (Nat.eqb_spec v w) as [->|N]; intros H; [inversion H; subst; left; reflexivity|right; auto].
Qed.

(* a cell of F is unbound, and a term over F is its own value *)
Lemma good_F_unbound n F s w : good (Pc n F) s -> F w = true -> lookup w s = None.
Proof.
  intros G Fw. destruct (lookup w s) as [t|] eqn:L; auto.
  apply lookup_in in L. destruct (G _ _ L) as [A _]. unfold Pc in A. rewrite Fw in A.
  rewrite andb_false_r in A. discriminate.
Qed.

Lemma fact_free n F s f : good (Pc n F) s -> fact_cells F f -> forall t, In t (fargs f) -> free_in s t.
Proof.
  intros G C t Ht w Hw. eapply good_F_unbound; eauto. unfold fact_cells, lin in C.
  rewrite Forall_forall in C. exact (C t Ht w Hw).
Qed.

Lemma good_skipn P s k : good P s -> good P (skipn k s).
Proof.
  intros G v t H. apply G. clear G. revert s H. induction k as [|k IH]; intros s H; simpl in H; auto.
  destruct s as [|e s]; [contradiction|]. right. auto.
Qed.

(* ------------------------------------------------------------------ the copies *)
(* the cells of a copy made at allocation counter n are the new cells n .. n'-1 *)
Lemma copy_cells s n l cs n' : copy_args s l n = (cs, n') ->
  n <= n' /\ forall t, In t cs -> forall w, occurs w t = true -> n <= w < n'.
Proof.
  intros H. destruct (@stored_value_at_assert_time s n l cs n' H) as [m [_ [_ [_ [L [_ R]]]]]].
  split; auto. intros t Ht w Hw. apply R. unfold occurs_l. apply existsb_exists. exists t. auto.
Qed.

Lemma copy_lin_new F s n l cs n' : (forall w, F w = true -> w < n) -> copy_args s l n = (cs, n') ->
  n <= n' /\ lin (Pc n' F) cs.
Proof.
  intros R H. destruct (copy_cells H) as [L C]. split; auto.
  apply Forall_forall. intros t Ht w Hw. destruct (C t Ht w Hw) as [A B]. unfold Pc.
  apply andb_true_iff. split; [apply Nat.ltb_lt; lia|].
  destruct (F w) eqn:E; auto. apply R in E. lia.
Qed.

(* Answer.match in a state that satisfies the invariant *)
Lemma match_inv fuel F s n pat f r n' :
  good (Pc n F) s -> (forall w, F w = true -> w < n) -> lin (Pc n F) pat -> fact_cells F f ->
  answer_match fuel s n pat (fargs f) = (r, n') ->
  n <= n' /\
  (* the copy does not depend on the heap *)
  answer_match fuel s n pat (fargs f) = (unify_arrays fuel s pat (fst (copy_args [] (fargs f) n)), snd (copy_args [] (fargs f) n)) /\
  match r with UOk s' => exists nw, s' = nw ++ s /\ good (Pc n' F) nw | _ => True end.
Proof.
  intros G R Lp C H.
  assert (Fr: forall t, In t (fargs f) -> free_in s t) by (eapply fact_free; eauto).
  pose proof (@answer_match_independent fuel s n pat (fargs f) Fr) as E.
  split; [|split; [exact E|]].
  - rewrite E in H. destruct (copy_args [] (fargs f) n) as [cs n2] eqn:Cp. simpl in H. inversion H; subst.
    destruct (copy_cells Cp). assumption.
  - rewrite E in H. destruct (copy_args [] (fargs f) n) as [cs n2] eqn:Cp. simpl in H. inversion H; subst. clear H.
    destruct (@copy_lin_new F _ _ _ _ _ R Cp) as [L Lc].
    assert (G': good (Pc n' F) s) by (eapply good_mono; [|exact G]; intros v; apply Pc_mono; exact L).
    assert (Lp': lin (Pc n' F) pat) by (eapply lin_mono; [|exact Lp]; intros v; apply Pc_mono; exact L).
    destruct (@unify_arrays_frame (Pc n' F) fuel s pat cs (good_closed G') Lp' Lc) as [_ Po].
    destruct (unify_arrays fuel s pat cs); simpl in *; auto.
Qed.

Section Inv.
  Variable fuel : nat.

  Lemma hscan_inv F pat : forall l s n r n',
    good (Pc n F) s -> (forall w, F w = true -> w < n) -> lin (Pc n F) pat -> Forall (fact_cells F) l ->
    hscan fuel s n pat l = Some (r, n') ->
    n <= n' /\
    match r with
    | None => True
    | Some (s', rest) => (exists nw, s' = nw ++ s /\ good (Pc n' F) nw) /\ Forall (fact_cells F) rest
    end.
  Proof.
    induction l as [|f l IH]; intros s n r n' G R Lp Fl H; cbn [hscan] in H.
    - inversion H; subst. auto.
    - inversion Fl as [|? ? Ff Fl']; subst.
      destruct (answer_match fuel s n pat (fargs f)) as [u n1] eqn:M.
      destruct (@match_inv fuel F s n pat f u n1 G R Lp Ff M) as [L [_ Po]].
      destruct u as [s1| | |]; try discriminate.
      + inversion H; subst. split; [exact L|]. split; [exact Po|exact Fl'].
      + assert (G1: good (Pc n1 F) s) by (eapply good_mono; [|exact G]; intros v; apply Pc_mono; exact L).
        assert (R1: forall w, F w = true -> w < n1) by (intros w Hw; apply R in Hw; lia).
        assert (Lp1: lin (Pc n1 F) pat) by (eapply lin_mono; [|exact Lp]; intros v; apply Pc_mono; exact L).
        destruct (IH s n1 r n' G1 R1 Lp1 Fl' H) as [L2 X]. split; [lia|exact X].
  Qed.

  Lemma hall_inv F pat : forall l s n x n',
    good (Pc n F) s -> (forall w, F w = true -> w < n) -> lin (Pc n F) pat -> Forall (fact_cells F) l ->
    hall fuel s n pat l = Some (x, n') -> n <= n'.
  Proof.
    induction l as [|f l IH]; intros s n x n' G R Lp Fl H; cbn [hall] in H.
    - inversion H; subst. auto.
    - inversion Fl as [|? ? Ff Fl']; subst.
      destruct (answer_match fuel s n pat (fargs f)) as [u n1] eqn:M.
      destruct (@match_inv fuel F s n pat f u n1 G R Lp Ff M) as [L [_ Po]].
      assert (G1: good (Pc n1 F) s) by (eapply good_mono; [|exact G]; intros v; apply Pc_mono; exact L).
      assert (R1: forall w, F w = true -> w < n1) by (intros w Hw; apply R in Hw; lia).
      assert (Lp1: lin (Pc n1 F) pat) by (eapply lin_mono; [|exact Lp]; intros v; apply Pc_mono; exact L).
      destruct u as [s1| | |]; try discriminate.
      + destruct (hall fuel s n1 pat l) as [[y n2]|] eqn:E; [|discriminate]. inversion H; subst.
        eapply Nat.le_trans; [exact L|]. eapply IH; eauto.
      + eapply Nat.le_trans; [exact L|]. eapply IH; eauto.
  Qed.

  Lemma inv_grow p F h n' : inv p F h -> hn h <= n' ->
    inv p F (mkh (hs h) n' (hdb h) (hnext h) (hstk h)).
  Proof.
    intros [A B C D E] L. constructor; simpl; auto.
    - eapply good_mono; [|exact A]. intros v. apply Pc_mono. exact L.
    - intros w Hw. apply C in Hw. lia.
    - eapply Forall_impl; [|exact D]. intros fr. apply frame_ok_mono. exact L.
    - lia.
  Qed.

  Lemma lin_seq_new F n ar : (forall w, F w = true -> w < n) -> lin (Pc (n + ar) F) (map TVar (seq n ar)).
  Proof.
    intros R. apply Forall_forall. intros t Ht. apply in_map_iff in Ht as [v [<- Hv]]. apply in_seq in Hv.
    apply tin_var. unfold Pc. apply andb_true_iff. split; [apply Nat.ltb_lt; lia|].
    destruct (F v) eqn:E; auto. apply R in E. lia.
  Qed.

  (* one step preserves the invariant; only an assert extends the set of fact cells, by the cells it allocates *)
  Lemma hstep_inv p F h o h' x : inv p F h -> op_ok p o -> hstep fuel h o = Some (h', x) ->
    exists F', inv p F' h' /\ (forall w, F w = true -> F' w = true) /\ (forall w, F' w = true -> F w = true \/ hn h <= w).
  Proof.
    intros I OK H. pose proof I as [A B C D E].
    assert (R: forall w, F w = true -> w < hn h) by (intros w Hw; apply C in Hw; lia).
    assert (Rp: forall w, F w = true -> p <= w) by (intros w Hw; apply C in Hw; lia).
    destruct o as [t1 t2|front t|name args| | |ts|name ar]; cbn [hstep] in H.
    - (* unify *)
      destruct OK as [O1 O2].
      assert (T1: tin (Pc (hn h) F) t1) by (eapply tprog_Pc; eauto).
      assert (T2: tin (Pc (hn h) F) t2) by (eapply tprog_Pc; eauto).
      destruct (@unify_frame (Pc (hn h) F) fuel (hs h) t1 t2 (good_closed A) T1 T2) as [_ Po].
      destruct (unify fuel (hs h) t1 t2) as [s'| | |]; try discriminate; inversion H; subst; clear H.
      + destruct Po as [nw [-> G]]. exists F. split; [|split; auto].
        constructor; simpl; [apply good_app; auto|exact B|exact C|constructor; [exact Logic.I|exact D]|exact E].
      + exists F. auto.
    - (* assert *)
      destruct (callable (den (hs h) t)) as [[name args]|] eqn:CA.
      + destruct (answer_init (hs h) (hn h) args) as [stored n'] eqn:AI. inversion H; subst; clear H.
        destruct (@stored_value_at_assert_time (hs h) (hn h) args stored n' AI) as [m [_ [_ [_ [L [_ Rg]]]]]].
        set (F' := fun w => F w || ((hn h <=? w) && (w <? n'))).
        assert (PcE: forall v, Pc (hn h) F v = true -> Pc n' F' v = true).
        { intros v Hv. unfold Pc in *. apply andb_true_iff in Hv as [X Y]. apply Nat.ltb_lt in X.
          apply andb_true_iff. split; [apply Nat.ltb_lt; lia|]. unfold F'.
          apply negb_true_iff in Y. rewrite Y. simpl. apply negb_true_iff. apply andb_false_iff. left.
          apply Nat.leb_gt. exact X. }
        exists F'. split; [|split].
        * constructor; simpl.
          -- eapply good_mono; [exact PcE|exact A].
          -- intros k f Hf. unfold upd in Hf.
             assert (Old: forall g, In g (hdb h k) -> fact_cells F' g).
             { intros g Hg. eapply lin_mono; [|exact (B k g Hg)]. intros v Hv. unfold F'. rewrite Hv. reflexivity. }
             destruct (key_eqb_spec k (name, length args)) as [EK|NK]; [|auto].
             subst k.
             assert (New: fact_cells F' (mkfact (hnext h) stored)).
             { apply Forall_forall. intros t0 Ht0 w Hw. simpl in Ht0.
               assert (X: hn h <= w < n').
               { apply Rg. unfold occurs_l. apply existsb_exists. exists t0. auto. }
               unfold F'. apply orb_true_iff. right. apply andb_true_iff. split; [apply Nat.leb_le|apply Nat.ltb_lt]; lia. }
             unfold ins in Hf. destruct front; simpl in Hf.
             ++ destruct Hf as [<-|Hf]; auto.
             ++ apply in_app_iff in Hf as [Hf|[<-|[]]]; auto.
          -- intros w Hw. unfold F' in Hw. apply orb_true_iff in Hw as [Hw|Hw].
             ++ apply C in Hw. lia.
             ++ apply andb_true_iff in Hw as [X Y]. apply Nat.leb_le in X. apply Nat.ltb_lt in Y. lia.
          -- eapply Forall_impl; [|exact D]. intros fr. destruct fr as [mk|pat rest mk]; simpl; auto.
             intros [X Y]. split.
             ++ eapply lin_mono; [exact PcE|exact X].
             ++ eapply Forall_impl; [|exact Y]. intros g Hg. eapply lin_mono; [|exact Hg].
                intros v Hv. unfold F'. rewrite Hv. reflexivity.
          -- lia.
        * intros w Hw. unfold F'. rewrite Hw. reflexivity.
        * intros w Hw. unfold F' in Hw. apply orb_true_iff in Hw as [Hw|Hw]; auto.
          apply andb_true_iff in Hw as [X _]. apply Nat.leb_le in X. auto.
      + inversion H; subst. exists F. auto.
    - (* call *)
      assert (Lp: lin (Pc (hn h) F) args).
      { eapply Forall_impl; [|exact OK]. intros t0 Ht0. eapply tprog_Pc; eauto. }
      assert (Fl: Forall (fact_cells F) (hdb h (name, length args))).
      { apply Forall_forall. intros f Hf. eapply B; eauto. }
      destruct (hscan fuel (hs h) (hn h) args (hdb h (name, length args))) as [[r n']|] eqn:HS; [|discriminate].
      destruct (@hscan_inv F args _ _ _ _ _ A R Lp Fl HS) as [L X].
      destruct r as [[s' rest]|]; inversion H; subst; clear H.
      + destruct X as [[nw [-> G]] Fr]. exists F. split; [|split; auto].
        constructor; simpl; auto.
        * apply good_app; auto. eapply good_mono; [|exact A]. intros v. apply Pc_mono. exact L.
        * intros w Hw. apply C in Hw. lia.
        * constructor.
          -- simpl. split; auto. eapply lin_mono; [|exact Lp]. intros v. apply Pc_mono. exact L.
          -- eapply Forall_impl; [|exact D]. intros fr. apply frame_ok_mono. exact L.
        * lia.
      + exists F. split; [|split; auto]. apply (inv_grow I L).
    - (* redo *)
      destruct (hstk h) as [|[mk|pat rest mk] stk] eqn:ES; rewrite ?ES in D.
      + inversion H; subst. exists F. auto.
      + inversion H; subst. exists F. split; [|split; auto].
        inversion D; subst. constructor; simpl; auto. apply good_skipn. exact A.
      + inversion D as [|? ? Hfr D']; subst. simpl in Hfr. destruct Hfr as [Lp Fr].
        assert (G0: good (Pc (hn h) F) (restore (hs h) mk)) by (apply good_skipn; exact A).
        destruct (hscan fuel (restore (hs h) mk) (hn h) pat rest) as [[r n']|] eqn:HS; [|discriminate].
        destruct (@hscan_inv F pat _ _ _ _ _ G0 R Lp Fr HS) as [L X].
        destruct r as [[s' rest']|]; inversion H; subst; clear H.
        * destruct X as [[nw [-> G]] Fr']. exists F. split; [|split; auto].
          constructor; simpl; auto.
          -- apply good_app; auto. eapply good_mono; [|exact G0]. intros v. apply Pc_mono. exact L.
          -- intros w Hw. apply C in Hw. lia.
          -- constructor.
             ++ simpl. split; auto. eapply lin_mono; [|exact Lp]. intros v. apply Pc_mono. exact L.
             ++ eapply Forall_impl; [|exact D']. intros fr. apply frame_ok_mono. exact L.
          -- lia.
        * exists F. split; [|split; auto]. constructor; simpl; auto.
          -- eapply good_mono; [|exact G0]. intros v. apply Pc_mono. exact L.
          -- intros w Hw. apply C in Hw. lia.
          -- eapply Forall_impl; [|exact D']. intros fr. apply frame_ok_mono. exact L.
          -- lia.
    - (* pop *)
      destruct (hstk h) as [|[mk|pat rest mk] stk] eqn:ES; rewrite ?ES in D; inversion H; subst; exists F; (split; [|split; auto]); auto;
        inversion D; subst; constructor; simpl; auto; apply good_skipn; exact A.
    - inversion H; subst. exists F. auto.
    - (* read *)
      destruct (hall fuel (hs h) (hn h + ar) (map TVar (seq (hn h) ar)) (hdb h (name, ar))) as [[l n']|] eqn:HA; [|discriminate].
      inversion H; subst; clear H.
      assert (G1: good (Pc (hn h + ar) F) (hs h)) by (eapply good_mono; [|exact A]; intros v; apply Pc_mono; lia).
      assert (R1: forall w, F w = true -> w < hn h + ar) by (intros w Hw; apply R in Hw; lia).
      assert (Fl: Forall (fact_cells F) (hdb h (name, ar))).
      { apply Forall_forall. intros f Hf. eapply B; eauto. }
      pose proof (@hall_inv F _ _ _ _ _ _ G1 R1 (lin_seq_new F ar R) Fl HA) as L.
      exists F. split; [|split; auto]. apply (inv_grow I). lia.
  Qed.

  Lemma inv_init p : inv p (fun _ => false) (hinit p).
  Proof.
    constructor; simpl; auto.
    - apply good_nil.
    - intros k f [].
    - intros w Hw. discriminate.
  Qed.

  Theorem hrun_inv : forall ops p F h h' outs, inv p F h -> Forall (op_ok p) ops ->
    hrun fuel h ops = Some (h', outs) -> exists F', inv p F' h' /\ (forall w, F w = true -> F' w = true).
  Proof.
    induction ops as [|o r IH]; intros p F h h' outs I OK H; simpl in H.
    - inversion H; subst. exists F. auto.
    - inversion OK as [|? ? O1 O2]; subst.
      destruct (hstep fuel h o) as [[h1 x]|] eqn:ES; [|discriminate].
      destruct (hrun fuel h1 r) as [[h2 xs]|] eqn:ER; [|discriminate]. inversion H; subst; clear H.
      destruct (@hstep_inv p F h o h1 x I O1 ES) as [F1 [I1 [M1 _]]].
      destruct (IH p F1 h1 h' xs I1 O2 ER) as [F2 [I2 M2]]. exists F2. split; auto.
  Qed.

  (* C13.3: in every state that a history reaches, the variables inside stored facts are unbound, no
     binding mentions them, and the goal arguments of suspended goals do not mention them *)
  Theorem fact_vars_never_bound : forall p ops h outs,
    Forall (op_ok p) ops -> hrun fuel (hinit p) ops = Some (h, outs) ->
    forall k f t w, In f (hdb h k) -> In t (fargs f) -> occurs w t = true ->
      lookup w (hs h) = None /\
      (forall v u, In (v, u) (hs h) -> v <> w /\ occurs w u = false) /\
      (forall pat rest mk, In (FQuery pat rest mk) (hstk h) -> forall a, In a pat -> occurs w a = false) /\
      p <= w.
  Proof.
    intros p ops h outs OK H k f t w Hf Ht Hw.
    destruct (@hrun_inv ops p _ _ _ _ (inv_init p) OK H) as [F [[A B C D E] _]].
    assert (Fw: F w = true).
    { specialize (B k f Hf). unfold fact_cells, lin in B. rewrite Forall_forall in B. exact (B t Ht w Hw). }
    assert (NP: Pc (hn h) F w = false) by (unfold Pc; rewrite Fw; apply andb_false_r).
    split; [eapply good_F_unbound; eauto|]. split; [|split].
    - intros v u Hin. destruct (A v u Hin) as [X Y]. split.
      + intros ->. congruence.
      + destruct (occurs w u) eqn:O; auto. apply Y in O. congruence.
    - intros pat rest mk Hin a Ha. rewrite Forall_forall in D. destruct (D _ Hin) as [X _].
      unfold lin in X. rewrite Forall_forall in X. destruct (occurs w a) eqn:O; auto. apply (X a Ha) in O. congruence.
    - apply C in Fw. lia.
  Qed.

  (* "fresh at every use": in every reachable state, a use of a stored fact unifies the goal with a copy
     that is computed from the stored arguments and the allocation counter alone - the same copy under
     every heap - whose cells are new; so what a fact matches never depends on what happened to the
     variables of the asserted term, and two uses (or a use and the asserting clause) share no cell *)
  Theorem uses_see_stored_value : forall p ops h outs,
    Forall (op_ok p) ops -> hrun fuel (hinit p) ops = Some (h, outs) ->
    forall k f goal, In f (hdb h k) ->
      answer_match fuel (hs h) (hn h) goal (fargs f) =
        (unify_arrays fuel (hs h) goal (fst (copy_args [] (fargs f) (hn h))), snd (copy_args [] (fargs f) (hn h))) /\
      (forall t w, In t (fst (copy_args [] (fargs f) (hn h))) -> occurs w t = true ->
         hn h <= w /\ lookup w (hs h) = None /\ forall g u, In g (hdb h k) -> In u (fargs g) -> occurs w u = false).
  Proof.
    intros p ops h outs OK H k f goal Hf.
    destruct (@hrun_inv ops p _ _ _ _ (inv_init p) OK H) as [F [[A B C D E] _]].
    assert (Fr: forall t, In t (fargs f) -> free_in (hs h) t) by (eapply fact_free; eauto).
    split; [apply answer_match_independent; exact Fr|].
    intros t w Ht Hw. destruct (copy_args [] (fargs f) (hn h)) as [cs n'] eqn:Cp. simpl in Ht.
    destruct (copy_cells Cp) as [L X]. destruct (X t Ht w Hw) as [Y Z]. split; [exact Y|]. split.
    - destruct (lookup w (hs h)) as [u|] eqn:Lk; auto. apply lookup_in in Lk. destruct (A _ _ Lk) as [P1 _].
      unfold Pc in P1. apply andb_true_iff in P1 as [P1 _]. apply Nat.ltb_lt in P1. lia.
    - intros g u Hg Hu. destruct (occurs w u) eqn:O; auto.
      specialize (B k g Hg). unfold fact_cells, lin in B. rewrite Forall_forall in B.
      specialize (B u Hu w O). apply C in B. lia.
  Qed.
End Inv.
