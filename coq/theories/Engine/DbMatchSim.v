(* Matching a goal against a stored fact inside compiled code (Answer.match under the current
   bindings, the copy of the fact allocated at the current allocation counter) and in the cursor
   machine (match_fact: dereferenced pattern, empty store, copy allocated just beyond the cells of
   pattern and fact) agree: same outcome, and the answers are equal up to the renaming that moves the
   cursor's copy cells to the copy cells of the compiled code. *)
From Coq Require Import List Arith Bool Lia ZArith.
Import ListNotations.
From YP Require Import Base.Str Term.Term Unify.Unify Unify.Base Unify.Rename Engine.Frame Engine.Db Engine.DbFacts Engine.DbFactsThms Engine.DbHeap Engine.DbHeapThms.
Set Implicit Arguments.

(* the renaming that leaves the cells below m alone and moves the others up by dl *)
Definition shiftp (m dl : nat) (w : nat) : nat := if w <? m then w else w + dl.
Lemma shiftp_inj m dl : injective (shiftp m dl).
Proof.
  intros a b. unfold shiftp.
  destruct (Nat.ltb_spec a m); destruct (Nat.ltb_spec b m); lia.
Qed.

(* ------------------------------------------------------------------ arrays: increment, renaming *)
Lemma arr_increment s n : wf s ->
  forall xs ys nw, wf (nw ++ s) -> vals_free s nw ->
  arr (unify n) xs ys (nw ++ s) = lift s (arr (unify n) (map (den s) xs) (map (den s) ys) nw).
Proof.
  intros Ws. induction xs as [|a ar IH]; intros [|b br] nw W Fv; cbn [arr map]; try reflexivity.
  rewrite (@unify_base s n nw a b W Fv).
  destruct (unify n nw (den s a) (den s b)) as [n1| | |] eqn:E; cbn [lift]; try reflexivity.
  apply IH.
  - assert (E': unify n (nw ++ s) a b = UOk (n1 ++ s)).
    { rewrite (@unify_base s n nw a b W Fv), E. reflexivity. }
    destruct (unify_sound _ _ _ W E') as [W1 _]. exact W1.
  - apply (@unify_vals_free s n nw (den s a) (den s b) n1 Fv); [apply den_free; exact Ws|apply den_free; exact Ws|exact E].
Qed.

Lemma vals_free_nil s : vals_free s [].
Proof. intros v t []. Qed.

Lemma unify_arrays_increment n s xs ys : wf s ->
  unify_arrays n s xs ys = lift s (unify_arrays n [] (map (den s) xs) (map (den s) ys)).
Proof.
  intros W. unfold unify_arrays. rewrite !map_length.
  destruct (Nat.eqb (length xs) (length ys)); [|reflexivity].
  apply (@arr_increment s n W xs ys [] W (vals_free_nil s)).
Qed.

Lemma unify_arrays_vals_free s n nw xs ys nw' :
  vals_free s nw -> (forall x, In x xs -> free_in s x) -> (forall y, In y ys -> free_in s y) ->
  unify_arrays n nw xs ys = UOk nw' -> vals_free s nw'.
Proof.
  unfold unify_arrays. intros Fv Fx Fy H.
  destruct (Nat.eqb (length xs) (length ys)); [|discriminate].
  apply (@arr_vals_free s (unify n) (@unify_vals_free s n) xs ys nw nw' Fv Fx Fy H).
Qed.

Lemma unify_arrays_equivariant p : injective p -> forall n s xs ys,
  unify_arrays n (ren_store p s) (map (Rename.ren p) xs) (map (Rename.ren p) ys) = ren_res p (unify_arrays n s xs ys).
Proof.
  intros Hp n s xs ys. unfold unify_arrays. rewrite !map_length.
  destruct (Nat.eqb (length xs) (length ys)); [|reflexivity].
  apply ren_arr. apply unify_equivariant. exact Hp.
Qed.

(* ------------------------------------------------------------------ renamings that agree on a term *)
Lemma ren_agree p p' t : (forall w, occurs w t = true -> p w = p' w) -> Rename.ren p t = Rename.ren p' t.
Proof.
  induction t as [a|z|q|v|f args IH] using term_ind'; intros H; cbn [Rename.ren]; auto.
  - rewrite H; [reflexivity|]. simpl. apply Nat.eqb_refl.
  - f_equal. apply map_ext_in. intros x Hx. rewrite Forall_forall in IH. apply IH; auto.
    intros w Hw. apply H. apply occurs_fun. exists x. auto.
Qed.

Lemma ren_ident t : Rename.ren (fun w => w) t = t.
Proof.
  induction t as [a|z|q|v|f args IH] using term_ind'; cbn [Rename.ren]; auto.
  f_equal. induction args as [|x l IHl]; cbn [map]; auto.
  inversion IH; subst. f_equal; auto.
Qed.

Lemma ren_id_on p t : (forall w, occurs w t = true -> p w = w) -> Rename.ren p t = t.
Proof. intros H. rewrite (@ren_agree p (fun w => w) t H). apply ren_ident. Qed.

(* ------------------------------------------------------------------ bound *)
Lemma bound_in x l : In x l -> bound x <= bound_list l.
Proof.
  induction l as [|y l IH]; intros H; [contradiction|].
  unfold bound_list. cbn [fold_right]. fold (bound_list l).
  destruct H as [->|H]; [lia|]. specialize (IH H). lia.
Qed.

Lemma occurs_bound w t : occurs w t = true -> w < bound t.
Proof.
  induction t as [a|z|q|v|f args IH] using term_ind'; intros H; try discriminate.
  - simpl in H. apply Nat.eqb_eq in H. subst. simpl. lia.
  - apply occurs_fun in H as [x [Hx Ox]]. rewrite Forall_forall in IH. specialize (IH x Hx Ox).
    change (bound (TFun f args)) with (bound_list args). pose proof (bound_in x args Hx). lia.
Qed.

Lemma occurs_bound_list w x l : In x l -> occurs w x = true -> w < bound_list l.
Proof. intros Hx Ox. pose proof (occurs_bound _ _ Ox). pose proof (bound_in x l Hx). lia. Qed.

Lemma bound_list_le0 n l : Forall (fun t => bound t <= n) l -> bound_list l <= n.
Proof.
  induction 1 as [|x l Hx Hl IH]; unfold bound_list; cbn [fold_right]; [lia|].
  fold (bound_list l). lia.
Qed.

Lemma bound_le n t : (forall w, occurs w t = true -> w < n) -> bound t <= n.
Proof.
  induction t as [a|z|q|v|f args IH] using term_ind'; intros H; cbn [bound]; try lia.
  - assert (v < n) by (apply H; simpl; apply Nat.eqb_refl). lia.
  - change (bound_list args <= n). apply bound_list_le0. rewrite Forall_forall in *.
    intros x Hx. apply IH; auto. intros w Hw. apply H. apply occurs_fun. exists x. auto.
Qed.

Lemma bound_list_le n l : (forall t, In t l -> forall w, occurs w t = true -> w < n) -> bound_list l <= n.
Proof.
  intros H. apply bound_list_le0. apply Forall_forall. intros x Hx. apply bound_le. apply H. exact Hx.
Qed.

(* ------------------------------------------------------------------ copies made at a later counter *)
Definition shm (dl : nat) (m : list (nat * nat)) : list (nat * nat) :=
  map (fun ab : nat * nat => (fst ab, snd ab + dl)) m.

Lemma mfind_shm dl v m : mfind v (shm dl m) = option_map (fun w => w + dl) (mfind v m).
Proof.
  induction m as [|[a b] r IH]; cbn [shm map mfind fst snd option_map]; auto.
  destruct (Nat.eqb v a); auto.
Qed.

Lemma ren_list_shift0 dl : forall l,
  Forall (fun t => forall m k t' m1 k1, DbFacts.ren t (m, k) = (t', (m1, k1)) ->
            DbFacts.ren t (shm dl m, k + dl) = (Rename.ren (fun w => w + dl) t', (shm dl m1, k1 + dl))) l ->
  forall m k l' m1 k1, ren_list l (m, k) = (l', (m1, k1)) ->
    ren_list l (shm dl m, k + dl) = (map (Rename.ren (fun w => w + dl)) l', (shm dl m1, k1 + dl)).
Proof.
  induction l as [|x r IHl]; intros Fa m k l' m1 k1 H; cbn [ren_list] in H.
  - inversion H; subst. reflexivity.
  - inversion Fa as [|? ? Fx Fr]; subst.
    destruct (DbFacts.ren x (m, k)) as [x' [m2 k2]] eqn:E1.
    destruct (ren_list r (m2, k2)) as [r' [m3 k3]] eqn:E2. inversion H; subst; clear H.
    cbn [ren_list]. rewrite (Fx _ _ _ _ _ E1). rewrite (IHl Fr _ _ _ _ _ E2). reflexivity.
Qed.

Lemma ren_shift dl : forall t m k t' m1 k1, DbFacts.ren t (m, k) = (t', (m1, k1)) ->
  DbFacts.ren t (shm dl m, k + dl) = (Rename.ren (fun w => w + dl) t', (shm dl m1, k1 + dl)).
Proof.
  induction t as [a|z|q|v|f args IH] using term_ind'; intros m k t' m1 k1 H.
  1-3: cbn [DbFacts.ren] in H; inversion H; subst; reflexivity.
  - cbn [DbFacts.ren fst snd] in H. cbn [DbFacts.ren fst snd]. rewrite mfind_shm.
    destruct (mfind v m) as [w|]; inversion H; subst; reflexivity.
  - rewrite ren_fun in H. rewrite ren_fun.
    destruct (ren_list args (m, k)) as [l' [m2 k2]] eqn:E. cbn [fst snd] in H. inversion H; subst; clear H.
    rewrite (@ren_list_shift0 dl args IH _ _ _ _ _ E). reflexivity.
Qed.

Lemma ren_list_shift dl : forall l m k l' m1 k1, ren_list l (m, k) = (l', (m1, k1)) ->
  ren_list l (shm dl m, k + dl) = (map (Rename.ren (fun w => w + dl)) l', (shm dl m1, k1 + dl)).
Proof.
  intros l. apply ren_list_shift0. apply Forall_forall. intros t _. apply ren_shift.
Qed.

Lemma map_den_nil l : map (den []) l = l.
Proof. exact (map_id l). Qed.

(* the copy of a heap-independent list made dl cells later is the shifted copy *)
Lemma copy_args_shift l k dl :
  copy_args [] l (k + dl) =
    (map (Rename.ren (fun w => w + dl)) (fst (copy_args [] l k)), snd (copy_args [] l k) + dl).
Proof.
  unfold copy_args. rewrite map_den_nil.
  destruct (ren_list l ([], k)) as [l' [m1 k1]] eqn:E.
  change (@nil (nat * nat)) with (shm dl []).
  rewrite (@ren_list_shift dl l [] k l' m1 k1 E). reflexivity.
Qed.

(* ------------------------------------------------------------------ the simulation *)
Theorem match_sim uf F s n args f :
  wf s -> good (Pc n F) s -> (forall w, F w = true -> w < n) -> lin (Pc n F) args -> fact_cells F f ->
  let pat := map (den s) args in
  let m0 := Nat.max (bound_list pat) (bound_list (fargs f)) in
  m0 <= n /\
  match fst (answer_match uf s n args (fargs f)) with
  | UOk s' => exists a, match_fact uf pat (fargs f) = MYes a /\
                        map (den s') args = map (Rename.ren (shiftp m0 (n - m0))) a
  | UFail => match_fact uf pat (fargs f) = MNo
  | _ => match_fact uf pat (fargs f) = MStuck
  end.
Proof.
  intros W G R La Cf pat m0.
  assert (Tp : forall t, In t pat -> tin (Pc n F) t).
  { intros t Ht. apply in_map_iff in Ht as [a [<- Ha]]. apply den_tin; [apply good_closed; exact G|].
    unfold lin in La. rewrite Forall_forall in La. apply La; exact Ha. }
  assert (Bp : forall t, In t pat -> forall w, occurs w t = true -> w < n).
  { intros t Ht w Hw. specialize (Tp t Ht w Hw). unfold Pc in Tp. apply andb_true_iff in Tp as [A _].
    apply Nat.ltb_lt in A. exact A. }
  assert (Bf : forall t, In t (fargs f) -> forall w, occurs w t = true -> w < n).
  { intros t Ht w Hw. apply R. unfold fact_cells, lin in Cf. rewrite Forall_forall in Cf. exact (Cf t Ht w Hw). }
  assert (Lm : m0 <= n).
  { unfold m0. apply Nat.max_lub; apply bound_list_le; assumption. }
  split; [exact Lm|].
  assert (Lp : bound_list pat <= m0) by (unfold m0; lia).
  set (dl := n - m0). set (p := shiftp m0 dl).
  assert (Hp : injective p) by (apply shiftp_inj).
  (* the side of the compiled code *)
  rewrite (@answer_match_independent uf s n args (fargs f) (@fact_free n F s f G Cf)). cbn [fst].
  (* the cursor's side *)
  assert (MF : match_fact uf pat (fargs f) =
               match unify_arrays uf [] pat (fst (copy_args [] (fargs f) m0)) with
               | UOk s0 => MYes (map (den s0) pat) | UFail => MNo | _ => MStuck end).
  { unfold match_fact. fold m0.
    rewrite (@answer_match_independent uf [] m0 pat (fargs f)) by (intros t _ w _; reflexivity).
    destruct (unify_arrays uf [] pat (fst (copy_args [] (fargs f) m0))); reflexivity. }
  rewrite MF. clear MF.
  (* the two copies *)
  assert (En : n = m0 + dl) by (unfold dl; lia).
  destruct (copy_args [] (fargs f) m0) as [cs0 k0] eqn:C0.
  destruct (copy_args [] (fargs f) n) as [cs k1] eqn:C1.
  cbn [fst].
  destruct (copy_cells C0) as [_ Cells0]. destruct (copy_cells C1) as [_ Cells1].
  assert (Ecs : cs = map (Rename.ren p) cs0).
  { pose proof (copy_args_shift (fargs f) m0 dl) as X. rewrite <- En, C1, C0 in X. cbn [fst snd] in X.
    inversion X; subst cs. apply map_ext_in. intros c Hc. apply ren_agree. intros w Hw.
    destruct (Cells0 c Hc w Hw) as [A _]. unfold p, shiftp.
    destruct (Nat.ltb_spec w m0); [lia|reflexivity]. }
  assert (Epat : map (Rename.ren p) pat = pat).
  { rewrite <- (map_id pat) at 2. apply map_ext_in. intros t Ht. apply ren_id_on. intros w Hw.
    pose proof (occurs_bound_list w t pat Ht Hw) as B. unfold p, shiftp.
    destruct (Nat.ltb_spec w m0); [reflexivity|lia]. }
  (* the cells of the copy made by the compiled code are unbound *)
  assert (Fcs : forall c, In c cs -> free_in s c).
  { intros c Hc w Hw. destruct (Cells1 c Hc w Hw) as [A _].
    destruct (lookup w s) as [u|] eqn:Lk; auto. apply lookup_in in Lk. destruct (G _ _ Lk) as [P1 _].
    unfold Pc in P1. apply andb_true_iff in P1 as [P1 _]. apply Nat.ltb_lt in P1. lia. }
  assert (Fpat : forall t, In t pat -> free_in s t).
  { intros t Ht. apply in_map_iff in Ht as [a [<- Ha]]. apply den_free. exact W. }
  assert (Dcs : map (den s) cs = cs).
  { rewrite <- (map_id cs) at 2. apply map_ext_in. intros c Hc. apply den_id. apply Fcs. exact Hc. }
  rewrite (@unify_arrays_increment uf s args cs W). fold pat. rewrite Dcs.
  assert (Eq : unify_arrays uf [] pat cs = ren_res p (unify_arrays uf [] pat cs0)).
  { rewrite <- (@unify_arrays_equivariant p Hp uf [] pat cs0). rewrite Epat, <- Ecs. reflexivity. }
  destruct (unify_arrays uf [] pat cs0) as [s0| | |] eqn:E0; rewrite Eq; cbn [ren_res lift]; try reflexivity.
  exists (map (den s0) pat). split; [reflexivity|].
  assert (Fv : vals_free s (ren_store p s0)).
  { apply (@unify_arrays_vals_free s uf [] pat cs (ren_store p s0) (vals_free_nil s) Fpat Fcs). rewrite Eq. reflexivity. }
  transitivity (map (den (ren_store p s0)) (map (Rename.ren p) pat)).
  - rewrite Epat. unfold pat. rewrite map_map. apply map_ext. intros u. apply den_split. exact Fv.
  - rewrite !map_map. apply map_ext. intros u. apply (@ren_den p Hp).
Qed.

Print Assumptions match_sim.
