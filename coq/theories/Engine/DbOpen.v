(* Database operations whose arguments mention variables of a query that is still OPEN.

   engine.py: a goal's variables are bound only while its generator is suspended at an answer
   (Variable.unify binds, the `finally` unbinds when the generator is resumed, closed or
   deallocated).  A caller of the Python API can therefore write

       for _ in yp.query('name', [Y]):  yp.assert_fact(yp.atom('pet'), [Y])

   (or a Python predicate registered with register_function can do the same with the clause
   variables it receives from compiled code): the argument list handed to assert_fact contains
   Variable objects that are bound AT THAT MOMENT.  Answer.__init__ copies the arguments through
   copy_term = deep get_value, so what is stored is the value the arguments have when the operation
   is issued; advancing, exhausting or closing the query afterwards changes nothing that is stored.

   The cursor machine DbCursor.v gives every cursor its own pattern variables and keeps no bindings
   between events.  Here it is extended, WITHOUT changing it: an extended history may contain
   [XOpen c e] = "the event e, its terms written over the pattern variables of cursor c".  The
   machine keeps, per cursor, the bindings of the answer at which the cursor is suspended (the store
   that the match produced: Answer.match = copy_term + unify_arrays from the empty store, as in
   DbFacts.match_fact); [XOpen c e] is the base event e with every term dereferenced under those
   bindings (inst_ev).  So an extended run IS a run of the base machine (xrun_is_run), all theorems of
   DbCursorThms / DbSpec apply to it, and the stored fact is the resolved value at assertion time
   (open_assert_stores_value). *)
From Coq Require Import List Arith Bool Lia.
Import ListNotations.
From YP Require Import Base.Str Term.Term Term.Fast Unify.Unify Engine.Db Engine.DbCursor Engine.DbFacts.
Set Implicit Arguments.

Inductive xev :=
| XBase (e : ev)
| XOpen (c : nat) (e : ev).     (* e's terms are over the pattern variables of cursor c, read under c's current bindings *)

(* deep get_value of every term of an event (den_fast = den, Term/Fast.v) *)
Definition inst_ev (b : store) (e : ev) : ev :=
  match e with
  | EAssert front t => EAssert front (den_fast b t)
  | EAssertFact name args append => EAssertFact name (map (den_fast b) args) append
  | ERetractAll t => ERetractAll (den_fast b t)
  | EQueryAll name args => EQueryAll name (map (den_fast b) args)
  | _ => e
  end.

(* the bindings Answer.match leaves active while the generator is suspended at its yield *)
Definition bind_of (fuel : nat) (pat args : list term) : store :=
  match answer_match fuel [] (Nat.max (bound_list pat) (bound_list args)) pat args with
  | (UOk s, _) => s
  | _ => []
  end.

(* the pattern of cursor c and the list it will scan at its next resumption *)
Definition cur_view (s : st) (c : nat) : option (list term * list fact) :=
  match scur s c with
  | CQNew k pat => Some (pat, sdb s k)
  | CQRun pat rest => Some (pat, rest)
  | CRNew t => match callable t with
               | Some (n, args) => Some (args, sdb s (n, length args))
               | None => None
               end
  | CRRun _ pat rest => Some (pat, rest)
  | _ => None
  end.

Definition find_fact (i : nat) (l : list fact) : option fact := find (fun f => Nat.eqb (fid f) i) l.

Record xst := mkx { xs_st : st; xs_bind : nat -> store }.
Definition xinit : xst := mkx init (fun _ => []).

Definition set_bind (b : nat -> store) (c : nat) (x : store) : nat -> store :=
  fun c' => if Nat.eqb c' c then x else b c'.

(* bindings of the cursors after the base event e returned o (s = state BEFORE the event) *)
Definition next_bind (fuel : nat) (s : st) (b : nat -> store) (e : ev) (o : out) : nat -> store :=
  match e with
  | ENext c =>
      match o with
      | OAns i _ | ORet _ i _ =>
          match cur_view s c with
          | Some (pat, l) =>
              match find_fact i l with
              | Some f => set_bind b c (bind_of fuel pat (fargs f))
              | None => set_bind b c []
              end
          | None => set_bind b c []
          end
      | OBad => b
      | _ => set_bind b c []            (* StopIteration: the finally clauses have unbound everything *)
      end
  | EClose c => set_bind b c []
  | EStart c _ => set_bind b c []
  | _ => b
  end.

Definition xtrans (x : xst) (xe : xev) : ev :=
  match xe with
  | XBase e => e
  | XOpen c e => inst_ev (xs_bind x c) e
  end.

Definition xstep (fuel : nat) (x : xst) (xe : xev) : option (xst * ev * out) :=
  let e := xtrans x xe in
  match step (match_fact fuel) (xs_st x) e with
  | None => None
  | Some (s1, o) => Some (mkx s1 (next_bind fuel (xs_st x) (xs_bind x) e o), e, o)
  end.

(* result: final state, the base history that was run, its outputs *)
Fixpoint xrun (fuel : nat) (x : xst) (xs : list xev) : option (xst * list ev * list out) :=
  match xs with
  | [] => Some (x, [], [])
  | xe :: r =>
      match xstep fuel x xe with
      | None => None
      | Some (x1, e, o) =>
          match xrun fuel x1 r with
          | None => None
          | Some (x2, es, os) => Some (x2, e :: es, o :: os)
          end
      end
  end.

(* an extended run is a run of the cursor machine on the history it names: same states, same outputs *)
Theorem xrun_is_run fuel : forall xs x x' es outs,
  xrun fuel x xs = Some (x', es, outs) ->
  run (match_fact fuel) (xs_st x) es = Some (xs_st x', outs) /\ length es = length xs.
Proof.
  induction xs as [|xe r IH]; intros x x' es outs H; simpl in H.
  - inversion H; subst. simpl. auto.
  - unfold xstep in H.
    destruct (step (match_fact fuel) (xs_st x) (xtrans x xe)) as [[s1 o]|] eqn:S; [|discriminate].
    destruct (xrun fuel (mkx s1 (next_bind fuel (xs_st x) (xs_bind x) (xtrans x xe) o)) r) as [[[x2 es2] os2]|] eqn:E; [|discriminate].
    inversion H; subst. destruct (IH _ _ _ _ E) as [R L]. simpl in R. simpl. rewrite S, R, L. auto.
Qed.

(* assert_fact with arguments over the variables of an open cursor: the stored fact is the value the
   arguments have under the cursor's bindings when the operation is issued; it is a new Answer put at the
   end / front of the list that is current then; nothing else changes *)
Theorem open_assert_stores_value fuel x c name args append :
  xstep fuel x (XOpen c (EAssertFact name args append)) =
  let vals := map (den (xs_bind x c)) args in
  let k := (name, length args) in
  let f := mkfact (snext (xs_st x)) vals in
  Some (mkx (mkst (upd k (ins (negb append) f (sdb (xs_st x) k)) (sdb (xs_st x))) (S (snext (xs_st x))) (scur (xs_st x)))
            (xs_bind x),
        EAssertFact name vals append, OIns k (negb append) f).
Proof.
  unfold xstep, xtrans, inst_ev. cbn [step]. unfold do_assert.
  rewrite (map_ext _ _ (den_fast_eq (xs_bind x c))). rewrite map_length. reflexivity.
Qed.

(* events that do not concern cursor c leave its bindings alone; what IS stored never changes with them
   anyway (facts are values in the database), so advancing or closing the cursor after the assertion
   cannot alter the fact: the database after the step is a function of the base history only (xrun_is_run) *)

(* the bindings kept for a cursor are those of its answer: the answer the caller saw is the pattern
   under them, and they form a well-formed (acyclic) store *)
Theorem bind_of_answer fuel pat args a : match_fact fuel pat args = MYes a ->
  wf (bind_of fuel pat args) /\ a = map (den (bind_of fuel pat args)) pat.
Proof.
  unfold match_fact, bind_of.
  destruct (answer_match fuel [] (Nat.max (bound_list pat) (bound_list args)) pat args) as [u n'] eqn:A.
  unfold answer_match in A.
  destruct (copy_args [] args (Nat.max (bound_list pat) (bound_list args))) as [cs n2] eqn:C.
  inversion A; subst. clear A.
  destruct (unify_arrays fuel [] pat cs) as [s| | |] eqn:U; try discriminate.
  intros H. inversion H; subst.
  destruct (unify_arrays_sound _ _ _ wf_nil U) as [W _]. auto.
Qed.

(* the database after an extended history is the fold of the atomic updates of its events, each applied to the
   database current at that moment (no update is lost, none is altered afterwards by what the cursors do), and
   identities stay unique: no_lost_update of the cursor machine, transported along xrun_is_run *)
From YP Require Import Engine.DbCursorThms.
Corollary xrun_no_lost_update fuel xs x x' es outs :
  ids_ok (sdb (xs_st x)) (snext (xs_st x)) -> xrun fuel x xs = Some (x', es, outs) ->
  (forall k, sdb (xs_st x') k = apply_outs outs (sdb (xs_st x)) k) /\ ids_ok (sdb (xs_st x')) (snext (xs_st x')).
Proof.
  intros I H. destruct (xrun_is_run _ _ _ H) as [R _]. exact (@no_lost_update _ _ _ _ _ I R).
Qed.
