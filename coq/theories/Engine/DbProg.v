(* Database operations issued FROM COMPILED CODE: clause bodies that call asserta/assertz/retract/
   retractall and goals on dynamic facts, run depth first with backtracking on a shared heap, the
   database being threaded through the whole search (engine.py: YP.query = match_dynamic, then the
   compiled function; the emitted code is one nested `for` per goal, every goal being
   `query(name, args)`; asserta/assertz/retract/retractall are registered functions reached by that
   same query()).

   What is followed literally:
   - a goal name(args): the facts stored under (name, arity) WHEN THE GOAL IS REACHED (the list object
     is kept: a snapshot), each tried in order through Answer.match (a copy with new variables, then
     unify_arrays under the current bindings); for every match the REST OF THE BODY runs - and may
     change the database - before the next fact is tried; when the facts are exhausted, the clauses of
     the compiled predicate name/arity in order (head unification argument by argument, then its body
     followed by the rest of the caller's body);
   - retract(T): T is dereferenced first; the snapshot is the list current at that moment; for every
     fact of the snapshot that matches, the engine looks at the list that is current NOW, and only if
     that very Answer object is still in it publishes the current list without it and runs the rest of
     the body; then continues in the snapshot;
   - asserta/assertz(T): T dereferenced; Functor -> (name,args), Atom -> (name,[]), anything else:
     succeeds and stores nothing; the stored arguments are a copy (Answer.__init__) under the bindings
     of that moment; the new list is published under the key;
   - retractall(T): one pass over the current list, publishes the facts that do not match, succeeds
     once (fails for a non-callable T); bindings of every match are undone.
   Bindings are a store that is passed down the search path (undoing = returning to the caller's
   store); the database, the Answer identities and the allocation counter are global: they are
   threaded through the search in execution order and never reset by backtracking.
   Control (round 5): a body is a list of goals (a conjunction) whose elements may be `!` (GCut), `fail`,
   `( A ; B )` (GOr), `( C -> T ; E )` (GIf; `( C -> T )` is GIf c t [GFail], `\+ C` is GIf c [GFail] [], as the
   compiler rewrites them), with the semantics of the repaired compiler (reference: Sem/RefSem.v):
   - the search is in continuation style as the compiler's rewriting is: `(A ; B), R` runs A,R then B,R;
     `(C -> T ; E), R` runs C and, at its FIRST answer, T,R - else E,R; the rest of the body runs INSIDE
     the loops of the goals before it, so every loop that a cut or a commit leaves was suspended;
   - a cut runs the rest of the body (and of the callers' bodies) and then ends every loop of its clause
     and the clause loop of its predicate (tryclauses); it is not propagated to the caller; a cut inside
     a condition (or under \+) ends only the loops of the condition; the else branch is then tried;
   - how a run ended is a flag `option nat`: None = exhausted; Some j = the j-th enclosing frame (and with
     it every frame inside) is being left (frames: clause bodies, opened by tryclauses and ended by the
     marker GPop; conditions - two frames each: the condition proper, which a cut of its own leaves, and
     the if-then-else, which the marker GCommit leaves after the then branch); every loop stops at a flag;
   - the database, the Answer identities and the allocation counter are threaded through ALL of it: what
     a discarded branch (the goals before a cut, a condition, the goal of a \+) has written stays.
   Not modelled here: call/N, findall (C09); a program is a list of clauses (name, number of variables,
   head arguments, list of goals).  GPop / GCommit never occur in a source program (DbProgCut.src_prog; the
   safety theorems of DbProgThms / DbProgInv / DbProgSim hold for every list of goals, markers or not; DbProgCut.v
   proves, for source programs, that a query ends with flag None: a cut is not propagated to the caller).

   The result of [solve] carries, besides the answers (the stores at the solutions, in order), the
   trace of the atomic database updates in the order in which they happened, in the vocabulary of the
   cursor machine (DbCursor.out: OIns / ORet / ORAll, and OAns for every fact a goal matched). *)
From Coq Require Import List Arith Bool Lia ZArith.
Import ListNotations.
From YP Require Import Base.Str Term.Term Term.Fast Unify.Unify Unify.Fast Engine.Db Engine.DbCursor Engine.DbFacts.
Set Implicit Arguments.

(* evaluation-friendly versions of Answer.__init__ / Answer.match (den is exponential when evaluated):
   the same functions, see the _eq lemmas; the model below runs these *)
Definition copy_args_fast (s : store) (values : list term) (n : nat) : list term * nat :=
  let r := ren_list (map (den_fast s) values) ([], n) in (fst r, snd (snd r)).
Definition answer_init_fast := copy_args_fast.
Definition answer_match_fast (fuel : nat) (s : store) (n : nat) (goal stored : list term) : ures * nat :=
  let (cs, n') := copy_args_fast s stored n in (unify_arrays_fast fuel s goal cs, n').

Lemma copy_args_fast_eq s values n : copy_args_fast s values n = copy_args s values n.
Proof. unfold copy_args_fast, copy_args. rewrite (map_ext _ _ (den_fast_eq s)). reflexivity. Qed.
Lemma answer_init_fast_eq s n values : answer_init_fast s values n = answer_init s n values.
Proof. apply copy_args_fast_eq. Qed.
Lemma answer_match_fast_eq fuel s n goal stored : answer_match_fast fuel s n goal stored = answer_match fuel s n goal stored.
Proof.
  unfold answer_match_fast, answer_match. rewrite copy_args_fast_eq. destruct (copy_args s stored n).
  rewrite unify_arrays_fast_eq. reflexivity.
Qed.

Inductive goal :=
| GUnify (a b : term)                      (* A = B *)
| GCall (name : str) (args : list term)    (* name(args): dynamic facts, then compiled clauses *)
| GAssert (front : bool) (t : term)        (* asserta(T) / assertz(T) *)
| GRetract (t : term)
| GRetractAll (t : term)
| GFail                                    (* fail *)
| GCut                                     (* ! *)
| GOr (a b : list goal)                    (* ( A ; B ) *)
| GIf (c t e : list goal)                  (* ( C -> T ; E ) *)
| GPop                                     (* marker: end of a clause body *)
| GCommit.                                 (* marker: end of a condition ($CUTIF) *)

Definition GNot (c : list goal) : goal := GIf c [GFail] [].          (* \+ C  =>  ( C -> fail ; true ) *)
Definition GIfThen (c t : list goal) : goal := GIf c t [GFail].      (* ( C -> T )  =>  ( C -> T ; fail ) *)

Section GoalInd.
  Variable P : goal -> Prop.
  Hypothesis Hu : forall a b, P (GUnify a b).
  Hypothesis Hc : forall n args, P (GCall n args).
  Hypothesis Ha : forall fr t, P (GAssert fr t).
  Hypothesis Hr : forall t, P (GRetract t).
  Hypothesis Hra : forall t, P (GRetractAll t).
  Hypothesis Hf : P GFail.
  Hypothesis Hcut : P GCut.
  Hypothesis Hor : forall a b, Forall P a -> Forall P b -> P (GOr a b).
  Hypothesis Hif : forall c t e, Forall P c -> Forall P t -> Forall P e -> P (GIf c t e).
  Hypothesis Hpop : P GPop.
  Hypothesis Hcommit : P GCommit.
  Fixpoint goal_ind' (g : goal) : P g :=
    let go := fix go (l : list goal) : Forall P l :=
      match l with [] => Forall_nil P | x :: r => Forall_cons x (goal_ind' x) (go r) end in
    match g with
    | GUnify a b => Hu a b | GCall n args => Hc n args | GAssert fr t => Ha fr t
    | GRetract t => Hr t | GRetractAll t => Hra t | GFail => Hf | GCut => Hcut
    | GOr a b => Hor (go a) (go b)
    | GIf c t e => Hif (go c) (go t) (go e)
    | GPop => Hpop | GCommit => Hcommit
    end.
End GoalInd.

Record clause := mkcl { cname : str; cnv : nat; chead : list term; cbody : list goal }.
Definition program := list clause.

(* the variables of a clause are 0 .. cnv-1; an activation at allocation counter k uses cells k .. k+cnv-1 *)
Fixpoint shift (k : nat) (t : term) : term :=
  match t with
  | TVar v => TVar (k + v)
  | TFun f args => TFun f (map (shift k) args)
  | _ => t
  end.
Fixpoint shift_goal (k : nat) (g : goal) : goal :=
  match g with
  | GUnify a b => GUnify (shift k a) (shift k b)
  | GCall n args => GCall n (map (shift k) args)
  | GAssert fr t => GAssert fr (shift k t)
  | GRetract t => GRetract (shift k t)
  | GRetractAll t => GRetractAll (shift k t)
  | GOr a b => GOr (map (shift_goal k) a) (map (shift_goal k) b)
  | GIf c t e => GIf (map (shift_goal k) c) (map (shift_goal k) t) (map (shift_goal k) e)
  | GFail | GCut | GPop | GCommit => g
  end.

Definition clauses_of (p : program) (name : str) (ar : nat) : list clause :=
  filter (fun c => str_eqb (cname c) name && Nat.eqb (length (chead c)) ar) p.

(* global state: fact store, next Answer identity, allocation counter of Variable cells *)
(* gw: work budget (every activation of the search consumes one unit; 0 = give up: the model returns
   None, like an exhausted fuel) *)
Record glob := mkg { gdb : db; gid : nat; gn : nat; gw : nat }.
Definition set_n (g : glob) (n : nat) : glob := mkg (gdb g) (gid g) n (gw g).

(* how a run ended: None = the alternatives are exhausted; Some j = frame j (counted outwards from the
   innermost one) is being left *)
Definition cutflag := option nat.
Definition res := option (glob * list store * list out * cutflag).

(* x, and - unless x ended with a flag that [lv] turns into a stop - then f from the global state x left.
   lv c = None: go on with f; lv c = Some c': stop, the flag becomes c' *)
Definition alt (lv : cutflag -> option cutflag) (x : res) (f : glob -> res) : res :=
  match x with
  | None => None
  | Some (g1, a1, t1, c1) =>
      match lv c1 with
      | Some c' => Some (g1, a1, t1, c')
      | None => match f g1 with None => None | Some (g2, a2, t2, c2) => Some (g2, a1 ++ a2, t1 ++ t2, c2) end
      end
  end.

(* a loop inside a frame: any flag stops it and is passed on *)
Definition lv_loop (c : cutflag) : option cutflag := match c with None => None | Some j => Some (Some j) end.
(* the clause loop of a predicate: the frame of the clause body is frame 0 *)
Definition lv_clause (c : cutflag) : option cutflag :=
  match c with None => None | Some 0 => Some None | Some (S j) => Some (Some j) end.
(* if-then-else: frame 0 = the condition (left by a cut of its own: the else branch is tried), frame 1 = the
   if-then-else (left by GCommit after the then branch: the else branch is skipped) *)
Definition lv_if (c : cutflag) : option cutflag :=
  match c with None | Some 0 => None | Some 1 => Some None | Some (S (S j)) => Some (Some j) end.

Definition bindr := alt lv_loop.

Definition tag (o : out) (x : res) : res :=
  match x with None => None | Some (g1, a1, t1, c1) => Some (g1, a1, o :: t1, c1) end.
Definition mapflag (f : cutflag -> cutflag) (x : res) : res :=
  match x with None => None | Some (g1, a1, t1, c1) => Some (g1, a1, t1, f c1) end.

Definition fl_cut (c : cutflag) : cutflag := Some (match c with None => 0 | Some j => j end).
Definition fl_pop (c : cutflag) : cutflag := match c with None => None | Some j => Some (S j) end.
Definition fl_commit (c : cutflag) : cutflag := Some (match c with None => 1 | Some j => S (S j) end).

(* retractall: one pass; the facts that stay, the identities of the others, the allocation counter *)
Fixpoint rallh (uf : nat) (s : store) (args : list term) (l : list fact) (n : nat) : option (list fact * list nat * nat) :=
  match l with
  | [] => Some ([], [], n)
  | f :: r =>
      match answer_match_fast uf s n args (fargs f) with
      | (UOk _, n1) => match rallh uf s args r n1 with Some (keep, gone, n2) => Some (keep, fid f :: gone, n2) | None => None end
      | (UFail, n1) => match rallh uf s args r n1 with Some (keep, gone, n2) => Some (f :: keep, gone, n2) | None => None end
      | _ => None
      end
  end.

Section Loops.
  Variable uf : nat.                                         (* fuel of one unification *)
  Variable rec : list goal -> store -> glob -> res.          (* the search one level down *)

  (* _match_all_clauses over the snapshot l, the rest of the body r being run at every match *)
  Fixpoint scanq (args : list term) (r : list goal) (s : store) (l : list fact) (g : glob) : res :=
    match l with
    | [] => Some (g, [], [], None)
    | f :: l' =>
        match answer_match_fast uf s (gn g) args (fargs f) with
        | (UOk s', n1) =>
            bindr (tag (OAns (fid f) (map (den_fast s') args)) (rec r s' (set_n g n1))) (scanq args r s l')
        | (UFail, n1) => scanq args r s l' (set_n g n1)
        | _ => None
        end
    end.

  (* YP.retract over the snapshot l *)
  Fixpoint scanr (k : key) (args : list term) (r : list goal) (s : store) (l : list fact) (g : glob) : res :=
    match l with
    | [] => Some (g, [], [], None)
    | f :: l' =>
        match answer_match_fast uf s (gn g) args (fargs f) with
        | (UOk s', n1) =>
            if has_id (fid f) (gdb g k) then
              bindr (tag (ORet k (fid f) (map (den_fast s') args))
                         (rec r s' (mkg (upd k (del_id (fid f) (gdb g k)) (gdb g)) (gid g) n1 (gw g))))
                    (scanr k args r s l')
            else scanr k args r s l' (set_n g n1)
        | (UFail, n1) => scanr k args r s l' (set_n g n1)
        | _ => None
        end
    end.

  (* the compiled function: its clauses in order; the body of a clause is a frame of its own, closed by GPop:
     a cut in it ends this loop and goes no further *)
  Fixpoint tryclauses (args : list term) (r : list goal) (s : store) (cls : list clause) (g : glob) : res :=
    match cls with
    | [] => Some (g, [], [], None)
    | c :: cs =>
        let k := gn g in
        let g0 := set_n g (k + cnv c) in
        match unify_arrays_fast uf s args (map (shift k) (chead c)) with
        | UOk s' => alt lv_clause (rec (map (shift_goal k) (cbody c) ++ GPop :: r) s' g0) (tryclauses args r s cs)
        | UFail => tryclauses args r s cs g0
        | _ => None
        end
    end.
End Loops.

Section Solve.
  Variable uf : nat.
  Variable prog : program.

  Fixpoint solve (n : nat) (gs : list goal) (s : store) (g : glob) {struct n} : res :=
    match n, gw g with
    | O, _ | _, O => None
    | S n', S w =>
        let g := mkg (gdb g) (gid g) (gn g) w in
        match gs with
        | [] => Some (g, [s], [], None)
        | GUnify a b :: r =>
            match unify_fast uf s a b with
            | UOk s' => solve n' r s' g
            | UFail => Some (g, [], [], None)
            | _ => None
            end
        | GCall name args :: r =>
            bindr (scanq uf (solve n') args r s (gdb g (name, length args)) g)
                  (tryclauses uf (solve n') args r s (clauses_of prog name (length args)))
        | GAssert front t :: r =>
            match callable (den_fast s t) with
            | None => solve n' r s g
            | Some (name, args) =>
                let (stored, n1) := answer_init_fast s args (gn g) in
                let k := (name, length args) in
                let f := mkfact (gid g) stored in
                tag (OIns k front f) (solve n' r s (mkg (upd k (ins front f (gdb g k)) (gdb g)) (S (gid g)) n1 (gw g)))
            end
        | GRetract t :: r =>
            match callable (den_fast s t) with
            | None => Some (g, [], [], None)
            | Some (name, args) => scanr uf (solve n') (name, length args) args r s (gdb g (name, length args)) g
            end
        | GRetractAll t :: r =>
            match callable (den_fast s t) with
            | None => Some (g, [], [], None)
            | Some (name, args) =>
                let k := (name, length args) in
                match rallh uf s args (gdb g k) (gn g) with
                | None => None
                | Some (keep, gone, n1) => tag (ORAll k gone) (solve n' r s (mkg (upd k keep (gdb g)) (gid g) n1 (gw g)))
                end
            end
        | GFail :: _ => Some (g, [], [], None)
        | GCut :: r => mapflag fl_cut (solve n' r s g)
        | GOr a b :: r => bindr (solve n' (a ++ r) s g) (solve n' (b ++ r) s)
        | GIf c t e :: r => alt lv_if (solve n' (c ++ GCommit :: t ++ r) s g) (solve n' (e ++ r) s)
        | GPop :: r => mapflag fl_pop (solve n' r s g)
        | GCommit :: r => mapflag fl_commit (solve n' r s g)
        end
    end.
End Solve.

Definition ginit (nvars work : nat) : glob := mkg empty_db 0 nvars work.
