(* The scope of a cut in DbProg.v: which flag a run can end with.

   A run of DbProg.solve ends with a flag (None: exhausted; Some j: frame j is being left).  [may gs fl] reads off
   the goals still to run which flags are possible: a cut leaves frame 0 or passes on what the rest of the body
   says; the end of a clause body (GPop) shifts the frames of the rest by one, the end of a condition (GCommit) by
   two and leaves frame 1 itself; a disjunction / an if-then-else passes on what its branches (continued by the
   rest) say - an if-then-else consuming the two frames of its condition; a call, =, assert, retract, retractall
   pass on what the rest says - in particular NOTHING of what happens inside the called predicate.

   solve_may: every run of every program whose clause bodies are source bodies (no markers) obeys it.
   Consequences: a query (a call with nothing behind it) ends with None - a cut is never propagated to the caller
   (call_ends_normally); a body without markers ends with None or Some 0 (source_body_flag). *)
From Coq Require Import List Arith Bool Lia ZArith.
Import ListNotations.
From YP Require Import Base.Str Term.Term Term.Fast Unify.Unify Unify.Fast Engine.Db Engine.DbCursor Engine.DbFacts Engine.DbProg.
Set Implicit Arguments.

Fixpoint src (gl : goal) : bool :=
  match gl with
  | GPop | GCommit => false
  | GOr a b => forallb src a && forallb src b
  | GIf c t e => forallb src c && forallb src t && forallb src e
  | _ => true
  end.
Definition src_prog (p : program) : Prop := forall c, In c p -> forallb src (cbody c) = true.

Definition simple (gl : goal) : bool :=
  match gl with GUnify _ _ | GCall _ _ | GAssert _ _ | GRetract _ | GRetractAll _ => true | _ => false end.

Inductive may : list goal -> cutflag -> Prop :=
| may_none gs : may gs None
| may_cut0 r : may (GCut :: r) (Some 0)
| may_cut r j : may r (Some j) -> may (GCut :: r) (Some j)
| may_pop r j : may r (Some j) -> may (GPop :: r) (Some (S j))
| may_commit1 r : may (GCommit :: r) (Some 1)
| may_commit r j : may r (Some j) -> may (GCommit :: r) (Some (S (S j)))
| may_or_l a b r j : may (a ++ r) (Some j) -> may (GOr a b :: r) (Some j)
| may_or_r a b r j : may (b ++ r) (Some j) -> may (GOr a b :: r) (Some j)
| may_if_c c t e r j : may (c ++ GCommit :: t ++ r) (Some (S (S j))) -> may (GIf c t e :: r) (Some j)
| may_if_e c t e r j : may (e ++ r) (Some j) -> may (GIf c t e :: r) (Some j)
| may_skip x r j : simple x = true -> may r (Some j) -> may (x :: r) (Some j).

(* goals still to run: source goals and, at top level, markers *)
Definition pok (x : goal) : Prop := src x = true \/ x = GPop \/ x = GCommit.
Definition wt (x : goal) : nat := match x with GPop => 1 | GCommit => 2 | _ => 0 end.
Fixpoint weight (l : list goal) : nat := match l with [] => 0 | x :: r => wt x + weight r end.

Lemma weight_app a b : weight (a ++ b) = weight a + weight b.
Proof. induction a as [|x a IH]; simpl; auto. rewrite IH. lia. Qed.

Lemma src_wt x : src x = true -> wt x = 0.
Proof. destruct x; simpl; auto; discriminate. Qed.

Lemma srcl_weight l : forallb src l = true -> weight l = 0.
Proof.
  induction l as [|x l IH]; simpl; auto. intros H. apply andb_true_iff in H as [A B]. rewrite (src_wt _ A), IH; auto.
Qed.

Lemma srcl_pok l : forallb src l = true -> Forall pok l.
Proof. intros H. apply Forall_forall. intros x Hx. left. rewrite forallb_forall in H. auto. Qed.

(* what comes out of the frames in front of a GPop is what the rest behind it said *)
Lemma peel : forall gs fl, may gs fl -> forall pre r i, gs = pre ++ GPop :: r -> fl = Some i -> Forall pok pre ->
  weight pre + 1 <= i -> may r (Some (i - weight pre - 1)).
Proof.
  induction 1 as [gs|r0|r0 j M IH|r0 j M IH|r0|r0 j M IH|a b r0 j M IH|a b r0 j M IH|c t e r0 j M IH|c t e r0 j M IH|x r0 j Sx M IH];
    intros pre r i E F OK L.
  - discriminate.
  - (* cut, frame 0 *) inversion F; subst i. lia.
  - (* cut, passes on *) inversion F; subst i. destruct pre as [|y pre]; simpl in E; inversion E; subst.
    inversion OK as [|? ? Oy Opre]; subst. simpl in L.
    replace (j - weight (GCut :: pre) - 1) with (j - weight pre - 1) by (simpl; lia).
    eapply IH; eauto.
  - (* GPop *) inversion F; subst i. destruct pre as [|y pre]; simpl in E; inversion E; subst.
    + simpl. replace (j - 0) with j by lia. exact M.
    + inversion OK as [|? ? Oy Opre]; subst. simpl in L.
      replace (S j - weight (GPop :: pre) - 1) with (j - weight pre - 1) by (simpl; lia).
      eapply IH; eauto. lia.
  - (* commit, frame 1 *) inversion F; subst i. destruct pre as [|y pre]; simpl in E; inversion E; subst. simpl in L. lia.
  - (* commit, passes on *) inversion F; subst i. destruct pre as [|y pre]; simpl in E; inversion E; subst.
    inversion OK as [|? ? Oy Opre]; subst. simpl in L.
    replace (S (S j) - weight (GCommit :: pre) - 1) with (j - weight pre - 1) by (simpl; lia).
    eapply IH; eauto. lia.
  - inversion F; subst i. destruct pre as [|y pre]; simpl in E; inversion E; subst.
    inversion OK as [|? ? Oy Opre]; subst. simpl in L.
    destruct Oy as [Oy|[Oy|Oy]]; try discriminate. simpl in Oy. apply andb_true_iff in Oy as [Sa Sb].
    replace (j - weight (GOr a b :: pre) - 1) with (j - weight (a ++ pre) - 1) by (simpl; rewrite weight_app, (srcl_weight _ Sa); lia).
    eapply IH; [rewrite <- app_assoc; reflexivity|reflexivity| |].
    + apply Forall_app. split; [apply srcl_pok; exact Sa|exact Opre].
    + rewrite weight_app, (srcl_weight _ Sa). lia.
  - inversion F; subst i. destruct pre as [|y pre]; simpl in E; inversion E; subst.
    inversion OK as [|? ? Oy Opre]; subst. simpl in L.
    destruct Oy as [Oy|[Oy|Oy]]; try discriminate. simpl in Oy. apply andb_true_iff in Oy as [Sa Sb].
    replace (j - weight (GOr a b :: pre) - 1) with (j - weight (b ++ pre) - 1) by (simpl; rewrite weight_app, (srcl_weight _ Sb); lia).
    eapply IH; [rewrite <- app_assoc; reflexivity|reflexivity| |].
    + apply Forall_app. split; [apply srcl_pok; exact Sb|exact Opre].
    + rewrite weight_app, (srcl_weight _ Sb). lia.
  - inversion F; subst i. destruct pre as [|y pre]; simpl in E; inversion E; subst.
    inversion OK as [|? ? Oy Opre]; subst. simpl in L.
    destruct Oy as [Oy|[Oy|Oy]]; try discriminate. simpl in Oy. apply andb_true_iff in Oy as [Sct Se]. apply andb_true_iff in Sct as [Sc St].
    assert (W: weight (c ++ GCommit :: t ++ pre) = 2 + weight pre).
    { rewrite weight_app. simpl. rewrite weight_app, (srcl_weight _ Sc), (srcl_weight _ St). lia. }
    replace (j - weight (GIf c t e :: pre) - 1) with (S (S j) - weight (c ++ GCommit :: t ++ pre) - 1) by (rewrite W; simpl; lia).
    eapply IH; [|reflexivity| |].
    + rewrite <- app_assoc. simpl. rewrite <- app_assoc. reflexivity.
    + apply Forall_app. split; [apply srcl_pok; exact Sc|]. constructor; [right; right; reflexivity|].
      apply Forall_app. split; [apply srcl_pok; exact St|exact Opre].
    + rewrite W. lia.
  - inversion F; subst i. destruct pre as [|y pre]; simpl in E; inversion E; subst.
    inversion OK as [|? ? Oy Opre]; subst. simpl in L.
    destruct Oy as [Oy|[Oy|Oy]]; try discriminate. simpl in Oy. apply andb_true_iff in Oy as [Sct Se].
    replace (j - weight (GIf c t e :: pre) - 1) with (j - weight (e ++ pre) - 1) by (simpl; rewrite weight_app, (srcl_weight _ Se); lia).
    eapply IH; [rewrite <- app_assoc; reflexivity|reflexivity| |].
    + apply Forall_app. split; [apply srcl_pok; exact Se|exact Opre].
    + rewrite weight_app, (srcl_weight _ Se). lia.
  - inversion F; subst i. destruct pre as [|y pre]; simpl in E; inversion E; subst.
    + simpl in Sx. discriminate.
    + inversion OK as [|? ? Oy Opre]; subst. simpl in L.
      assert (Wy: wt y = 0) by (destruct y; simpl in Sx; try discriminate; reflexivity).
      replace (j - weight (y :: pre) - 1) with (j - weight pre - 1) by (simpl; rewrite Wy; lia).
      eapply IH; eauto. rewrite Wy in L. lia.
Qed.

(* a flag never names a frame that is not there *)
Lemma may_bound : forall gs fl, may gs fl -> forall i, fl = Some i -> Forall pok gs -> i <= weight gs.
Proof.
  induction 1 as [gs|r0|r0 j M IH|r0 j M IH|r0|r0 j M IH|a b r0 j M IH|a b r0 j M IH|c t e r0 j M IH|c t e r0 j M IH|x r0 j Sx M IH];
    intros i F OK; try discriminate; inversion F; subst i; clear F; inversion OK as [|? ? Oy Or]; subst; simpl.
  - lia.
  - specialize (IH _ eq_refl Or). lia.
  - specialize (IH _ eq_refl Or). lia.
  - lia.
  - specialize (IH _ eq_refl Or). lia.
  - destruct Oy as [Oy|[Oy|Oy]]; try discriminate. simpl in Oy. apply andb_true_iff in Oy as [Sa Sb].
    assert (X: Forall pok (a ++ r0)) by (apply Forall_app; split; [apply srcl_pok; exact Sa|exact Or]).
    specialize (IH _ eq_refl X). rewrite weight_app, (srcl_weight _ Sa) in IH. lia.
  - destruct Oy as [Oy|[Oy|Oy]]; try discriminate. simpl in Oy. apply andb_true_iff in Oy as [Sa Sb].
    assert (X: Forall pok (b ++ r0)) by (apply Forall_app; split; [apply srcl_pok; exact Sb|exact Or]).
    specialize (IH _ eq_refl X). rewrite weight_app, (srcl_weight _ Sb) in IH. lia.
  - destruct Oy as [Oy|[Oy|Oy]]; try discriminate. simpl in Oy. apply andb_true_iff in Oy as [Sct Se]. apply andb_true_iff in Sct as [Sc St].
    assert (X: Forall pok (c ++ GCommit :: t ++ r0)).
    { apply Forall_app. split; [apply srcl_pok; exact Sc|]. constructor; [right; right; reflexivity|].
      apply Forall_app. split; [apply srcl_pok; exact St|exact Or]. }
    specialize (IH _ eq_refl X). rewrite weight_app in IH. simpl in IH. rewrite weight_app, (srcl_weight _ Sc), (srcl_weight _ St) in IH. lia.
  - destruct Oy as [Oy|[Oy|Oy]]; try discriminate. simpl in Oy. apply andb_true_iff in Oy as [Sct Se].
    assert (X: Forall pok (e ++ r0)) by (apply Forall_app; split; [apply srcl_pok; exact Se|exact Or]).
    specialize (IH _ eq_refl X). rewrite weight_app, (srcl_weight _ Se) in IH. lia.
  - specialize (IH _ eq_refl Or). lia.
Qed.

Lemma src_shift k gl : src (shift_goal k gl) = src gl.
Proof.
  induction gl as [a b|nm args|fr t|t|t| | |a b IHa IHb|c t e IHc IHt IHe| | ] using goal_ind'; try reflexivity.
  - cbn [shift_goal src]. f_equal.
    + clear IHb. induction IHa as [|x l Hx _ IH]; simpl; auto. rewrite Hx, IH. reflexivity.
    + clear IHa. induction IHb as [|x l Hx _ IH]; simpl; auto. rewrite Hx, IH. reflexivity.
  - cbn [shift_goal src]. f_equal; [f_equal|].
    + clear IHt IHe. induction IHc as [|x l Hx _ IH]; simpl; auto. rewrite Hx, IH. reflexivity.
    + clear IHc IHe. induction IHt as [|x l Hx _ IH]; simpl; auto. rewrite Hx, IH. reflexivity.
    + clear IHc IHt. induction IHe as [|x l Hx _ IH]; simpl; auto. rewrite Hx, IH. reflexivity.
Qed.

Lemma srcl_shift k l : forallb src (map (shift_goal k) l) = forallb src l.
Proof. induction l as [|x l IH]; simpl; auto. rewrite src_shift, IH. reflexivity. Qed.

(* ------------------------------------------------------------------ the loops pass on what their sub-runs say *)
Definition flag_rec (P : cutflag -> Prop) (rec : list goal -> store -> glob -> res) (r : list goal) : Prop :=
  forall s g g' a tr fl, rec r s g = Some (g', a, tr, fl) -> P fl.

Lemma alt_loop_flag (P : cutflag -> Prop) (x : res) (f : glob -> res) g' a tr fl :
  (forall g1 a1 t1 c1, x = Some (g1, a1, t1, c1) -> P c1) ->
  (forall g1 g2 a2 t2 c2, f g1 = Some (g2, a2, t2, c2) -> P c2) ->
  alt lv_loop x f = Some (g', a, tr, fl) -> P fl.
Proof.
  intros Hx Hf H. unfold alt in H. destruct x as [[[[g1 a1] t1] c1]|]; [|discriminate].
  pose proof (Hx _ _ _ _ eq_refl) as P1. destruct c1 as [j|]; simpl in H.
  - inversion H; subst. exact P1.
  - destruct (f g1) as [[[[g2 a2] t2] c2]|] eqn:E; [|discriminate]. inversion H; subst. eapply Hf; eauto.
Qed.

Lemma tag_flag o x g' a tr fl : tag o x = Some (g', a, tr, fl) -> exists t0, x = Some (g', a, t0, fl).
Proof. destruct x as [[[[g1 a1] t1] c1]|]; simpl; intros H; inversion H; subst. eauto. Qed.

Section Loops.
  Variable uf : nat.
  Variable rec : list goal -> store -> glob -> res.
  Variable P : cutflag -> Prop.
  Hypothesis PNone : P None.

  Lemma scanq_flag args r s : flag_rec P rec r -> forall l g g' a tr fl,
    scanq uf rec args r s l g = Some (g', a, tr, fl) -> P fl.
  Proof.
    intros Hr. induction l as [|f l IH]; intros g g' a tr fl H; cbn [scanq] in H.
    - inversion H; subst. exact PNone.
    - destruct (answer_match_fast uf s (gn g) args (fargs f)) as [u n1]. destruct u as [s'| | |]; try discriminate.
      + eapply alt_loop_flag; [| |exact H].
        * intros g1 a1 t1 c1 E. apply tag_flag in E as [t0 E]. eapply Hr; eauto.
        * intros g1 g2 a2 t2 c2 E. eapply IH; eauto.
      + eapply IH; eauto.
  Qed.

  Lemma scanr_flag k args r s : flag_rec P rec r -> forall l g g' a tr fl,
    scanr uf rec k args r s l g = Some (g', a, tr, fl) -> P fl.
  Proof.
    intros Hr. induction l as [|f l IH]; intros g g' a tr fl H; cbn [scanr] in H.
    - inversion H; subst. exact PNone.
    - destruct (answer_match_fast uf s (gn g) args (fargs f)) as [u n1]. destruct u as [s'| | |]; try discriminate.
      + destruct (has_id (fid f) (gdb g k)).
        * eapply alt_loop_flag; [| |exact H].
          -- intros g1 a1 t1 c1 E. apply tag_flag in E as [t0 E]. eapply Hr; eauto.
          -- intros g1 g2 a2 t2 c2 E. eapply IH; eauto.
        * eapply IH; eauto.
      + eapply IH; eauto.
  Qed.
End Loops.

Section Solve.
  Variable uf : nat.
  Variable prog : program.
  Hypothesis Hsrc : src_prog prog.

  Lemma clauses_of_src name ar c : In c (clauses_of prog name ar) -> forallb src (cbody c) = true.
  Proof. intros H. unfold clauses_of in H. apply filter_In in H as [H _]. apply Hsrc. exact H. Qed.

  (* the clause loop: flag 0 of a clause body is consumed; a flag from further out came from the rest r *)
  Lemma tryclauses_flag n args r s : Forall pok r ->
    (forall gs s g g' a tr fl, Forall pok gs -> solve uf prog n gs s g = Some (g', a, tr, fl) -> may gs fl) ->
    forall cls, (forall c, In c cls -> forallb src (cbody c) = true) -> forall g g' a tr fl,
    tryclauses uf (solve uf prog n) args r s cls g = Some (g', a, tr, fl) -> may r fl.
  Proof.
    intros Or IHn. induction cls as [|c cs IH]; intros Hc g g' a tr fl H; cbn [tryclauses] in H.
    - inversion H; subst. constructor.
    - destruct (unify_arrays_fast uf s args (map (shift (gn g)) (chead c))) as [s'| | |]; try discriminate.
      + unfold alt in H.
        destruct (solve uf prog n (map (shift_goal (gn g)) (cbody c) ++ GPop :: r) s' (set_n g (gn g + cnv c))) as [[[[g1 a1] t1] c1]|] eqn:E; [|discriminate].
        assert (Sb: forallb src (map (shift_goal (gn g)) (cbody c)) = true) by (rewrite srcl_shift; apply Hc; left; reflexivity).
        assert (M: may (map (shift_goal (gn g)) (cbody c) ++ GPop :: r) c1).
        { eapply IHn; [|exact E]. apply Forall_app. split; [apply srcl_pok; exact Sb|]. constructor; [right; left; reflexivity|exact Or]. }
        destruct c1 as [[|j]|]; simpl in H.
        * inversion H; subst. constructor.
        * inversion H; subst.
          pose proof (@peel _ _ M _ _ (S j) eq_refl eq_refl (srcl_pok _ Sb)) as X.
          rewrite (srcl_weight _ Sb) in X. simpl in X. replace (j - 0) with j in X by lia. apply X. lia.
        * destruct (tryclauses uf (solve uf prog n) args r s cs g1) as [[[[g2 a2] t2] c2]|] eqn:E2; [|discriminate].
          inversion H; subst. eapply IH; [|exact E2]. intros c0 Hc0. apply Hc. right. exact Hc0.
      + eapply IH; [|exact H]. intros c0 Hc0. apply Hc. right. exact Hc0.
  Qed.

  Lemma mapflag_flag f x g' a tr fl : mapflag f x = Some (g', a, tr, fl) -> exists c0, x = Some (g', a, tr, c0) /\ fl = f c0.
  Proof. destruct x as [[[[g1 a1] t1] c1]|]; simpl; intros H; inversion H; subst. eauto. Qed.

  Theorem solve_may : forall n gs s g g' a tr fl, Forall pok gs -> solve uf prog n gs s g = Some (g', a, tr, fl) -> may gs fl.
  Proof.
    induction n as [|n IH]; intros gs s g g' a tr fl OK H; [discriminate|].
    destruct fl as [j|]; [|constructor].
    cbn [solve] in H. destruct (gw g) as [|w]; [discriminate|].
    set (gt := mkg (gdb g) (gid g) (gn g) w) in *. clearbody gt. clear g. rename gt into g.
    destruct gs as [|[x y|name args|front t|t|t| | |ga gb|gc gt ge| | ] r]; try (inversion OK as [|? ? Ox Or]; subst).
    - inversion H.
    - destruct (unify_fast uf s x y) as [s'| | |]; try discriminate.
      apply may_skip; [reflexivity|]. eapply IH; eauto.
    - apply may_skip; [reflexivity|].
      eapply (@alt_loop_flag (may r)); [| |exact H].
      + intros g1 a1 t1 c1 E. eapply (@scanq_flag uf (solve uf prog n) (may r)); [constructor| |exact E].
        intros s0 g0 g0' a0 tr0 fl0 E0. eapply IH; eauto.
      + intros g1 g2 a2 t2 c2 E. eapply tryclauses_flag; [exact Or|exact IH| |exact E].
        intros c Hc. eapply clauses_of_src; eauto.
    - apply may_skip; [reflexivity|].
      destruct (callable (den_fast s t)) as [[name args]|]; [|eapply IH; eauto].
      destruct (answer_init_fast s args (gn g)) as [stored n1]. apply tag_flag in H as [t0 E]. eapply IH; eauto.
    - apply may_skip; [reflexivity|].
      destruct (callable (den_fast s t)) as [[name args]|]; [|discriminate].
      eapply (@scanr_flag uf (solve uf prog n) (may r)); [constructor| |exact H].
      intros s0 g0 g0' a0 tr0 fl0 E0. eapply IH; eauto.
    - apply may_skip; [reflexivity|].
      destruct (callable (den_fast s t)) as [[name args]|]; [|discriminate].
      destruct (rallh uf s args (gdb g (name, length args)) (gn g)) as [[[keep gone] n1]|]; [|discriminate].
      apply tag_flag in H as [t0 E]. eapply IH; eauto.
    - discriminate.
    - apply mapflag_flag in H as [c0 [E F]]. destruct c0 as [i|]; simpl in F; inversion F; subst.
      + apply may_cut. eapply IH; eauto.
      + apply may_cut0.
    - destruct Ox as [Ox|[Ox|Ox]]; try discriminate. simpl in Ox. apply andb_true_iff in Ox as [Sa Sb].
      unfold bindr, alt in H. destruct (solve uf prog n (ga ++ r) s g) as [[[[g1 a1] t1] c1]|] eqn:E; [|discriminate].
      destruct c1 as [i|]; simpl in H.
      + inversion H; subst. apply may_or_l. eapply IH; [|exact E]. apply Forall_app. split; [apply srcl_pok; exact Sa|exact Or].
      + destruct (solve uf prog n (gb ++ r) s g1) as [[[[g2 a2] t2] c2]|] eqn:E2; [|discriminate]. inversion H; subst.
        apply may_or_r. eapply IH; [|exact E2]. apply Forall_app. split; [apply srcl_pok; exact Sb|exact Or].
    - destruct Ox as [Ox|[Ox|Ox]]; try discriminate. simpl in Ox. apply andb_true_iff in Ox as [Sct Se]. apply andb_true_iff in Sct as [Sc St].
      unfold alt in H. destruct (solve uf prog n (gc ++ GCommit :: gt ++ r) s g) as [[[[g1 a1] t1] c1]|] eqn:E; [|discriminate].
      assert (M: may (gc ++ GCommit :: gt ++ r) c1).
      { eapply IH; [|exact E]. apply Forall_app. split; [apply srcl_pok; exact Sc|]. constructor; [right; right; reflexivity|].
        apply Forall_app. split; [apply srcl_pok; exact St|exact Or]. }
      assert (Else: forall g0 g2 a2 t2, solve uf prog n (ge ++ r) s g0 = Some (g2, a2, t2, Some j) -> may (GIf gc gt ge :: r) (Some j)).
      { intros g0 g2 a2 t2 E2. apply may_if_e. eapply IH; [|exact E2]. apply Forall_app. split; [apply srcl_pok; exact Se|exact Or]. }
      destruct c1 as [[|[|i]]|]; simpl in H.
      + destruct (solve uf prog n (ge ++ r) s g1) as [[[[g2 a2] t2] c2]|] eqn:E2; [|discriminate]. inversion H; subst.
        eapply Else. exact E2.
      + inversion H.
      + inversion H; subst. apply may_if_c. exact M.
      + destruct (solve uf prog n (ge ++ r) s g1) as [[[[g2 a2] t2] c2]|] eqn:E2; [|discriminate]. inversion H; subst.
        eapply Else. exact E2.
    - apply mapflag_flag in H as [c0 [E F]]. destruct c0 as [i|]; simpl in F; inversion F; subst.
      apply may_pop. eapply IH; eauto.
    - apply mapflag_flag in H as [c0 [E F]]. destruct c0 as [i|]; simpl in F; inversion F; subst.
      + apply may_commit. eapply IH; eauto.
      + apply may_commit1.
  Qed.

  (* a cut is never propagated to the caller: a call with nothing behind it - a query - ends normally, whatever
     the clauses of the predicate (and of the predicates they call) do *)
  Theorem call_ends_normally n name args s g g' a tr fl :
    solve uf prog n [GCall name args] s g = Some (g', a, tr, fl) -> fl = None.
  Proof.
    intros H. assert (M: may [GCall name args] fl).
    { eapply solve_may; [|exact H]. constructor; [left; reflexivity|constructor]. }
    inversion M; subst; auto.
    match goal with X : may [] (Some _) |- _ => inversion X end.
  Qed.

  (* a body without markers ends exhausted (None) or cut (Some 0): there is no other frame *)
  Theorem source_body_flag n gs s g g' a tr fl : forallb src gs = true ->
    solve uf prog n gs s g = Some (g', a, tr, fl) -> fl = None \/ fl = Some 0.
  Proof.
    intros S H. destruct fl as [j|]; [right|left; reflexivity].
    pose proof (@solve_may n gs s g g' a tr (Some j) (srcl_pok _ S) H) as M.
    pose proof (@may_bound _ _ M j eq_refl (srcl_pok _ S)) as B. rewrite (srcl_weight _ S) in B.
    f_equal. lia.
  Qed.
End Solve.
