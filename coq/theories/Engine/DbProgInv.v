(* C13 for database operations issued FROM COMPILED CODE (DbProg.v): the cells of stored facts are never
   bound, over all runs of all programs - goals on dynamic facts and on compiled predicates, =, asserta /
   assertz / retract / retractall, goals suspended inside each other to any depth.

   As in DbHeapThms.v the cells are partitioned by a ghost set F ("allocated by Answer.__init__").
   Invariant of a configuration (goals still to run, bindings, global state, suspended goals):
   every binding binds an existing cell outside F to a value over such cells; the goals still to run and
   the arguments held by suspended goals mention only such cells; every stored fact, and every fact of a
   snapshot held by a suspended goal (it may have been retracted meanwhile), is a term over F; F lies
   below the allocation counter.  F only grows, by cells that are new when they are added.

   Part 1 (big step): a complete run of a body from a configuration that satisfies the invariant ends in
   a global state that satisfies it for a larger F (solve_inv).
   Part 2: the configurations that a run goes through (visits: the activations of the search, in the
   order of the depth-first execution, each with the stack of goals suspended around it) all satisfy it
   (visits_inv); consequences prog_fact_vars_never_bound, prog_uses_see_stored_value. *)
From Coq Require Import List Arith Bool Lia ZArith.
Import ListNotations.
From YP Require Import Base.Str Term.Term Term.Fast Unify.Unify Unify.Fast Engine.Frame Engine.Db Engine.DbCursor
  Engine.DbFacts Engine.DbFactsThms Engine.DbHeap Engine.DbHeapThms Engine.DbProg.
Set Implicit Arguments.

(* ------------------------------------------------------------------ the invariant *)
Definition conj_all (A : Type) (Q : A -> Prop) (l : list A) : Prop := fold_right (fun x acc => Q x /\ acc) True l.
Lemma conj_all_Forall (A : Type) (Q : A -> Prop) l : conj_all Q l <-> Forall Q l.
Proof.
  induction l as [|x r IH]; simpl; split; intros H; auto.
  - destruct H as [H1 H2]. constructor; tauto.
  - inversion H; subst. split; tauto.
Qed.

(* the terms of a goal, of the goals of its branches too, are over cells that satisfy P *)
Fixpoint goal_in (P : nat -> bool) (gl : goal) : Prop :=
  match gl with
  | GUnify a b => tin P a /\ tin P b
  | GCall _ args => lin P args
  | GAssert _ t | GRetract t | GRetractAll t => tin P t
  | GOr a b => conj_all (goal_in P) a /\ conj_all (goal_in P) b
  | GIf c t e => conj_all (goal_in P) c /\ conj_all (goal_in P) t /\ conj_all (goal_in P) e
  | GFail | GCut | GPop | GCommit => True
  end.

Lemma goal_in_or P a b : goal_in P (GOr a b) <-> Forall (goal_in P) a /\ Forall (goal_in P) b.
Proof. cbn [goal_in]. rewrite !conj_all_Forall. tauto. Qed.
Lemma goal_in_if P c t e : goal_in P (GIf c t e) <-> Forall (goal_in P) c /\ Forall (goal_in P) t /\ Forall (goal_in P) e.
Proof. cbn [goal_in]. rewrite !conj_all_Forall. tauto. Qed.

Record ginv (F : nat -> bool) (g : glob) : Prop := mkginv {
  gi_facts : facts_in F (gdb g);
  gi_range : forall w, F w = true -> w < gn g }.

Record cinv (F : nat -> bool) (gs : list goal) (s : store) (g : glob) : Prop := mkcinv {
  ci_g : ginv F g;
  ci_wf : wf s;
  ci_store : good (Pc (gn g) F) s;
  ci_goals : Forall (goal_in (Pc (gn g) F)) gs }.

(* F grows to F' while the allocation counter goes from n to n': only by cells that did not exist *)
Definition grow (F : nat -> bool) (n : nat) (F' : nat -> bool) (n' : nat) : Prop :=
  n <= n' /\ (forall w, F w = true -> F' w = true) /\ (forall w, F' w = true -> F w = true \/ n <= w).

Lemma grow_refl F n : grow F n F n.
Proof. repeat split; auto. Qed.
Lemma grow_n F n n' : n <= n' -> grow F n F n'.
Proof. repeat split; auto. Qed.
Lemma grow_trans F n F1 n1 F2 n2 : grow F n F1 n1 -> grow F1 n1 F2 n2 -> grow F n F2 n2.
Proof.
  intros [A [B C]] [A' [B' C']]. repeat split; [lia|auto|].
  intros w Hw. destruct (C' w Hw) as [X|X]; [destruct (C w X); auto|right; lia].
Qed.

Lemma grow_Pc F n F' n' v : grow F n F' n' -> Pc n F v = true -> Pc n' F' v = true.
Proof.
  intros [A [B C]] H. unfold Pc in *. apply andb_true_iff in H as [X Y]. apply Nat.ltb_lt in X.
  apply negb_true_iff in Y. apply andb_true_iff. split; [apply Nat.ltb_lt; lia|].
  apply negb_true_iff. destruct (F' v) eqn:E; auto. destruct (C v E) as [Z|Z]; [congruence|lia].
Qed.

Lemma Forall_impl_in (A : Type) (Q R : A -> Prop) l : Forall (fun x => Q x -> R x) l -> Forall Q l -> Forall R l.
Proof. induction 1 as [|x r H _ IH]; intros X; inversion X; subst; constructor; auto. Qed.

Lemma goal_in_mono (P Q : nat -> bool) gl : (forall v, P v = true -> Q v = true) -> goal_in P gl -> goal_in Q gl.
Proof.
  intros H. induction gl as [a b|nm args|fr t|t|t| | |a b IHa IHb|c t e IHc IHt IHe| | ] using goal_ind'; try (simpl; tauto).
  - simpl. intros [A B]. split; eapply tin_mono; eauto.
  - simpl. apply lin_mono. exact H.
  - simpl. apply tin_mono. exact H.
  - simpl. apply tin_mono. exact H.
  - simpl. apply tin_mono. exact H.
  - rewrite !goal_in_or. intros [A B]. split; eapply Forall_impl_in; eauto.
  - rewrite !goal_in_if. intros [A [B C]]. repeat split; eapply Forall_impl_in; eauto.
Qed.

Lemma fact_cells_mono (F F' : nat -> bool) f : (forall w, F w = true -> F' w = true) -> fact_cells F f -> fact_cells F' f.
Proof. intros H. apply lin_mono. exact H. Qed.

(* what a suspended goal keeps: its arguments, the rest of its snapshot *)
Definition sframe := (list term * list fact)%type.
Definition sframe_ok (n : nat) (F : nat -> bool) (fr : sframe) : Prop :=
  lin (Pc n F) (fst fr) /\ Forall (fact_cells F) (snd fr).

Lemma sframe_ok_mono F n F' n' fr : grow F n F' n' -> sframe_ok n F fr -> sframe_ok n' F' fr.
Proof.
  intros G [A B]. split.
  - eapply lin_mono; [|exact A]. intros v. apply grow_Pc. exact G.
  - eapply Forall_impl; [|exact B]. intros f. apply fact_cells_mono. apply G.
Qed.

(* the context of a loop: bindings of the caller, arguments of the goal, rest of the body, rest of the snapshot *)
Record ctx (F : nat -> bool) (n : nat) (s : store) (args : list term) (r : list goal) (l : list fact) : Prop := mkctx {
  cx_wf : wf s;
  cx_store : good (Pc n F) s;
  cx_args : lin (Pc n F) args;
  cx_rest : Forall (goal_in (Pc n F)) r;
  cx_snap : Forall (fact_cells F) l }.

Lemma ctx_mono F n F' n' s args r l : grow F n F' n' -> ctx F n s args r l -> ctx F' n' s args r l.
Proof.
  intros G [A B C D E]. pose proof (fun v => @grow_Pc F n F' n' v G) as M. constructor; auto.
  - eapply good_mono; eauto.
  - eapply lin_mono; eauto.
  - eapply Forall_impl; [|exact D]. intros gl. apply goal_in_mono. exact M.
  - eapply Forall_impl; [|exact E]. intros f. apply fact_cells_mono. apply G.
Qed.

Lemma ctx_tail F n s args r f l : ctx F n s args r (f :: l) -> ctx F n s args r l.
Proof. intros [A B C D E]. constructor; auto. inversion E; assumption. Qed.

Lemma ginv_set_n F g n1 : ginv F g -> gn g <= n1 -> ginv F (set_n g n1).
Proof. intros [A B] L. constructor; simpl; auto. intros w Hw. apply B in Hw. lia. Qed.

(* ------------------------------------------------------------------ clauses *)
Definition below (k : nat) : nat -> bool := fun v => v <? k.
Definition clause_ok (c : clause) : Prop :=
  lin (below (cnv c)) (chead c) /\ Forall (goal_in (below (cnv c))) (cbody c).
Definition prog_ok (p : program) : Prop := Forall clause_ok p.

Lemma occurs_shift k t w : occurs w (shift k t) = true -> exists v, w = k + v /\ occurs v t = true.
Proof.
  induction t as [a|z|q|v|f args IH] using term_ind'; simpl; intros H; try discriminate.
  - apply Nat.eqb_eq in H. exists v. split; [lia|apply Nat.eqb_refl].
  - apply existsb_exists in H as [y [Hy Oy]]. apply in_map_iff in Hy as [x [<- Hx]].
    rewrite Forall_forall in IH. destruct (IH x Hx Oy) as [v [E O]]. exists v. split; auto.
    apply existsb_exists. exists x. auto.
Qed.

Lemma tin_shift (P : nat -> bool) m k t : (forall v, v < m -> P (k + v) = true) -> tin (below m) t -> tin P (shift k t).
Proof.
  intros H T w Hw. destruct (occurs_shift _ _ _ Hw) as [v [-> O]]. apply H. apply T in O.
  unfold below in O. apply Nat.ltb_lt in O. exact O.
Qed.

Lemma lin_shift (P : nat -> bool) m k l : (forall v, v < m -> P (k + v) = true) -> lin (below m) l -> lin P (map (shift k) l).
Proof.
  intros H L. apply Forall_forall. intros t Ht. apply in_map_iff in Ht as [x [<- Hx]].
  unfold lin in L. rewrite Forall_forall in L. eapply tin_shift; eauto.
Qed.

Lemma goal_in_shift (P : nat -> bool) m k gl : (forall v, v < m -> P (k + v) = true) -> goal_in (below m) gl -> goal_in P (shift_goal k gl).
Proof.
  intros H. induction gl as [a b|nm args|fr t|t|t| | |a b IHa IHb|c t e IHc IHt IHe| | ] using goal_ind'; try (simpl; tauto).
  - simpl. intros [A B]. split; eapply tin_shift; eauto.
  - simpl. apply lin_shift. exact H.
  - simpl. apply tin_shift. exact H.
  - simpl. apply tin_shift. exact H.
  - simpl. apply tin_shift. exact H.
  - cbn [shift_goal]. rewrite !goal_in_or. intros [A B]. split; apply Forall_map; eapply Forall_impl_in; eauto.
  - cbn [shift_goal]. rewrite !goal_in_if. intros [A [B C]]. repeat split; apply Forall_map; eapply Forall_impl_in; eauto.
Qed.

Lemma new_cells_Pc F n m : (forall w, F w = true -> w < n) -> forall v, v < m -> Pc (n + m) F (n + v) = true.
Proof.
  intros R v L. unfold Pc. apply andb_true_iff. split; [apply Nat.ltb_lt; lia|].
  apply negb_true_iff. destruct (F (n + v)) eqn:E; auto. apply R in E. lia.
Qed.

Lemma clauses_of_ok p name ar : prog_ok p -> Forall clause_ok (clauses_of p name ar).
Proof.
  intros H. apply Forall_forall. intros c Hc. unfold clauses_of in Hc. apply filter_In in Hc as [Hc _].
  unfold prog_ok in H. rewrite Forall_forall in H. auto.
Qed.

(* ------------------------------------------------------------------ one use of a fact *)
Lemma match_step uf F n s args f u n1 :
  (forall w, F w = true -> w < n) -> wf s -> good (Pc n F) s -> lin (Pc n F) args -> fact_cells F f ->
  answer_match_fast uf s n args (fargs f) = (u, n1) ->
  n <= n1 /\ match u with UOk s' => wf s' /\ good (Pc n1 F) s' | _ => True end.
Proof.
  intros R W G La Ff H. rewrite answer_match_fast_eq in H.
  destruct (@match_inv uf F s n args f u n1 G R La Ff H) as [L [_ Po]]. split; [exact L|].
  destruct u as [s'| | |]; auto. destruct Po as [nw [-> Gn]]. split.
  - unfold answer_match in H. destruct (copy_args s (fargs f) n) as [cs n']. inversion H; subst.
    match goal with X : unify_arrays _ _ _ _ = _ |- _ => destruct (unify_arrays_sound _ _ _ W X) as [W' _]; exact W' end.
  - apply good_app; auto. eapply good_mono; [|exact G]. intros v. apply Pc_mono. exact L.
Qed.

(* the arguments of a dereferenced callable term *)
Lemma callable_lin (P : nat -> bool) s t name args : closed P s -> tin P t ->
  callable (den_fast s t) = Some (name, args) -> lin P args.
Proof.
  intros C T H. rewrite den_fast_eq in H. pose proof (den_tin C T) as D.
  destruct (den s t) as [a|z|q|v|f xs]; simpl in H; inversion H; subst.
  - constructor.
  - apply tin_fun in D. exact D.
Qed.

(* ------------------------------------------------------------------ part 1: big step *)
Definition bpost (F : nat -> bool) (g g' : glob) : Prop := exists F', grow F (gn g) F' (gn g') /\ ginv F' g'.

Lemma bpost_refl F g g' : ginv F g' -> gn g <= gn g' -> bpost F g g'.
Proof. intros I L. exists F. split; auto. apply grow_n. exact L. Qed.

Lemma bpost_step F g F1 g1 g' : grow F (gn g) F1 (gn g1) -> bpost F1 g1 g' -> bpost F g g'.
Proof. intros G [F2 [G2 I2]]. exists F2. split; auto. eapply grow_trans; eauto. Qed.

Definition inv_rec (rec : list goal -> store -> glob -> res) : Prop :=
  forall gs s g g' a tr c F, cinv F gs s g -> rec gs s g = Some (g', a, tr, c) -> bpost F g g'.

Lemma mapflag_some fl x g' a tr c : mapflag fl x = Some (g', a, tr, c) -> exists c0, x = Some (g', a, tr, c0).
Proof. destruct x as [[[[g1 a1] t1] c1]|]; simpl; intros H; inversion H; subst. eauto. Qed.
Lemma tag_some o x g' a tr c : tag o x = Some (g', a, tr, c) -> exists t0, tr = o :: t0 /\ x = Some (g', a, t0, c).
Proof. destruct x as [[[[g1 a1] t1] c1]|]; simpl; intros H; inversion H; subst. eauto. Qed.

(* x, then possibly f from the state x left: the second part starts from an invariant for a larger F *)
Lemma alt_inv lv (x : res) (f : glob -> res) F g g' a tr c :
  (forall g1 a1 t1 c1, x = Some (g1, a1, t1, c1) -> bpost F g g1) ->
  (forall F1 g1 g2 a2 t2 c2, grow F (gn g) F1 (gn g1) -> ginv F1 g1 -> f g1 = Some (g2, a2, t2, c2) -> bpost F1 g1 g2) ->
  alt lv x f = Some (g', a, tr, c) -> bpost F g g'.
Proof.
  intros Hx Hf H. unfold alt in H. destruct x as [[[[g1 a1] t1] c1]|]; [|discriminate].
  pose proof (Hx _ _ _ _ eq_refl) as P1.
  destruct (lv c1) as [c'|]; [inversion H; subst; exact P1|].
  destruct (f g1) as [[[[g2 a2] t2] c2]|] eqn:E; [|discriminate]. inversion H; subst; clear H.
  destruct P1 as [F1 [G1 I1]]. eapply bpost_step; [exact G1|]. eapply Hf; eauto.
Qed.

Lemma rallh_inv uf F s args : forall l n keep gone n',
  (forall w, F w = true -> w < n) -> wf s -> good (Pc n F) s -> lin (Pc n F) args -> Forall (fact_cells F) l ->
  rallh uf s args l n = Some (keep, gone, n') -> n <= n' /\ forall x, In x keep -> In x l.
Proof.
  induction l as [|f r IH]; intros n keep gone n' R W G La Fl H; cbn [rallh] in H.
  - inversion H; subst. split; auto.
  - inversion Fl as [|? ? Ff Fr]; subst.
    destruct (answer_match_fast uf s n args (fargs f)) as [u n1] eqn:M.
    destruct (@match_step uf F n s args f u n1 R W G La Ff M) as [L _].
    assert (R1: forall w, F w = true -> w < n1) by (intros w Hw; apply R in Hw; lia).
    assert (G1: good (Pc n1 F) s) by (eapply good_mono; [|exact G]; intros v; apply Pc_mono; exact L).
    assert (L1: lin (Pc n1 F) args) by (eapply lin_mono; [|exact La]; intros v; apply Pc_mono; exact L).
    destruct u as [s1| | |]; try discriminate;
      destruct (rallh uf s args r n1) as [[[k' g'] n2]|] eqn:E; try discriminate; inversion H; subst; clear H;
      destruct (IH _ _ _ _ R1 W G1 L1 Fr E) as [L2 Sub]; (split; [lia|]).
    + intros x Hx. right. auto.
    + intros x [<-|Hx]; [left; reflexivity|right; auto].
Qed.

Section Loops.
  Variable uf : nat.
  Variable rec : list goal -> store -> glob -> res.
  Hypothesis Hrec : inv_rec rec.

  Lemma scanq_inv args r s : forall l g g' a tr c F, ginv F g -> ctx F (gn g) s args r l ->
    scanq uf rec args r s l g = Some (g', a, tr, c) -> bpost F g g'.
  Proof.
    induction l as [|f l IH]; intros g g' a tr c F I C H; cbn [scanq] in H.
    - inversion H; subst. apply bpost_refl; auto.
    - pose proof C as [W G La Lr Fl]. inversion Fl as [|? ? Ff Fl']; subst.
      destruct (answer_match_fast uf s (gn g) args (fargs f)) as [u n1] eqn:M.
      destruct (@match_step uf F (gn g) s args f u n1 (gi_range I) W G La Ff M) as [L Po].
      pose proof (ginv_set_n I L) as I1.
      assert (C1: ctx F n1 s args r l) by (eapply ctx_mono; [apply grow_n; exact L|eapply ctx_tail; exact C]).
      destruct u as [s'| | |]; try discriminate.
      + destruct Po as [W' G'].
        assert (CI: cinv F r s' (set_n g n1)) by (constructor; simpl; auto; apply C1).
        apply (@bpost_step F g F (set_n g n1) g'); [apply grow_n; exact L|].
        eapply alt_inv; [| |exact H].
        * intros g1 a1 t1 c1 E. apply tag_some in E as [t0 [_ ER]]. exact (Hrec CI ER).
        * intros F1 g1 g2 a2 t2 c2 G1 I1' ES. simpl in G1.
          eapply IH; [exact I1'| |exact ES]. eapply ctx_mono; [exact G1|exact C1].
      + apply (@bpost_step F g F (set_n g n1) g'); [apply grow_n; exact L|].
        eapply IH; [exact I1|exact C1|exact H].
  Qed.

  Lemma ginv_del F g k i n1 : ginv F g -> gn g <= n1 ->
    ginv F (mkg (upd k (del_id i (gdb g k)) (gdb g)) (gid g) n1 (gw g)).
  Proof.
    intros [A B] L. constructor; simpl.
    - intros k0 f0 Hf. unfold upd in Hf. destruct (key_eqb_spec k0 k) as [->|N]; [|eapply A; eauto].
      apply del_id_in in Hf as [Hf _]. eapply A; eauto.
    - intros w Hw. apply B in Hw. lia.
  Qed.

  Lemma scanr_inv k args r s : forall l g g' a tr c F, ginv F g -> ctx F (gn g) s args r l ->
    scanr uf rec k args r s l g = Some (g', a, tr, c) -> bpost F g g'.
  Proof.
    induction l as [|f l IH]; intros g g' a tr c F I C H; cbn [scanr] in H.
    - inversion H; subst. apply bpost_refl; auto.
    - pose proof C as [W G La Lr Fl]. inversion Fl as [|? ? Ff Fl']; subst.
      destruct (answer_match_fast uf s (gn g) args (fargs f)) as [u n1] eqn:M.
      destruct (@match_step uf F (gn g) s args f u n1 (gi_range I) W G La Ff M) as [L Po].
      pose proof (ginv_set_n I L) as I1.
      assert (C1: ctx F n1 s args r l) by (eapply ctx_mono; [apply grow_n; exact L|eapply ctx_tail; exact C]).
      assert (Skip: scanr uf rec k args r s l (set_n g n1) = Some (g', a, tr, c) -> bpost F g g').
      { intros E. apply (@bpost_step F g F (set_n g n1) g'); [apply grow_n; exact L|].
        eapply IH; [exact I1|exact C1|exact E]. }
      destruct u as [s'| | |]; try discriminate; auto.
      destruct (has_id (fid f) (gdb g k)); auto.
      destruct Po as [W' G'].
      set (g0 := mkg (upd k (del_id (fid f) (gdb g k)) (gdb g)) (gid g) n1 (gw g)) in *.
      assert (I0: ginv F g0) by (apply ginv_del; auto).
      assert (CI: cinv F r s' g0) by (constructor; simpl; auto; apply C1).
      apply (@bpost_step F g F g0 g'); [apply grow_n; exact L|].
      eapply alt_inv; [| |exact H].
      * intros g1 a1 t1 c1 E. apply tag_some in E as [t0 [_ ER]]. exact (Hrec CI ER).
      * intros F1 g1 g2 a2 t2 c2 G1 I1' ES. simpl in G1.
        eapply IH; [exact I1'| |exact ES]. eapply ctx_mono; [exact G1|exact C1].
  Qed.

  (* head unification of a clause renamed to new cells *)
  Lemma head_step F g s args c u :
    ginv F g -> wf s -> good (Pc (gn g) F) s -> lin (Pc (gn g) F) args -> clause_ok c ->
    unify_arrays_fast uf s args (map (shift (gn g)) (chead c)) = u ->
    match u with UOk s' => wf s' /\ good (Pc (gn g + cnv c) F) s' | _ => True end /\
    Forall (goal_in (Pc (gn g + cnv c) F)) (map (shift_goal (gn g)) (cbody c)).
  Proof.
    intros I W G La [Ch Cb] H. rewrite unify_arrays_fast_eq in H.
    pose proof (@new_cells_Pc F (gn g) (cnv c) (gi_range I)) as New.
    assert (M: forall v, Pc (gn g) F v = true -> Pc (gn g + cnv c) F v = true) by (intros v; apply Pc_mono; lia).
    split.
    - assert (G1: good (Pc (gn g + cnv c) F) s) by (eapply good_mono; eauto).
      assert (L1: lin (Pc (gn g + cnv c) F) args) by (eapply lin_mono; eauto).
      assert (L2: lin (Pc (gn g + cnv c) F) (map (shift (gn g)) (chead c))) by (eapply lin_shift; eauto).
      destruct (@unify_arrays_frame (Pc (gn g + cnv c) F) uf s args _ (good_closed G1) L1 L2) as [_ Po].
      rewrite H in Po. destruct u as [s'| | |]; auto. destruct Po as [nw [-> Gn]]. split.
      + destruct (unify_arrays_sound _ _ _ W H) as [W' _]. exact W'.
      + apply good_app; auto.
    - apply Forall_forall. intros gl Hgl. apply in_map_iff in Hgl as [x [<- Hx]].
      rewrite Forall_forall in Cb. eapply goal_in_shift; eauto.
  Qed.

  Lemma tryclauses_inv args r s : forall cls g g' a tr fl F, Forall clause_ok cls -> ginv F g -> ctx F (gn g) s args r [] ->
    tryclauses uf rec args r s cls g = Some (g', a, tr, fl) -> bpost F g g'.
  Proof.
    induction cls as [|c cs IH]; intros g g' a tr fl F OK I C H; cbn [tryclauses] in H.
    - inversion H; subst. apply bpost_refl; auto.
    - inversion OK as [|? ? Oc Ocs]; subst. pose proof C as [W G La Lr _].
      assert (L: gn g <= gn g + cnv c) by lia.
      pose proof (ginv_set_n I L) as I1.
      assert (C1: ctx F (gn g + cnv c) s args r []) by (eapply ctx_mono; [apply grow_n; exact L|exact C]).
      destruct (@head_step F g s args c _ I W G La Oc eq_refl) as [Po Lb].
      destruct (unify_arrays_fast uf s args (map (shift (gn g)) (chead c))) as [s'| | |]; try discriminate.
      + destruct Po as [W' G'].
        assert (CI: cinv F (map (shift_goal (gn g)) (cbody c) ++ GPop :: r) s' (set_n g (gn g + cnv c))).
        { constructor; simpl; auto. apply Forall_app. split; [exact Lb|constructor; [exact Logic.I|apply C1]]. }
        apply (@bpost_step F g F (set_n g (gn g + cnv c)) g'); [apply grow_n; exact L|].
        eapply alt_inv; [| |exact H].
        * intros g1 a1 t1 c1 ER. exact (Hrec CI ER).
        * intros F1 g1 g2 a2 t2 c2 G1 I1' ES. simpl in G1.
          eapply IH; [exact Ocs|exact I1'| |exact ES]. eapply ctx_mono; [exact G1|exact C1].
      + apply (@bpost_step F g F (set_n g (gn g + cnv c)) g'); [apply grow_n; exact L|].
        eapply IH; [exact Ocs|exact I1|exact C1|exact H].
  Qed.
End Loops.

(* asserta/assertz: the new fact is a term over the cells it allocates, which join F *)
Definition addF (F : nat -> bool) (lo hi : nat) : nat -> bool := fun w => F w || ((lo <=? w) && (w <? hi)).

Lemma assert_inv F g s args stored n1 k front w :
  ginv F g -> answer_init_fast s args (gn g) = (stored, n1) ->
  let g0 := mkg (upd k (ins front (mkfact (gid g) stored) (gdb g k)) (gdb g)) (S (gid g)) n1 w in
  grow F (gn g) (addF F (gn g) n1) n1 /\ ginv (addF F (gn g) n1) g0.
Proof.
  intros [A B] H g0. rewrite answer_init_fast_eq in H.
  destruct (@stored_value_at_assert_time s (gn g) args stored n1 H) as [m [_ [_ [_ [L [_ Rg]]]]]].
  split; [|constructor].
  - split; [exact L|split].
    + intros v Hv. unfold addF. rewrite Hv. reflexivity.
    + intros v Hv. unfold addF in Hv. apply orb_true_iff in Hv as [Hv|Hv]; auto.
      apply andb_true_iff in Hv as [X _]. apply Nat.leb_le in X. auto.
  - intros k0 f Hf. simpl in Hf. unfold upd in Hf.
    assert (Old: forall x, In x (gdb g k0) -> fact_cells (addF F (gn g) n1) x).
    { intros x Hx. eapply fact_cells_mono; [|exact (A k0 x Hx)]. intros v Hv. unfold addF. rewrite Hv. reflexivity. }
    destruct (key_eqb_spec k0 k) as [->|NK]; [|auto].
    assert (New: fact_cells (addF F (gn g) n1) (mkfact (gid g) stored)).
    { apply Forall_forall. intros t0 Ht0 v Hv. simpl in Ht0.
      assert (X: gn g <= v < n1) by (apply Rg; unfold occurs_l; apply existsb_exists; exists t0; auto).
      unfold addF. apply orb_true_iff. right. apply andb_true_iff. split; [apply Nat.leb_le|apply Nat.ltb_lt]; lia. }
    unfold ins in Hf. destruct front; simpl in Hf.
    + destruct Hf as [<-|Hf]; auto.
    + apply in_app_iff in Hf as [Hf|[<-|[]]]; auto.
  - intros v Hv. simpl. unfold addF in Hv. apply orb_true_iff in Hv as [Hv|Hv].
    + apply B in Hv. lia.
    + apply andb_true_iff in Hv as [_ Y]. apply Nat.ltb_lt in Y. exact Y.
Qed.

Lemma cinv_tick F gs s g w : cinv F gs s g -> cinv F gs s (mkg (gdb g) (gid g) (gn g) w).
Proof. intros [[A B] C D E]. constructor; simpl; auto. constructor; simpl; auto. Qed.

Lemma cinv_mono F n F' gs s g g' : grow F n F' (gn g') -> n = gn g -> ginv F' g' -> cinv F gs s g -> cinv F' gs s g'.
Proof.
  intros G -> I [_ W Gs Gg]. pose proof (fun v => @grow_Pc F (gn g) F' (gn g') v G) as M. constructor; auto.
  - eapply good_mono; eauto.
  - eapply Forall_impl; [|exact Gg]. intros gl. apply goal_in_mono. exact M.
Qed.

Section Solve.
  Variable uf : nat.
  Variable prog : program.
  Hypothesis Hprog : prog_ok prog.

  Lemma solve_inv : forall n, inv_rec (solve uf prog n).
  Proof.
    induction n as [|n IH]; intros gs s g g' a tr fl F CI H; [discriminate|].
    cbn [solve] in H. destruct (gw g) as [|w]; [discriminate|].
    apply (@cinv_tick F gs s g w) in CI.
    set (gt := mkg (gdb g) (gid g) (gn g) w) in *.
    change (bpost F gt g'). clearbody gt. clear g. rename gt into g.
    pose proof CI as [I W G Lg].
    destruct gs as [|[x y|name args|front t|t|t| | |ga gb|gc gt ge| | ] r].
    - inversion H; subst. apply bpost_refl; auto.
    - inversion Lg as [|? ? Tg Lr]; subst. simpl in Tg. destruct Tg as [Tx Ty]. rewrite unify_fast_eq in H.
      destruct (@unify_frame (Pc (gn g) F) uf s x y (good_closed G) Tx Ty) as [_ Po].
      destruct (unify uf s x y) as [s'| | |] eqn:EU; try discriminate.
      + destruct Po as [nw [-> Gn]]. destruct (unify_sound _ _ _ W EU) as [W' _].
        eapply IH; [|exact H]. constructor; auto. apply good_app; auto.
      + inversion H; subst. apply bpost_refl; auto.
    - inversion Lg as [|? ? La Lr]; subst. simpl in La.
      assert (C: ctx F (gn g) s args r (gdb g (name, length args))).
      { constructor; auto. apply Forall_forall. intros f Hf. eapply (gi_facts I); eauto. }
      eapply alt_inv; [| |exact H].
      + intros g1 a1 t1 c1 ES. exact (@scanq_inv uf _ IH args r s _ _ _ _ _ _ F I C ES).
      + intros F1 g1 g2 a2 t2 c2 G1 I1 ET.
        eapply tryclauses_inv; [exact IH|apply clauses_of_ok; exact Hprog|exact I1| |exact ET].
        eapply ctx_mono; [exact G1|]. destruct C; constructor; auto.
    - inversion Lg as [|? ? Tt Lr]; subst. simpl in Tt.
      destruct (callable (den_fast s t)) as [[name args]|] eqn:CA.
      + destruct (answer_init_fast s args (gn g)) as [stored n1] eqn:AI.
        set (k := (name, length args)) in *.
        destruct (@assert_inv F g s args stored n1 k front (gw g) I AI) as [G1 I1].
        set (g0 := mkg (upd k (ins front (mkfact (gid g) stored) (gdb g k)) (gdb g)) (S (gid g)) n1 (gw g)) in *.
        apply tag_some in H as [t1 [_ E]].
        apply (@bpost_step F g _ g0 g' G1).
        eapply IH; [|exact E]. eapply (@cinv_mono F (gn g)); [exact G1|reflexivity|exact I1|].
        constructor; auto.
      + eapply IH; [|exact H]. constructor; auto.
    - inversion Lg as [|? ? Tt Lr]; subst. simpl in Tt.
      destruct (callable (den_fast s t)) as [[name args]|] eqn:CA.
      + eapply scanr_inv; [exact IH|exact I| |exact H]. constructor; auto.
        * eapply callable_lin; [apply good_closed; exact G|exact Tt|exact CA].
        * apply Forall_forall. intros f Hf. eapply (gi_facts I); eauto.
      + inversion H; subst. apply bpost_refl; auto.
    - inversion Lg as [|? ? Tt Lr]; subst. simpl in Tt.
      destruct (callable (den_fast s t)) as [[name args]|] eqn:CA; [|inversion H; subst; apply bpost_refl; auto].
      set (k := (name, length args)) in *.
      destruct (rallh uf s args (gdb g k) (gn g)) as [[[keep gone] n1]|] eqn:RA; [|discriminate].
      set (g0 := mkg (upd k keep (gdb g)) (gid g) n1 (gw g)) in *.
      apply tag_some in H as [t1 [_ E]].
      assert (La: lin (Pc (gn g) F) args) by (eapply callable_lin; [apply good_closed; exact G|exact Tt|exact CA]).
      assert (Fl: Forall (fact_cells F) (gdb g k)) by (apply Forall_forall; intros f Hf; eapply (gi_facts I); eauto).
      destruct (@rallh_inv uf F s args _ _ _ _ _ (gi_range I) W G La Fl RA) as [L Sub].
      assert (I0: ginv F g0).
      { constructor; simpl.
        - intros k0 f Hf. unfold upd in Hf. destruct (key_eqb_spec k0 k) as [->|N]; [|eapply (gi_facts I); eauto].
          eapply (gi_facts I). apply Sub. exact Hf.
        - intros v Hv. apply (gi_range I) in Hv. lia. }
      apply (@bpost_step F g F g0 g'); [apply grow_n; exact L|].
      eapply IH; [|exact E]. eapply (@cinv_mono F (gn g)); [apply grow_n; exact L|reflexivity|exact I0|].
      constructor; auto.
    - (* fail *) inversion H; subst. apply bpost_refl; auto.
    - (* ! *) inversion Lg as [|? ? _ Lr]; subst. apply mapflag_some in H as [c0 E].
      eapply IH; [|exact E]. constructor; auto.
    - (* ; *) inversion Lg as [|? ? Tg Lr]; subst. apply goal_in_or in Tg as [Ta Tb].
      eapply alt_inv; [| |exact H].
      + intros g1 a1 t1 c1 E. eapply IH; [|exact E]. constructor; auto. apply Forall_app. split; auto.
      + intros F1 g1 g2 a2 t2 c2 G1 I1 E. eapply IH; [|exact E].
        eapply (@cinv_mono F (gn g)); [exact G1|reflexivity|exact I1|]. constructor; auto. apply Forall_app. split; auto.
    - (* -> ; *) inversion Lg as [|? ? Tg Lr]; subst. apply goal_in_if in Tg as [Tc [Tt Te]].
      eapply alt_inv; [| |exact H].
      + intros g1 a1 t1 c1 E. eapply IH; [|exact E]. constructor; auto.
        apply Forall_app. split; auto. constructor; [exact Logic.I|]. apply Forall_app. split; auto.
      + intros F1 g1 g2 a2 t2 c2 G1 I1 E. eapply IH; [|exact E].
        eapply (@cinv_mono F (gn g)); [exact G1|reflexivity|exact I1|]. constructor; auto. apply Forall_app. split; auto.
    - (* end of a clause body *) inversion Lg as [|? ? _ Lr]; subst. apply mapflag_some in H as [c0 E].
      eapply IH; [|exact E]. constructor; auto.
    - (* end of a condition *) inversion Lg as [|? ? _ Lr]; subst. apply mapflag_some in H as [c0 E].
      eapply IH; [|exact E]. constructor; auto.
  Qed.
End Solve.
