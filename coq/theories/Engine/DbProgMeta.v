(* DbProg.v extended to the META-CALLS call/N, once/1, findall/3 (and =/2, \=/2 reached by name): compiled
   clause bodies that reach the database THROUGH them - findall(X, retract(p(X)), L), call(assertz, p(X)),
   once(retract(c(N))), G = retract(p(X)), call(G) - with other goals suspended around them.

   engine.py: every goal of a compiled body is `query(name, args)`:
       function = eval_context.get(name_arity, eval_context.get(name_n))      (looked up first)
       yield from match_dynamic(atom(name), args)                             (the stored facts of name/arity)
       if function is not None: yield from function( *args )
   The functions are the compiled predicates of the loaded program (load_script overwrites an entry of the
   same name/arity) and the registered builtins: '=' (2), '\=' (2), findall (3), call (any arity), once (1),
   assertz, asserta, retract, retractall (1).

   The goal type, clauses, global state, result type, loops (scanq / scanr / tryclauses) and the flag
   discipline are those of DbProg.v, unchanged.  What is new is the meaning of `GCall name args`
   (= `query(name, args)`, literally): the facts stored under (name, arity) - also for the names of the
   builtins: `assertz(call(x))` followed by `call(x)` has the fact as its first answer - and then
     * the clauses of the program for name/arity if there are any, else
     * YP.call (name "call", >= 1 argument): goal dereferenced; Atom -> (name, []), Functor -> (name, args), anything
       else: the code raises UnboundLocalError (model: no result, as for a cyclic match); then
       `yield from query(goal_name, goal_args + extra)`: a GCall again - the target may be a dynamic predicate, a rule,
       assertz/asserta/retract/retractall, call, once, findall, a control construct (','/2, ';'/2, '!'/0: no such
       function exists: no answer);
     * YP.once: `for x in self.call(goal): yield x; break`: the first answer of the call, the rest of the body for
       it, then the call's generators are closed (while suspended) - the frame discipline of ( call(G) -> true ; fail );
     * YP.findall: `q = self.call(goal)`; the call is run TO EXHAUSTION before anything else happens: all its
       database updates happen (and stay), every goal it suspends is resumed until it ends; per answer one
       copy_term(template, {}) (new variables per answer); the bindings of the answers are undone; then
       `unify(bag, makelist(copies))`, one answer at most;
     * '=': unify; '\=': builtin_neq = ( X = Y -> fail ; true ); assertz ...: the goals GAssert / GRetract / GRetractAll
       of DbProg (the functions proper).
   A cut inside a called predicate ends that predicate's clauses only (tryclauses consumes the flag); the
   goal of call/once/findall is a TERM, so '!' inside it is query('!', []) = no answer (as the code does).

   GAssert / GRetract / GRetractAll / GUnify as elements of a body keep DbProg's meaning (the function
   proper, no fact lookup under the builtin's own name); the harness translates a source goal
   `assertz(T)` to GAssert and a source goal call(..)/once(..)/findall(..) to GCall. *)
From Coq Require Import String.
From Coq Require Import List Arith Bool Lia ZArith.
Import ListNotations.
From YP Require Import Base.Str Term.Term Term.Fast Unify.Unify Unify.Fast Engine.Db Engine.DbCursor Engine.DbFacts Engine.DbProg.
Set Implicit Arguments.

(* YP.makelist *)
Definition mk_list (l : list term) : term := fold_right (fun x r => TFun (d "."%string) [x; r]) (TAtom (d "[]"%string)) l.

(* YP.call: the name and the arguments of the query it issues; None = the code raises *)
Definition call_target (s : store) (goal : term) (extra : list term) : option (str * list term) :=
  match callable (den_fast s goal) with
  | Some (nm, a) => Some (nm, a ++ extra)
  | None => None
  end.

(* findall: one copy_term(template, {}) per answer, under the bindings of that answer *)
Fixpoint copy_each (tmpl : term) (answers : list store) (n : nat) : list term * nat :=
  match answers with
  | [] => ([], n)
  | s :: r =>
      let (c, n1) := copy_args_fast s [tmpl] n in
      let (cs, n2) := copy_each tmpl r n1 in (hd tmpl c :: cs, n2)
  end.

(* the registered function for name/arity *)
Inductive bi :=
| BGoals (gs : list goal)          (* behaves as these goals, put in front of the rest of the body *)
| BFindall (t g b : term)
| BRaise                           (* the function raises *)
| BNone.                           (* no function: the query ends after the facts *)

Definition builtin_of (s : store) (name : str) (args : list term) : bi :=
  if str_eqb name (d "call"%string) then
    match args with
    | [] => BRaise                 (* call() : TypeError *)
    | gl :: extra => match call_target s gl extra with Some (nm, a) => BGoals [GCall nm a] | None => BRaise end
    end
  else match args with
  | [t] =>
      if str_eqb name (d "assertz"%string) then BGoals [GAssert false t]
      else if str_eqb name (d "asserta"%string) then BGoals [GAssert true t]
      else if str_eqb name (d "retract"%string) then BGoals [GRetract t]
      else if str_eqb name (d "retractall"%string) then BGoals [GRetractAll t]
      else if str_eqb name (d "once"%string) then
        match call_target s t [] with Some (nm, a) => BGoals [GIf [GCall nm a] [] [GFail]] | None => BRaise end
      else BNone
  | [a; b] =>
      if str_eqb name (d "="%string) then BGoals [GUnify a b]
      else if str_eqb name (d "\92;="%string) then BGoals [GIf [GUnify a b] [GFail] []]
      else BNone
  | [t; gl; b] => if str_eqb name (d "findall"%string) then BFindall t gl b else BNone
  | _ => BNone
  end.

(* the updates t0 happened before x *)
Definition pre (t0 : list out) (x : res) : res :=
  match x with None => None | Some (g1, a1, t1, c1) => Some (g1, a1, t0 ++ t1, c1) end.

Section MSolve.
  Variable uf : nat.
  Variable prog : program.

  Fixpoint msolve (n : nat) (gs : list goal) (s : store) (g : glob) {struct n} : res :=
    match n, gw g with
    | O, _ | _, O => None
    | S n', S w =>
        let g := mkg (gdb g) (gid g) (gn g) w in
        match gs with
        | [] => Some (g, [s], [], None)
        | GUnify a b :: r =>
            match unify_fast uf s a b with
            | UOk s' => msolve n' r s' g
            | UFail => Some (g, [], [], None)
            | _ => None
            end
        | GCall name args :: r =>
            bindr (scanq uf (msolve n') args r s (gdb g (name, length args)) g)
              (fun g1 =>
                 match clauses_of prog name (length args) with
                 | cl :: cls => tryclauses uf (msolve n') args r s (cl :: cls) g1
                 | [] =>
                     match builtin_of s name args with
                     | BGoals b => msolve n' (b ++ r) s g1
                     | BFindall t gl bag =>
                         match call_target s gl [] with
                         | None => None
                         | Some (nm, a) =>
                             (* q = self.call(goal); [copy_term(template, {}) for r in q] : to exhaustion, nothing else in between *)
                             match msolve n' [GCall nm a] s g1 with
                             | None => None
                             | Some (g2, answers, t1, _) =>
                                 let (copies, n2) := copy_each t answers (gn g2) in
                                 match unify_fast uf s bag (mk_list copies) with
                                 | UOk s' => pre t1 (msolve n' r s' (set_n g2 n2))
                                 | UFail => Some (set_n g2 n2, [], t1, None)
                                 | _ => None
                                 end
                             end
                         end
                     | BRaise => None
                     | BNone => Some (g1, [], [], None)
                     end
                 end)
        | GAssert front t :: r =>
            match callable (den_fast s t) with
            | None => msolve n' r s g
            | Some (name, args) =>
                let (stored, n1) := answer_init_fast s args (gn g) in
                let k := (name, length args) in
                let f := mkfact (gid g) stored in
                tag (OIns k front f) (msolve n' r s (mkg (upd k (ins front f (gdb g k)) (gdb g)) (S (gid g)) n1 (gw g)))
            end
        | GRetract t :: r =>
            match callable (den_fast s t) with
            | None => Some (g, [], [], None)
            | Some (name, args) => scanr uf (msolve n') (name, length args) args r s (gdb g (name, length args)) g
            end
        | GRetractAll t :: r =>
            match callable (den_fast s t) with
            | None => Some (g, [], [], None)
            | Some (name, args) =>
                let k := (name, length args) in
                match rallh uf s args (gdb g k) (gn g) with
                | None => None
                | Some (keep, gone, n1) => tag (ORAll k gone) (msolve n' r s (mkg (upd k keep (gdb g)) (gid g) n1 (gw g)))
                end
            end
        | GFail :: _ => Some (g, [], [], None)
        | GCut :: r => mapflag fl_cut (msolve n' r s g)
        | GOr a b :: r => bindr (msolve n' (a ++ r) s g) (msolve n' (b ++ r) s)
        | GIf c t e :: r => alt lv_if (msolve n' (c ++ GCommit :: t ++ r) s g) (msolve n' (e ++ r) s)
        | GPop :: r => mapflag fl_pop (msolve n' r s g)
        | GCommit :: r => mapflag fl_commit (msolve n' r s g)
        end
    end.
End MSolve.
