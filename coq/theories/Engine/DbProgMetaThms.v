(* The theorems of DbProgThms.v for the machine with meta-calls (DbProgMeta.msolve): for every program, body
   (call/N, once/1, findall/3, =, \= reached by name; goals arriving in bound variables; the targets being dynamic
   predicates, rules, assertz / asserta / retract / retractall, further meta-calls, to any depth), store, global
   state, fuel:
   - the trace of a run is a sequence of atomic list operations each applied to the list current at that moment
     (valid_trace), the database after the run is their fold in execution order, identities stay unique;
   - every Answer is removed (returned by a retract, however reached) at most once;
   - findall is atomic with respect to the rest of the body: the updates its goal performs are a contiguous block of
     the trace, in front of everything the rest of the body does (findall_block).
   The loop lemmas scanq_post / scanr_post / tryclauses_post of DbProgThms are generic in the search function and
   are reused as they are. *)
From Coq Require Import String.
From Coq Require Import List Arith Bool Lia ZArith.
Import ListNotations.
From YP Require Import Base.Str Term.Term Term.Fast Unify.Unify Unify.Fast Engine.Db Engine.DbCursor Engine.DbCursorThms Engine.DbFacts
  Engine.DbProg Engine.DbProgThms Engine.DbProgMeta.
Set Implicit Arguments.

Lemma pre_some t0 x g' a tr c : pre t0 x = Some (g', a, tr, c) -> exists t1, tr = t0 ++ t1 /\ x = Some (g', a, t1, c).
Proof. destruct x as [[[[g1 a1] t1] c1]|]; simpl; intros H; inversion H; subst. eauto. Qed.

Lemma post_set_n g g' n tr : post g g' tr -> post g (set_n g' n) tr.
Proof. intros [A [B C]]. repeat split; auto. Qed.

Section MSolve.
  Variable uf : nat.
  Variable prog : program.

  Lemma msolve_good : forall n, good_rec (msolve uf prog n).
  Proof.
    induction n as [|n IH]; intros gs s g g' a tr c I H; [discriminate|].
    cbn [msolve] in H. destruct (gw g) as [|w]; [discriminate|].
    set (gt := mkg (gdb g) (gid g) (gn g) w) in *.
    assert (I' : ids_ok (gdb gt) (gid gt)) by exact I.
    change (post gt g' tr). clearbody gt. clear I. rename g into g_before. rename gt into g. rename I' into I.
    destruct gs as [|[x y|name args|front t|t|t| | |ga gb|gc gt ge| | ] r].
    - inversion H; subst. apply post_refl.
    - destruct (unify_fast uf s x y) as [s'| | |]; try discriminate.
      + eapply IH; eauto.
      + inversion H; subst. apply post_refl.
    - (* query(name, args): facts, then the function *)
      eapply alt_post; [exact I| | |exact H].
      + intros g1 a1 t1 c1 E. eapply scanq_post; [exact IH|exact I|exact E].
      + intros g1 g2 a2 t2 c2 I1 E. cbv beta in E.
        destruct (clauses_of prog name (length args)) as [|cl cls] eqn:EC.
        * destruct (builtin_of s name args) as [b|tm gl bag| |].
          -- eapply IH; eauto.
          -- destruct (call_target s gl []) as [[nm a0]|]; [|discriminate].
             destruct (msolve uf prog n [GCall nm a0] s g1) as [[[[g3 ans] t1] c1]|] eqn:E1; [|discriminate].
             pose proof (IH _ _ _ _ _ _ _ I1 E1) as P1.
             destruct (copy_each tm ans (gn g3)) as [copies n2].
             pose proof (post_set_n n2 P1) as P2.
             destruct (unify_fast uf s bag (mk_list copies)) as [s'| | |]; try discriminate.
             ++ apply pre_some in E as [t0 [-> E2]]. eapply post_trans; [exact P2|].
                eapply IH; [|exact E2]. eapply post_ids_ok; [exact I1|exact P2].
             ++ inversion E; subst. exact P2.
          -- discriminate.
          -- inversion E; subst. apply post_refl.
        * eapply tryclauses_post; [exact IH|exact I1|exact E].
    - destruct (callable (den_fast s t)) as [[name args]|]; [|eapply IH; eauto].
      destruct (answer_init_fast s args (gn g)) as [stored n1].
      set (k := (name, length args)) in *. set (f := mkfact (gid g) stored) in *.
      set (g0 := mkg (upd k (ins front f (gdb g k)) (gdb g)) (S (gid g)) n1 (gw g)) in *.
      apply tag_some in H as [t1 [-> E]].
      assert (V: valid_out (gdb g) (gid g) (OIns k front f)) by reflexivity.
      apply (@post_cons g g0 g' _ t1 V); simpl; auto; [lia|].
      eapply IH; [|exact E].
      apply (@valid_out_ids_ok _ _ _ I) in V. simpl in V. replace (gid g + 1) with (S (gid g)) in V by lia. exact V.
    - destruct (callable (den_fast s t)) as [[name args]|].
      + eapply scanr_post; [exact IH|exact I|exact H].
      + inversion H; subst. apply post_refl.
    - destruct (callable (den_fast s t)) as [[name args]|]; [|inversion H; subst; apply post_refl].
      set (k := (name, length args)) in *.
      destruct (rallh uf s args (gdb g k) (gn g)) as [[[keep gone] n1]|] eqn:RA; [|discriminate].
      set (g0 := mkg (upd k keep (gdb g)) (gid g) n1 (gw g)) in *.
      apply tag_some in H as [t1 [-> E]].
      pose proof I as [I1 _].
      destruct (@rallh_spec uf s args _ _ _ _ _ (I1 k) RA) as [A [B C]].
      assert (V: valid_out (gdb g) (gid g) (ORAll k gone)) by (simpl; auto).
      assert (E0: forall k0, gdb g0 k0 = apply_out (ORAll k gone) (gdb g) k0) by (intros k0; simpl; rewrite A; reflexivity).
      apply (@post_cons g g0 g' _ t1 V E0); simpl; auto.
      eapply IH; [|exact E].
      apply (@valid_out_ids_ok _ _ _ I) in V. simpl in V. rewrite Nat.add_0_r in V.
      destruct V as [V1 [V2 V3]]. repeat split.
      * intros k0. rewrite E0. apply V1.
      * intros k0 f0. rewrite E0. apply V2.
      * intros k0 k1 i. rewrite !E0. apply V3.
    - inversion H; subst. apply post_refl.
    - apply mapflag_some in H as [c0 E]. eapply IH; eauto.
    - eapply alt_post; [exact I| | |exact H].
      + intros g1 a1 t1 c1 E. eapply IH; [exact I|exact E].
      + intros g1 g2 a2 t2 c2 I1 E. eapply IH; [exact I1|exact E].
    - eapply alt_post; [exact I| | |exact H].
      + intros g1 a1 t1 c1 E. eapply IH; [exact I|exact E].
      + intros g1 g2 a2 t2 c2 I1 E. eapply IH; [exact I1|exact E].
    - apply mapflag_some in H as [c0 E]. eapply IH; eauto.
    - apply mapflag_some in H as [c0 E]. eapply IH; eauto.
  Qed.

  (* every database update issued from compiled code - directly or through call/N, once/1, findall/3, to any depth -
     is an atomic list operation on the list that is current at that moment, and the database after the run is
     their fold: no modification is lost *)
  Theorem mprog_no_lost_update n gs s g g' a tr c :
    ids_ok (gdb g) (gid g) -> msolve uf prog n gs s g = Some (g', a, tr, c) ->
    valid_trace (gdb g) (gid g) tr /\ (forall k, gdb g' k = apply_outs tr (gdb g) k) /\ ids_ok (gdb g') (gid g').
  Proof.
    intros I H. pose proof (@msolve_good n gs s g g' a tr c I H) as P. destruct P as [V [E N]].
    split; auto. split; auto. eapply post_ids_ok; eauto. repeat split; eauto.
  Qed.

  Theorem mprog_retract_at_most_once n gs s g g' a tr c :
    ids_ok (gdb g) (gid g) -> msolve uf prog n gs s g = Some (g', a, tr, c) -> NoDup (removed tr).
  Proof.
    intros I H. destruct (@msolve_good n gs s g g' a tr c I H) as [V _].
    apply (@valid_trace_removed tr (gdb g) (gid g) [] I V); [intros i []|constructor].
  Qed.

  (* findall(T, G, B), R on a predicate findall/3 without facts and without clauses: the run of G is complete (a run of
     its own, from the state in which findall was reached, with an empty continuation: every goal it suspends is resumed
     to its end inside it) and its updates are a block of the trace in front of everything R does; R starts in the
     database the block leaves; the bindings of G's answers are not visible to R (it runs under the store of the
     caller extended by the unification of the bag) *)
  Theorem findall_block n tm gl bag r s g g' a tr c :
    clauses_of prog (d "findall"%string) 3 = [] -> gdb g (d "findall"%string, 3) = [] ->
    msolve uf prog (S n) (GCall (d "findall"%string) [tm; gl; bag] :: r) s g = Some (g', a, tr, c) ->
    exists nm args g0 g1 answers t1 c1 copies n2,
      call_target s gl [] = Some (nm, args) /\
      (forall k, gdb g0 k = gdb g k) /\ gid g0 = gid g /\
      msolve uf prog n [GCall nm args] s g0 = Some (g1, answers, t1, c1) /\
      copy_each tm answers (gn g1) = (copies, n2) /\ length copies = length answers /\
      match unify_fast uf s bag (mk_list copies) with
      | UOk s' => exists t2, tr = t1 ++ t2 /\ msolve uf prog n r s' (set_n g1 n2) = Some (g', a, t2, c)
      | UFail => tr = t1 /\ a = [] /\ g' = set_n g1 n2
      | _ => False
      end.
  Proof.
    intros EC EF H. cbn [msolve] in H. destruct (gw g) as [|w]; [discriminate|].
    cbn [length gdb] in H. rewrite EF, EC in H. cbn [scanq bindr alt lv_loop] in H.
    assert (BO: builtin_of s (d "findall"%string) [tm; gl; bag] = BFindall tm gl bag) by reflexivity.
    rewrite BO in H. clear BO.
    destruct (call_target s gl []) as [[nm a0]|] eqn:CT; [|discriminate].
    set (g0 := mkg (gdb g) (gid g) (gn g) w) in *.
    destruct (msolve uf prog n [GCall nm a0] s g0) as [[[[g3 ans] t1] c1]|] eqn:E1; [|discriminate].
    destruct (copy_each tm ans (gn g3)) as [copies n2] eqn:CE.
    exists nm, a0, g0, g3, ans, t1, c1, copies, n2. repeat split; auto.
    - clear -CE. revert copies n2 CE. generalize (gn g3). induction ans as [|s0 r0 IH]; intros n0 copies n2 CE; cbn [copy_each] in CE.
      + inversion CE; subst. reflexivity.
      + destruct (copy_args_fast s0 [tm] n0) as [c0 n1]. destruct (copy_each tm r0 n1) as [cs n3] eqn:E.
        inversion CE; subst. simpl. f_equal. eapply IH; eauto.
    - destruct (unify_fast uf s bag (mk_list copies)) as [s'| | |]; try discriminate.
      + destruct (msolve uf prog n r s' (set_n g3 n2)) as [[[[g4 a4] t4] c4]|]; simpl in H; [|discriminate].
        inversion H; subst. exists t4. split; reflexivity.
      + simpl in H. inversion H; subst. repeat split; reflexivity.
  Qed.
End MSolve.

(* conservative over DbProg for bodies of direct goals: nothing to state for GCall (its meaning is extended), but the
   direct forms are literally those of DbProg.solve - see the definition. *)
