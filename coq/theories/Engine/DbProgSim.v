(* Trace inclusion: every run of compiled code (DbProg.solve) IS a history of the event-level cursor machine
   (DbCursor.run with the concrete matching function DbFacts.match_fact).

   The history is built along the execution: a goal name(args) reached under the bindings s at nesting
   depth d is the generator d: EStart d (QQuery name (map (den s) args)), one ENext d per answer - the events
   of the rest of the body, at depth d+1, in between -, a last ENext d that returns StopIteration, EClose d;
   a goal whose loop is left by a cut or by the commit of an if-then-else / a negation is closed while it is
   suspended: EClose d after its last answer, without the final ENext (alt_sim, simres_close');
   retract(T) the same with QRetract; asserta/assertz(T) is EAssert of the stored copy; retractall(T) is
   ERetractAll.  Unification and the selection of clauses leave no event.  The two machines hold the same
   database and the same identity counter at every point (Rst), and the trace of the run (the atomic updates
   and the answers of all goals, in execution order) is the list of the database outputs of the history
   (dbouts: what is left when OStart / OEnd / OClosed are dropped) - equal for OIns and ORAll, and for an answer
   equal up to an injective renaming of cells (tr_eqv): the cursor machine matches the dereferenced pattern
   from the empty heap and allocates the copy of the fact just above pattern and fact, compiled code matches
   under its bindings and allocates at its allocation counter (DbMatchSim.match_sim: increment property of
   unify + equivariance under renaming + C13's invariant: the cells of facts are unbound).

   Consequently every theorem about ALL histories of the cursor machine (C14_cursor_visits_snapshot,
   C14_no_lost_update, C14_retract_at_most_once, C07_db_refines_list_spec) speaks about compiled code. *)
From Coq Require Import List Arith Bool Lia ZArith.
Import ListNotations.
From YP Require Import Base.Str Term.Term Term.Fast Unify.Unify Unify.Fast Unify.Rename Engine.Frame Engine.Db Engine.DbCursor
  Engine.DbCursorThms Engine.DbFacts Engine.DbFactsThms Engine.DbHeap Engine.DbHeapThms Engine.DbMatchSim Engine.DbProg Engine.DbProgInv.
Set Implicit Arguments.

Definition is_dbout (o : out) : bool :=
  match o with OIns _ _ _ | ORAll _ _ | OAns _ _ | ORet _ _ _ => true | _ => false end.
Definition dbouts (outs : list out) : list out := filter is_dbout outs.

Definition ans_eqv (a a' : list term) : Prop := exists p, injective p /\ a = map (Rename.ren p) a'.
Definition out_eqv (o o' : out) : Prop :=
  match o, o' with
  | OAns i a, OAns i' a' => i = i' /\ ans_eqv a a'
  | ORet k i a, ORet k' i' a' => k = k' /\ i = i' /\ ans_eqv a a'
  | OIns _ _ _, _ | ORAll _ _, _ => o = o'
  | _, _ => False
  end.
Definition tr_eqv (tr outs : list out) : Prop := Forall2 out_eqv tr outs.

(* the two machines hold the same database and the same identity counter *)
Definition Rst (g : glob) (st : DbCursor.st) : Prop := (forall k, sdb st k = gdb g k) /\ snext st = gid g.

Lemma upd_ext k l l' (d d' : db) : l = l' -> (forall k0, d k0 = d' k0) -> forall k0, upd k l d k0 = upd k l' d' k0.
Proof. intros -> E k0. unfold upd. destruct (key_eqb k0 k); auto. Qed.

Lemma copy_args_length s l n : length (fst (copy_args s l n)) = length l.
Proof.
  destruct (copy_args s l n) as [cs n'] eqn:E.
  destruct (@stored_value_at_assert_time s n l cs n' E) as [m [-> _]]. simpl. rewrite !map_length. reflexivity.
Qed.

Section Sim.
  Variable uf : nat.
  Notation mt := (match_fact uf).

  Lemma run_cons st e st1 o evs st2 os : step mt st e = Some (st1, o) -> run mt st1 evs = Some (st2, os) ->
    run mt st (e :: evs) = Some (st2, o :: os).
  Proof. intros A B. cbn [run]. rewrite A, B. reflexivity. Qed.

  Lemma run_app_some st a st1 o1 b st2 o2 : run mt st a = Some (st1, o1) -> run mt st1 b = Some (st2, o2) ->
    run mt st (a ++ b) = Some (st2, o1 ++ o2).
  Proof. intros A B. rewrite run_app, A, B. reflexivity. Qed.

  Definition simres (d : nat) (st : DbCursor.st) (g' : glob) (tr : list out) : Prop :=
    exists evs st' outs, run mt st evs = Some (st', outs) /\ Rst g' st' /\ tr_eqv tr (dbouts outs) /\
                         (forall c, c < d -> scur st' c = scur st c).

  Lemma simres_nil d st g' : Rst g' st -> simres d st g' [].
  Proof. intros R. exists [], st, []. repeat split; auto; try apply R. constructor. Qed.

  Lemma simres_weaken d d' st g' tr : d' <= d -> simres d st g' tr -> simres d' st g' tr.
  Proof. intros L [evs [st' [outs [A [B [C D]]]]]]. exists evs, st', outs. repeat split; auto; try apply B. intros c Hc. apply D. lia. Qed.

  Lemma simres_seq d1 d st g1 t1 g' t2 : d <= d1 -> simres d1 st g1 t1 ->
    (forall st1, Rst g1 st1 -> (forall c, c < d1 -> scur st1 c = scur st c) -> simres d st1 g' t2) ->
    simres d st g' (t1 ++ t2).
  Proof.
    intros L [e1 [st1 [o1 [A1 [B1 [C1 D1]]]]]] K. destruct (K st1 B1 D1) as [e2 [st2 [o2 [A2 [B2 [C2 D2]]]]]].
    exists (e1 ++ e2), st2, (o1 ++ o2). split; [eapply run_app_some; eauto|]. split; [exact B2|]. split.
    - unfold dbouts. rewrite filter_app. apply Forall2_app; assumption.
    - intros c Hc. rewrite D2 by exact Hc. apply D1. lia.
  Qed.

  (* one event in front: silent, or with a database output *)
  Lemma simres_silent d st e st1 o g' tr : step mt st e = Some (st1, o) -> is_dbout o = false ->
    (forall c, c < d -> scur st1 c = scur st c) -> simres d st1 g' tr -> simres d st g' tr.
  Proof.
    intros S N Fr [evs [st' [outs [A [B [C D]]]]]]. exists (e :: evs), st', (o :: outs).
    split; [eapply run_cons; eauto|]. split; [exact B|]. split.
    - unfold dbouts. simpl. rewrite N. exact C.
    - intros c Hc. rewrite D by exact Hc. apply Fr. exact Hc.
  Qed.

  Lemma simres_out d st e st1 o o0 g' tr : step mt st e = Some (st1, o) -> is_dbout o = true -> out_eqv o0 o ->
    (forall c, c < d -> scur st1 c = scur st c) -> simres d st1 g' tr -> simres d st g' (o0 :: tr).
  Proof.
    intros S N Q Fr [evs [st' [outs [A [B [C D]]]]]]. exists (e :: evs), st', (o :: outs).
    split; [eapply run_cons; eauto|]. split; [exact B|]. split.
    - unfold dbouts. simpl. rewrite N. constructor; auto.
    - intros c Hc. rewrite D by exact Hc. apply Fr. exact Hc.
  Qed.

  Lemma set_cur_frame st d x : forall c, c < d -> scur (set_cur st d x) c = scur st c.
  Proof. intros c Hc. simpl. destruct (Nat.eqb_spec c d); [lia|reflexivity]. Qed.

  Lemma Rst_set_cur g st d x : Rst g st -> Rst g (set_cur st d x).
  Proof. intros [A B]. split; simpl; auto. Qed.
  Lemma Rst_set_n g st n1 : Rst g st -> Rst (set_n g n1) st.
  Proof. intros [A B]. split; simpl; auto. Qed.

  (* closing an exhausted generator *)
  Lemma simres_close d st g' : Rst g' st -> scur st d = CDone -> simres d st g' [].
  Proof.
    intros R E. apply (@simres_silent d st (EClose d) (set_cur st d CDone) OClosed g' []).
    - simpl. rewrite E. reflexivity.
    - reflexivity.
    - apply set_cur_frame.
    - apply simres_nil. apply Rst_set_cur. exact R.
  Qed.

  (* closing a generator that exists (exhausted, or suspended: a cut / a commit leaves its loop) *)
  Lemma simres_close' d st g' : Rst g' st -> scur st d <> CNone -> simres d st g' [].
  Proof.
    intros R E. apply (@simres_silent d st (EClose d) (set_cur st d CDone) OClosed g' []).
    - simpl. destruct (scur st d); try reflexivity. contradiction.
    - reflexivity.
    - apply set_cur_frame.
    - apply simres_nil. apply Rst_set_cur. exact R.
  Qed.

  Lemma alt_tag lv o x f g' a tr c : alt lv (tag o x) f = Some (g', a, tr, c) ->
    exists t0, tr = o :: t0 /\ alt lv x f = Some (g', a, t0, c).
  Proof.
    destruct x as [[[[g1 a1] t1] c1]|]; simpl; [|discriminate].
    destruct (lv c1) as [c'|]; [intros H; inversion H; subst; eauto|].
    destruct (f g1) as [[[[g2 a2] t2] c2]|]; [|discriminate]. intros H; inversion H; subst. eauto.
  Qed.

  (* x at depth d1 (the generators below d1 are not touched), then: stop (what has to be closed is closed),
     or f from the state x left *)
  Lemma alt_sim lv (x : res) (f : glob -> res) d1 d st g' a tr c :
    d <= d1 ->
    (forall g1 a1 t1 c1, x = Some (g1, a1, t1, c1) -> simres d1 st g1 t1) ->
    (forall g1 a1 t1 c1 c' st1, x = Some (g1, a1, t1, c1) -> lv c1 = Some c' -> Rst g1 st1 ->
       (forall i, i < d1 -> scur st1 i = scur st i) -> simres d st1 g1 []) ->
    (forall g1 a1 t1 c1 g2 a2 t2 c2 st1, x = Some (g1, a1, t1, c1) -> lv c1 = None -> f g1 = Some (g2, a2, t2, c2) -> Rst g1 st1 ->
       (forall i, i < d1 -> scur st1 i = scur st i) -> simres d st1 g2 t2) ->
    alt lv x f = Some (g', a, tr, c) -> simres d st g' tr.
  Proof.
    intros L Hx Hstop Hf H. unfold alt in H. destruct x as [[[[g1 a1] t1] c1]|]; [|discriminate].
    pose proof (Hx _ _ _ _ eq_refl) as S1.
    destruct (lv c1) as [c'|] eqn:LV.
    - inversion H; subst; clear H. rewrite <- (app_nil_r tr).
      apply (@simres_seq d1 d st g' tr g' []); [exact L|exact S1|].
      intros st1 R1 Fr1. eapply Hstop; eauto.
    - destruct (f g1) as [[[[g2 a2] t2] c2]|] eqn:E; [|discriminate]. inversion H; subst; clear H.
      apply (@simres_seq d1 d st g1 t1 g' t2); [exact L|exact S1|].
      intros st1 R1 Fr1. eapply Hf; eauto.
  Qed.

  (* ---------------------------------------------------------------- one use of a fact, both machines *)
  Lemma match_both F n s args f u n1 :
    (forall w, F w = true -> w < n) -> wf s -> good (Pc n F) s -> lin (Pc n F) args -> fact_cells F f ->
    answer_match_fast uf s n args (fargs f) = (u, n1) ->
    match u with
    | UOk s' => exists a, mt (map (den s) args) (fargs f) = MYes a /\ ans_eqv (map (den_fast s') args) a
    | UFail => mt (map (den s) args) (fargs f) = MNo
    | _ => mt (map (den s) args) (fargs f) = MStuck
    end.
  Proof.
    intros R W G La Ff H. rewrite answer_match_fast_eq in H.
    destruct (@match_sim uf F s n args f W G R La Ff) as [_ X]. rewrite H in X. simpl in X.
    destruct u as [s'| | |]; auto. destruct X as [a [A B]]. exists a. split; auto.
    exists (shiftp (Nat.max (bound_list (map (den s) args)) (bound_list (fargs f)))
                   (n - Nat.max (bound_list (map (den s) args)) (bound_list (fargs f)))).
    split; [apply shiftp_inj|]. rewrite <- B. apply map_ext. intros x. apply den_fast_eq.
  Qed.

  Lemma qnext_nil st d pat : qnext mt st d pat [] = Some (set_cur st d CDone, OEnd).
  Proof. reflexivity. Qed.
  Lemma qnext_no st d pat f l : mt pat (fargs f) = MNo -> qnext mt st d pat (f :: l) = qnext mt st d pat l.
  Proof. intros E. unfold qnext. cbn [qscan]. rewrite E. reflexivity. Qed.
  Lemma qnext_yes st d pat f l a : mt pat (fargs f) = MYes a ->
    qnext mt st d pat (f :: l) = Some (set_cur st d (CQRun pat l), OAns (fid f) a).
  Proof. intros E. unfold qnext. cbn [qscan]. rewrite E. reflexivity. Qed.

  Lemma rnext_nil st d k pat : rnext mt st d k pat [] = Some (set_cur st d CDone, OEnd).
  Proof. reflexivity. Qed.
  Lemma rnext_no st d k pat f l : mt pat (fargs f) = MNo -> rnext mt st d k pat (f :: l) = rnext mt st d k pat l.
  Proof. intros E. unfold rnext. cbn [rscan]. rewrite E. reflexivity. Qed.
  Lemma rnext_gone st d k pat f l a : mt pat (fargs f) = MYes a -> has_id (fid f) (sdb st k) = false ->
    rnext mt st d k pat (f :: l) = rnext mt st d k pat l.
  Proof. intros E Hh. unfold rnext. cbn [rscan]. rewrite E, Hh. reflexivity. Qed.
  Lemma rnext_yes st d k pat f l a : mt pat (fargs f) = MYes a -> has_id (fid f) (sdb st k) = true ->
    rnext mt st d k pat (f :: l) =
      Some (set_cur (set_db st (upd k (del_id (fid f) (sdb st k)) (sdb st))) d (CRRun k pat l), ORet k (fid f) a).
  Proof. intros E Hh. unfold rnext. cbn [rscan]. rewrite E, Hh. reflexivity. Qed.

  (* retractall: the same pass *)
  Lemma rallh_rall F s args : forall l n keep gone n',
    (forall w, F w = true -> w < n) -> wf s -> good (Pc n F) s -> lin (Pc n F) args -> Forall (fact_cells F) l ->
    rallh uf s args l n = Some (keep, gone, n') -> rall mt (map (den s) args) l = Some (keep, gone).
  Proof.
    induction l as [|f r IH]; intros n keep gone n' R W G La Fl H; cbn [rallh] in H; cbn [rall].
    - inversion H; subst. reflexivity.
    - inversion Fl as [|? ? Ff Fr]; subst.
      destruct (answer_match_fast uf s n args (fargs f)) as [u n1] eqn:M.
      pose proof (@match_both F n s args f u n1 R W G La Ff M) as MB.
      destruct (@match_step uf F n s args f u n1 R W G La Ff M) as [L _].
      assert (R1: forall w, F w = true -> w < n1) by (intros w Hw; apply R in Hw; lia).
      assert (G1: good (Pc n1 F) s) by (eapply good_mono; [|exact G]; intros v; apply Pc_mono; exact L).
      assert (L1: lin (Pc n1 F) args) by (eapply lin_mono; [|exact La]; intros v; apply Pc_mono; exact L).
      destruct u as [s1| | |]; try discriminate;
        destruct (rallh uf s args r n1) as [[[k' g'] n2]|] eqn:E; try discriminate; inversion H; subst; clear H;
        rewrite (IH _ _ _ _ R1 W G1 L1 Fr E).
      + destruct MB as [a [-> _]]. reflexivity.
      + rewrite MB. reflexivity.
  Qed.

  (* ---------------------------------------------------------------- the loops *)
  Definition sim_rec (rec : list goal -> store -> glob -> res) : Prop :=
    forall gs s g g' a tr c F, cinv F gs s g -> rec gs s g = Some (g', a, tr, c) ->
    forall d st, Rst g st -> simres d st g' tr.

  Section Loops.
    Variable rec : list goal -> store -> glob -> res.
    Hypothesis Hinv : inv_rec rec.
    Hypothesis Hsim : sim_rec rec.

    Lemma scanq_sim args r s d : forall l g g' a tr fl F, ginv F g -> ctx F (gn g) s args r l ->
      scanq uf rec args r s l g = Some (g', a, tr, fl) ->
      forall st, Rst g st -> step mt st (ENext d) = qnext mt st d (map (den s) args) l ->
      simres d st g' tr.
    Proof.
      induction l as [|f l IH]; intros g g' a tr fl F I C H st R N; cbn [scanq] in H.
      - inversion H; subst. rewrite qnext_nil in N.
        apply (@simres_silent d st (ENext d) _ OEnd g' [] N eq_refl (set_cur_frame st CDone)).
        apply simres_close; [apply Rst_set_cur; exact R|]. simpl. rewrite Nat.eqb_refl. reflexivity.
      - pose proof C as [W G La Lr Fl]. inversion Fl as [|? ? Ff Fl']; subst.
        destruct (answer_match_fast uf s (gn g) args (fargs f)) as [u n1] eqn:M.
        pose proof (@match_both F (gn g) s args f u n1 (gi_range I) W G La Ff M) as MB.
        destruct (@match_step uf F (gn g) s args f u n1 (gi_range I) W G La Ff M) as [L Po].
        pose proof (ginv_set_n I L) as I1.
        assert (C1: ctx F n1 s args r l) by (eapply ctx_mono; [apply grow_n; exact L|eapply ctx_tail; exact C]).
        destruct u as [s'| | |]; try discriminate.
        + destruct Po as [W' G']. destruct MB as [a0 [MY AE]].
          unfold bindr in H. apply alt_tag in H as [t0 [-> H]].
          rewrite (@qnext_yes st d _ _ l _ MY) in N.
          assert (CI: cinv F r s' (set_n g n1)) by (constructor; simpl; auto; apply C1).
          eapply simres_out; [exact N|reflexivity|simpl; auto|apply set_cur_frame|].
          set (st1 := set_cur st d (CQRun (map (den s) args) l)).
          assert (R1: Rst (set_n g n1) st1) by (apply Rst_set_n; apply Rst_set_cur; exact R).
          eapply (@alt_sim lv_loop _ _ (S d) d st1); [lia| | | |exact H].
          * intros g1 a1 t1 c1 ER. eapply Hsim; [exact CI|exact ER|exact R1].
          * intros g1 a1 t1 c1 c' st2 ER _ R2 Fr2. apply simres_close'; [exact R2|].
            rewrite (Fr2 d) by lia. unfold st1. simpl. rewrite Nat.eqb_refl. discriminate.
          * intros g1 a1 t1 c1 g2 a2 t2 c2 st2 ER _ ES R2 Fr2. destruct (Hinv CI ER) as [F1 [G1 I1']]. simpl in G1.
            eapply IH; [exact I1'|eapply ctx_mono; [exact G1|exact C1]|exact ES|exact R2|].
            cbn [step]. rewrite (Fr2 d) by lia. unfold st1. simpl. rewrite Nat.eqb_refl. reflexivity.
        + rewrite (@qnext_no st d _ _ l MB) in N.
          eapply IH; [exact I1|exact C1|exact H|apply Rst_set_n; exact R|exact N].
    Qed.

    Lemma scanr_sim k args r s d : forall l g g' a tr fl F, ginv F g -> ctx F (gn g) s args r l ->
      scanr uf rec k args r s l g = Some (g', a, tr, fl) ->
      forall st, Rst g st -> (forall st0, sdb st0 = sdb st -> scur st0 d = scur st d ->
                               step mt st0 (ENext d) = rnext mt st0 d k (map (den s) args) l) ->
      simres d st g' tr.
    Proof.
      induction l as [|f l IH]; intros g g' a tr fl F I C H st R N; cbn [scanr] in H.
      - inversion H; subst. specialize (N st eq_refl eq_refl). rewrite rnext_nil in N.
        apply (@simres_silent d st (ENext d) _ OEnd g' [] N eq_refl (set_cur_frame st CDone)).
        apply simres_close; [apply Rst_set_cur; exact R|]. simpl. rewrite Nat.eqb_refl. reflexivity.
      - pose proof C as [W G La Lr Fl]. inversion Fl as [|? ? Ff Fl']; subst.
        destruct (answer_match_fast uf s (gn g) args (fargs f)) as [u n1] eqn:M.
        pose proof (@match_both F (gn g) s args f u n1 (gi_range I) W G La Ff M) as MB.
        destruct (@match_step uf F (gn g) s args f u n1 (gi_range I) W G La Ff M) as [L Po].
        pose proof (ginv_set_n I L) as I1.
        assert (C1: ctx F n1 s args r l) by (eapply ctx_mono; [apply grow_n; exact L|eapply ctx_tail; exact C]).
        assert (HI: has_id (fid f) (sdb st k) = has_id (fid f) (gdb g k)) by (destruct R as [R1 _]; rewrite R1; reflexivity).
        destruct u as [s'| | |]; try discriminate.
        + destruct Po as [W' G']. destruct MB as [a0 [MY AE]].
          destruct (has_id (fid f) (gdb g k)) eqn:HG.
          * set (g0 := mkg (upd k (del_id (fid f) (gdb g k)) (gdb g)) (gid g) n1 (gw g)) in *.
            unfold bindr in H. apply alt_tag in H as [t0 [-> H]].
            specialize (N st eq_refl eq_refl). rewrite (@rnext_yes st d k _ _ l _ MY HI) in N.
            assert (I0: ginv F g0) by (apply ginv_del; auto).
            assert (CI: cinv F r s' g0) by (constructor; simpl; auto; apply C1).
            eapply simres_out; [exact N|reflexivity|simpl; auto|intros c Hc; simpl; destruct (Nat.eqb_spec c d); [lia|reflexivity]|].
            set (st1 := set_cur (set_db st (upd k (del_id (fid f) (sdb st k)) (sdb st))) d (CRRun k (map (den s) args) l)).
            assert (R1: Rst g0 st1).
            { destruct R as [Ra Rb]. split; simpl; auto. apply upd_ext; auto. rewrite Ra. reflexivity. }
            eapply (@alt_sim lv_loop _ _ (S d) d st1); [lia| | | |exact H].
            -- intros g1 a1 t1 c1 ER. eapply Hsim; [exact CI|exact ER|exact R1].
            -- intros g1 a1 t1 c1 c' st2 ER _ R2 Fr2. apply simres_close'; [exact R2|].
               rewrite (Fr2 d) by lia. unfold st1. simpl. rewrite Nat.eqb_refl. discriminate.
            -- intros g1 a1 t1 c1 g2 a2 t2 c2 st2 ER _ ES R2 Fr2. destruct (Hinv CI ER) as [F1 [G1 I1']]. simpl in G1.
               eapply IH; [exact I1'|eapply ctx_mono; [exact G1|exact C1]|exact ES|exact R2|].
               intros st0 E1 E2. cbn [step]. rewrite E2, (Fr2 d) by lia. unfold st1. simpl. rewrite Nat.eqb_refl. reflexivity.
          * eapply IH; [exact I1|exact C1|exact H|apply Rst_set_n; exact R|].
            intros st0 E1 E2. rewrite (N st0 E1 E2). apply (@rnext_gone st0 d k _ _ l _ MY). rewrite E1. exact HI.
        + eapply IH; [exact I1|exact C1|exact H|apply Rst_set_n; exact R|].
          intros st0 E1 E2. rewrite (N st0 E1 E2). apply (@rnext_no st0 d k _ _ l MB).
    Qed.

    Lemma tryclauses_sim args r s d : forall cls g g' a tr fl F, Forall clause_ok cls -> ginv F g -> ctx F (gn g) s args r [] ->
      tryclauses uf rec args r s cls g = Some (g', a, tr, fl) -> forall st, Rst g st -> simres d st g' tr.
    Proof.
      induction cls as [|c cs IH]; intros g g' a tr fl F OK I C H st R; cbn [tryclauses] in H.
      - inversion H; subst. apply simres_nil. exact R.
      - inversion OK as [|? ? Oc Ocs]; subst. pose proof C as [W G La Lr _].
        assert (L: gn g <= gn g + cnv c) by lia.
        pose proof (ginv_set_n I L) as I1.
        assert (C1: ctx F (gn g + cnv c) s args r []) by (eapply ctx_mono; [apply grow_n; exact L|exact C]).
        destruct (@head_step uf F g s args c _ I W G La Oc eq_refl) as [Po Lb].
        destruct (unify_arrays_fast uf s args (map (shift (gn g)) (chead c))) as [s'| | |]; try discriminate.
        + destruct Po as [W' G'].
          assert (CI: cinv F (map (shift_goal (gn g)) (cbody c) ++ GPop :: r) s' (set_n g (gn g + cnv c))).
          { constructor; simpl; auto. apply Forall_app. split; [exact Lb|constructor; [exact Logic.I|apply C1]]. }
          eapply (@alt_sim lv_clause _ _ d d st); [lia| | | |exact H].
          * intros g1 a1 t1 c1 ER. eapply Hsim; [exact CI|exact ER|apply Rst_set_n; exact R].
          * intros g1 a1 t1 c1 c' st2 ER _ R2 _. apply simres_nil. exact R2.
          * intros g1 a1 t1 c1 g2 a2 t2 c2 st2 ER _ ES R2 _. destruct (Hinv CI ER) as [F1 [G1 I1']]. simpl in G1.
            eapply IH; [exact Ocs|exact I1'|eapply ctx_mono; [exact G1|exact C1]|exact ES|exact R2].
        + eapply IH; [exact Ocs|exact I1|exact C1|exact H|apply Rst_set_n; exact R].
    Qed.
  End Loops.

  Section Solve.
    Variable prog : program.
    Hypothesis Hprog : prog_ok prog.

    Lemma solve_sim : forall n, sim_rec (solve uf prog n).
    Proof.
      induction n as [|n IH]; intros gs s g g' a tr fl F CI H d st R; [discriminate|].
      pose proof (@solve_inv uf prog Hprog n) as Hinv.
      cbn [solve] in H. destruct (gw g) as [|w]; [discriminate|].
      apply (@cinv_tick F gs s g w) in CI.
      assert (R': Rst (mkg (gdb g) (gid g) (gn g) w) st) by exact R.
      set (gt := mkg (gdb g) (gid g) (gn g) w) in *. clearbody gt. clear R g. rename gt into g. rename R' into R.
      pose proof CI as [I W G Lg].
      destruct gs as [|[x y|name args|front t|t|t| | |ga gb|gc gt ge| | ] r].
      - inversion H; subst. apply simres_nil. exact R.
      - inversion Lg as [|? ? Tg Lr]; subst. simpl in Tg. destruct Tg as [Tx Ty]. rewrite unify_fast_eq in H.
        destruct (@unify_frame (Pc (gn g) F) uf s x y (good_closed G) Tx Ty) as [_ Po].
        destruct (unify uf s x y) as [s'| | |] eqn:EU; try discriminate.
        + destruct Po as [nw [-> Gn]]. destruct (unify_sound _ _ _ W EU) as [W' _].
          eapply (IH _ _ _ _ _ _ _ F); [|exact H|exact R]. constructor; auto. apply good_app; auto.
        + inversion H; subst. apply simres_nil. exact R.
      - inversion Lg as [|? ? La Lr]; subst. simpl in La.
        assert (C: ctx F (gn g) s args r (gdb g (name, length args))).
        { constructor; auto. apply Forall_forall. intros f Hf. eapply (gi_facts I); eauto. }
        set (pat := map (den s) args).
        set (st0 := set_cur st d (CQNew (name, length pat) pat)).
        apply (@simres_silent d st (EStart d (QQuery name pat)) st0 OStart g' tr eq_refl eq_refl (set_cur_frame st _)).
        eapply (@alt_sim lv_loop _ _ d d st0); [lia| | | |exact H].
        + intros g1 a1 t1 c1 ES.
          eapply scanq_sim; [exact Hinv|exact IH|exact I|exact C|exact ES|apply Rst_set_cur; exact R|].
          cbn [step]. unfold st0. simpl. rewrite Nat.eqb_refl. unfold pat. rewrite map_length.
          destruct R as [Ra _]. f_equal. apply Ra.
        + intros g1 a1 t1 c1 c' st2 ES _ R2 _. apply simres_nil. exact R2.
        + intros g1 a1 t1 c1 g2 a2 t2 c2 st2 ES _ ET R2 _.
          destruct (@scanq_inv uf _ Hinv args r s _ _ _ _ _ _ F I C ES) as [F1 [G1 I1]].
          eapply tryclauses_sim; [exact Hinv|exact IH|apply clauses_of_ok; exact Hprog|exact I1| |exact ET|exact R2].
          eapply ctx_mono; [exact G1|]. destruct C; constructor; auto.
      - inversion Lg as [|? ? Tt Lr]; subst. simpl in Tt.
        destruct (callable (den_fast s t)) as [[name args]|] eqn:CA.
        + destruct (answer_init_fast s args (gn g)) as [stored n1] eqn:AI.
          set (k := (name, length args)) in *.
          destruct (@assert_inv F g s args stored n1 k front (gw g) I AI) as [G1 I1].
          set (g0 := mkg (upd k (ins front (mkfact (gid g) stored) (gdb g k)) (gdb g)) (S (gid g)) n1 (gw g)) in *.
          apply tag_some in H as [t1 [-> E]].
          assert (LS: length stored = length args).
          { rewrite answer_init_fast_eq in AI. unfold answer_init in AI.
            pose proof (copy_args_length s args (gn g)) as X. rewrite AI in X. exact X. }
          pose proof R as [Ra Rb].
          assert (ST: step mt st (EAssert front (TFun name stored)) =
                      Some (mkst (upd k (ins front (mkfact (gid g) stored) (sdb st k)) (sdb st)) (S (snext st)) (scur st),
                            OIns k front (mkfact (gid g) stored))).
          { cbn [step callable]. unfold do_assert. rewrite LS, Rb. reflexivity. }
          eapply simres_out; [exact ST|reflexivity|reflexivity|intros c _; reflexivity|].
          eapply IH; [|exact E|].
          * eapply (@cinv_mono F (gn g)); [exact G1|reflexivity|exact I1|]. constructor; auto.
          * split; simpl; [|rewrite Rb; reflexivity]. apply upd_ext; auto. rewrite Ra. reflexivity.
        + eapply (IH _ _ _ _ _ _ _ F); [|exact H|exact R]. constructor; auto.
      - inversion Lg as [|? ? Tt Lr]; subst. simpl in Tt.
        destruct (callable (den_fast s t)) as [[name args]|] eqn:CA.
        + assert (C: ctx F (gn g) s args r (gdb g (name, length args))).
          { constructor; auto.
            - eapply callable_lin; [apply good_closed; exact G|exact Tt|exact CA].
            - apply Forall_forall. intros f Hf. eapply (gi_facts I); eauto. }
          set (pat := map (den s) args).
          set (st0 := set_cur st d (CRNew (TFun name pat))).
          apply (@simres_silent d st (EStart d (QRetract (TFun name pat))) st0 OStart g' tr eq_refl eq_refl (set_cur_frame st _)).
          eapply scanr_sim; [exact Hinv|exact IH|exact I|exact C|exact H|apply Rst_set_cur; exact R|].
          intros st1 E1 E2. cbn [step]. rewrite E2. unfold st0. simpl. rewrite Nat.eqb_refl. simpl.
          unfold pat. rewrite map_length. rewrite E1. unfold st0. simpl. destruct R as [Ra _]. rewrite Ra. reflexivity.
        + inversion H; subst. apply simres_nil. exact R.
      - inversion Lg as [|? ? Tt Lr]; subst. simpl in Tt.
        destruct (callable (den_fast s t)) as [[name args]|] eqn:CA; [|inversion H; subst; apply simres_nil; exact R].
        set (k := (name, length args)) in *.
        destruct (rallh uf s args (gdb g k) (gn g)) as [[[keep gone] n1]|] eqn:RA; [|discriminate].
        set (g0 := mkg (upd k keep (gdb g)) (gid g) n1 (gw g)) in *.
        apply tag_some in H as [t1 [-> E]].
        assert (La: lin (Pc (gn g) F) args) by (eapply callable_lin; [apply good_closed; exact G|exact Tt|exact CA]).
        assert (Fl: Forall (fact_cells F) (gdb g k)) by (apply Forall_forall; intros f Hf; eapply (gi_facts I); eauto).
        destruct (@rallh_inv uf F s args _ _ _ _ _ (gi_range I) W G La Fl RA) as [L Sub].
        pose proof (@rallh_rall F s args _ _ _ _ _ (gi_range I) W G La Fl RA) as RR.
        assert (I0: ginv F g0).
        { unfold g0. constructor; simpl.
          - intros k0 f Hf. unfold upd in Hf. destruct (key_eqb_spec k0 k) as [->|N]; [|eapply (gi_facts I); eauto].
            eapply (gi_facts I). apply Sub. exact Hf.
          - intros v Hv. apply (gi_range I) in Hv. lia. }
        pose proof R as [Ra Rb].
        assert (ST: step mt st (ERetractAll (TFun name (map (den s) args))) =
                    Some (set_db st (upd k keep (sdb st)), ORAll k gone)).
        { cbn [step callable]. rewrite map_length. fold k. rewrite Ra, RR. reflexivity. }
        eapply simres_out; [exact ST|reflexivity|reflexivity|intros c _; reflexivity|].
        eapply IH; [|exact E|].
        + eapply (@cinv_mono F (gn g)); [apply grow_n; exact L|reflexivity|exact I0|]. constructor; auto.
        + split; simpl; auto. apply upd_ext; auto.
      - (* fail *) inversion H; subst. apply simres_nil. exact R.
      - (* ! : the rest of the body; the loops that are left close their generators themselves *)
        inversion Lg as [|? ? _ Lr]; subst. apply mapflag_some in H as [c0 E].
        eapply (IH _ _ _ _ _ _ _ F); [|exact E|exact R]. constructor; auto.
      - (* ; *) inversion Lg as [|? ? Tg Lr]; subst. apply goal_in_or in Tg as [Ta Tb].
        assert (CIa: cinv F (ga ++ r) s g) by (constructor; auto; apply Forall_app; split; auto).
        eapply (@alt_sim lv_loop _ _ d d st); [lia| | | |exact H].
        + intros g1 a1 t1 c1 E. eapply IH; [exact CIa|exact E|exact R].
        + intros g1 a1 t1 c1 c' st2 E _ R2 _. apply simres_nil. exact R2.
        + intros g1 a1 t1 c1 g2 a2 t2 c2 st2 E _ E2 R2 _. destruct (Hinv _ _ _ _ _ _ _ _ CIa E) as [F1 [G1 I1]].
          eapply IH; [|exact E2|exact R2].
          eapply (@cinv_mono F (gn g)); [exact G1|reflexivity|exact I1|]. constructor; auto. apply Forall_app. split; auto.
      - (* -> ; *) inversion Lg as [|? ? Tg Lr]; subst. apply goal_in_if in Tg as [Tc [Tt Te]].
        assert (CIc: cinv F (gc ++ GCommit :: gt ++ r) s g).
        { constructor; auto. apply Forall_app. split; auto. constructor; [exact Logic.I|]. apply Forall_app. split; auto. }
        eapply (@alt_sim lv_if _ _ d d st); [lia| | | |exact H].
        + intros g1 a1 t1 c1 E. eapply IH; [exact CIc|exact E|exact R].
        + intros g1 a1 t1 c1 c' st2 E _ R2 _. apply simres_nil. exact R2.
        + intros g1 a1 t1 c1 g2 a2 t2 c2 st2 E _ E2 R2 _. destruct (Hinv _ _ _ _ _ _ _ _ CIc E) as [F1 [G1 I1]].
          eapply IH; [|exact E2|exact R2].
          eapply (@cinv_mono F (gn g)); [exact G1|reflexivity|exact I1|]. constructor; auto. apply Forall_app. split; auto.
      - (* end of a clause body *) inversion Lg as [|? ? _ Lr]; subst. apply mapflag_some in H as [c0 E].
        eapply (IH _ _ _ _ _ _ _ F); [|exact E|exact R]. constructor; auto.
      - (* end of a condition *) inversion Lg as [|? ? _ Lr]; subst. apply mapflag_some in H as [c0 E].
        eapply (IH _ _ _ _ _ _ _ F); [|exact E|exact R]. constructor; auto.
    Qed.

    (* every run of a compiled body is a history of the cursor machine *)
    Theorem prog_run_is_cursor_history n gs s g g' a tr fl F st :
      cinv F gs s g -> solve uf prog n gs s g = Some (g', a, tr, fl) -> Rst g st ->
      exists evs st' outs, run mt st evs = Some (st', outs) /\ Rst g' st' /\ tr_eqv tr (dbouts outs).
    Proof.
      intros CI H R. destruct (@solve_sim n gs s g g' a tr fl F CI H 0 st R) as [evs [st' [outs [A [B [C _]]]]]].
      exists evs, st', outs. auto.
    Qed.
  End Solve.
End Sim.

(* ------------------------------------------------------------------ what transfers *)
From YP Require Import Engine.DbSpec.

(* the cursor machine in the state of the compiled run: same database, same identity counter, no generator *)
Definition st_of (g : glob) : DbCursor.st := mkst (gdb g) (gid g) (fun _ => CNone).

Lemma Rst_st_of g : Rst g (st_of g).
Proof. split; reflexivity. Qed.

Lemma ids_ok_ext (d1 d2 : db) n : (forall k, d1 k = d2 k) -> ids_ok d1 n -> ids_ok d2 n.
Proof.
  intros E [A [B C]]. repeat split.
  - intros k. rewrite <- E. apply A.
  - intros k f. rewrite <- E. apply B.
  - intros k k' i. rewrite <- !E. apply C.
Qed.

Lemma removed_dbouts outs : removed (dbouts outs) = removed outs.
Proof.
  induction outs as [|o r IH]; simpl; auto. unfold removed in *. destruct o; simpl; rewrite ?IH; auto.
Qed.

Lemma tr_eqv_removed tr outs : tr_eqv tr outs -> removed tr = removed outs.
Proof.
  induction 1 as [|o o' tr outs Q _ IH]; auto. unfold removed in *. simpl. rewrite IH. f_equal.
  destruct o; destruct o'; simpl in Q; try contradiction; try discriminate; try (inversion Q; subst; reflexivity).
  destruct Q as [_ [-> _]]. reflexivity.
Qed.

Section Transfer.
  Variable uf : nat.
  Variable prog : program.
  Hypothesis Hprog : prog_ok prog.
  Notation mt := (match_fact uf).

  (* C14_no_lost_update / C14_retract_at_most_once / C07_ids_invariant of the history, read in the compiled run *)
  Theorem prog_history_no_lost_update n gs s g g' a tr fl F :
    cinv F gs s g -> ids_ok (gdb g) (gid g) -> solve uf prog n gs s g = Some (g', a, tr, fl) ->
    exists evs st' outs, run mt (st_of g) evs = Some (st', outs) /\ Rst g' st' /\ tr_eqv tr (dbouts outs) /\
      (forall k, gdb g' k = apply_outs outs (gdb g) k) /\ ids_ok (gdb g') (gid g') /\
      NoDup (removed outs) /\ removed tr = removed outs.
  Proof.
    intros CI I H. destruct (@prog_run_is_cursor_history uf prog Hprog n gs s g g' a tr fl F (st_of g) CI H (Rst_st_of g))
      as [evs [st' [outs [A [B C]]]]].
    exists evs, st', outs. split; [exact A|]. split; [exact B|]. split; [exact C|].
    destruct (@no_lost_update mt evs (st_of g) st' outs I A) as [D E]. destruct B as [B1 B2].
    split; [intros k; rewrite <- B1; apply D|]. split; [rewrite <- B2; eapply ids_ok_ext; [exact B1|exact E]|].
    split; [exact (@retract_at_most_once mt evs (st_of g) st' outs I A)|].
    rewrite (tr_eqv_removed C). apply removed_dbouts.
  Qed.

  (* C14_cursor_visits_snapshot of the history: whatever the rest of the run does, every generator of the history
     that has its snapshot returns exactly the matching facts of that snapshot, in order, then StopIteration *)
  Theorem prog_history_cursor_visits_snapshot n gs s g g' a tr fl F :
    cinv F gs s g -> solve uf prog n gs s g = Some (g', a, tr, fl) ->
    exists evs st' outs, run mt (st_of g) evs = Some (st', outs) /\ Rst g' st' /\ tr_eqv tr (dbouts outs) /\
      forall pre post st1 o1 st2 o2 c L, evs = pre ++ post ->
        run mt (st_of g) pre = Some (st1, o1) -> run mt st1 post = Some (st2, o2) ->
        cur_stream mt (scur st1 c) = Some L -> no_ctl c post ->
        outs_of c post o2 = expect L (length (outs_of c post o2)).
  Proof.
    intros CI H. destruct (@prog_run_is_cursor_history uf prog Hprog n gs s g g' a tr fl F (st_of g) CI H (Rst_st_of g))
      as [evs [st' [outs [A [B C]]]]].
    exists evs, st', outs. split; [exact A|]. split; [exact B|]. split; [exact C|].
    intros pre post st1 o1 st2 o2 c L _ _ R2 HL NC. eapply cursor_visits_snapshot; eauto.
  Qed.

  (* C07_db_refines_list_spec of the history: when the history of the run is a sequence of atomic operations
     (no goal suspended around a database operation), what the run sees and leaves is what the list
     specification says *)
  Theorem prog_history_refines_list_spec n gs s g g' a tr fl F :
    cinv F gs s g -> ids_ok (gdb g) (gid g) -> solve uf prog n gs s g = Some (g', a, tr, fl) ->
    exists evs st' outs, run mt (st_of g) evs = Some (st', outs) /\ Rst g' st' /\ tr_eqv tr (dbouts outs) /\
      forall ops d0, evs = flat_map compile ops -> R d0 (st_of g) ->
        map vis outs = snd (srun mt d0 ops) /\ R (fst (srun mt d0 ops)) st'.
  Proof.
    intros CI I H. destruct (@prog_run_is_cursor_history uf prog Hprog n gs s g g' a tr fl F (st_of g) CI H (Rst_st_of g))
      as [evs [st' [outs [A [B C]]]]].
    exists evs, st', outs. split; [exact A|]. split; [exact B|]. split; [exact C|].
    intros ops d0 E0 R0. subst evs. exact (@db_refines_list_spec mt ops (st_of g) st' outs d0 I R0 A).
  Qed.
End Transfer.
