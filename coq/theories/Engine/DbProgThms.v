(* Theorems about database operations issued from compiled code (DbProg.v), for every program, every
   body, every store and every nesting of suspended goals (a goal is suspended while the rest of the
   body - which may contain further goals and updates on the same predicate - runs for one of its
   answers; bodies with !, fail, ( A ; B ), ( C -> T ; E ), \+ C: the updates made in branches that a cut or a
   commit discards are part of the trace and of the fold - alt_post holds whatever the flags are):

   - the trace of a run is a sequence of ATOMIC LIST OPERATIONS, each applied to the list that is current
     when it happens: an assert conses/appends one new Answer, an answer of retract deletes one Answer
     that is in the current list at that moment, retractall filters the current list
     (valid_trace); the database after the run is the fold of these operations over the database
     before it, in execution order (nothing is lost, no stale list is ever republished);
   - identities stay unique (ids_ok is an invariant), and over the whole run - all retract goals, however
     nested, and all retractall calls - every Answer is removed at most once (NoDup (removed tr)).

   The vocabulary (out, apply_out, apply_outs, removed, ids_ok) is that of the cursor machine
   (DbCursor.v, DbCursorThms.v): these are the statements C14_no_lost_update / C14_retract_at_most_once
   with `run mt s evs` replaced by the execution of a compiled body, where goals share variables and
   bindings. *)
From Coq Require Import List Arith Bool Lia ZArith.
Import ListNotations.
From YP Require Import Base.Str Term.Term Term.Fast Unify.Unify Unify.Fast Engine.Db Engine.DbCursor Engine.DbCursorThms Engine.DbFacts Engine.DbProg.
Set Implicit Arguments.

Definition is_ins (o : out) : nat := match o with OIns _ _ _ => 1 | _ => 0 end.
Fixpoint count_ins (tr : list out) : nat := match tr with [] => 0 | o :: r => is_ins o + count_ins r end.

(* o is an atomic update that makes sense in the database d, nid being the next free identity *)
Definition valid_out (d : db) (nid : nat) (o : out) : Prop :=
  match o with
  | OIns _ _ f => fid f = nid
  | ORet k i _ => In i (map fid (d k))
  | ORAll k gone => NoDup gone /\ forall i, In i gone -> In i (map fid (d k))
  | _ => True
  end.

Fixpoint valid_trace (d : db) (nid : nat) (tr : list out) : Prop :=
  match tr with
  | [] => True
  | o :: r => valid_out d nid o /\ valid_trace (apply_out o d) (nid + is_ins o) r
  end.

Lemma valid_out_ext d1 d2 nid o : (forall k, d1 k = d2 k) -> valid_out d1 nid o -> valid_out d2 nid o.
Proof.
  intros E. destruct o; simpl; auto; try (rewrite <- E; auto; fail).
Qed.

Lemma valid_trace_ext tr : forall d1 d2 nid, (forall k, d1 k = d2 k) -> valid_trace d1 nid tr -> valid_trace d2 nid tr.
Proof.
  induction tr as [|o r IH]; intros d1 d2 nid E H; simpl in *; auto. destruct H as [A B]. split.
  - eapply valid_out_ext; eauto.
  - eapply IH; [|exact B]. apply apply_out_ext. exact E.
Qed.

Lemma apply_outs_app a b d : apply_outs (a ++ b) d = apply_outs b (apply_outs a d).
Proof. unfold apply_outs. apply fold_left_app. Qed.

Lemma count_ins_app a b : count_ins (a ++ b) = count_ins a + count_ins b.
Proof. induction a as [|o a IH]; simpl; auto. rewrite IH. lia. Qed.

Lemma valid_trace_app a : forall b d nid,
  valid_trace d nid (a ++ b) <-> valid_trace d nid a /\ valid_trace (apply_outs a d) (nid + count_ins a) b.
Proof.
  induction a as [|o a IH]; intros b d nid; simpl.
  - rewrite Nat.add_0_r. tauto.
  - rewrite IH. replace (nid + is_ins o + count_ins a) with (nid + (is_ins o + count_ins a)) by lia. tauto.
Qed.

(* ------------------------------------------------------------------ one atomic update *)
Lemma del_ids_in' g l c : In c (del_ids g l) <-> In c l /\ ~ In (fid c) g.
Proof.
  unfold del_ids. rewrite filter_In. split; intros [A B]; split; auto.
  - intros X. apply negb_true_iff in B.
    assert (Y: existsb (Nat.eqb (fid c)) g = true); [|congruence].
    apply existsb_exists. exists (fid c). split; auto. apply Nat.eqb_refl.
  - apply negb_true_iff. destruct (existsb (Nat.eqb (fid c)) g) eqn:X; auto.
    apply existsb_exists in X as [i [Hi E]]. apply Nat.eqb_eq in E. subst i. contradiction.
Qed.

Lemma valid_out_ids_ok d nid o : ids_ok d nid -> valid_out d nid o -> ids_ok (apply_out o d) (nid + is_ins o).
Proof.
  intros I V. destruct o as [k front f| |k gone| | | | | | |id a|k id a|l]; simpl in *; rewrite ?Nat.add_0_r; auto.
  - destruct f as [i args]. simpl in V. subst i. replace (nid + 1) with (S nid) by lia. apply ids_ok_ins. exact I.
  - apply ids_ok_sub; auto.
    + intros f Hf. apply del_ids_in' in Hf. tauto.
    + apply nodup_ids_filter. destruct I as [I1 _]. apply I1.
  - apply ids_ok_empty.
  - apply ids_ok_sub; auto.
    + intros f Hf. apply del_id_in in Hf. tauto.
    + apply nodup_ids_filter. destruct I as [I1 _]. apply I1.
Qed.

Lemma valid_trace_ids_ok tr : forall d nid, ids_ok d nid -> valid_trace d nid tr ->
  ids_ok (apply_outs tr d) (nid + count_ins tr).
Proof.
  induction tr as [|o r IH]; intros d nid I V; simpl in *.
  - rewrite Nat.add_0_r. exact I.
  - destruct V as [A B]. replace (nid + (is_ins o + count_ins r)) with (nid + is_ins o + count_ins r) by lia.
    apply IH; auto. apply valid_out_ids_ok; auto.
Qed.

(* what one atomic update removes, and where the remaining identities come from *)
Lemma valid_out_removed d nid o : ids_ok d nid -> valid_out d nid o ->
  NoDup (removed_of o) /\
  (forall i, In i (removed_of o) -> exists k, In i (map fid (d k))) /\
  (forall i, In i (removed_of o) -> forall k, ~ In i (map fid (apply_out o d k))) /\
  (forall i k, In i (map fid (apply_out o d k)) -> In i (map fid (d k)) \/ i = nid).
Proof.
  intros [I1 [I2 I3]] V.
  assert (Sub: forall (p : fact -> bool) k0 i k, In i (map fid (upd k0 (filter p (d k0)) d k)) -> In i (map fid (d k))).
  { intros p k0 i k. unfold upd. destruct (key_eqb_spec k k0) as [->|]; auto. apply ids_filter. }
  destruct o as [k front f| |k gone| | | | | | |id a|k id a|l]; simpl in *;
    try (split; [constructor|split; [intros i []|split; [intros i []|intros i k0 Hi; left; exact Hi]]]).
  - (* OIns *)
    split; [constructor|split; [intros i []|split; [intros i []|]]].
    intros i k0. unfold upd. destruct (key_eqb_spec k0 k) as [EK|N]; intros Hi; [subst k0|auto].
    unfold ins in Hi. destruct front; simpl in Hi.
    + destruct Hi as [Hi|Hi]; [right; congruence|left; exact Hi].
    + rewrite map_app, in_app_iff in Hi. simpl in Hi. destruct Hi as [Hi|[Hi|[]]]; [left; exact Hi|right; congruence].
  - (* ORAll *)
    destruct V as [V1 V2]. split; [exact V1|split; [|split]].
    + intros i Hi. exists k. auto.
    + intros i Hi k0. unfold upd. destruct (key_eqb_spec k0 k) as [EK|N]; intros X; [subst k0|].
      * apply in_map_iff in X as [c [E X]]. apply del_ids_in' in X as [_ X]. subst i. contradiction.
      * apply N. apply (I3 k0 k i); auto.
    + intros i k0 Hi. left. eapply Sub; eauto.
  - (* OClr *)
    split; [constructor|split; [intros i []|split; [intros i []|]]]. intros i k0 Hi. unfold empty_db in Hi. simpl in Hi. contradiction.
  - (* ORet *)
    split; [repeat constructor; auto|split; [|split]].
    + intros i [<-|[]]. exists k. exact V.
    + intros i [<-|[]] k0. unfold upd. destruct (key_eqb_spec k0 k) as [EK|N]; intros X; [subst k0|].
      * apply in_map_iff in X as [c [E X]]. apply del_id_in in X as [_ X]. congruence.
      * apply N. apply (I3 k0 k id); auto.
    + intros i k0 Hi. left. eapply Sub; eauto.
Qed.

Lemma valid_trace_removed tr : forall d nid R,
  ids_ok d nid -> valid_trace d nid tr ->
  (forall i, In i R -> i < nid /\ forall k, ~ In i (map fid (d k))) -> NoDup R ->
  NoDup (R ++ removed tr).
Proof.
  induction tr as [|o r IH]; intros d nid R I V HR N; simpl in *.
  - rewrite app_nil_r. exact N.
  - destruct V as [V1 V2].
    destruct (@valid_out_removed d nid o I V1) as [A [B [C D]]].
    pose proof (@valid_out_ids_ok d nid o I V1) as I'.
    unfold removed. simpl. fold (removed r). rewrite app_assoc. apply (IH (apply_out o d) (nid + is_ins o)); auto.
    + intros i Hi. apply in_app_iff in Hi as [Hi|Hi].
      * destruct (HR i Hi) as [X Y]. split; [lia|]. intros k Z. destruct (D _ _ Z) as [W|W]; [apply (Y k W)|lia].
      * split; [|apply C; auto]. destruct (B i Hi) as [k Hk]. destruct I as [_ [I2 _]].
        apply in_map_iff in Hk as [f [Ef Hf]]. subst i. specialize (I2 k f Hf). lia.
    + apply nodup_app; auto. intros i Hi Hj. destruct (HR i Hi) as [_ Y]. destruct (B i Hj) as [k Hk]. apply (Y k Hk).
Qed.

(* ------------------------------------------------------------------ the specification of a run *)
Definition post (g g' : glob) (tr : list out) : Prop :=
  valid_trace (gdb g) (gid g) tr /\ (forall k, gdb g' k = apply_outs tr (gdb g) k) /\ gid g' = gid g + count_ins tr.

Lemma post_ids_ok g g' tr : ids_ok (gdb g) (gid g) -> post g g' tr -> ids_ok (gdb g') (gid g').
Proof.
  intros I [V [E N]]. pose proof (@valid_trace_ids_ok tr _ _ I V) as X. rewrite N.
  destruct X as [X1 [X2 X3]]. repeat split.
  - intros k. rewrite E. apply X1.
  - intros k f. rewrite E. apply X2.
  - intros k k' i. rewrite !E. apply X3.
Qed.

Lemma post_refl g : post g g [].
Proof. repeat split; simpl; auto. Qed.

Lemma post_same g g' : (forall k, gdb g' k = gdb g k) -> gid g' = gid g -> post g g' [].
Proof. intros E N. repeat split; simpl; auto. lia. Qed.

Lemma post_trans g g1 g2 t1 t2 : post g g1 t1 -> post g1 g2 t2 -> post g g2 (t1 ++ t2).
Proof.
  intros [V1 [E1 N1]] [V2 [E2 N2]]. split; [|split].
  - apply valid_trace_app. split; auto. rewrite <- N1. eapply valid_trace_ext; [|exact V2]. exact E1.
  - intros k. rewrite E2, apply_outs_app. apply apply_outs_ext. exact E1.
  - rewrite N2, N1, count_ins_app. lia.
Qed.

Lemma post_cons g g1 g' o t1 : valid_out (gdb g) (gid g) o ->
  (forall k, gdb g1 k = apply_out o (gdb g) k) -> gid g1 = gid g + is_ins o -> post g1 g' t1 -> post g g' (o :: t1).
Proof.
  intros V E N [V1 [E1 N1]]. split; [|split].
  - simpl. split; auto. rewrite <- N. eapply valid_trace_ext; [|exact V1]. exact E.
  - intros k. rewrite E1. simpl. apply apply_outs_ext. exact E.
  - rewrite N1, N. simpl. lia.
Qed.

(* retractall, one pass under the heap: what stays is the current list without the identities in gone *)
Lemma rallh_spec uf s args : forall l n keep gone n', NoDup (map fid l) -> rallh uf s args l n = Some (keep, gone, n') ->
  keep = del_ids gone l /\ (forall i, In i gone -> In i (map fid l)) /\ NoDup gone.
Proof.
  induction l as [|f r IH]; intros n keep gone n' N H; cbn [rallh] in H.
  - inversion H; subst. repeat split; auto; try constructor; intros; contradiction.
  - inversion N as [|? ? N1 N2]; subst.
    destruct (answer_match_fast uf s n args (fargs f)) as [u n1].
    destruct u as [s1| | |]; try discriminate;
      destruct (rallh uf s args r n1) as [[[k' g'] n2]|] eqn:R; try discriminate; inversion H; subst; clear H;
      destruct (IH _ _ _ _ N2 R) as [A [B C]].
    + repeat split.
      * rewrite del_ids_hit, del_ids_cons_notin; auto.
      * intros i [<-|Hi]; simpl; auto.
      * constructor; auto.
    + assert (NG: existsb (Nat.eqb (fid f)) gone = false).
      { destruct (existsb (Nat.eqb (fid f)) gone) eqn:X; auto. apply existsb_exists in X as [i [Hi E]].
        apply Nat.eqb_eq in E. subst i. exfalso. apply N1. auto. }
      repeat split; auto.
      * rewrite del_ids_miss; auto. f_equal. exact A.
      * intros i Hi. simpl. right. auto.
Qed.

Definition good_rec (rec : list goal -> store -> glob -> res) : Prop :=
  forall gs s g g' a tr c, ids_ok (gdb g) (gid g) -> rec gs s g = Some (g', a, tr, c) -> post g g' tr.

(* the combinators of the search, whatever the flags are *)
Lemma alt_post lv (x : res) (f : glob -> res) g g' a tr c :
  ids_ok (gdb g) (gid g) ->
  (forall g1 a1 t1 c1, x = Some (g1, a1, t1, c1) -> post g g1 t1) ->
  (forall g1 g2 a2 t2 c2, ids_ok (gdb g1) (gid g1) -> f g1 = Some (g2, a2, t2, c2) -> post g1 g2 t2) ->
  alt lv x f = Some (g', a, tr, c) -> post g g' tr.
Proof.
  intros I Hx Hf H. unfold alt in H. destruct x as [[[[g1 a1] t1] c1]|]; [|discriminate].
  pose proof (Hx _ _ _ _ eq_refl) as P1.
  destruct (lv c1) as [c'|]; [inversion H; subst; exact P1|].
  destruct (f g1) as [[[[g2 a2] t2] c2]|] eqn:E; [|discriminate]. inversion H; subst; clear H.
  eapply post_trans; [exact P1|]. eapply Hf; [|exact E].
  eapply post_ids_ok; eauto.
Qed.

Lemma mapflag_some fl x g' a tr c : mapflag fl x = Some (g', a, tr, c) -> exists c0, x = Some (g', a, tr, c0).
Proof. destruct x as [[[[g1 a1] t1] c1]|]; simpl; intros H; inversion H; subst. eauto. Qed.

Lemma tag_some o x g' a tr c : tag o x = Some (g', a, tr, c) -> exists t0, tr = o :: t0 /\ x = Some (g', a, t0, c).
Proof. destruct x as [[[[g1 a1] t1] c1]|]; simpl; intros H; inversion H; subst. eauto. Qed.

Section Loops.
  Variable uf : nat.
  Variable rec : list goal -> store -> glob -> res.
  Hypothesis Hrec : good_rec rec.

  Lemma scanq_post args r s : forall l g g' a tr c, ids_ok (gdb g) (gid g) ->
    scanq uf rec args r s l g = Some (g', a, tr, c) -> post g g' tr.
  Proof.
    induction l as [|f l IH]; intros g g' a tr c I H; cbn [scanq] in H.
    - inversion H; subst. apply post_refl.
    - destruct (answer_match_fast uf s (gn g) args (fargs f)) as [u n1]. destruct u as [s'| | |]; try discriminate.
      + eapply alt_post; [exact I| |intros g1 g2 a2 t2 c2 I1 E; eapply IH; eauto|exact H].
        intros g1 a1 t1 c1 E. apply tag_some in E as [t0 [-> ER]].
        apply (@post_cons g (set_n g n1) g1 (OAns (fid f) (map (den_fast s') args)) t0); simpl; auto.
        eapply Hrec; [|exact ER]. exact I.
      + apply (@post_trans g (set_n g n1) g' [] tr).
        * apply post_same; reflexivity.
        * eapply IH; [|exact H]. exact I.
  Qed.

  Lemma scanr_post k args r s : forall l g g' a tr c, ids_ok (gdb g) (gid g) ->
    scanr uf rec k args r s l g = Some (g', a, tr, c) -> post g g' tr.
  Proof.
    induction l as [|f l IH]; intros g g' a tr c I H; cbn [scanr] in H.
    - inversion H; subst. apply post_refl.
    - destruct (answer_match_fast uf s (gn g) args (fargs f)) as [u n1]. destruct u as [s'| | |]; try discriminate.
      + destruct (has_id (fid f) (gdb g k)) eqn:HI.
        * eapply alt_post; [exact I| |intros g1 g2 a2 t2 c2 I1 E; eapply IH; eauto|exact H].
          intros g1 a1 t1 c1 E. apply tag_some in E as [tx [-> ER]].
          set (g0 := mkg (upd k (del_id (fid f) (gdb g k)) (gdb g)) (gid g) n1 (gw g)) in *.
          assert (V: valid_out (gdb g) (gid g) (ORet k (fid f) (map (den_fast s') args))) by (simpl; apply has_id_in; exact HI).
          apply (@post_cons g g0 g1 _ tx V); simpl; auto.
          eapply Hrec; [|exact ER].
          apply (@valid_out_ids_ok _ _ _ I) in V. simpl in V. rewrite Nat.add_0_r in V. exact V.
        * apply (@post_trans g (set_n g n1) g' [] tr).
          -- apply post_same; reflexivity.
          -- eapply IH; [|exact H]. exact I.
      + apply (@post_trans g (set_n g n1) g' [] tr).
        * apply post_same; reflexivity.
        * eapply IH; [|exact H]. exact I.
  Qed.

  Lemma tryclauses_post args r s : forall cls g g' a tr c, ids_ok (gdb g) (gid g) ->
    tryclauses uf rec args r s cls g = Some (g', a, tr, c) -> post g g' tr.
  Proof.
    induction cls as [|cl cs IH]; intros g g' a tr c I H; cbn [tryclauses] in H.
    - inversion H; subst. apply post_refl.
    - destruct (unify_arrays_fast uf s args (map (shift (gn g)) (chead cl))) as [s'| | |]; try discriminate.
      + apply (@post_trans g (set_n g (gn g + cnv cl)) g' [] tr).
        * apply post_same; reflexivity.
        * eapply alt_post; [exact I| |intros g1 g2 a2 t2 c2 I1 E; eapply IH; eauto|exact H].
          intros g1 a1 t1 c1 E. eapply Hrec; [|exact E]. exact I.
      + apply (@post_trans g (set_n g (gn g + cnv cl)) g' [] tr).
        * apply post_same; reflexivity.
        * eapply IH; [|exact H]. exact I.
  Qed.
End Loops.

Section Solve.
  Variable uf : nat.
  Variable prog : program.

  Lemma solve_good : forall n, good_rec (solve uf prog n).
  Proof.
    induction n as [|n IH]; intros gs s g g' a tr c I H; [discriminate|].
    cbn [solve] in H. destruct (gw g) as [|w]; [discriminate|].
    set (gt := mkg (gdb g) (gid g) (gn g) w) in *.
    assert (I' : ids_ok (gdb gt) (gid gt)) by exact I.
    change (post gt g' tr). clearbody gt. clear I. rename g into g_before. rename gt into g. rename I' into I.
    destruct gs as [|[x y|name args|front t|t|t| | |ga gb|gc gt ge| | ] r].
    - inversion H; subst. apply post_refl.
    - destruct (unify_fast uf s x y) as [s'| | |]; try discriminate.
      + eapply IH; eauto.
      + inversion H; subst. apply post_refl.
    - eapply alt_post; [exact I| | |exact H].
      + intros g1 a1 t1 c1 E. eapply scanq_post; [exact IH|exact I|exact E].
      + intros g1 g2 a2 t2 c2 I1 E. eapply tryclauses_post; [exact IH|exact I1|exact E].
    - destruct (callable (den_fast s t)) as [[name args]|]; [|eapply IH; eauto].
      destruct (answer_init_fast s args (gn g)) as [stored n1].
      set (k := (name, length args)) in *. set (f := mkfact (gid g) stored) in *.
      set (g0 := mkg (upd k (ins front f (gdb g k)) (gdb g)) (S (gid g)) n1 (gw g)) in *.
      apply tag_some in H as [t1 [-> E]].
      assert (V: valid_out (gdb g) (gid g) (OIns k front f)) by reflexivity.
      apply (@post_cons g g0 g' _ t1 V); simpl; auto; [lia|].
      eapply IH; [|exact E].
      apply (@valid_out_ids_ok _ _ _ I) in V. simpl in V. replace (gid g + 1) with (S (gid g)) in V by lia. exact V.
    - destruct (callable (den_fast s t)) as [[name args]|].
      + eapply scanr_post; [exact IH|exact I|exact H].
      + inversion H; subst. apply post_refl.
    - destruct (callable (den_fast s t)) as [[name args]|]; [|inversion H; subst; apply post_refl].
      set (k := (name, length args)) in *.
      destruct (rallh uf s args (gdb g k) (gn g)) as [[[keep gone] n1]|] eqn:RA; [|discriminate].
      set (g0 := mkg (upd k keep (gdb g)) (gid g) n1 (gw g)) in *.
      apply tag_some in H as [t1 [-> E]].
      pose proof I as [I1 _].
      destruct (@rallh_spec uf s args _ _ _ _ _ (I1 k) RA) as [A [B C]].
      assert (V: valid_out (gdb g) (gid g) (ORAll k gone)) by (simpl; auto).
      assert (E0: forall k0, gdb g0 k0 = apply_out (ORAll k gone) (gdb g) k0) by (intros k0; simpl; rewrite A; reflexivity).
      apply (@post_cons g g0 g' _ t1 V E0); simpl; auto.
      eapply IH; [|exact E].
      apply (@valid_out_ids_ok _ _ _ I) in V. simpl in V. rewrite Nat.add_0_r in V.
      destruct V as [V1 [V2 V3]]. repeat split.
      * intros k0. rewrite E0. apply V1.
      * intros k0 f0. rewrite E0. apply V2.
      * intros k0 k1 i. rewrite !E0. apply V3.
    - (* fail *) inversion H; subst. apply post_refl.
    - (* ! *) apply mapflag_some in H as [c0 E]. eapply IH; eauto.
    - (* ; *) eapply alt_post; [exact I| | |exact H].
      + intros g1 a1 t1 c1 E. eapply IH; [exact I|exact E].
      + intros g1 g2 a2 t2 c2 I1 E. eapply IH; [exact I1|exact E].
    - (* -> ; *) eapply alt_post; [exact I| | |exact H].
      + intros g1 a1 t1 c1 E. eapply IH; [exact I|exact E].
      + intros g1 g2 a2 t2 c2 I1 E. eapply IH; [exact I1|exact E].
    - (* end of a clause body *) apply mapflag_some in H as [c0 E]. eapply IH; eauto.
    - (* end of a condition *) apply mapflag_some in H as [c0 E]. eapply IH; eauto.
  Qed.

  (* every database update issued from compiled code is an atomic list operation on the list that is
     current at that moment, and the database after the run is their fold: no modification is lost *)
  Theorem prog_no_lost_update n gs s g g' a tr c :
    ids_ok (gdb g) (gid g) -> solve uf prog n gs s g = Some (g', a, tr, c) ->
    valid_trace (gdb g) (gid g) tr /\ (forall k, gdb g' k = apply_outs tr (gdb g) k) /\ ids_ok (gdb g') (gid g').
  Proof.
    intros I H. pose proof (@solve_good n gs s g g' a tr c I H) as P. destruct P as [V [E N]].
    split; auto. split; auto. eapply post_ids_ok; eauto. repeat split; eauto.
  Qed.

  (* over all retract goals of the run, however nested, and all retractall calls: every Answer is removed
     (and returned by a retract) at most once *)
  Theorem prog_retract_at_most_once n gs s g g' a tr c :
    ids_ok (gdb g) (gid g) -> solve uf prog n gs s g = Some (g', a, tr, c) -> NoDup (removed tr).
  Proof.
    intros I H. destruct (@solve_good n gs s g g' a tr c I H) as [V _].
    apply (@valid_trace_removed tr (gdb g) (gid g) [] I V); [intros i []|constructor].
  Qed.
End Solve.
