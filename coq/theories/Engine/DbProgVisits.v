(* C13 for compiled code, part 2: the configurations a run of DbProg.solve goes through.

   [visits n c c']: the evaluation of solve (at fuel n) started in configuration c reaches the activation
   c' of the search.  A configuration is (goals still to run, bindings, global state, stack of suspended
   goals); the stack is ghost information: for every goal that is suspended around the activation - a goal
   on dynamic facts or a retract in the middle of its snapshot, a call between two clauses - its arguments
   and the rest of its snapshot.  The relation follows the depth-first execution: the sub-activation made
   for the i-th answer of a goal is reached from the global state left by the complete runs for the
   answers before it (calls: cq / cr / ct are the loops scanq / scanr / tryclauses).

   visits_inv: every configuration reached from one that satisfies the invariant of DbProgInv.v satisfies it
   (for a larger set of fact cells).  Consequences, for every program whose clauses mention only their own
   variables, every body, every nesting of suspended goals, asserts, retracts, retractalls:
   prog_fact_vars_never_bound, prog_uses_see_stored_value.  visits_answers: the relation is not too
   small - every solution of the run is a visited configuration. *)
From Coq Require Import List Arith Bool Lia ZArith.
Import ListNotations.
From YP Require Import Base.Str Term.Term Term.Fast Unify.Unify Unify.Fast Engine.Frame Engine.Db Engine.DbCursor
  Engine.DbFacts Engine.DbFactsThms Engine.DbHeap Engine.DbHeapThms Engine.DbProg Engine.DbProgInv.
Set Implicit Arguments.

Definition cfg := (list goal * store * glob * list sframe)%type.
Definition cgs (c : cfg) : list goal := fst (fst (fst c)).
Definition cst (c : cfg) : store := snd (fst (fst c)).
Definition cg (c : cfg) : glob := snd (fst c).
Definition cstk (c : cfg) : list sframe := snd c.

Definition cfg_inv (F : nat -> bool) (c : cfg) : Prop :=
  cinv F (cgs c) (cst c) (cg c) /\ Forall (sframe_ok (gn (cg c)) F) (cstk c).

Definition tick (g : glob) (w : nat) : glob := mkg (gdb g) (gid g) (gn g) w.

Section Calls.
  Variable uf : nat.
  Variable rec : list goal -> store -> glob -> res.

  (* scanq over the snapshot l from the global state g makes a sub-activation c *)
  Inductive cq (args : list term) (r : list goal) (s : store) (stk : list sframe) : list fact -> glob -> cfg -> Prop :=
  | cq_here f l g s' n1 : answer_match_fast uf s (gn g) args (fargs f) = (UOk s', n1) ->
      cq args r s stk (f :: l) g (r, s', set_n g n1, (args, l) :: stk)
  | cq_later_ok f l g s' n1 g1 a1 t1 c : answer_match_fast uf s (gn g) args (fargs f) = (UOk s', n1) ->
      rec r s' (set_n g n1) = Some (g1, a1, t1, None) -> cq args r s stk l g1 c -> cq args r s stk (f :: l) g c
  | cq_later_no f l g n1 c : answer_match_fast uf s (gn g) args (fargs f) = (UFail, n1) ->
      cq args r s stk l (set_n g n1) c -> cq args r s stk (f :: l) g c.

  Inductive cr (k : key) (args : list term) (r : list goal) (s : store) (stk : list sframe) : list fact -> glob -> cfg -> Prop :=
  | cr_here f l g s' n1 : answer_match_fast uf s (gn g) args (fargs f) = (UOk s', n1) -> has_id (fid f) (gdb g k) = true ->
      cr k args r s stk (f :: l) g (r, s', mkg (upd k (del_id (fid f) (gdb g k)) (gdb g)) (gid g) n1 (gw g), (args, l) :: stk)
  | cr_later_ok f l g s' n1 g1 a1 t1 c : answer_match_fast uf s (gn g) args (fargs f) = (UOk s', n1) -> has_id (fid f) (gdb g k) = true ->
      rec r s' (mkg (upd k (del_id (fid f) (gdb g k)) (gdb g)) (gid g) n1 (gw g)) = Some (g1, a1, t1, None) ->
      cr k args r s stk l g1 c -> cr k args r s stk (f :: l) g c
  | cr_later_gone f l g s' n1 c : answer_match_fast uf s (gn g) args (fargs f) = (UOk s', n1) -> has_id (fid f) (gdb g k) = false ->
      cr k args r s stk l (set_n g n1) c -> cr k args r s stk (f :: l) g c
  | cr_later_no f l g n1 c : answer_match_fast uf s (gn g) args (fargs f) = (UFail, n1) ->
      cr k args r s stk l (set_n g n1) c -> cr k args r s stk (f :: l) g c.

  Inductive ct (args : list term) (r : list goal) (s : store) (stk : list sframe) : list clause -> glob -> cfg -> Prop :=
  | ct_here c cs g s' : unify_arrays_fast uf s args (map (shift (gn g)) (chead c)) = UOk s' ->
      ct args r s stk (c :: cs) g (map (shift_goal (gn g)) (cbody c) ++ GPop :: r, s', set_n g (gn g + cnv c), (args, []) :: stk)
  | ct_later_ok c cs g s' g1 a1 t1 x : unify_arrays_fast uf s args (map (shift (gn g)) (chead c)) = UOk s' ->
      rec (map (shift_goal (gn g)) (cbody c) ++ GPop :: r) s' (set_n g (gn g + cnv c)) = Some (g1, a1, t1, None) ->
      ct args r s stk cs g1 x -> ct args r s stk (c :: cs) g x
  | ct_later_no c cs g x : unify_arrays_fast uf s args (map (shift (gn g)) (chead c)) = UFail ->
      ct args r s stk cs (set_n g (gn g + cnv c)) x -> ct args r s stk (c :: cs) g x.

  Hypothesis Hrec : inv_rec rec.

  Lemma stk_mono F n F' n' (stk : list sframe) : grow F n F' n' -> Forall (sframe_ok n F) stk -> Forall (sframe_ok n' F') stk.
  Proof. intros G. apply Forall_impl. intros fr. apply sframe_ok_mono. exact G. Qed.

  Lemma cq_inv args r s stk : forall l g c, cq args r s stk l g c ->
    forall F, ginv F g -> ctx F (gn g) s args r l -> Forall (sframe_ok (gn g) F) stk ->
    exists F', grow F (gn g) F' (gn (cg c)) /\ cfg_inv F' c.
  Proof.
    induction 1 as [f l g s' n1 M|f l g s' n1 g1 a1 t1 c M ER Hc IH|f l g n1 c M Hc IH]; intros F I C K;
      pose proof C as [W G La Lr Fl]; inversion Fl as [|? ? Ff Fl']; subst;
      destruct (@match_step uf F (gn g) s args f _ n1 (gi_range I) W G La Ff M) as [L Po];
      pose proof (ginv_set_n I L) as I1;
      assert (C1: ctx F n1 s args r l) by (eapply ctx_mono; [apply grow_n; exact L|eapply ctx_tail; exact C]);
      pose proof (stk_mono (grow_n F L) K) as K1.
    - destruct Po as [W' G']. exists F. split; [apply grow_n; exact L|]. split.
      + constructor; simpl; auto. apply C1.
      + simpl. constructor; auto. split; simpl; apply C1.
    - destruct Po as [W' G'].
      assert (CI: cinv F r s' (set_n g n1)) by (constructor; simpl; auto; apply C1).
      destruct (Hrec CI ER) as [F1 [G1 I1']]. simpl in G1.
      destruct (IH F1 I1' (ctx_mono G1 C1) (stk_mono G1 K1)) as [F2 [G2 X]].
      exists F2. split; auto. eapply grow_trans; [apply grow_n; exact L|]. eapply grow_trans; eauto.
    - destruct (IH F I1 C1 K1) as [F2 [G2 X]]. exists F2. split; auto.
      eapply grow_trans; [apply grow_n; exact L|exact G2].
  Qed.

  Lemma cr_inv k args r s stk : forall l g c, cr k args r s stk l g c ->
    forall F, ginv F g -> ctx F (gn g) s args r l -> Forall (sframe_ok (gn g) F) stk ->
    exists F', grow F (gn g) F' (gn (cg c)) /\ cfg_inv F' c.
  Proof.
    induction 1 as [f l g s' n1 M HI|f l g s' n1 g1 a1 t1 c M HI ER Hc IH|f l g s' n1 c M HI Hc IH|f l g n1 c M Hc IH]; intros F I C K;
      pose proof C as [W G La Lr Fl]; inversion Fl as [|? ? Ff Fl']; subst;
      destruct (@match_step uf F (gn g) s args f _ n1 (gi_range I) W G La Ff M) as [L Po];
      pose proof (ginv_set_n I L) as I1;
      pose proof (@ginv_del F g k (fid f) n1 I L) as I0;
      assert (C1: ctx F n1 s args r l) by (eapply ctx_mono; [apply grow_n; exact L|eapply ctx_tail; exact C]);
      pose proof (stk_mono (grow_n F L) K) as K1.
    - destruct Po as [W' G']. exists F. split; [apply grow_n; exact L|]. split.
      + constructor; simpl; auto. apply C1.
      + simpl. constructor; auto. split; simpl; apply C1.
    - destruct Po as [W' G'].
      set (g0 := mkg (upd k (del_id (fid f) (gdb g k)) (gdb g)) (gid g) n1 (gw g)) in *.
      assert (CI: cinv F r s' g0) by (constructor; simpl; auto; apply C1).
      destruct (Hrec CI ER) as [F1 [G1 I1']]. simpl in G1.
      destruct (IH F1 I1' (ctx_mono G1 C1) (stk_mono G1 K1)) as [F2 [G2 X]].
      exists F2. split; auto. eapply grow_trans; [apply grow_n; exact L|]. eapply grow_trans; eauto.
    - destruct (IH F I1 C1 K1) as [F2 [G2 X]]. exists F2. split; auto.
      eapply grow_trans; [apply grow_n; exact L|exact G2].
    - destruct (IH F I1 C1 K1) as [F2 [G2 X]]. exists F2. split; auto.
      eapply grow_trans; [apply grow_n; exact L|exact G2].
  Qed.

  Lemma ct_inv args r s stk : forall cls g x, ct args r s stk cls g x ->
    forall F, Forall clause_ok cls -> ginv F g -> ctx F (gn g) s args r [] -> Forall (sframe_ok (gn g) F) stk ->
    exists F', grow F (gn g) F' (gn (cg x)) /\ cfg_inv F' x.
  Proof.
    induction 1 as [c cs g s' U|c cs g s' g1 a1 t1 x U ER Hc IH|c cs g x U Hc IH]; intros F OK I C K;
      inversion OK as [|? ? Oc Ocs]; subst; pose proof C as [W G La Lr _];
      assert (L: gn g <= gn g + cnv c) by lia;
      pose proof (ginv_set_n I L) as I1;
      assert (C1: ctx F (gn g + cnv c) s args r []) by (eapply ctx_mono; [apply grow_n; exact L|exact C]);
      pose proof (stk_mono (grow_n F L) K) as K1;
      destruct (@head_step uf F g s args c _ I W G La Oc eq_refl) as [Po Lb]; rewrite U in Po.
    - destruct Po as [W' G']. exists F. split; [apply grow_n; exact L|]. split.
      + constructor; simpl; auto. apply Forall_app. split; [exact Lb|constructor; [exact Logic.I|apply C1]].
      + simpl. constructor; auto. split; simpl; [apply C1|constructor].
    - destruct Po as [W' G'].
      assert (CI: cinv F (map (shift_goal (gn g)) (cbody c) ++ GPop :: r) s' (set_n g (gn g + cnv c))).
      { constructor; simpl; auto. apply Forall_app. split; [exact Lb|constructor; [exact Logic.I|apply C1]]. }
      destruct (Hrec CI ER) as [F1 [G1 I1']]. simpl in G1.
      destruct (IH F1 Ocs I1' (ctx_mono G1 C1) (stk_mono G1 K1)) as [F2 [G2 X]].
      exists F2. split; auto. eapply grow_trans; [apply grow_n; exact L|]. eapply grow_trans; eauto.
    - destruct (IH F Ocs I1 C1 K1) as [F2 [G2 X]]. exists F2. split; auto.
      eapply grow_trans; [apply grow_n; exact L|exact G2].
  Qed.
End Calls.

Section Visits.
  Variable uf : nat.
  Variable prog : program.

  (* solve (S n) in the first configuration calls solve n in the second *)
  Inductive calls (n : nat) : cfg -> cfg -> Prop :=
  | c_unify a b r s g w stk s' : gw g = S w -> unify_fast uf s a b = UOk s' ->
      calls n (GUnify a b :: r, s, g, stk) (r, s', tick g w, stk)
  | c_call_facts name args r s g w stk c : gw g = S w ->
      cq uf (solve uf prog n) args r s stk (gdb g (name, length args)) (tick g w) c ->
      calls n (GCall name args :: r, s, g, stk) c
  | c_call_clauses name args r s g w stk g1 a1 t1 c : gw g = S w ->
      scanq uf (solve uf prog n) args r s (gdb g (name, length args)) (tick g w) = Some (g1, a1, t1, None) ->
      ct uf (solve uf prog n) args r s stk (clauses_of prog name (length args)) g1 c ->
      calls n (GCall name args :: r, s, g, stk) c
  | c_assert_skip front t r s g w stk : gw g = S w -> callable (den_fast s t) = None ->
      calls n (GAssert front t :: r, s, g, stk) (r, s, tick g w, stk)
  | c_assert front t r s g w stk name args stored n1 : gw g = S w -> callable (den_fast s t) = Some (name, args) ->
      answer_init_fast s args (gn g) = (stored, n1) ->
      calls n (GAssert front t :: r, s, g, stk)
              (r, s, mkg (upd (name, length args) (ins front (mkfact (gid g) stored) (gdb g (name, length args))) (gdb g)) (S (gid g)) n1 w, stk)
  | c_retract t r s g w stk name args c : gw g = S w -> callable (den_fast s t) = Some (name, args) ->
      cr uf (solve uf prog n) (name, length args) args r s stk (gdb g (name, length args)) (tick g w) c ->
      calls n (GRetract t :: r, s, g, stk) c
  | c_retractall t r s g w stk name args keep gone n1 : gw g = S w -> callable (den_fast s t) = Some (name, args) ->
      rallh uf s args (gdb g (name, length args)) (gn g) = Some (keep, gone, n1) ->
      calls n (GRetractAll t :: r, s, g, stk) (r, s, mkg (upd (name, length args) keep (gdb g)) (gid g) n1 w, stk)
  (* control: a cut, the end of a clause body and the end of a condition go on with the rest of the body; a
     disjunction runs its left branch and - from the global state that run left, if it was not cut - its right
     branch; an if-then-else runs condition + then branch and - if the condition did not commit - its else branch *)
  | c_cut r s g w stk : gw g = S w -> calls n (GCut :: r, s, g, stk) (r, s, tick g w, stk)
  | c_pop r s g w stk : gw g = S w -> calls n (GPop :: r, s, g, stk) (r, s, tick g w, stk)
  | c_commit r s g w stk : gw g = S w -> calls n (GCommit :: r, s, g, stk) (r, s, tick g w, stk)
  | c_or_left a b r s g w stk : gw g = S w -> calls n (GOr a b :: r, s, g, stk) (a ++ r, s, tick g w, stk)
  | c_or_right a b r s g w stk g1 a1 t1 : gw g = S w ->
      solve uf prog n (a ++ r) s (tick g w) = Some (g1, a1, t1, None) ->
      calls n (GOr a b :: r, s, g, stk) (b ++ r, s, g1, stk)
  | c_if_cond c t e r s g w stk : gw g = S w ->
      calls n (GIf c t e :: r, s, g, stk) (c ++ GCommit :: t ++ r, s, tick g w, stk)
  | c_if_else c t e r s g w stk g1 a1 t1 c1 : gw g = S w ->
      solve uf prog n (c ++ GCommit :: t ++ r) s (tick g w) = Some (g1, a1, t1, c1) -> lv_if c1 = None ->
      calls n (GIf c t e :: r, s, g, stk) (e ++ r, s, g1, stk).

  Inductive visits : nat -> cfg -> cfg -> Prop :=
  | v_here n c : visits n c c
  | v_call n c c1 c2 : calls n c c1 -> visits n c1 c2 -> visits (S n) c c2.

  Hypothesis Hprog : prog_ok prog.

  Lemma calls_inv n c c1 : calls n c c1 -> forall F, cfg_inv F c ->
    exists F', grow F (gn (cg c)) F' (gn (cg c1)) /\ cfg_inv F' c1.
  Proof.
    pose proof (@solve_inv uf prog Hprog n) as Hrec.
    destruct 1 as [a b r s g w stk s' Ew U|name args r s g w stk c Ew Hq|name args r s g w stk g1 a1 t1 c Ew ES Ht
                  |front t r s g w stk Ew CA|front t r s g w stk name args stored n1 Ew CA AI|t r s g w stk name args c Ew CA Hr
                  |t r s g w stk name args keep gone n1 Ew CA RA
                  |r s g w stk Ew|r s g w stk Ew|r s g w stk Ew|ga gb r s g w stk Ew|ga gb r s g w stk g1 a1 t1 Ew ES
                  |gc gt ge r s g w stk Ew|gc gt ge r s g w stk g1 a1 t1 c1 Ew ES LV];
      intros F [CI K]; unfold cgs, cst, cg, cstk in CI, K; simpl in CI, K; unfold cg; simpl;
      apply (@cinv_tick F _ s g w) in CI; fold (tick g w) in CI;
      pose proof CI as [I W G Lg]; inversion Lg as [|? ? Tg Lr]; subst; cbn [goal_in] in Tg.
    - destruct Tg as [Tx Ty]. rewrite unify_fast_eq in U.
      destruct (@unify_frame (Pc (gn g) F) uf s a b (good_closed G) Tx Ty) as [_ Po]. rewrite U in Po.
      destruct Po as [nw [-> Gn]]. destruct (unify_sound _ _ _ W U) as [W' _].
      exists F. split; [apply grow_refl|]. split; simpl; auto.
      constructor; auto. apply good_app; auto.
    - assert (C: ctx F (gn (tick g w)) s args r (gdb g (name, length args))).
      { constructor; auto. apply Forall_forall. intros f Hf. eapply (gi_facts I); eauto. }
      destruct (@cq_inv uf _ Hrec args r s stk _ _ _ Hq F I C K) as [F' [G' X]]. exists F'. split; auto.
    - assert (C: ctx F (gn (tick g w)) s args r (gdb g (name, length args))).
      { constructor; auto. apply Forall_forall. intros f Hf. eapply (gi_facts I); eauto. }
      destruct (@scanq_inv uf _ Hrec args r s _ _ _ _ _ _ F I C ES) as [F1 [G1 I1]]. simpl in G1.
      assert (C1: ctx F1 (gn g1) s args r []) by (eapply ctx_mono; [exact G1|]; destruct C; constructor; auto).
      destruct (@ct_inv uf _ Hrec args r s stk _ _ _ Ht F1 (clauses_of_ok _ _ Hprog) I1 C1 (stk_mono G1 K)) as [F' [G' X]].
      exists F'. split; auto. eapply grow_trans; eauto.
    - exists F. split; [apply grow_refl|]. split; simpl; auto. constructor; auto.
    - set (k := (name, length args)) in *.
      destruct (@assert_inv F (tick g w) s args stored n1 k front w I AI) as [G1 I1]. simpl in G1, I1.
      exists (addF F (gn g) n1). split; [exact G1|]. split; simpl.
      + apply (@cinv_mono F (gn g) _ r s (tick g w)); [exact G1|reflexivity|exact I1|]. constructor; auto.
      + exact (stk_mono G1 K).
    - assert (C: ctx F (gn (tick g w)) s args r (gdb g (name, length args))).
      { constructor; auto.
        - eapply callable_lin; [apply good_closed; exact G|exact Tg|exact CA].
        - apply Forall_forall. intros f Hf. eapply (gi_facts I); eauto. }
      destruct (@cr_inv uf _ Hrec _ args r s stk _ _ _ Hr F I C K) as [F' [G' X]]. exists F'. split; auto.
    - set (k := (name, length args)) in *.
      assert (La: lin (Pc (gn g) F) args) by (eapply callable_lin; [apply good_closed; exact G|exact Tg|exact CA]).
      assert (Fl: Forall (fact_cells F) (gdb g k)) by (apply Forall_forall; intros f Hf; eapply (gi_facts I); eauto).
      destruct (@rallh_inv uf F s args _ _ _ _ _ (gi_range I) W G La Fl RA) as [L Sub]. simpl in L.
      set (g0 := mkg (upd k keep (gdb g)) (gid g) n1 w).
      assert (I0: ginv F g0).
      { unfold g0. constructor; simpl.
        - intros k0 f Hf. unfold upd in Hf. destruct (key_eqb_spec k0 k) as [->|N]; [|eapply (gi_facts I); eauto].
          eapply (gi_facts I). apply Sub. exact Hf.
        - intros v Hv. apply (gi_range I) in Hv. simpl in Hv. lia. }
      exists F. split; [apply grow_n; exact L|]. split; simpl.
      + apply (@cinv_mono F (gn g) _ r s (tick g w)); [apply grow_n; exact L|reflexivity|exact I0|]. constructor; auto.
      + exact (stk_mono (grow_n F L) K).
    - exists F. split; [apply grow_refl|]. split; simpl; auto. constructor; auto.
    - exists F. split; [apply grow_refl|]. split; simpl; auto. constructor; auto.
    - exists F. split; [apply grow_refl|]. split; simpl; auto. constructor; auto.
    - rewrite !conj_all_Forall in Tg. destruct Tg as [Ta Tb].
      exists F. split; [apply grow_refl|]. split; simpl; auto. constructor; auto. apply Forall_app. split; auto.
    - rewrite !conj_all_Forall in Tg. destruct Tg as [Ta Tb].
      assert (CIa: cinv F (ga ++ r) s (tick g w)) by (constructor; auto; apply Forall_app; split; auto).
      destruct (Hrec _ _ _ _ _ _ _ _ CIa ES) as [F1 [G1 I1]]. exists F1. split; [exact G1|]. split; simpl.
      + eapply (@cinv_mono F (gn (tick g w))); [exact G1|reflexivity|exact I1|]. constructor; auto. apply Forall_app. split; auto.
      + exact (stk_mono G1 K).
    - rewrite !conj_all_Forall in Tg. destruct Tg as [Tc [Tt Te]].
      exists F. split; [apply grow_refl|]. split; simpl; auto. constructor; auto.
      apply Forall_app. split; auto. constructor; [exact Logic.I|]. apply Forall_app. split; auto.
    - rewrite !conj_all_Forall in Tg. destruct Tg as [Tc [Tt Te]].
      assert (CIc: cinv F (gc ++ GCommit :: gt ++ r) s (tick g w)).
      { constructor; auto. apply Forall_app. split; auto. constructor; [exact Logic.I|]. apply Forall_app. split; auto. }
      destruct (Hrec _ _ _ _ _ _ _ _ CIc ES) as [F1 [G1 I1]]. exists F1. split; [exact G1|]. split; simpl.
      + eapply (@cinv_mono F (gn (tick g w))); [exact G1|reflexivity|exact I1|]. constructor; auto. apply Forall_app. split; auto.
      + exact (stk_mono G1 K).
  Qed.

  Theorem visits_inv n c c' : visits n c c' -> forall F, cfg_inv F c ->
    exists F', grow F (gn (cg c)) F' (gn (cg c')) /\ cfg_inv F' c'.
  Proof.
    induction 1 as [n c|n c c1 c2 Hc Hv IH]; intros F I.
    - exists F. split; [apply grow_refl|exact I].
    - destruct (@calls_inv n c c1 Hc F I) as [F1 [G1 I1]]. destruct (IH F1 I1) as [F2 [G2 I2]].
      exists F2. split; auto. eapply grow_trans; eauto.
  Qed.
End Visits.

(* ------------------------------------------------------------------ consequences *)
(* the facts that exist in a configuration: stored, or still held in the snapshot of a suspended goal *)
Definition live_fact (c : cfg) (f : fact) : Prop :=
  (exists k, In f (gdb (cg c) k)) \/ (exists fr, In fr (cstk c) /\ In f (snd fr)).

(* all terms of a goal, those of the goals in its branches included *)
Fixpoint goal_terms (gl : goal) : list term :=
  match gl with
  | GUnify a b => [a; b]
  | GCall _ args => args
  | GAssert _ t | GRetract t | GRetractAll t => [t]
  | GOr a b => flat_map goal_terms a ++ flat_map goal_terms b
  | GIf c t e => flat_map goal_terms c ++ flat_map goal_terms t ++ flat_map goal_terms e
  | GFail | GCut | GPop | GCommit => []
  end.

Lemma goal_in_terms (P : nat -> bool) gl : goal_in P gl -> forall t, In t (goal_terms gl) -> tin P t.
Proof.
  induction gl as [a b|nm args|fr t|t|t| | |a b IHa IHb|c t e IHc IHt IHe| | ] using goal_ind'; try (simpl; intros _ x Hx; contradiction).
  - simpl. intros [A B] t [<-|[<-|[]]]; auto.
  - simpl. intros L t Ht. unfold lin in L. rewrite Forall_forall in L. auto.
  - simpl. intros A x [<-|[]]; auto.
  - simpl. intros A x [<-|[]]; auto.
  - simpl. intros A x [<-|[]]; auto.
  - rewrite goal_in_or. intros [A B] x Hx. cbn [goal_terms] in Hx. rewrite Forall_forall in *.
    apply in_app_or in Hx as [Hx|Hx]; apply in_flat_map in Hx as [y [Hy Hx]]; eauto.
  - rewrite goal_in_if. intros [A [B C]] x Hx. cbn [goal_terms] in Hx. rewrite Forall_forall in *.
    apply in_app_or in Hx as [Hx|Hx]; [|apply in_app_or in Hx as [Hx|Hx]]; apply in_flat_map in Hx as [y [Hy Hx]]; eauto.
Qed.

Lemma live_fact_cells F c f : cfg_inv F c -> live_fact c f -> fact_cells F f.
Proof.
  intros [CI K] [[k Hf]|[fr [Hfr Hf]]].
  - eapply (gi_facts (ci_g CI)); eauto.
  - rewrite Forall_forall in K. destruct (K fr Hfr) as [_ X]. rewrite Forall_forall in X. auto.
Qed.

(* the configuration in which a query starts: no bindings, the goals over the cells 0 .. nv-1 *)
Definition cfg_init (nv work : nat) (gs : list goal) : cfg := (gs, [], ginit nv work, []).

Lemma cfg_inv_init nv work gs : Forall (goal_in (below nv)) gs -> cfg_inv (fun _ => false) (cfg_init nv work gs).
Proof.
  intros H. split; [|constructor]. constructor; simpl.
  - constructor; simpl; [intros k f []|intros w Hw; discriminate].
  - constructor.
  - apply good_nil.
  - eapply Forall_impl; [|exact H]. intros gl. apply goal_in_mono. intros v Hv. unfold below in Hv. unfold Pc.
    rewrite Hv. reflexivity.
Qed.

Section Consequences.
  Variable uf : nat.
  Variable prog : program.
  Hypothesis Hprog : prog_ok prog.

  (* C13.3 for compiled code: in every configuration that a run reaches, every variable inside a fact (stored,
     or in the snapshot of a suspended goal) is unbound, occurs in no binding, in no goal still to run, in no
     suspended goal, and was allocated (it is below the allocation counter: no later Variable() returns it) *)
  Theorem prog_fact_vars_never_bound n c c' F : cfg_inv F c -> visits uf prog n c c' ->
    forall f t w, live_fact c' f -> In t (fargs f) -> occurs w t = true ->
      lookup w (cst c') = None /\
      (forall v u, In (v, u) (cst c') -> v <> w /\ occurs w u = false) /\
      (forall gl a, In gl (cgs c') -> In a (goal_terms gl) -> occurs w a = false) /\
      (forall fr a, In fr (cstk c') -> In a (fst fr) -> occurs w a = false) /\
      w < gn (cg c').
  Proof.
    intros I V f t w Lf Ht Hw.
    destruct (@visits_inv uf prog Hprog n c c' V F I) as [F' [_ I']].
    pose proof (live_fact_cells I' Lf) as Fc. destruct I' as [[Ig W G Lg] K].
    assert (Fw: F' w = true).
    { unfold fact_cells, lin in Fc. rewrite Forall_forall in Fc. exact (Fc t Ht w Hw). }
    assert (NP: Pc (gn (cg c')) F' w = false) by (unfold Pc; rewrite Fw; apply andb_false_r).
    split; [eapply good_F_unbound; eauto|]. split; [|split; [|split]].
    - intros v u Hin. destruct (G v u Hin) as [X Y]. split.
      + intros ->. congruence.
      + destruct (occurs w u) eqn:O; auto. apply Y in O. congruence.
    - intros gl a Hgl Ha. rewrite Forall_forall in Lg. pose proof (@goal_in_terms _ gl (Lg gl Hgl) a Ha) as T.
      destruct (occurs w a) eqn:O; auto. apply T in O. congruence.
    - intros fr a Hfr Ha. rewrite Forall_forall in K. destruct (K fr Hfr) as [X _].
      unfold lin in X. rewrite Forall_forall in X. destruct (occurs w a) eqn:O; auto. apply (X a Ha) in O. congruence.
    - apply (gi_range Ig). exact Fw.
  Qed.

  (* "fresh at every use" for compiled code: in every configuration that a run reaches, a use of a fact
     unifies the goal with a copy that is a function of the stored arguments and the allocation counter
     alone, whose cells are new, unbound and in no fact *)
  Theorem prog_uses_see_stored_value n c c' F : cfg_inv F c -> visits uf prog n c c' ->
    forall f goal, live_fact c' f ->
      answer_match_fast uf (cst c') (gn (cg c')) goal (fargs f) =
        (unify_arrays uf (cst c') goal (fst (copy_args [] (fargs f) (gn (cg c')))), snd (copy_args [] (fargs f) (gn (cg c')))) /\
      (forall t w, In t (fst (copy_args [] (fargs f) (gn (cg c')))) -> occurs w t = true ->
         gn (cg c') <= w /\ lookup w (cst c') = None /\
         forall f' u, live_fact c' f' -> In u (fargs f') -> occurs w u = false).
  Proof.
    intros I V f goal Lf.
    destruct (@visits_inv uf prog Hprog n c c' V F I) as [F' [_ I']].
    pose proof (live_fact_cells I' Lf) as Fc. pose proof I' as [[Ig W G Lg] K].
    assert (Fr: forall t, In t (fargs f) -> free_in (cst c') t) by (eapply fact_free; eauto).
    split; [rewrite answer_match_fast_eq; apply answer_match_independent; exact Fr|].
    intros t w Ht Hw. destruct (copy_args [] (fargs f) (gn (cg c'))) as [cs n'] eqn:Cp. simpl in Ht.
    destruct (copy_cells Cp) as [L X]. destruct (X t Ht w Hw) as [Y Z]. split; [exact Y|]. split.
    - destruct (lookup w (cst c')) as [u|] eqn:Lk; auto. apply lookup_in in Lk. destruct (G _ _ Lk) as [P1 _].
      unfold Pc in P1. apply andb_true_iff in P1 as [P1 _]. apply Nat.ltb_lt in P1. lia.
    - intros f' u Lf' Hu. destruct (occurs w u) eqn:O; auto.
      pose proof (live_fact_cells I' Lf') as Fc'. unfold fact_cells, lin in Fc'. rewrite Forall_forall in Fc'.
      specialize (Fc' u Hu w O). apply (gi_range Ig) in Fc'. lia.
  Qed.
End Consequences.

(* ------------------------------------------------------------------ adequacy of [visits] *)
(* the relation is not too small: every solution of a run is a configuration that the run visits *)
Lemma alt_ans lv (x : res) (f : glob -> res) g' a tr c (s' : store) : alt lv x f = Some (g', a, tr, c) -> In s' a ->
  (exists g1 a1 t1 c1, x = Some (g1, a1, t1, c1) /\ In s' a1) \/
  (exists g1 a1 t1 c1 g2 a2 t2 c2, x = Some (g1, a1, t1, c1) /\ lv c1 = None /\ f g1 = Some (g2, a2, t2, c2) /\ In s' a2).
Proof.
  unfold alt. destruct x as [[[[g1 a1] t1] c1]|]; [|discriminate].
  destruct (lv c1) as [c'|] eqn:LV.
  - intros H Hin. inversion H; subst. left. exists g', a, tr, c1. auto.
  - destruct (f g1) as [[[[g2 a2] t2] c2]|] eqn:E; [|discriminate]. intros H Hin. inversion H; subst; clear H.
    apply in_app_or in Hin as [Hin|Hin].
    + left. exists g1, a1, t1, c1. auto.
    + right. exists g1, a1, t1, c1, g', a2, t2, c. auto.
Qed.

Lemma lv_loop_none c : lv_loop c = None -> c = None.
Proof. destruct c; simpl; [discriminate|reflexivity]. Qed.
Lemma lv_clause_none c : lv_clause c = None -> c = None.
Proof. destruct c as [[|j]|]; simpl; try discriminate; reflexivity. Qed.

Lemma tag_some' o x g' a tr c : tag o x = Some (g', a, tr, c) -> exists t0, x = Some (g', a, t0, c).
Proof. destruct x as [[[[g1 a1] t1] c1]|]; simpl; intros H; inversion H; subst. eauto. Qed.

Section Adequacy.
  Variable uf : nat.
  Variable prog : program.

  Section LoopsA.
    Variable rec : list goal -> store -> glob -> res.

    Lemma scanq_ans args r s stk : forall l g g' a tr fl s', scanq uf rec args r s l g = Some (g', a, tr, fl) -> In s' a ->
      exists c g1 a1 t1 c1, cq uf rec args r s stk l g c /\ rec (cgs c) (cst c) (cg c) = Some (g1, a1, t1, c1) /\ In s' a1.
    Proof.
      induction l as [|f l IH]; intros g g' a tr fl s' H Hin; cbn [scanq] in H.
      - inversion H; subst. contradiction.
      - destruct (answer_match_fast uf s (gn g) args (fargs f)) as [u n1] eqn:M. destruct u as [s1| | |]; try discriminate.
        + destruct (alt_ans _ _ _ _ H Hin) as [[g1 [a1 [t1 [c1 [E Hi]]]]]|[g1 [a1 [t1 [c1 [g2 [a2 [t2 [c2 [E [LV [ES Hi]]]]]]]]]]]].
          * apply tag_some' in E as [t0 ER].
            exists (r, s1, set_n g n1, (args, l) :: stk), g1, a1, t0, c1. split; [eapply cq_here; eauto|]. split; auto.
          * apply lv_loop_none in LV. subst c1. apply tag_some' in E as [t0 ER].
            destruct (IH _ _ _ _ _ _ ES Hi) as [c [gx [ax [tx [cx [A B]]]]]]. exists c, gx, ax, tx, cx. split; auto.
            eapply cq_later_ok; eauto.
        + destruct (IH _ _ _ _ _ _ H Hin) as [c [gx [ax [tx [cx [A B]]]]]]. exists c, gx, ax, tx, cx. split; auto.
          eapply cq_later_no; eauto.
    Qed.

    Lemma scanr_ans k args r s stk : forall l g g' a tr fl s', scanr uf rec k args r s l g = Some (g', a, tr, fl) -> In s' a ->
      exists c g1 a1 t1 c1, cr uf rec k args r s stk l g c /\ rec (cgs c) (cst c) (cg c) = Some (g1, a1, t1, c1) /\ In s' a1.
    Proof.
      induction l as [|f l IH]; intros g g' a tr fl s' H Hin; cbn [scanr] in H.
      - inversion H; subst. contradiction.
      - destruct (answer_match_fast uf s (gn g) args (fargs f)) as [u n1] eqn:M. destruct u as [s1| | |]; try discriminate.
        + destruct (has_id (fid f) (gdb g k)) eqn:HI.
          * destruct (alt_ans _ _ _ _ H Hin) as [[g1 [a1 [t1 [c1 [E Hi]]]]]|[g1 [a1 [t1 [c1 [g2 [a2 [t2 [c2 [E [LV [ES Hi]]]]]]]]]]]].
            -- apply tag_some' in E as [t0 ER].
               exists (r, s1, mkg (upd k (del_id (fid f) (gdb g k)) (gdb g)) (gid g) n1 (gw g), (args, l) :: stk), g1, a1, t0, c1.
               split; [eapply cr_here; eauto|]. split; auto.
            -- apply lv_loop_none in LV. subst c1. apply tag_some' in E as [t0 ER].
               destruct (IH _ _ _ _ _ _ ES Hi) as [c [gx [ax [tx [cx [A B]]]]]]. exists c, gx, ax, tx, cx. split; auto.
               eapply cr_later_ok; eauto.
          * destruct (IH _ _ _ _ _ _ H Hin) as [c [gx [ax [tx [cx [A B]]]]]]. exists c, gx, ax, tx, cx. split; auto.
            eapply cr_later_gone; eauto.
        + destruct (IH _ _ _ _ _ _ H Hin) as [c [gx [ax [tx [cx [A B]]]]]]. exists c, gx, ax, tx, cx. split; auto.
          eapply cr_later_no; eauto.
    Qed.

    Lemma tryclauses_ans args r s stk : forall cls g g' a tr fl s', tryclauses uf rec args r s cls g = Some (g', a, tr, fl) -> In s' a ->
      exists c g1 a1 t1 c1, ct uf rec args r s stk cls g c /\ rec (cgs c) (cst c) (cg c) = Some (g1, a1, t1, c1) /\ In s' a1.
    Proof.
      induction cls as [|cl cs IH]; intros g g' a tr fl s' H Hin; cbn [tryclauses] in H.
      - inversion H; subst. contradiction.
      - destruct (unify_arrays_fast uf s args (map (shift (gn g)) (chead cl))) as [s1| | |] eqn:U; try discriminate.
        + destruct (alt_ans _ _ _ _ H Hin) as [[g1 [a1 [t1 [c1 [ER Hi]]]]]|[g1 [a1 [t1 [c1 [g2 [a2 [t2 [c2 [ER [LV [ES Hi]]]]]]]]]]]].
          * exists (map (shift_goal (gn g)) (cbody cl) ++ GPop :: r, s1, set_n g (gn g + cnv cl), (args, []) :: stk), g1, a1, t1, c1.
            split; [eapply ct_here; eauto|]. split; auto.
          * apply lv_clause_none in LV. subst c1.
            destruct (IH _ _ _ _ _ _ ES Hi) as [c [gx [ax [tx [cx [A B]]]]]]. exists c, gx, ax, tx, cx. split; auto.
            eapply ct_later_ok; eauto.
        + destruct (IH _ _ _ _ _ _ H Hin) as [c [gx [ax [tx [cx [A B]]]]]]. exists c, gx, ax, tx, cx. split; auto.
          eapply ct_later_no; eauto.
    Qed.
  End LoopsA.

  Lemma mapflag_some' fl x g' a tr c : mapflag fl x = Some (g', a, tr, c) -> exists c0, x = Some (g', a, tr, c0).
  Proof. destruct x as [[[[g1 a1] t1] c1]|]; simpl; intros H; inversion H; subst. eauto. Qed.

  Theorem visits_answers : forall n gs s g g' a tr fl stk s', solve uf prog n gs s g = Some (g', a, tr, fl) -> In s' a ->
    exists g'' stk', visits uf prog n (gs, s, g, stk) ([], s', g'', stk').
  Proof.
    induction n as [|n IH]; intros gs s g g' a tr fl stk s' H Hin; [discriminate|].
    cbn [solve] in H. destruct (gw g) as [|w] eqn:Ew; [discriminate|]. cbn [gdb gid gn gw] in H. fold (tick g w) in H.
    assert (Sub: forall c g1 a1 t1 c1, calls uf prog n (gs, s, g, stk) c -> solve uf prog n (cgs c) (cst c) (cg c) = Some (g1, a1, t1, c1) ->
                 In s' a1 -> exists g'' stk', visits uf prog (S n) (gs, s, g, stk) ([], s', g'', stk')).
    { intros [[[gs1 s1] gg1] stk1] g1 a1 t1 c1 Hc Hs Hi. unfold cgs, cst, cg in Hs; simpl in Hs.
      destruct (IH _ _ _ _ _ _ _ stk1 s' Hs Hi) as [g'' [stk' V]]. exists g'', stk'. eapply v_call; eauto. }
    destruct gs as [|[x y|name args|front t|t|t| | |ga gb|gc gt ge| | ] r].
    - inversion H; subst a. simpl in Hin. destruct Hin as [E|[]]. subst s'. exists g, stk. apply v_here.
    - destruct (unify_fast uf s x y) as [s1| | |] eqn:U; try discriminate.
      + eapply (Sub (r, s1, tick g w, stk)); [eapply c_unify; eauto|exact H|exact Hin].
      + inversion H; subst. contradiction.
    - destruct (alt_ans _ _ _ _ H Hin) as [[g1 [a1 [t1 [c1 [ES Hi]]]]]|[g1 [a1 [t1 [c1 [g2 [a2 [t2 [c2 [ES [LV [ET Hi]]]]]]]]]]]].
      + destruct (@scanq_ans _ args r s stk _ _ _ _ _ _ s' ES Hi) as [c [gx [ax [tx [cx [A [B C]]]]]]].
        eapply (Sub c); [eapply c_call_facts; eauto|exact B|exact C].
      + apply lv_loop_none in LV. subst c1.
        destruct (@tryclauses_ans _ args r s stk _ _ _ _ _ _ s' ET Hi) as [c [gx [ax [tx [cx [A [B C]]]]]]].
        eapply (Sub c); [eapply c_call_clauses; eauto|exact B|exact C].
    - destruct (callable (den_fast s t)) as [[name args]|] eqn:CA.
      + destruct (answer_init_fast s args (gn g)) as [stored n1] eqn:AI.
        apply tag_some' in H as [t0 E].
        eapply (Sub (r, s, _, stk)); [eapply c_assert; eauto|exact E|exact Hin].
      + eapply (Sub (r, s, tick g w, stk)); [eapply c_assert_skip; eauto|exact H|exact Hin].
    - destruct (callable (den_fast s t)) as [[name args]|] eqn:CA.
      + destruct (@scanr_ans _ (name, length args) args r s stk _ _ _ _ _ _ s' H Hin) as [c [gx [ax [tx [cx [A [B C]]]]]]].
        eapply (Sub c); [eapply c_retract; eauto|exact B|exact C].
      + inversion H; subst. contradiction.
    - destruct (callable (den_fast s t)) as [[name args]|] eqn:CA; [|inversion H; subst; contradiction].
      destruct (rallh uf s args (gdb g (name, length args)) (gn g)) as [[[keep gone] n1]|] eqn:RA; [|discriminate].
      apply tag_some' in H as [t0 E].
      eapply (Sub (r, s, _, stk)); [eapply c_retractall; eauto|exact E|exact Hin].
    - inversion H; subst. contradiction.
    - apply mapflag_some' in H as [c0 E]. eapply (Sub (r, s, tick g w, stk)); [eapply c_cut; eauto|exact E|exact Hin].
    - destruct (alt_ans _ _ _ _ H Hin) as [[g1 [a1 [t1 [c1 [E Hi]]]]]|[g1 [a1 [t1 [c1 [g2 [a2 [t2 [c2 [E [LV [E2 Hi]]]]]]]]]]]].
      + eapply (Sub (ga ++ r, s, tick g w, stk)); [eapply c_or_left; eauto|exact E|exact Hi].
      + apply lv_loop_none in LV. subst c1.
        eapply (Sub (gb ++ r, s, g1, stk)); [eapply c_or_right; eauto|exact E2|exact Hi].
    - destruct (alt_ans _ _ _ _ H Hin) as [[g1 [a1 [t1 [c1 [E Hi]]]]]|[g1 [a1 [t1 [c1 [g2 [a2 [t2 [c2 [E [LV [E2 Hi]]]]]]]]]]]].
      + eapply (Sub (gc ++ GCommit :: gt ++ r, s, tick g w, stk)); [eapply c_if_cond; eauto|exact E|exact Hi].
      + eapply (Sub (ge ++ r, s, g1, stk)); [eapply c_if_else; eauto|exact E2|exact Hi].
    - apply mapflag_some' in H as [c0 E]. eapply (Sub (r, s, tick g w, stk)); [eapply c_pop; eauto|exact E|exact Hin].
    - apply mapflag_some' in H as [c0 E]. eapply (Sub (r, s, tick g w, stk)); [eapply c_commit; eauto|exact E|exact Hin].
  Qed.
End Adequacy.
