(* C14: "a suspended retract skips facts that have meanwhile been removed": whatever happens between its
   next() calls, the Answers a retract cursor removes and returns are facts of ITS SNAPSHOT that match its
   pattern, taken in snapshot order, each at most once (a subsequence of the matching facts of the
   snapshot); and each of them was in the current list when it was returned (DbCursorThms.step_out_facts). *)
From Coq Require Import List Arith Bool Lia.
Import ListNotations.
From YP Require Import Base.Str Term.Term Engine.Db Engine.DbCursor Engine.DbCursorThms.
Set Implicit Arguments.

Inductive subseq {A : Type} : list A -> list A -> Prop :=
| ss_nil l : subseq [] l
| ss_skip x s l : subseq s l -> subseq s (x :: l)
| ss_take x s l : subseq s l -> subseq (x :: s) (x :: l).

Lemma subseq_app_l {A} (pre : list A) s l : subseq s l -> subseq s (pre ++ l).
Proof. intros H. induction pre as [|x pre IH]; simpl; auto. apply ss_skip. exact IH. Qed.

Lemma subseq_nil_any {A} (s : list A) : subseq s [] -> forall l, subseq s l.
Proof. intros H l. inversion H; subst. constructor. Qed.

Definition ret_id (o : out) : list nat := match o with ORet _ i _ => [i] | _ => [] end.
Definition ret_ids (os : list out) : list nat := flat_map ret_id os.

Section Order.
  Variable mt : list term -> list term -> mres.

  Definition match_ids (pat : list term) (l : list fact) : list nat := map (fun fa => fid (fst fa)) (matches mt pat l).

  Definition rcur_ids (cu : cursor) : option (list nat) :=
    match cu with
    | CRRun _ pat rest => Some (match_ids pat rest)
    | CDone => Some []
    | _ => None
    end.

  Theorem retract_cursor_in_snapshot_order : forall evs s s' outs c L,
    rcur_ids (scur s c) = Some L -> no_ctl c evs -> run mt s evs = Some (s', outs) ->
    subseq (ret_ids (outs_of c evs outs)) L.
  Proof.
    induction evs as [|e r IH]; intros s s' outs c L HL NC H; simpl in H.
    - inversion H; subst. simpl. constructor.
    - destruct (step mt s e) as [[s1 o]|] eqn:ES; [|discriminate].
      destruct (run mt s1 r) as [[s2 os]|] eqn:ER; [|discriminate]. inversion H; subst. clear H.
      assert (NC': no_ctl c r) by (intros x Hx; apply NC; right; exact Hx).
      assert (Other: acts_on c e = false -> outs_of c (e :: r) (o :: os) = outs_of c r os).
      { intros A. destruct e; simpl in *; auto. rewrite A. reflexivity. }
      destruct (acts_on c e) eqn:A.
      + destruct e as [| |c' q|c'|c'| | |]; simpl in A; try discriminate.
        * specialize (NC (EStart c' q) (or_introl eq_refl)). simpl in NC. congruence.
        * apply Nat.eqb_eq in A. subst c'. simpl. rewrite Nat.eqb_refl. simpl.
          simpl in ES. destruct (scur s c) as [|k pat|pat rest|t|k pat rest|] eqn:EC; simpl in HL; try discriminate.
          -- inversion HL; subst L. clear HL. unfold rnext in ES.
             destruct (rscan mt pat (sdb s k) rest) as [[[[f a] rr]|]|] eqn:Q; [| |discriminate]; inversion ES; subst; clear ES.
             ++ destruct (rscan_some _ _ _ _ Q) as [_ [Y [pre E]]]. subst rest. simpl.
                unfold match_ids. rewrite matches_app. simpl. rewrite Y. rewrite map_app. simpl.
                apply subseq_app_l. apply ss_take.
                eapply IH; [|exact NC'|exact ER]. simpl. rewrite Nat.eqb_refl. reflexivity.
             ++ simpl. apply subseq_nil_any. (* the cursor is done: nothing more is returned *)
                eapply IH; [|exact NC'|exact ER]. simpl. rewrite Nat.eqb_refl. reflexivity.
          -- inversion HL; subst L. inversion ES; subst. simpl. apply (IH s1 s' os c); auto. rewrite EC. reflexivity.
        * specialize (NC (EClose c') (or_introl eq_refl)). simpl in NC. congruence.
      + rewrite (Other eq_refl). apply (IH s1 s' os c); auto.
        rewrite (@step_other mt _ _ _ _ c ES A). exact HL.
  Qed.
End Order.
