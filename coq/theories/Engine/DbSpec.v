(* C07: the fact database refines ordered lists.

   Spec: a database is key -> list of argument lists (no identities).  asserta conses, assertz
   appends, a query answers with the matching elements in list order, each answer of retract removes
   the first remaining matching element and is the match with it, retractall filters, clear empties.
   Model: the cursor machine of DbCursor.v.  An atomic operation is the block of events the caller
   issues for it (a retract that is asked for j answers and then closed is Start, j x Next, Close). *)
From Coq Require Import List Arith Bool Lia.
Import ListNotations.
From YP Require Import Base.Str Term.Term Engine.Db Engine.DbCursor Engine.DbCursorThms.
Set Implicit Arguments.

(* what the caller sees of an event *)
Inductive vout := VOk | VFail | VEnd | VBad | VAns (a : list term) | VAll (l : list (list term)).

Definition vis (o : out) : vout :=
  match o with
  | OIns _ _ _ | ONop | ORAll _ _ | OClr | OStart | OClosed => VOk
  | OFailed => VFail
  | OEnd => VEnd
  | OBad => VBad
  | OAns _ a | ORet _ _ a => VAns a
  | OAll l => VAll l
  end.

Inductive aop :=
| AAssert (front : bool) (t : term)                         (* asserta(t) / assertz(t) *)
| AAssertFact (name : str) (args : list term) (append : bool)   (* YP.assert_fact *)
| AQuery (name : str) (args : list term)                    (* all answers of name(args) *)
| AQueryK (name : str) (args : list term) (j : nat)         (* start name(args), j x next, close *)
| ARetract (t : term) (j : nat)                             (* start retract(t), j x next, close *)
| ARetractAll (t : term)
| AClear.

Definition compile (o : aop) : list ev :=
  match o with
  | AAssert front t => [EAssert front t]
  | AAssertFact n a app => [EAssertFact n a app]
  | AQuery n a => [EQueryAll n a]
  | AQueryK n a j => EStart 0 (QQuery n a) :: repeat (ENext 0) j ++ [EClose 0]
  | ARetract t j => EStart 0 (QRetract t) :: repeat (ENext 0) j ++ [EClose 0]
  | ARetractAll t => [ERetractAll t]
  | AClear => [EClear]
  end.

Definition sdbT := key -> list (list term).
Definition supd (k : key) (l : list (list term)) (d : sdbT) : sdbT := fun k' => if key_eqb k' k then l else d k'.

Section Spec.
  Variable mt : list term -> list term -> mres.
  Notation yes := (yes mt).

  (* ---------------- the specification ---------------- *)
  Fixpoint smatches (pat : list term) (l : list (list term)) : list (list term) :=
    match l with
    | [] => []
    | a :: r => match yes pat a with Some x => x :: smatches pat r | None => smatches pat r end
    end.

  (* remove the first element that matches; the answer is the match with it *)
  Fixpoint sretract1 (pat : list term) (l : list (list term)) : option (list term * list (list term)) :=
    match l with
    | [] => None
    | a :: r =>
        match yes pat a with
        | Some x => Some (x, r)
        | None => match sretract1 pat r with Some (x, r') => Some (x, a :: r') | None => None end
        end
    end.

  Fixpoint sretract (pat : list term) (l : list (list term)) (j : nat) : list vout * list (list term) :=
    match j with
    | O => ([], l)
    | S j' =>
        match sretract1 pat l with
        | None => (repeat VEnd (S j'), l)
        | Some (x, l') => let (o, l'') := sretract pat l' j' in (VAns x :: o, l'')
        end
    end.

  Definition sretractall (pat : list term) (l : list (list term)) : list (list term) :=
    filter (fun a => match yes pat a with Some _ => false | None => true end) l.

  (* the first j results of a query: its answers in order, then StopIteration *)
  Fixpoint stake (ans : list (list term)) (j : nat) : list vout :=
    match j with
    | O => []
    | S j' => match ans with [] => VEnd :: stake [] j' | x :: r => VAns x :: stake r j' end
    end.

  Definition sstep (d : sdbT) (o : aop) : sdbT * list vout :=
    match o with
    | AAssert front t =>
        match callable t with
        | Some (n, args) => let k := (n, length args) in (supd k (if front then args :: d k else d k ++ [args]) d, [VOk])
        | None => (d, [VOk])
        end
    | AAssertFact n args app =>
        let k := (n, length args) in (supd k (if app then d k ++ [args] else args :: d k) d, [VOk])
    | AQuery n args => (d, [VAll (smatches args (d (n, length args)))])
    | AQueryK n args j => (d, VOk :: stake (smatches args (d (n, length args))) j ++ [VOk])
    | ARetract t j =>
        match callable t with
        | Some (n, args) =>
            let k := (n, length args) in
            let (o, l') := sretract args (d k) j in (supd k l' d, VOk :: o ++ [VOk])
        | None => (d, VOk :: repeat VEnd j ++ [VOk])
        end
    | ARetractAll t =>
        match callable t with
        | Some (n, args) => let k := (n, length args) in (supd k (sretractall args (d k)) d, [VOk])
        | None => (d, [VFail])
        end
    | AClear => (fun _ => [], [VOk])
    end.

  Fixpoint srun (d : sdbT) (ops : list aop) : sdbT * list vout :=
    match ops with
    | [] => (d, [])
    | o :: r => let (d1, v1) := sstep d o in let (d2, v2) := srun d1 r in (d2, v1 ++ v2)
    end.

  (* ---------------- refinement ---------------- *)
  Definition R (d : sdbT) (s : st) : Prop := forall k, d k = map fargs (sdb s k).

  Lemma smatches_abs pat l : smatches pat (map fargs l) = map snd (matches mt pat l).
  Proof.
    induction l as [|f l IH]; simpl; auto. destruct (yes pat (fargs f)); simpl; rewrite IH; reflexivity.
  Qed.

  Lemma rall_abs pat : forall l keep gone, rall mt pat l = Some (keep, gone) -> map fargs keep = sretractall pat (map fargs l).
  Proof.
    induction l as [|f l IH]; intros keep gone H; simpl in H.
    - inversion H; reflexivity.
    - simpl. unfold Db.yes. destruct (mt pat (fargs f)) eqn:M; [| |discriminate];
        destruct (rall mt pat l) as [[k' g']|]; try discriminate; inversion H; subst; simpl; [|f_equal]; eapply IH; eauto.
  Qed.

  Lemma sretract1_none pat l : (forall a, In a l -> yes pat a = None) -> sretract1 pat l = None.
  Proof.
    induction l as [|a l IH]; simpl; intros H; auto.
    rewrite (H a (or_introl eq_refl)). rewrite IH; auto.
  Qed.

  Lemma sretract1_skip pat pre a x post : (forall b, In b pre -> yes pat b = None) -> yes pat a = Some x ->
    sretract1 pat (pre ++ a :: post) = Some (x, pre ++ post).
  Proof.
    induction pre as [|b pre IH]; simpl; intros H Y.
    - rewrite Y. reflexivity.
    - rewrite (H b (or_introl eq_refl)). rewrite IH; auto.
  Qed.

  (* rscan when every fact of the remaining snapshot is still current *)
  Lemma rscan_present pat cur : forall l r, (forall x, In x l -> has_id (fid x) cur = true) ->
    rscan mt pat cur l = Some r ->
    match r with
    | None => forall x, In x l -> yes pat (fargs x) = None
    | Some (f, a, r') => exists nm, l = nm ++ f :: r' /\ (forall x, In x nm -> yes pat (fargs x) = None) /\ yes pat (fargs f) = Some a
    end.
  Proof.
    induction l as [|x l IH]; intros r P H; simpl in H.
    - inversion H; subst. intros x [].
    - assert (P': forall y, In y l -> has_id (fid y) cur = true) by (intros y Hy; apply P; right; exact Hy).
      destruct (mt pat (fargs x)) eqn:M; [| |discriminate].
      + rewrite (P x (or_introl eq_refl)) in H. inversion H; subst. exists []. simpl. repeat split; auto.
        * intros y [].
        * unfold Db.yes. rewrite M. reflexivity.
      + specialize (IH r P' H). destruct r as [[[f a] r']|].
        * destruct IH as [nm [E [N Y]]]. exists (x :: nm). subst l. repeat split; auto.
          intros y [<-|Hy]; auto. unfold Db.yes. rewrite M. reflexivity.
        * intros y [<-|Hy]; auto. unfold Db.yes. rewrite M. reflexivity.
  Qed.

  Lemma in_has_id x l : In x l -> has_id (fid x) l = true.
  Proof. intros H. apply has_id_in. apply in_map. exact H. Qed.

  Lemma run_done_nexts : forall j s, scur s 0 = CDone ->
    run mt s (repeat (ENext 0) j) = Some (s, repeat OEnd j).
  Proof.
    induction j as [|j IH]; intros s H; simpl; auto. rewrite H. rewrite IH; auto.
  Qed.

  Lemma map_repeat {A B} (f : A -> B) x n : map f (repeat x n) = repeat (f x) n.
  Proof. induction n; simpl; congruence. Qed.

  Lemma run_cons s e r : run mt s (e :: r) =
    match step mt s e with
    | None => None
    | Some (s1, o) => match run mt s1 r with None => None | Some (s2, os) => Some (s2, o :: os) end
    end.
  Proof. reflexivity. Qed.

  Definition nd (s : st) : Prop := forall k0, NoDup (map fid (sdb s k0)).

  (* one next() of a retract cursor whose snapshot remainder is a suffix of the current list, the
     facts before it being non-matching: the first remaining matching fact is removed *)
  Lemma rnext_atomic k pat s kept rest s1 o :
    nd s -> sdb s k = kept ++ rest -> (forall x, In x kept -> yes pat (fargs x) = None) ->
    rnext mt s 0 k pat rest = Some (s1, o) ->
    snext s1 = snext s /\ nd s1 /\ (forall k0, k0 <> k -> sdb s1 k0 = sdb s k0) /\
    match sretract1 pat (map fargs (kept ++ rest)) with
    | None => o = OEnd /\ scur s1 0 = CDone /\ sdb s1 k = sdb s k
    | Some (x, l') => exists f kept' rest', o = ORet k (fid f) x /\ scur s1 0 = CRRun k pat rest' /\
        sdb s1 k = kept' ++ rest' /\ (forall y, In y kept' -> yes pat (fargs y) = None) /\ map fargs (kept' ++ rest') = l'
    end.
  Proof.
    intros N E K H. unfold rnext in H.
    destruct (rscan mt pat (sdb s k) rest) as [[[[f a] r']|]|] eqn:Q; [| |discriminate]; inversion H; subst; clear H.
    - assert (P: forall x, In x rest -> has_id (fid x) (sdb s k) = true).
      { intros x Hx. apply in_has_id. rewrite E. apply in_or_app. auto. }
      pose proof (rscan_present _ _ _ P Q) as X. simpl in X. destruct X as [nm [E1 [Nm Y]]].
      split; [reflexivity|]. split; [|split].
      + intros k0. cbn [sdb set_cur set_db]. unfold upd. destruct (key_eqb k0 k); [|apply N]. apply nodup_ids_filter. apply N.
      + intros k0 Hk. cbn [sdb set_cur set_db]. apply upd_other. exact Hk.
      + assert (KN: forall b, In b (map fargs (kept ++ nm)) -> yes pat b = None).
        { intros b Hb. apply in_map_iff in Hb as [y [<- Hy]]. apply in_app_iff in Hy as [Hy|Hy]; auto. }
        subst rest. rewrite app_assoc, map_app. cbn [map].
        rewrite (@sretract1_skip pat _ _ a (map fargs r') KN Y).
        exists f, (kept ++ nm), r'. cbn [sdb scur set_cur set_db]. rewrite Nat.eqb_refl. repeat split; auto.
        * rewrite upd_same, E, app_assoc. apply del_id_middle; auto. rewrite <- app_assoc, <- E. apply N.
        * intros y Hy. apply in_app_iff in Hy as [Hy|Hy]; auto.
        * rewrite !map_app. reflexivity.
    - assert (P: forall x, In x rest -> has_id (fid x) (sdb s k) = true).
      { intros x Hx. apply in_has_id. rewrite E. apply in_or_app. auto. }
      pose proof (rscan_present _ _ _ P Q) as X. simpl in X.
      split; [reflexivity|]. split; [exact N|]. split; [auto|].
      rewrite sretract1_none.
      + cbn [sdb scur set_cur]. rewrite Nat.eqb_refl. auto.
      + intros b Hb. apply in_map_iff in Hb as [y [<- Hy]]. apply in_app_iff in Hy as [Hy|Hy]; auto.
  Qed.

  Lemma retract_nexts k pat : forall j s s' outs kept rest,
    nd s -> sdb s k = kept ++ rest -> (forall x, In x kept -> yes pat (fargs x) = None) ->
    step mt s (ENext 0) = rnext mt s 0 k pat rest ->
    run mt s (repeat (ENext 0) j) = Some (s', outs) ->
    map vis outs = fst (sretract pat (map fargs (kept ++ rest)) j) /\
    map fargs (sdb s' k) = snd (sretract pat (map fargs (kept ++ rest)) j) /\
    (forall k0, k0 <> k -> sdb s' k0 = sdb s k0) /\ snext s' = snext s /\ nd s' /\ (scur s 0 <> CNone -> scur s' 0 <> CNone).
  Proof.
    induction j as [|j IH]; intros s s' outs kept rest N E K HS H.
    - simpl in H. inversion H; subst. simpl. rewrite E. repeat split; auto; try (intros X; congruence).
    - cbn [repeat] in H. rewrite run_cons, HS in H.
      destruct (rnext mt s 0 k pat rest) as [[s1 o]|] eqn:RN; [|discriminate].
      destruct (run mt s1 (repeat (ENext 0) j)) as [[s2 os]|] eqn:ER; [|discriminate]. inversion H; subst; clear H.
      destruct (@rnext_atomic k pat s kept rest s1 o N E K RN) as [A [B [C D]]].
      cbn [sretract]. destruct (sretract1 pat (map fargs (kept ++ rest))) as [[x l']|].
      + destruct D as [f [kept' [rest' [Eo [Ec [Ed [Ek El]]]]]]]. subst o l'.
        assert (HS1: step mt s1 (ENext 0) = rnext mt s1 0 k pat rest') by (simpl; rewrite Ec; reflexivity).
        destruct (IH s1 s' os kept' rest' B Ed Ek HS1 ER) as [I1 [I2 [I3 [I4 [I5 I6]]]]].
        destruct (sretract pat (map fargs (kept' ++ rest')) j) as [vo l2] eqn:SR. simpl in *.
        repeat split; auto; try congruence.
        * intros k0 Hk. rewrite I3; auto.
        * intros _. apply I6. congruence.
      + destruct D as [Eo [Ec Ed]]. subst o.
        rewrite (run_done_nexts j _ Ec) in ER. inversion ER; subst; clear ER. simpl.
        rewrite map_repeat. simpl. rewrite Ed, E. repeat split; auto. intros _. congruence.
  Qed.

  Lemma query_nexts pat : forall j s s' outs rest,
    step mt s (ENext 0) = qnext mt s 0 pat rest ->
    run mt s (repeat (ENext 0) j) = Some (s', outs) ->
    map vis outs = stake (smatches pat (map fargs rest)) j /\ sdb s' = sdb s /\ snext s' = snext s /\ (scur s 0 <> CNone -> scur s' 0 <> CNone).
  Proof.
    induction j as [|j IH]; intros s s' outs rest HS H.
    - simpl in H. inversion H; subst. simpl. repeat split; auto; try (intros X; congruence).
    - cbn [repeat] in H. rewrite run_cons, HS in H. unfold qnext in H.
      destruct (qscan mt pat rest) as [[[[f a] r']|]|] eqn:Q; [| |discriminate].
      + destruct (run mt (set_cur s 0 (CQRun pat r')) (repeat (ENext 0) j)) as [[s2 os]|] eqn:ER; [|discriminate].
        inversion H; subst; clear H.
        assert (HS1: step mt (set_cur s 0 (CQRun pat r')) (ENext 0) = qnext mt (set_cur s 0 (CQRun pat r')) 0 pat r') by reflexivity.
        destruct (IH _ s' os r' HS1 ER) as [I1 [I2 [I3 I4]]].
        destruct (qscan_some _ _ _ Q) as [M _].
        rewrite smatches_abs, M. simpl. rewrite <- smatches_abs, I1. repeat split; auto.
        intros _. apply I4. simpl. congruence.
      + destruct (run mt (set_cur s 0 CDone) (repeat (ENext 0) j)) as [[s2 os]|] eqn:ER; [|discriminate].
        inversion H; subst; clear H.
        rewrite (run_done_nexts j (set_cur s 0 CDone) eq_refl) in ER. inversion ER; subst; clear ER.
        apply qscan_none in Q. rewrite smatches_abs, Q. simpl. rewrite map_repeat. simpl.
        repeat split; auto.
        * f_equal. clear. induction j; simpl; congruence.
        * intros _. simpl. congruence.
  Qed.

  Lemma close_step s : scur s 0 <> CNone -> step mt s (EClose 0) = Some (set_cur s 0 CDone, OClosed).
  Proof. intros H. simpl. destruct (scur s 0); congruence. Qed.

  Lemma noncallable_nexts t : forall j s s' outs,
    scur s 0 = CRNew t -> callable t = None -> run mt s (repeat (ENext 0) j) = Some (s', outs) ->
    map vis outs = repeat VEnd j /\ sdb s' = sdb s /\ scur s' 0 <> CNone.
  Proof.
    intros [|j] s s' outs EC CA H.
    - simpl in H. inversion H; subst. simpl. repeat split; auto. congruence.
    - cbn [repeat] in H. rewrite run_cons in H. simpl in H. rewrite EC, CA in H.
      rewrite (run_done_nexts j (set_cur s 0 CDone) eq_refl) in H. inversion H; subst. simpl.
      rewrite map_repeat. simpl. repeat split; auto. congruence.
  Qed.

  Lemma R_same d s s' : R d s -> sdb s' = sdb s -> R d s'.
  Proof. intros H E k. rewrite E. apply H. Qed.

  Lemma R_upd d s k l l' s' : R d s -> l = map fargs l' -> (forall k0, sdb s' k0 = upd k l' (sdb s) k0) -> R (supd k l d) s'.
  Proof.
    intros Rd E H k0. rewrite H. unfold supd, upd. destruct (key_eqb k0 k); auto.
  Qed.

  (* one atomic operation: the visible results and the new contents are those of the list spec *)
  Lemma sim_op : forall op s s' outs d,
    ids_ok (sdb s) (snext s) -> R d s -> run mt s (compile op) = Some (s', outs) ->
    map vis outs = snd (sstep d op) /\ R (fst (sstep d op)) s'.
  Proof.
    intros op s s' outs d I Rd H.
    destruct op as [front t|n args app|n args|n args j|t j|t|]; cbn [compile] in H.
    - simpl in H. unfold sstep. destruct (callable t) as [[n args]|]; inversion H; subst; [|simpl; split; auto].
      split; [reflexivity|]. cbn [fst].
      eapply R_upd with (l' := ins front (mkfact (snext s) args) (sdb s (n, length args))); eauto.
      unfold ins. destruct front; simpl; rewrite (Rd (n, length args)); auto. rewrite map_app. reflexivity.
    - simpl in H. inversion H; subst. split; [reflexivity|]. cbn [fst sstep].
      eapply R_upd with (l' := ins (negb app) (mkfact (snext s) args) (sdb s (n, length args))); eauto.
      unfold ins. destruct app; simpl; rewrite (Rd (n, length args)); auto. rewrite map_app. reflexivity.
    - simpl in H. destruct (qall mt args (sdb s (n, length args))) as [l|] eqn:Q; inversion H; subst; simpl. split; auto.
      rewrite (qall_matches _ _ _ Q), Rd, smatches_abs. reflexivity.
    - rewrite run_cons in H. cbn [step] in H. rewrite run_app in H.
      set (k := (n, length args)) in *. set (s1 := set_cur s 0 (CQNew k args)) in *.
      destruct (run mt s1 (repeat (ENext 0) j)) as [[s2 o2]|] eqn:E2; [|discriminate].
      assert (HS: step mt s1 (ENext 0) = qnext mt s1 0 args (sdb s1 k)) by reflexivity.
      destruct (@query_nexts args j s1 s2 o2 (sdb s1 k) HS E2) as [A [B [C D]]].
      rewrite run_cons, close_step in H; [|apply D; unfold s1; simpl; congruence].
      simpl in H. inversion H; subst; clear H. simpl. split.
      + rewrite map_app, A. simpl. rewrite Rd. reflexivity.
      + eapply R_same; eauto.
    - rewrite run_cons in H. cbn [step] in H. rewrite run_app in H.
      set (s1 := set_cur s 0 (CRNew t)) in *.
      destruct (run mt s1 (repeat (ENext 0) j)) as [[s2 o2]|] eqn:E2; [|discriminate].
      unfold sstep. destruct (callable t) as [[n args]|] eqn:CA.
      + set (k := (n, length args)) in *.
        assert (HS: step mt s1 (ENext 0) = rnext mt s1 0 k args (sdb s1 k)).
        { simpl. rewrite CA. reflexivity. }
        assert (N1: nd s1) by (intros k0; destruct I as [I1 _]; apply I1).
        destruct (@retract_nexts k args j s1 s2 o2 [] (sdb s1 k) N1 eq_refl (fun x (F : In x []) => match F with end) HS E2)
          as [A [B [C [D [E F]]]]].
        rewrite run_cons, close_step in H; [|apply F; unfold s1; simpl; congruence].
        simpl in H. inversion H; subst; clear H. simpl in A, B.
        change (sdb s1 k) with (sdb s k) in A, B. rewrite <- Rd in A, B.
        destruct (sretract args (d k) j) as [vo l']. simpl in *. split.
        * rewrite map_app, A. reflexivity.
        * intros k0. cbn [sdb set_cur]. unfold supd. destruct (key_eqb_spec k0 k) as [EK|NK].
          -- subst k0. symmetry. exact B.
          -- rewrite (C k0 NK). apply Rd.
      + destruct (@noncallable_nexts t j s1 s2 o2 eq_refl CA E2) as [A [B C]].
        rewrite run_cons, close_step in H; auto.
        simpl in H. inversion H; subst; clear H. simpl. split.
        * rewrite map_app, A. reflexivity.
        * eapply R_same; eauto.
    - simpl in H. unfold sstep. destruct (callable t) as [[n args]|]; [|inversion H; subst; simpl; auto].
      destruct (rall mt args (sdb s (n, length args))) as [[keep gone]|] eqn:RA; inversion H; subst; clear H.
      split; [reflexivity|]. cbn [fst].
      eapply R_upd with (l' := keep); eauto. rewrite (Rd (n, length args)). symmetry. eapply rall_abs; eauto.
    - simpl in H. inversion H; subst. simpl. split; auto. intros k0. reflexivity.
  Qed.

  (* C07: for every history of atomic operations, the results the caller sees and the contents of
     every predicate are those of the ordered-list specification *)
  Theorem db_refines_list_spec : forall ops s s' outs d,
    ids_ok (sdb s) (snext s) -> R d s -> run mt s (flat_map compile ops) = Some (s', outs) ->
    map vis outs = snd (srun d ops) /\ R (fst (srun d ops)) s'.
  Proof.
    induction ops as [|o r IH]; intros s s' outs d I Rd H.
    - simpl in H. inversion H; subst. simpl. auto.
    - cbn [flat_map] in H. rewrite run_app in H.
      destruct (run mt s (compile o)) as [[s1 o1]|] eqn:E1; [|discriminate].
      destruct (run mt s1 (flat_map compile r)) as [[s2 o2]|] eqn:E2; [|discriminate]. inversion H; subst; clear H.
      destruct (@sim_op o s s1 o1 d I Rd E1) as [A B].
      destruct (@no_lost_update mt (compile o) s s1 o1 I E1) as [_ I1].
      destruct (IH s1 s' o2 _ I1 B E2) as [C D].
      cbn [srun]. destruct (sstep d o) as [d1 v1]. simpl in *. destruct (srun d1 r) as [d2 v2]. simpl in *.
      rewrite map_app, A, C. auto.
  Qed.

  (* the visible results of atomic operations never contain the marker of a misused generator *)
  Lemma stake_no_bad ans : forall j, ~ In VBad (stake ans j).
  Proof.
    intros j. revert ans. induction j as [|j IH]; intros ans; simpl; auto.
    destruct ans; simpl; intros [X|X]; try discriminate; eapply IH; eauto.
  Qed.
End Spec.
