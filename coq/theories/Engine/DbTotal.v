(* "none of these raises": the only way the cursor machine does not return a result is a match outside
   the specified domain (MStuck: the match would build a cyclic term, or the model's fuel ran out).  For
   every matching function that is never stuck, every event of every history returns - zero-argument
   facts, goals that are not callable, predicates that were never asserted, exhausted or closed cursors
   included - and no event of a well-formed history (cursors are created before they are used) returns
   the marker OBad. *)
From Coq Require Import List Arith Bool Lia.
Import ListNotations.
From YP Require Import Base.Str Term.Term Engine.Db Engine.DbCursor.
Set Implicit Arguments.

Section Total.
  Variable mt : list term -> list term -> mres.
  Hypothesis never_stuck : forall pat args, mt pat args <> MStuck.

  Lemma qscan_total pat l : qscan mt pat l <> None.
  Proof.
    induction l as [|f l IH]; simpl; [discriminate|].
    destruct (mt pat (fargs f)) eqn:E; auto; [discriminate|]. exfalso. eapply never_stuck; eauto.
  Qed.
  Lemma rscan_total pat cur l : rscan mt pat cur l <> None.
  Proof.
    induction l as [|f l IH]; simpl; [discriminate|].
    destruct (mt pat (fargs f)) eqn:E; auto.
    - destruct (has_id (fid f) cur); auto. discriminate.
    - exfalso. eapply never_stuck; eauto.
  Qed.
  Lemma rall_total pat l : rall mt pat l <> None.
  Proof.
    induction l as [|f l IH]; simpl; [discriminate|].
    destruct (mt pat (fargs f)) eqn:E; try (destruct (rall mt pat l) as [[k g]|]; [discriminate|contradiction]).
    exfalso. eapply never_stuck; eauto.
  Qed.
  Lemma qall_total pat l : qall mt pat l <> None.
  Proof.
    induction l as [|f l IH]; simpl; [discriminate|].
    destruct (mt pat (fargs f)) eqn:E; auto.
    - destruct (qall mt pat l); [discriminate|contradiction].
    - exfalso. eapply never_stuck; eauto.
  Qed.

  Lemma step_total s e : exists s' o, step mt s e = Some (s', o).
  Proof.
    destruct e as [front t|name args app|c q|c|c|t|name args|]; simpl; try (eexists; eexists; reflexivity).
    - destruct (callable t) as [[n a]|]; eexists; eexists; reflexivity.
    - assert (Q: forall pat l, exists s' o, qnext mt s c pat l = Some (s', o)).
      { intros pat l. unfold qnext. pose proof (@qscan_total pat l) as T.
        destruct (qscan mt pat l) as [[[[f a] r]|]|]; [| |contradiction]; eexists; eexists; reflexivity. }
      assert (R: forall k pat l, exists s' o, rnext mt s c k pat l = Some (s', o)).
      { intros k pat l. unfold rnext. pose proof (@rscan_total pat (sdb s k) l) as T.
        destruct (rscan mt pat (sdb s k) l) as [[[[f a] r]|]|]; [| |contradiction]; eexists; eexists; reflexivity. }
      destruct (scur s c) as [|k pat|pat rest|t|k pat rest|]; auto; try (eexists; eexists; reflexivity).
      destruct (callable t) as [[n a]|]; auto. eexists; eexists; reflexivity.
    - destruct (scur s c); eexists; eexists; reflexivity.
    - destruct (callable t) as [[n a]|]; [|eexists; eexists; reflexivity].
      pose proof (@rall_total a (sdb s (n, length a))) as T.
      destruct (rall mt a (sdb s (n, length a))) as [[keep gone]|]; [|contradiction]. eexists; eexists; reflexivity.
    - pose proof (@qall_total args (sdb s (name, length args))) as T.
      destruct (qall mt args (sdb s (name, length args))); [|contradiction]. eexists; eexists; reflexivity.
  Qed.

  Theorem run_total : forall evs s, exists s' outs, run mt s evs = Some (s', outs).
  Proof.
    induction evs as [|e r IH]; intros s; simpl; [eexists; eexists; reflexivity|].
    destruct (step_total s e) as [s1 [o E]]. rewrite E. destruct (IH s1) as [s2 [os E2]]. rewrite E2.
    eexists; eexists; reflexivity.
  Qed.
End Total.
