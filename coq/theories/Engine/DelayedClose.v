(* C03, round 3: the ORDER in which suspended generator objects are finalised does not matter.

   In CPython a generator object that sits in a LOCAL of a frame an exception leaves (findall: `q`; unify_arrays:
   `iterators`) is not finalised while the exception travels: the traceback keeps the frame, the frame keeps the local.
   It is finalised when the exception object dies - AFTER the enclosing generators have been closed by the unwinding.
   The frame machine (GenMachine.exec, CRaise: `unwind`) closes it first, innermost first.

   For the engine instance (leaves = the unification generators of UnifyGen.v) closing a generator object removes exactly
   the cells that its leaves own (`icells`), wherever they are in the heap and whatever else is bound:
       iclose h it = rm (icells it) h            unwind h k = rm (kcells k) h
   Hence closing commutes: the heap after "outer continuation first, the suspended generator later" is the heap after
   "the suspended generator first" - which the restoration theorems (Restore.v, IRMachine.v, FindallRaise.v) are about. *)
From Coq Require Import List Arith Bool Lia.
Import ListNotations.
From YP Require Import Base.Str Term.Term Unify.UnifyGen Engine.GenMachine Engine.Restore Engine.IRMachine.

Notation miter := (iter leaf lx fr callp).
Notation mkont := (kont leaf lx fr callp).

Fixpoint icells (it : miter) : list nat :=
  match it with
  | ILeaf (LGen g) => cells g
  | ISusp k _ => kcells k
  | _ => []
  end
with kcells (k : mkont) : list nat :=
  match k with
  | KNil => []
  | KSeq _ k' => kcells k'
  | KLoop it _ k' => icells it ++ kcells k'
  end.

Fixpoint iclose_rm (it : miter) : forall h, iclose lclose h it = rm (icells it) h
with unwind_rm (k : mkont) : forall h, unwind lclose h k = rm (kcells k) h.
Proof.
  - destruct it as [l|c e|k e|]; intros h; rewrite iclose_eq; cbn [icells].
    + destruct l as [g|]; cbn [lclose]; [apply close_rm|symmetry; apply rm_nil].
    + symmetry; apply rm_nil.
    + apply unwind_rm.
    + symmetry; apply rm_nil.
  - destruct k as [|c k'|it body k']; intros h; rewrite unwind_eq; cbn [kcells].
    + symmetry; apply rm_nil.
    + apply unwind_rm.
    + rewrite (iclose_rm it h). rewrite (unwind_rm k' _). symmetry. apply rm_app.
Qed.

Lemma rm_comm a b h : rm a (rm b h) = rm b (rm a h).
Proof.
  unfold rm. induction h as [|p h IH]; cbn [filter]; [reflexivity|].
  destruct (negb (existsb (Nat.eqb (fst p)) b)) eqn:B; destruct (negb (existsb (Nat.eqb (fst p)) a)) eqn:A;
    cbn [filter]; rewrite ?A, ?B, IH; reflexivity.
Qed.

(* finalising the suspended generator `it` AFTER the enclosing continuation k was unwound (CPython, when the traceback
   dies) = finalising it first (the machine's CRaise), from ANY heap *)
Theorem delayed_close_commutes (it : miter) (k : mkont) h :
  iclose lclose (unwind lclose h k) it = unwind lclose (iclose lclose h it) k.
Proof. rewrite !iclose_rm, !unwind_rm. apply rm_comm. Qed.

(* any two generator objects, closed in either order *)
Theorem close_order_irrelevant (it1 it2 : miter) h :
  iclose lclose (iclose lclose h it1) it2 = iclose lclose (iclose lclose h it2) it1.
Proof. rewrite !iclose_rm. apply rm_comm. Qed.

(* the raise inside the body of a loop over `it` (findall's copy): the machine's heap `unwind h (KLoop it body k)` is
   what CPython has after unwinding k with `it` still alive and finalising `it` afterwards *)
Corollary raise_in_loop_delayed (it : miter) body (k : mkont) h :
  unwind lclose h (KLoop it body k) = iclose lclose (unwind lclose h k) it.
Proof. rewrite unwind_eq. symmetry. apply delayed_close_commutes. Qed.
