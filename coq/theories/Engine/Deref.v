(* The same dereference and unification as Term.den / Unify.unify, written so that evaluation inside
   Coq does not resolve the value of a binding that is not needed (den resolves both the value and
   the term under every binding, which doubles the work per binding under call-by-value evaluation).
   den2 = den and unify2 = unify are proved below without side conditions, so everything proved about
   Unify.unify holds for what the world model executes. *)
From Coq Require Import List Arith Bool Lia ZArith.
Import ListNotations.
From YP Require Import Base.Str Term.Term Unify.Unify.

Fixpoint den2 (s : store) (u : term) : term :=
  match s with
  | [] => u
  | (v, t) :: s' => let x := den2 s' u in if occurs v x then subst1 v (den2 s' t) x else x
  end.

Lemma den2_den s : forall u, den2 s u = den s u.
Proof.
  induction s as [|[v t] s IH]; intros u; simpl; auto.
  rewrite !IH. destruct (occurs v (den s u)) eqn:E; auto.
  symmetry. apply subst1_noocc. exact E.
Qed.

Fixpoint unify2 (n : nat) (s : store) (t1 t2 : term) : ures :=
  match n with O => UOof | S n =>
    let a1 := den2 s t1 in let a2 := den2 s t2 in
    match a1, a2 with
    | TVar v, TVar w => if Nat.eqb v w then UOk s else UOk ((v,a2)::s)
    | TVar v, _ => bind s v a2
    | _, TVar w => bind s w a1
    | TAtom x, TAtom y => if str_eqb x y then UOk s else UFail
    | TInt x, TInt y => if Z.eqb x y then UOk s else UFail
    | TStr x, TStr y => if str_eqb x y then UOk s else UFail
    | TFun f xs, TFun g ys =>
        if str_eqb f g then (if Nat.eqb (length xs) (length ys) then arr (unify2 n) xs ys s else UFail) else UFail
    | _, _ => UFail
    end end.

Definition unify_arrays2 (n : nat) (s : store) (xs ys : list term) : ures :=
  if Nat.eqb (length xs) (length ys) then arr (unify2 n) xs ys s else UFail.

Lemma arr_ext_eq (U U' : store -> term -> term -> ures) :
  (forall s a b, U s a b = U' s a b) -> forall xs ys s, arr U xs ys s = arr U' xs ys s.
Proof.
  intros H. induction xs as [|a ar IH]; intros [|b br] s; simpl; auto.
  rewrite H. destruct (U' s a b); auto.
Qed.

Lemma unify2_eq n : forall s a b, unify2 n s a b = unify n s a b.
Proof.
  induction n as [|n IH]; intros s a b; [reflexivity|].
  cbn [unify2 unify]. rewrite !den2_den.
  destruct (den s a) as [x|x|x|v|f xs]; destruct (den s b) as [y|y|y|w|g ys]; auto.
  destruct (str_eqb f g); auto. destruct (Nat.eqb (length xs) (length ys)); auto.
  apply arr_ext_eq. exact IH.
Qed.

Lemma unify_arrays2_eq n s xs ys : unify_arrays2 n s xs ys = unify_arrays n s xs ys.
Proof.
  unfold unify_arrays2, unify_arrays. destruct (Nat.eqb (length xs) (length ys)); auto.
  apply arr_ext_eq. apply unify2_eq.
Qed.
