(* C03, round 3: an exception raised INSIDE findall/3's own frame while the goal's generator object is suspended at
   an answer - the RecursionError that `get_value(template)` raises when the answer could be computed within the
   recursion limit but copying it cannot (engine.py findall: `results = makelist([get_value(template) for r in q])`).

   The exception does not travel through the goal's generator (that one is suspended, it is not on the path of the
   exception): the goal's bindings are undone only because findall's frame, which owns the generator, dies.  In the
   frame machine this is `CRaise` executed in the body of the loop over the goal: `unwind` closes the loop's iterator.

   findall_r rz t g l = the code of the builtin (IRMachine.builtin_code "findall") with `if rz(frame state): raise`
   in front of the copy; rz is an ARBITRARY predicate of findall's frame state (which contains the results collected
   so far, so "at the j-th answer" is an instance; the machine has no other state the copy could depend on).  It is
   installed through the hook for registered predicates (arbitrary machine code, looked up before the builtins), so
   the engine program `prog ir facts (with_findall_r rz user)` is the program of C03_compiled_query_restores with this
   one builtin replaced - for every IR program, fact database, further registered predicates, and every rz.

   What the machine does NOT say (trusted, tied by the recursion-limit sweeps of the check, harness/props/c03_sweep.py):
   in CPython the frame of findall is kept alive by the traceback of the exception; its local `q` (the goal's
   generator) is finalised when the exception object dies (at the end of evaluate_bounded's `except RuntimeError: pass`,
   at the end of the consumer's except clause), not while the exception travels.  The machine identifies "the exception
   has arrived at the consumer" with "... and the consumer has let go of it". *)
From Coq Require Import String.
From Coq Require Import List Arith Bool Lia.
Import ListNotations.
From YP Require Import Base.Str Term.Term Term.Dfast Unify.UnifyGen Comp.IR Comp.CompileBody Sem.Machine Engine.GenMachine Engine.Restore Engine.IRMachine.
Local Open Scope string_scope.
Local Open Scope list_scope.

Notation mcode := (code lx fr callp).

Definition findall_r (rz : fr -> bool) (t g l : term) : mcode :=
  CSeq (CFor (call_expr g []) (CSeq (CIf rz CRaise) (CAssign (fcollect t))))
    (CSeq (CAssign fcollected)
       (CFor (fun _ e _ => ELeaf (XUnify l (mk_list (f_acc e)))) CYield)).

Definition with_findall_r (rz : fr -> bool) (user : str -> list term -> option (mcode * fr))
    (name : str) (args : list term) : option (mcode * fr) :=
  if str_eqb name (s_ "findall") then
    match args with
    | [t; g; l] => Some (findall_r rz t g l, fr0 [] 0)
    | _ => user name args
    end
  else user name args.

Section FindallRaise.
  Variable ir : ir_program.
  Variable facts : str -> nat -> list fact.
  Variable user : str -> list term -> option (mcode * fr).
  Variable rz : fr -> bool.

  Notation userR := (with_findall_r rz user).

  (* restoration, whatever the copy does: every query of every program (findall anywhere below it, nested, under
     once / call / negation), every fuel, recursion limit d, abandonment point k *)
  Theorem findall_copy_raise_restores n d k h name args nx hf itf ys r :
    m_nexts ir facts userR n d k h (m_query ir facts userR name args nx) = Some (hf, itf, ys, r) ->
    m_iclose hf itf = h
    /\ ithrow lclose hf itf = (h, IDone, RRaise)
    /\ (r <> RYield -> hf = h)
    /\ Forall (fun y => exists nw, y = nw ++ h) ys.
  Proof. apply compiled_query_restores. Qed.

  (* ... and through evaluate_bounded *)
  Theorem findall_copy_raise_bounded_restores n d k h name args nx hf ys :
    bounded_m ir facts userR n d k h name args nx = Some (hf, ys) -> hf = h.
  Proof. apply bounded_restores. Qed.

  (* The scenario is inside these statements.  The frame of findall(t, g, l), started under the heap h: if the goal's
     generator object delivers an answer - it is then SUSPENDED (it1), with its bindings in the heap h1 - and the copy
     raises, the frame ends by that exception; the heap that arrives at the caller is h1 with the suspended generator
     closed, and that is h. *)
  Lemma findall_r_raise_step n d h t g l (e : fr) h1 it1 :
    rz e = true ->
    m_inext ir facts userR (S (S (S n))) d h (mkiter mkleaf (prog ir facts userR) (call_expr g [] (f_nxt e) e h) h) = Some (h1, it1, RYield) ->
    m_inext ir facts userR (S (S (S (S (S (S (S n))))))) (S d) h (IFresh (findall_r rz t g l) e)
      = Some (m_iclose h1 it1, IDone, RRaise)
    /\ m_iclose h1 it1 = h.
  Proof.
    intros RZ G. unfold m_inext in *. split.
    - rewrite inext_S. unfold findall_r. rewrite exec_S. rewrite exec_S. cbn [knxt].
      rewrite loop_S. rewrite G.
      rewrite exec_S. rewrite exec_S. rewrite RZ. rewrite exec_S.
      rewrite unwind_eq. rewrite unwind_eq. rewrite unwind_eq. rewrite unwind_eq. reflexivity.
    - assert (I0 : Inv linv h (mkiter mkleaf (prog ir facts userR) (call_expr g [] (f_nxt e) e h) h) h).
      { unfold mkiter. destruct (call_expr g [] (f_nxt e) e h) as [x|p].
        - apply Inv_leaf. apply L_new.
        - apply Inv_fresh. }
      destruct (@frame_next_restores _ _ _ _ mkleaf lnext lclose (prog ir facts userR) f_nxt linv L_new L_next L_close _ _ _ _ _ _ _ _ I0 G)
        as [_ [_ C]].
      exact C.
  Qed.
End FindallRaise.

(* ------------------------------------------------------------------ a concrete run *)
(* mem(X,[X|T]).  mem(X,[H|T]) :- mem(X,T).   as machine code is not needed: the goal of the example is the builtin
   call/2 on '='/2, the copy raises when one result has been collected:

       findall(f(Y), (Y = a ; Y = b), L)   is not expressible without a program, so:   p/1 = two dynamic facts. *)
Definition ex_facts (name : str) (ar : nat) : list fact :=
  if str_eqb name (d "p") && Nat.eqb ar 1 then [ (0, [TAtom (d "a")]); (0, [TFun (d "f") [TAtom (d "b")]]) ] else [].

Definition ex_findall_run (rz : fr -> bool) (k : nat) :=
  m_nexts [] ex_facts (with_findall_r rz (fun _ _ => None)) 200 20 k [(7, TAtom (d "keep"))]
    (m_query [] ex_facts (with_findall_r rz (fun _ _ => None)) (d "findall")
       [TFun (d "g") [TVar 0]; TFun (d "p") [TVar 0]; TVar 1] 2).

(* the copy never raises: one answer, _1 = [g(a), g(f(b))] on top of the untouched heap *)
Example ex_findall_ok :
  exists it, ex_findall_run (fun _ => false) 1 =
    Some ([(1, mk_list [TFun (d "g") [TAtom (d "a")]; TFun (d "g") [TFun (d "f") [TAtom (d "b")]]]); (7, TAtom (d "keep"))],
          it, [[(1, mk_list [TFun (d "g") [TAtom (d "a")]; TFun (d "g") [TFun (d "f") [TAtom (d "b")]]]); (7, TAtom (d "keep"))]], RYield).
Proof. eexists. vm_compute. reflexivity. Qed.

(* the copy of the SECOND answer raises (one result collected; the goal is suspended at p(f(b)) with _0 bound):
   no answer, the exception arrives, the heap is the initial one *)
Example ex_findall_copy_raises :
  ex_findall_run (fun e => Nat.eqb (length (f_acc e)) 1) 1 = Some ([(7, TAtom (d "keep"))], IDone, [], RRaise).
Proof. vm_compute. reflexivity. Qed.
