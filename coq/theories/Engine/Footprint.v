(* C04, same engine, clause bodies that write the fact store: footprints.

   Every access of a resumed generator to the fact store is in the log of the step (World.ev: key, written or only
   read).  K is a set of keys (name, arity).
     search_agree / cnext_agree / cdrain_agree   two fact stores that agree on the keys in K (dbK): a step all of whose
                   accesses are to keys in K gives the same answer, the same generator, the same heap and the same log on
                   both, and the new stores agree on K again;
     search_writes / cnext_writes / cdrain_writes a step all of whose WRITES are to keys outside K leaves the store
                   as it was on K (dbK old new).
   Together (Engine/Slots.v): a generator that only touches K is not influenced by generators that only write outside K. *)
From Coq Require Import String.
From Coq Require Import List Arith Bool Lia ZArith.
Import ListNotations.
From YP Require Import Base.Str Term.Term Unify.Unify Engine.Deref Engine.Db Engine.World.

Lemma fkey_eqb_spec (a b : fkey) : reflect (a = b) (fkey_eqb a b).
Proof. exact (key_eqb_spec a b). Qed.

Lemma aget_aset_fkey {V} (k k' : fkey) (v : V) l :
  aget fkey_eqb k' (aset fkey_eqb k v l) = if fkey_eqb k' k then Some v else aget fkey_eqb k' l.
Proof.
  induction l as [|[k2 v2] l IH]; cbn [aset aget].
  - reflexivity.
  - destruct (fkey_eqb_spec k k2) as [->|N]; cbn [aget].
    + destruct (fkey_eqb_spec k' k2); reflexivity.
    + rewrite IH. destruct (fkey_eqb_spec k' k2) as [->|N2]; [|reflexivity].
      destruct (fkey_eqb_spec k2 k); [congruence|reflexivity].
Qed.

Lemma find_facts_set k l d nm ar :
  find_facts (set_facts k l d) nm ar = if fkey_eqb (nm, ar) k then l else find_facts d nm ar.
Proof.
  unfold find_facts, set_facts. cbn [facts]. rewrite aget_aset_fkey.
  destruct (fkey_eqb (nm, ar) k); reflexivity.
Qed.

Section FP.
Variable K : fkey -> bool.

Definition inK (e : ev) : Prop := K (ekey e) = true.
Definition wrOut (e : ev) : Prop := ewr e = true -> K (ekey e) = false.

(* the two stores have the same definitions and the same facts under every key of K *)
Definition dbK (d1 d2 : db) : Prop :=
  ctx d1 = ctx d2 /\ reserved d1 = reserved d2 /\
  forall nm ar, K (nm, ar) = true -> find_facts d1 nm ar = find_facts d2 nm ar.

Lemma dbK_refl d : dbK d d.
Proof. repeat split; auto. Qed.
Lemma dbK_sym d1 d2 : dbK d1 d2 -> dbK d2 d1.
Proof. intros [A [B C]]. repeat split; auto. intros nm ar H. symmetry. auto. Qed.
Lemma dbK_trans d1 d2 d3 : dbK d1 d2 -> dbK d2 d3 -> dbK d1 d3.
Proof.
  intros [A [B C]] [A' [B' C']]. repeat split; try congruence.
  intros nm ar H. rewrite (C nm ar H). auto.
Qed.
Lemma dbK_set k l d1 d2 : dbK d1 d2 -> dbK (set_facts k l d1) (set_facts k l d2).
Proof.
  intros [A [B C]]. repeat split; auto. intros nm ar H. rewrite !find_facts_set.
  destruct (fkey_eqb (nm, ar) k); auto.
Qed.
Lemma dbK_set_out k l d : K k = false -> dbK d (set_facts k l d).
Proof.
  intros H. repeat split; auto. intros nm ar H'. rewrite find_facts_set.
  destruct (fkey_eqb_spec (nm, ar) k) as [E|N]; [congruence|reflexivity].
Qed.
Lemma find_function_dbK d1 d2 nm ar : dbK d1 d2 -> find_function d1 nm ar = find_function d2 nm ar.
Proof. intros [A [B _]]. unfold find_function. rewrite A, B. reflexivity. Qed.

Definition agreeK (m1 m2 : mstate) : Prop :=
  mnf m1 = mnf m2 /\ mfr m1 = mfr m2 /\ mlog m1 = mlog m2 /\ dbK (mdb m1) (mdb m2).
Lemma agreeK_mk d1 d2 nf fr lg : dbK d1 d2 -> agreeK (mkms d1 nf fr lg) (mkms d2 nf fr lg).
Proof. intros H. repeat split; auto; apply H. Qed.

Definition klog (m : mstate) (r : kres) : list ev :=
  match r with KGo m' | KAns _ m' | KErr _ m' => mlog m' | KDone => mlog m end.
Definition kdb (m : mstate) (r : kres) : db :=
  match r with KGo m' | KAns _ m' => mdb m' | _ => mdb m end.
Definition kagree (r1 r2 : kres) : Prop :=
  match r1, r2 with
  | KGo a, KGo b => agreeK a b
  | KAns t a, KAns t' b => t = t' /\ agreeK a b
  | KDone, KDone => True
  | KErr a x, KErr b y => a = b /\ agreeK x y
  | _, _ => False
  end.

Ltac head_in HL Hk :=
  let x := fresh "x" in let l := fresh "l" in let T := fresh "T" in
  inversion HL as [|x l Hk T]; subst; unfold inK in Hk; cbn [ekey] in Hk.

(* the steps of the meta-call builtins and of the control goals neither read nor write the fact store *)
Lemma lift_m_agree d1 d2 nf fr lg x : dbK d1 d2 -> kagree (lift_m (mkms d1 nf fr lg) x) (lift_m (mkms d2 nf fr lg) x).
Proof.
  intros HK. destruct x as [fr'|k]; cbn [lift_m kagree mdb mnf mlog]; [|split; [reflexivity|]]; apply agreeK_mk; exact HK.
Qed.
Lemma lift_m_log m x : klog m (lift_m m x) = mlog m.
Proof. destruct x; reflexivity. Qed.
Lemma lift_m_db m x : kdb m (lift_m m x) = mdb m.
Proof. destruct x; reflexivity. Qed.
Lemma lift_m_silent m x : klog m (lift_m m x) = mlog m /\ kdb m (lift_m m x) = mdb m.
Proof. split; [apply lift_m_log|apply lift_m_db]. Qed.

Lemma dbstep_agree h0 fresh newid d1 d2 nf fr lg b tr cnt t gs r : dbK d1 d2 ->
  Forall inK (klog (mkms d1 nf fr lg) (dbstep h0 fresh newid (mkms d1 nf fr lg) b tr cnt t gs r)) ->
  kagree (dbstep h0 fresh newid (mkms d1 nf fr lg) b tr cnt t gs r)
         (dbstep h0 fresh newid (mkms d2 nf fr lg) b tr cnt t gs r).
Proof.
  intros HK. unfold dbstep. cbn [mdb mnf mlog mfr].
  destruct b as [app| |]; destruct (callable (den2 (tr ++ h0) t)) as [[nm fa]|];
    try (intros _; cbn [kagree]; apply agreeK_mk; exact HK).
  - cbn [klog mlog kagree]. intros HL. head_in HL Hk.
    rewrite (proj2 (proj2 HK) _ _ Hk). apply agreeK_mk. apply dbK_set. exact HK.
  - cbn [klog mlog kagree]. intros HL. head_in HL Hk.
    rewrite (proj2 (proj2 HK) _ _ Hk). apply agreeK_mk. exact HK.
  - intros HL.
    assert (Hk : K (nm, length fa) = true).
    { destruct (retract_list (tr ++ h0) (fun i => fresh (cnt + i)) fa (find_facts d1 nm (length fa)));
        cbn [klog mlog] in HL; head_in HL Hk; exact Hk. }
    rewrite <- (proj2 (proj2 HK) _ _ Hk).
    destruct (retract_list (tr ++ h0) (fun i => fresh (cnt + i)) fa (find_facts d1 nm (length fa))); cbn [kagree].
    + apply agreeK_mk. apply dbK_set. exact HK.
    + split; [reflexivity|]. apply agreeK_mk. exact HK.
Qed.

Lemma sstep_agree h0 fresh newid m1 m2 : agreeK m1 m2 ->
  Forall inK (klog m1 (sstep h0 fresh newid m1)) ->
  kagree (sstep h0 fresh newid m1) (sstep h0 fresh newid m2).
Proof.
  destruct m1 as [d1 nf fr lg], m2 as [d2 nf2 fr2 lg2]. intros [E1 [E2 [E3 HK]]].
  cbn [mnf mfr mlog mdb] in *. subst nf2 fr2 lg2.
  unfold sstep. cbn [mfr mdb mnf mlog].
  destruct fr as [|f r]; [intros _; exact I|].
  destruct f as [tr cnt gs|tr cnt args f gs|tr cnt fn args gs|tr cnt args cl gs|tr cnt nm args f gs| |tr cnt gs
                 |tr cnt bag acc nc gs].
  6: { intros _. apply (@lift_m_agree d1 d2 nf (FBar :: r) lg (MGo r) HK). }
  6: { intros _. apply (@lift_m_agree d1 d2 nf (FNeg tr cnt gs :: r) lg (MGo (FGoals tr cnt gs :: r)) HK). }
  6: { intros _. apply (@lift_m_agree d1 d2 nf (FColl tr cnt bag acc nc gs :: r) lg (coll_finish h0 tr cnt bag acc nc gs r) HK). }
  - destruct gs as [|[nm args] gs].
    { cbn [klog mlog kagree]; intros HL. split; [reflexivity|]. apply agreeK_mk. exact HK. }
    destruct (ctl_goal h0 fresh tr cnt nm args gs r) as [x|].
    { intros _. apply (@lift_m_agree d1 d2 nf (FGoals tr cnt ((nm, args) :: gs) :: r) lg x HK). }
    cbn [klog mlog kagree]; intros HL.
    + head_in HL Hk. rewrite (proj2 (proj2 HK) _ _ Hk), (find_function_dbK _ _ nm (length args) HK).
      apply agreeK_mk. exact HK.
  - intros _. destruct (unify_arrays2 UF (tr ++ h0) args (map (rn (fun i => fresh (cnt + i))) f)); cbn [kagree];
      try split; try reflexivity; apply agreeK_mk; exact HK.
  - destruct fn as [ds|]; [|intros _; cbn [kagree]; apply agreeK_mk; exact HK].
    destruct (meta_builtin ds) as [mb|].
    { intros _. apply (@lift_m_agree d1 d2 nf (FFun tr cnt (Some ds) args gs :: r) lg (metastep h0 mb tr cnt args gs r) HK). }
    destruct (db_builtin ds) as [b|].
    + destruct args as [|t [|t2 args]];
        try (intros _; cbn [kagree]; split; [reflexivity|apply agreeK_mk; exact HK]).
      apply dbstep_agree. exact HK.
    + intros _. destruct (clauses_of ds); cbn [kagree]; try split; try reflexivity; apply agreeK_mk; exact HK.
  - intros _. destruct (unify_arrays2 UF (tr ++ h0) args (fst (rn_clause (fun i => fresh (cnt + i)) cl))); cbn [kagree];
      try split; try reflexivity; apply agreeK_mk; exact HK.
  - destruct (unify_arrays2 UF (tr ++ h0) args (map (rn (fun i => fresh (cnt + i))) (fargs f)));
      try (intros _; cbn [kagree]; try split; try reflexivity; apply agreeK_mk; exact HK).
    intros HL.
    assert (Hk : K (nm, length args) = true).
    { destruct (has_id (fid f) (find_facts d1 nm (length args))); cbn [klog mlog] in HL; head_in HL Hk; exact Hk. }
    rewrite <- (proj2 (proj2 HK) _ _ Hk).
    destruct (has_id (fid f) (find_facts d1 nm (length args))); cbn [kagree]; apply agreeK_mk; auto using dbK_set.
Qed.

(* the log only grows *)
Lemma dbstep_log h0 fresh newid m b tr cnt t gs r :
  exists pre, klog m (dbstep h0 fresh newid m b tr cnt t gs r) = pre ++ mlog m.
Proof.
  unfold dbstep. destruct b as [app| |]; destruct (callable (den2 (tr ++ h0) t)) as [[nm fa]|]; cbn [klog mlog];
    try (exists []; reflexivity); try (eexists [_]; reflexivity).
  destruct (retract_list (tr ++ h0) (fun i => fresh (cnt + i)) fa (find_facts (mdb m) nm (length fa))); cbn [klog mlog];
    eexists [_]; reflexivity.
Qed.
Lemma sstep_log h0 fresh newid m : exists pre, klog m (sstep h0 fresh newid m) = pre ++ mlog m.
Proof.
  unfold sstep. destruct (mfr m) as [|f r]; [exists []; reflexivity|].
  destruct f as [tr cnt gs|tr cnt args f gs|tr cnt fn args gs|tr cnt args cl gs|tr cnt nm args f gs| |tr cnt gs
                 |tr cnt bag acc nc gs].
  6: { exists []. apply lift_m_log. }
  6: { exists []. apply lift_m_log. }
  6: { exists []. apply lift_m_log. }
  - destruct gs as [|[nm args] gs]; [exists []; reflexivity|].
    destruct (ctl_goal h0 fresh tr cnt nm args gs r) as [x|]; [exists []; apply lift_m_log|].
    cbn [klog mlog]. eexists [_]; reflexivity.
  - destruct (unify_arrays2 UF (tr ++ h0) args (map (rn (fun i => fresh (cnt + i))) f)); exists []; reflexivity.
  - destruct fn as [ds|]; [|exists []; reflexivity].
    destruct (meta_builtin ds) as [mb|]; [exists []; apply lift_m_log|].
    destruct (db_builtin ds) as [b|].
    + destruct args as [|t [|t2 args]]; try (exists []; reflexivity). apply dbstep_log.
    + destruct (clauses_of ds); exists []; reflexivity.
  - destruct (unify_arrays2 UF (tr ++ h0) args (fst (rn_clause (fun i => fresh (cnt + i)) cl))); exists []; reflexivity.
  - destruct (unify_arrays2 UF (tr ++ h0) args (map (rn (fun i => fresh (cnt + i))) (fargs f))); try (exists []; reflexivity).
    destruct (has_id (fid f) (find_facts (mdb m) nm (length args))); cbn [klog mlog]; eexists [_]; reflexivity.
Qed.

Definition slog (r : sres) : list ev := match r with SAns _ m | SDone m | SErr _ m => mlog m end.
Definition sdb (r : sres) : db := match r with SAns _ m | SDone m | SErr _ m => mdb m end.

Lemma search_log h0 fresh newid : forall fuel m, exists pre, slog (search fuel h0 fresh newid m) = pre ++ mlog m.
Proof.
  induction fuel as [|fuel IH]; intros m; cbn [search]; [exists []; reflexivity|].
  destruct (sstep_log h0 fresh newid m) as [p1 E1].
  destruct (sstep h0 fresh newid m) as [m'|tr m'| |k m']; cbn [klog slog] in *; try (exists p1; exact E1).
  destruct (IH m') as [p2 E2]. exists (p2 ++ p1). rewrite E2, E1, app_assoc. reflexivity.
Qed.

Definition sagree (r1 r2 : sres) : Prop :=
  match r1, r2 with
  | SAns t a, SAns t' b => t = t' /\ agreeK a b
  | SDone a, SDone b => agreeK a b
  | SErr k a, SErr k' b => k = k' /\ agreeK a b
  | _, _ => False
  end.

Lemma Forall_app_r {A} (Q : A -> Prop) a b : Forall Q (a ++ b) -> Forall Q b.
Proof. intros H. apply Forall_app in H. tauto. Qed.

Lemma search_agree h0 fresh newid : forall fuel m1 m2, agreeK m1 m2 ->
  Forall inK (slog (search fuel h0 fresh newid m1)) ->
  sagree (search fuel h0 fresh newid m1) (search fuel h0 fresh newid m2).
Proof.
  induction fuel as [|fuel IH]; intros m1 m2 A HL; cbn [search] in *; [split; [reflexivity|exact A]|].
  pose proof (sstep_agree h0 fresh newid m1 m2 A) as St.
  destruct (sstep h0 fresh newid m1) as [m1'|tr m1'| |k m1'] eqn:E1; cbn [klog] in St.
  - destruct (search_log h0 fresh newid fuel m1') as [pre Ep]. rewrite Ep in HL.
    specialize (St (Forall_app_r _ _ _ HL)).
    destruct (sstep h0 fresh newid m2) as [m2'|tr2 m2'| |k2 m2']; cbn [kagree] in St; try contradiction.
    apply IH; auto. rewrite Ep. exact HL.
  - specialize (St HL).
    destruct (sstep h0 fresh newid m2) as [m2'|tr2 m2'| |k2 m2']; cbn [kagree] in St; try contradiction. exact St.
  - specialize (St HL).
    destruct (sstep h0 fresh newid m2) as [m2'|tr2 m2'| |k2 m2']; cbn [kagree] in St; try contradiction. exact A.
  - specialize (St HL).
    destruct (sstep h0 fresh newid m2) as [m2'|tr2 m2'| |k2 m2']; cbn [kagree] in St; try contradiction. exact St.
Qed.

(* a step whose writes are all outside K leaves the facts under the keys of K as they were *)
Ltac head_out HL Hk :=
  let x := fresh "x" in let l := fresh "l" in let T := fresh "T" in
  inversion HL as [|x l Hk T]; subst; unfold wrOut in Hk; cbn [ekey ewr] in Hk; specialize (Hk eq_refl).

Lemma dbstep_writes h0 fresh newid m b tr cnt t gs r :
  Forall wrOut (klog m (dbstep h0 fresh newid m b tr cnt t gs r)) ->
  dbK (mdb m) (kdb m (dbstep h0 fresh newid m b tr cnt t gs r)).
Proof.
  unfold dbstep. destruct b as [app| |]; destruct (callable (den2 (tr ++ h0) t)) as [[nm fa]|]; cbn [klog kdb mlog mdb];
    try (intros _; apply dbK_refl).
  - intros HL. head_out HL Hk. apply dbK_set_out. exact Hk.
  - destruct (retract_list (tr ++ h0) (fun i => fresh (cnt + i)) fa (find_facts (mdb m) nm (length fa))); cbn [klog kdb mlog mdb];
      [|intros _; apply dbK_refl].
    intros HL. head_out HL Hk. apply dbK_set_out. exact Hk.
Qed.
Lemma sstep_writes h0 fresh newid m :
  Forall wrOut (klog m (sstep h0 fresh newid m)) -> dbK (mdb m) (kdb m (sstep h0 fresh newid m)).
Proof.
  unfold sstep. destruct (mfr m) as [|f r]; [intros _; apply dbK_refl|].
  destruct f as [tr cnt gs|tr cnt args f gs|tr cnt fn args gs|tr cnt args cl gs|tr cnt nm args f gs| |tr cnt gs
                 |tr cnt bag acc nc gs].
  6: { intros _. rewrite lift_m_db. apply dbK_refl. }
  6: { intros _. rewrite lift_m_db. apply dbK_refl. }
  6: { intros _. rewrite lift_m_db. apply dbK_refl. }
  - destruct gs as [|[nm args] gs]; [intros _; apply dbK_refl|].
    destruct (ctl_goal h0 fresh tr cnt nm args gs r) as [x|]; [intros _; rewrite lift_m_db; apply dbK_refl|].
    intros _; apply dbK_refl.
  - destruct (unify_arrays2 UF (tr ++ h0) args (map (rn (fun i => fresh (cnt + i))) f)); intros _; apply dbK_refl.
  - destruct fn as [ds|]; [|intros _; apply dbK_refl].
    destruct (meta_builtin ds) as [mb|]; [intros _; rewrite lift_m_db; apply dbK_refl|].
    destruct (db_builtin ds) as [b|].
    + destruct args as [|t [|t2 args]]; try (intros _; apply dbK_refl). apply dbstep_writes.
    + destruct (clauses_of ds); intros _; apply dbK_refl.
  - destruct (unify_arrays2 UF (tr ++ h0) args (fst (rn_clause (fun i => fresh (cnt + i)) cl))); intros _; apply dbK_refl.
  - destruct (unify_arrays2 UF (tr ++ h0) args (map (rn (fun i => fresh (cnt + i))) (fargs f))); try (intros _; apply dbK_refl).
    destruct (has_id (fid f) (find_facts (mdb m) nm (length args))); cbn [klog kdb mlog mdb]; [|intros _; apply dbK_refl].
    intros HL. head_out HL Hk. apply dbK_set_out. exact Hk.
Qed.

(* for an error the store of the last state reached is reported; cnext discards it *)
Lemma search_writes h0 fresh newid : forall fuel m,
  Forall wrOut (slog (search fuel h0 fresh newid m)) ->
  match search fuel h0 fresh newid m with
  | SAns _ m' | SDone m' => dbK (mdb m) (mdb m')
  | SErr _ _ => True
  end.
Proof.
  induction fuel as [|fuel IH]; intros m HL; cbn [search] in *; [exact I|].
  pose proof (sstep_writes h0 fresh newid m) as St.
  destruct (sstep h0 fresh newid m) as [m'|tr m'| |k m'] eqn:E1; cbn [klog kdb] in St.
  - destruct (search_log h0 fresh newid fuel m') as [pre Ep]. rewrite Ep in HL.
    specialize (St (Forall_app_r _ _ _ HL)). specialize (IH m'). rewrite Ep in IH. specialize (IH HL).
    destruct (search fuel h0 fresh newid m'); auto; eapply dbK_trans; eauto.
  - exact (St HL).
  - apply dbK_refl.
  - exact I.
Qed.

(* ---------------------------------------------------------------- next / drain of a generator *)
Lemma cnext_agree fuel d1 d2 fresh h c c' h' r lg d1' : dbK d1 d2 ->
  cnext fuel d1 fresh h c = (c', h', r, lg, d1') -> Forall inK lg ->
  exists d2', cnext fuel d2 fresh h c = (c', h', r, lg, d2') /\ dbK d1' d2'.
Proof.
  intros HK E HL. unfold cnext in *.
  pose proof (search_agree (unbind (ctrail c) h) fresh (qfid (cown c)) fuel
                (mkms d1 (cnf c) (cfr c) []) (mkms d2 (cnf c) (cfr c) []) (agreeK_mk _ _ _ _ _ HK)) as Sa.
  destruct (search fuel (unbind (ctrail c) h) fresh (qfid (cown c)) (mkms d1 (cnf c) (cfr c) [])) as [tr m|m|k m];
    destruct (search fuel (unbind (ctrail c) h) fresh (qfid (cown c)) (mkms d2 (cnf c) (cfr c) [])) as [tr2 m2|m2|k2 m2];
    cbn [slog sagree] in Sa; injection E; intros <- <- <- <- <-; specialize (Sa HL); try contradiction.
  - destruct Sa as [<- [A1 [A2 [A3 A4]]]]. exists (mdb m2). rewrite <- A1, <- A2, <- A3. split; [reflexivity|exact A4].
  - destruct Sa as [A1 [A2 [A3 A4]]]. exists (mdb m2). rewrite <- A1, <- A3. split; [reflexivity|exact A4].
  - destruct Sa as [<- [A1 [A2 [A3 A4]]]]. exists d2. rewrite <- A3. split; [reflexivity|exact HK].
Qed.

Lemma cnext_writes fuel d fresh h c c' h' r lg d' :
  cnext fuel d fresh h c = (c', h', r, lg, d') -> Forall wrOut lg -> dbK d d'.
Proof.
  intros E HL. unfold cnext in E.
  pose proof (search_writes (unbind (ctrail c) h) fresh (qfid (cown c)) fuel (mkms d (cnf c) (cfr c) [])) as Sw.
  destruct (search fuel (unbind (ctrail c) h) fresh (qfid (cown c)) (mkms d (cnf c) (cfr c) [])) as [tr m|m|k m];
    injection E; intros <- <- <- <- <-; cbn [slog mdb] in Sw; auto using dbK_refl.
Qed.

Lemma cdrain_log fresh : forall n fuel d h c acc lg c' h' answers err lg' d',
  cdrain n fuel d fresh h c acc lg = (c', h', answers, err, lg', d') -> exists pre, lg' = pre ++ lg.
Proof.
  induction n as [|n IH]; intros fuel d h c acc lg c' h' answers err lg' d' E; cbn [cdrain] in E.
  - inversion E; subst. exists []. reflexivity.
  - destruct (cnext fuel d fresh h c) as [[[[c1 h1] r] l1] d1].
    destruct r as [vals| |k].
    + destruct (IH _ _ _ _ _ _ _ _ _ _ _ _ E) as [pre Ep]. exists (pre ++ l1). rewrite Ep, app_assoc. reflexivity.
    + inversion E; subst. exists l1. reflexivity.
    + inversion E; subst. exists l1. reflexivity.
Qed.

Lemma cdrain_agree fresh : forall n fuel d1 d2 h c acc lg c' h' answers err lg' d1', dbK d1 d2 ->
  cdrain n fuel d1 fresh h c acc lg = (c', h', answers, err, lg', d1') -> Forall inK lg' ->
  exists d2', cdrain n fuel d2 fresh h c acc lg = (c', h', answers, err, lg', d2') /\ dbK d1' d2'.
Proof.
  induction n as [|n IH]; intros fuel d1 d2 h c acc lg c' h' answers err lg' d1' HK E HL; cbn [cdrain] in *.
  - inversion E; subst. exists d2. split; [reflexivity|exact HK].
  - destruct (cnext fuel d1 fresh h c) as [[[[c1 h1] r] l1] d1m] eqn:E1.
    assert (H1 : Forall inK l1).
    { destruct r as [vals| |k].
      - destruct (cdrain_log _ _ _ _ _ _ _ _ _ _ _ _ _ _ E) as [pre Ep]. rewrite Ep in HL.
        apply Forall_app_r in HL. apply Forall_app in HL. tauto.
      - inversion E; subst. apply Forall_app in HL. tauto.
      - inversion E; subst. apply Forall_app in HL. tauto. }
    destruct (cnext_agree fuel d1 d2 fresh h c _ _ _ _ _ HK E1 H1) as [d2m [E2 HK2]]. rewrite E2.
    destruct r as [vals| |k].
    + eapply IH; eauto.
    + inversion E; subst. exists d2m. split; [reflexivity|exact HK2].
    + inversion E; subst. exists d2m. split; [reflexivity|exact HK2].
Qed.

Lemma cdrain_writes fresh : forall n fuel d h c acc lg c' h' answers err lg' d',
  cdrain n fuel d fresh h c acc lg = (c', h', answers, err, lg', d') ->
  Forall wrOut lg' -> dbK d d'.
Proof.
  induction n as [|n IH]; intros fuel d h c acc lg c' h' answers err lg' d' E HL; cbn [cdrain] in *.
  - inversion E; subst. apply dbK_refl.
  - destruct (cnext fuel d fresh h c) as [[[[c1 h1] r] l1] d1m] eqn:E1.
    assert (H1 : Forall wrOut l1).
    { destruct r as [vals| |k].
      - destruct (cdrain_log _ _ _ _ _ _ _ _ _ _ _ _ _ _ E) as [pre Ep]. rewrite Ep in HL.
        apply Forall_app_r in HL. apply Forall_app in HL. tauto.
      - inversion E; subst. apply Forall_app in HL. tauto.
      - inversion E; subst. apply Forall_app in HL. tauto. }
    pose proof (cnext_writes fuel d fresh h c _ _ _ _ _ E1 H1) as W1.
    destruct r as [vals| |k].
    + eapply dbK_trans; [exact W1|]. eapply IH; eauto.
    + inversion E; subst. exact W1.
    + inversion E; subst. exact W1.
Qed.

End FP.
