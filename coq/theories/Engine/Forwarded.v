(* C03, round 4: close() must REACH the open iterator of a delegating frame.

   YP.query delegates with `yield from` on the result of the predicate function: closing the query generator closes the iterator it delegates to
   (the machine: `unwind h (KLoop it body k)` closes `it`, then unwinds k).  A `for` loop in the same place only DROPS its
   reference; when the iterator object is still referenced from elsewhere (an iterator object of a user predicate that the
   application keeps) nothing closes it: the heap is then `unwind h k`.  For the engine instance the two heaps differ in
   exactly the bound cells that `it` owns: each of them stays bound without the forwarded close and is unbound with it. *)
From Coq Require Import String.
From Coq Require Import List Arith Bool Lia.
Import ListNotations.
From YP Require Import Base.Str Term.Term Unify.UnifyGen Engine.GenMachine Engine.Restore Engine.IRMachine Engine.DelayedClose.

Lemma in_keys_rm n l (h : heap) : In n (keys (rm l h)) <-> In n (keys h) /\ ~ In n l.
Proof.
  unfold rm, keys. rewrite !in_map_iff. split.
  - intros [p [E P]]. apply filter_In in P. destruct P as [P Q]. split; [exists p; split; assumption|].
    intros I. apply negb_true_iff in Q.
    assert (X : existsb (Nat.eqb (fst p)) l = true) by (apply existsb_exists; exists n; split; [exact I|rewrite E; apply Nat.eqb_refl]).
    congruence.
  - intros [[p [E P]] N]. exists p. split; [exact E|]. apply filter_In. split; [exact P|].
    apply negb_true_iff. destruct (existsb (Nat.eqb (fst p)) l) eqn:X; [|reflexivity].
    apply existsb_exists in X. destruct X as [m [I Q]]. apply Nat.eqb_eq in Q. subst. contradiction.
Qed.

Theorem close_must_be_forwarded (it : miter) body (k : mkont) (h : heap) n :
  In n (icells it) -> ~ In n (kcells k) -> In n (keys h) ->
  In n (keys (unwind lclose h k)) /\ ~ In n (keys (unwind lclose h (KLoop it body k))).
Proof.
  intros I K H. rewrite !unwind_rm. cbn [kcells]. split.
  - apply in_keys_rm. split; assumption.
  - intros X. apply in_keys_rm in X. destruct X as [_ X]. apply X. apply in_or_app. left. exact I.
Qed.

(* and with the close forwarded nothing that the frame's iterators own survives *)
Theorem forwarded_close_releases (it : miter) body (k : mkont) (h : heap) n :
  In n (icells it ++ kcells k) -> ~ In n (keys (unwind lclose h (KLoop it body k))).
Proof.
  intros I X. rewrite unwind_rm in X. cbn [kcells] in X. apply in_keys_rm in X. destruct X as [_ X]. exact (X I).
Qed.

(* non-vacuity: the open iterator of the delegating frame is a unification generator that has bound cell 3 (X = a at the answer
   at which the query is abandoned), cell 7 belongs to the caller.  Torn down WITHOUT closing the iterator: X stays bound.
   With the close forwarded: the caller's heap. *)
Definition fw_it : miter := ILeaf (LGen (GVarBound 3)).
Definition fw_k : mkont := KNil.
Definition fw_heap : heap := [(3, TAtom (d "a"%string)); (7, TAtom (d "keep"%string))].

Lemma forwarded_example :
  In 3 (icells fw_it) /\ ~ In 3 (kcells fw_k) /\ In 3 (keys fw_heap) /\
  unwind lclose fw_heap fw_k = fw_heap /\
  unwind lclose fw_heap (KLoop fw_it CSkip fw_k) = [(7, TAtom (d "keep"%string))].
Proof.
  split; [left; reflexivity|]. split; [intros []|]. split; [left; reflexivity|].
  rewrite !unwind_rm. split; reflexivity.
Qed.
