(* Frame property of dereferencing and unification over the shared heap.
   P is a set of cells ("mine").  A heap is [closed] when the value of every cell of P mentions only
   cells of P.  Then dereferencing a term over P and unifying two terms over P never reads a binding of
   a cell outside P, binds only cells of P to values over P, and leaves every other binding where it
   is: running on the heap and running on the heap restricted to P give the same result. *)
From Coq Require Import List Arith Bool Lia ZArith.
Import ListNotations.
From YP Require Import Base.Str Term.Term Unify.Unify Engine.Deref.
Set Implicit Arguments.

Section Frame.
Variable P : nat -> bool.

Definition tin (t : term) : Prop := forall w, occurs w t = true -> P w = true.
Definition closed (s : store) : Prop := forall v t, In (v, t) s -> P v = true -> tin t.
Definition good (s : store) : Prop := forall v t, In (v, t) s -> P v = true /\ tin t.
Definition fP (s : store) : store := filter (fun e : nat * term => P (fst e)) s.
Definition fN (s : store) : store := filter (fun e : nat * term => negb (P (fst e))) s.

Lemma tin_fun f args : tin (TFun f args) <-> Forall tin args.
Proof.
  split.
  - intros H. apply Forall_forall. intros x Hx w Hw. apply H. simpl.
    apply existsb_exists. exists x. auto.
  - intros H w Hw. simpl in Hw. apply existsb_exists in Hw as [x [Hx Ho]].
    rewrite Forall_forall in H. exact (H x Hx w Ho).
Qed.
Lemma tin_var v : tin (TVar v) <-> P v = true.
Proof.
  split.
  - intros H. apply H. simpl. apply Nat.eqb_refl.
  - intros H w Hw. simpl in Hw. apply Nat.eqb_eq in Hw. subst. exact H.
Qed.
Lemma tin_atom a : tin (TAtom a). Proof. intros w Hw; discriminate. Qed.
Lemma tin_int a : tin (TInt a). Proof. intros w Hw; discriminate. Qed.
Lemma tin_str a : tin (TStr a). Proof. intros w Hw; discriminate. Qed.

Lemma tin_subst1 v r x : tin x -> (occurs v x = true -> tin r) -> tin (subst1 v r x).
Proof.
  intros Hx Hr. destruct (occurs v x) eqn:O.
  - intros w Hw. destruct (occurs_subst1 _ _ _ _ Hw) as [[A _]|A]; [apply Hx; exact A|apply (Hr eq_refl); exact A].
  - rewrite subst1_noocc by exact O. exact Hx.
Qed.

Lemma closed_tail e s : closed (e :: s) -> closed s.
Proof. intros C v t H. apply C. right. exact H. Qed.

Lemma den_tin s : closed s -> forall t, tin t -> tin (den s t).
Proof.
  induction s as [|[v t0] s IH]; simpl; intros C t Ht; auto.
  pose proof (closed_tail C) as C'.
  apply tin_subst1; [apply IH; auto|].
  intros O. apply IH; auto. apply (C v t0); [left; reflexivity|].
  exact (IH C' t Ht v O).
Qed.

Lemma den_filter s : closed s -> forall t, tin t -> den (fP s) t = den s t.
Proof.
  induction s as [|[v t0] s IH]; simpl; intros C t Ht; auto.
  pose proof (closed_tail C) as C'.
  destruct (P v) eqn:Pv; simpl.
  - rewrite (IH C' t Ht). rewrite (IH C' t0); auto. apply (C v t0); [left; reflexivity|exact Pv].
  - rewrite (IH C' t Ht). symmetry. apply subst1_noocc.
    destruct (occurs v (den s t)) eqn:O; auto.
    pose proof (den_tin C' Ht v O) as H. congruence.
Qed.

Lemma good_closed s : good s -> closed s.
Proof. intros G v t H _. apply (G v t H). Qed.
Lemma good_app a b : good a -> good b -> good (a ++ b).
Proof. intros A B v t H. apply in_app_or in H as [H|H]; auto. Qed.
Lemma good_nil : good []. Proof. intros v t []. Qed.
Lemma closed_app a b : closed a -> closed b -> closed (a ++ b).
Proof. intros A B v t H. apply in_app_or in H as [H|H]; eauto. Qed.
Lemma fP_app a b : fP (a ++ b) = fP a ++ fP b. Proof. apply filter_app. Qed.
Lemma fN_app a b : fN (a ++ b) = fN a ++ fN b. Proof. apply filter_app. Qed.
Lemma fP_good s : good s -> fP s = s.
Proof.
  induction s as [|[v t] s IH]; simpl; intros G; auto.
  destruct (G v t (or_introl eq_refl)) as [Pv _]. rewrite Pv. f_equal. apply IH.
  intros v' t' H. apply G. right. exact H.
Qed.
Lemma fN_good s : good s -> fN s = [].
Proof.
  induction s as [|[v t] s IH]; simpl; intros G; auto.
  destruct (G v t (or_introl eq_refl)) as [Pv _]. rewrite Pv. simpl. apply IH.
  intros v' t' H. apply G. right. exact H.
Qed.
Lemma closed_fP s : closed s -> closed (fP s).
Proof. intros C v t H. apply filter_In in H as [H _]. eauto. Qed.

(* ---------------------------------------------------------------- unification *)
Definition umap (r : ures) : ures := match r with UOk s => UOk (fP s) | x => x end.
Definition upost (s : store) (r : ures) : Prop :=
  match r with UOk s' => exists nw, s' = nw ++ s /\ good nw | _ => True end.
Definition uframe (U : store -> term -> term -> ures) : Prop :=
  forall s a b, closed s -> tin a -> tin b -> U (fP s) a b = umap (U s a b) /\ upost s (U s a b).

Lemma upost_refl s : upost s (UOk s).
Proof. exists []. split; [reflexivity|apply good_nil]. Qed.

Lemma bind_frame s v a : closed s -> P v = true -> tin a ->
  bind (fP s) v a = umap (bind s v a) /\ upost s (bind s v a).
Proof.
  intros C Pv Ha. unfold bind. destruct (occurs v a); simpl; [auto|].
  rewrite Pv. split; [reflexivity|]. exists [(v, a)]. split; [reflexivity|].
  intros v' t' [H|[]]. inversion H; subst. auto.
Qed.

Lemma arr_frame U : uframe U ->
  forall xs ys s, closed s -> Forall tin xs -> Forall tin ys ->
  arr U xs ys (fP s) = umap (arr U xs ys s) /\ upost s (arr U xs ys s).
Proof.
  intros HU. induction xs as [|a ar IH]; intros [|b br] s C Hx Hy; simpl;
    try (split; [reflexivity|first [exact I|apply upost_refl]]).
  pose proof (Forall_inv Hx) as H1. pose proof (Forall_inv_tail Hx) as H2.
  pose proof (Forall_inv Hy) as H3. pose proof (Forall_inv_tail Hy) as H4.
  destruct (HU s a b C H1 H3) as [E Po]. rewrite E.
  destruct (U s a b) as [s1| | |] eqn:E1; simpl; auto.
  destruct Po as [nw1 [-> G1]].
  assert (C1 : closed (nw1 ++ s)) by (apply closed_app; auto using good_closed).
  destruct (IH br _ C1 H2 H4) as [E2 Po2]. split; [exact E2|].
  destruct (arr U ar br (nw1 ++ s)) as [s2| | |]; simpl; auto.
  destruct Po2 as [nw2 [-> G2]]. exists (nw2 ++ nw1). rewrite app_assoc. split; auto using good_app.
Qed.

Lemma unify_frame n : uframe (unify n).
Proof.
  induction n as [|n IH]; intros s t1 t2 C H1 H2; [simpl; auto|].
  cbn [unify]. rewrite !(den_filter C) by assumption.
  pose proof (den_tin C H1) as D1. pose proof (den_tin C H2) as D2.
  destruct (den s t1) as [x|x|x|v|f xs] eqn:E1; destruct (den s t2) as [y|y|y|w|g ys] eqn:E2;
    try (simpl; split; [reflexivity|exact I]);
    try (apply bind_frame; auto; apply tin_var; assumption).
  - destruct (str_eqb x y); simpl; (split; [reflexivity|first [exact I|apply upost_refl]]).
  - destruct (Z.eqb x y); simpl; (split; [reflexivity|first [exact I|apply upost_refl]]).
  - destruct (str_eqb x y); simpl; (split; [reflexivity|first [exact I|apply upost_refl]]).
  - destruct (Nat.eqb v w); simpl; [split; [reflexivity|apply upost_refl]|].
    apply tin_var in D1. rewrite D1. split; [reflexivity|].
    exists [(v, TVar w)]. split; [reflexivity|]. intros v' t' [H|[]]. inversion H; subst. auto.
  - destruct (str_eqb f g); simpl; [|split; [reflexivity|exact I]].
    destruct (Nat.eqb (length xs) (length ys)); simpl; [|split; [reflexivity|exact I]].
    apply tin_fun in D1. apply tin_fun in D2. apply arr_frame; auto.
Qed.

Lemma unify_arrays_frame n s xs ys : closed s -> Forall tin xs -> Forall tin ys ->
  unify_arrays n (fP s) xs ys = umap (unify_arrays n s xs ys) /\ upost s (unify_arrays n s xs ys).
Proof.
  intros C Hx Hy. unfold unify_arrays. destruct (Nat.eqb (length xs) (length ys)); simpl;
    [|split; [reflexivity|exact I]].
  apply arr_frame; auto using unify_frame.
Qed.

End Frame.
