(* An abstract machine for generator FRAMES over a mutable heap (property C03).

   A frame is the activation of one generator function as the compiler emits it (and as the
   builtins of engine.py are written): nested `for l in <iterator>:` loops, `yield`, `break`,
   `return`, assignments to locals/flags, `if <flag>:`, and - for user-supplied predicates -
   `raise`.  Its state is the continuation `kont`: what remains to be executed, innermost first,
   including the stack of OPEN iterators (KLoop it body k = "we are inside `body` of a for-loop
   over the suspended iterator `it`").

   Iterators are
     ILeaf l        a leaf iterator object (type L, operations lnext/lclose); instantiated in
                    Restore.v with the unification generators of Unify/UnifyGen.v; the theorems
                    hold for ANY leaf type that satisfies the restoring contract (Restore.v)
     IFresh c e     a generator object whose body `c` has not started (a call `query(..)`,
                    the emitted predicate function, `self.call(goal)`, a user predicate)
     ISusp k e      a generator object suspended at a `yield`
     IDone          a finished generator object.

   Leaving a loop in any way other than by exhaustion of its iterator (break, return, an
   exception passing through, close() of the frame) drops the iterator; CPython finalises a
   dropped generator at once, which is close() (trusted; exercised by the correspondence run).
   `yield from it` is `for x in it: yield x` as far as heap effects, close and throw go.

   E is the local state of a frame (arguments, local variables, the doBreak/cutIfN flags,
   counters, results collected so far): assignments, conditions and the choice of the next
   iterator may depend on it and on the heap in an arbitrary way.  Fuel n: None = not enough fuel.
   d = remaining recursion depth (CPython's recursion limit): resuming a frame at depth 0 raises
   (RecursionError) in the caller without entering the frame.

   Cell naming.  `variable()` creates a new object; its identity is an arbitrary fresh name.  The
   machine names new cells by a counter that follows the current SEARCH PATH, exactly as
   Sem/Machine.v does (so that both give literally the same stores): every frame carries its own
   counter `gho e` (set from the caller's current counter when the call is made, advanced by the
   frame's own allocations), and the counter that is current at a program point is that of the
   innermost enclosing loop whose iterator is a suspended frame (that frame's counter at its yield),
   else the frame's own: `knxt k e`.  Assignments and iterator expressions receive it as their first
   argument.  It has no influence on control or on the heap discipline (all restoration theorems
   are for arbitrary functions of it). *)
From Coq Require Import List Arith Bool Lia.
Import ListNotations.
From YP Require Import Base.Str Term.Term Unify.UnifyGen.

Inductive res := RYield | RStop | RRaise.

Section Machine.
  Variable L : Type.                      (* leaf iterator objects *)
  Variable X : Type.                      (* what a leaf is created from, e.g. two terms *)
  Variable E : Type.                      (* frame-local state *)
  Variable P : Type.                      (* callee + actual arguments *)
  Variable mkleaf : X -> heap -> L.
  Variable lnext : nat -> heap -> L -> option (heap * L * res).
  Variable lclose : heap -> L -> heap.

  Inductive iexpr := ELeaf (x:X) | ECall (p:P).

  Inductive code :=
  | CSkip
  | CYield                                   (* yield False *)
  | CSeq (a b:code)
  | CFor (ex:nat -> E -> heap -> iexpr) (body:code) (* for l in <ex>: body *)
  | CBreak
  | CReturn
  | CRaise                                   (* raise SomeException(...) *)
  | CAssign (f:nat -> E -> heap -> E)
  | CIf (c:E -> bool) (a:code).

  Variable prog : P -> code * E.            (* body and initial local state of a call *)
  Variable gho : E -> nat.                  (* a frame's own cell counter *)

  Inductive iter :=
  | ILeaf (l:L)
  | IFresh (c:code) (e:E)
  | ISusp (k:kont) (e:E)
  | IDone
  with kont :=
  | KNil
  | KSeq (c:code) (k:kont)
  | KLoop (it:iter) (body:code) (k:kont).

  (* the cell counter that is current under the continuation k of a frame with local state e *)
  Fixpoint knxt (k:kont) (e:E) : nat :=
    match k with
    | KNil => gho e
    | KSeq _ k' => knxt k' e
    | KLoop it _ k' => match it with ISusp kk ee => knxt kk ee | _ => knxt k' e end
    end.

  Definition mkiter (x:iexpr) (h:heap) : iter :=
    match x with
    | ELeaf x => ILeaf (mkleaf x h)
    | ECall p => IFresh (fst (prog p)) (snd (prog p))
    end.

  (* close(): GeneratorExit travels from the yield outwards through the open loops; every
     iterator it passes is dropped (closed), innermost first *)
  Fixpoint iclose (h:heap) (it:iter) : heap :=
    match it with
    | ILeaf l => lclose h l
    | ISusp k _ => unwind h k
    | _ => h
    end
  with unwind (h:heap) (k:kont) : heap :=
    match k with
    | KNil => h
    | KSeq _ k' => unwind h k'
    | KLoop it _ k' => unwind (iclose h it) k'
    end.

  (* generator.throw(exc) by the consumer: the exception is raised at the `yield` where the frame
     is suspended and travels outwards like GeneratorExit (neither the emitted code nor the
     builtins have an except clause around a yield); a generator that has not started is just
     marked finished.  The exception comes back to the consumer. *)
  Definition ithrow (h:heap) (it:iter) : heap * iter * res := (iclose h it, IDone, RRaise).

  Fixpoint pop_loop (k:kont) : option (iter * kont) :=
    match k with
    | KNil => None
    | KSeq _ k' => pop_loop k'
    | KLoop it _ k' => Some (it, k')
    end.

  Fixpoint exec (n d:nat) (h:heap) (c:code) (k:kont) (e:E) {struct n} : option (heap * iter * res) :=
    match n with O => None | S n =>
      match c with
      | CSkip => cont n d h k e
      | CYield => Some (h, ISusp k e, RYield)
      | CSeq a b => exec n d h a (KSeq b k) e
      | CFor ex body => loop n d h (mkiter (ex (knxt k e) e h) h) body k e
      | CBreak =>
          match pop_loop k with
          | None => Some (h, IDone, RStop)
          | Some (it, k') => cont n d (iclose h it) k' e
          end
      | CReturn => Some (unwind h k, IDone, RStop)
      | CRaise => Some (unwind h k, IDone, RRaise)
      | CAssign f => cont n d h k (f (knxt k e) e h)
      | CIf c a => if c e then exec n d h a k e else cont n d h k e
      end
    end
  with cont (n d:nat) (h:heap) (k:kont) (e:E) {struct n} : option (heap * iter * res) :=
    match n with O => None | S n =>
      match k with
      | KNil => Some (h, IDone, RStop)                  (* end of the function body *)
      | KSeq c k' => exec n d h c k' e
      | KLoop it body k' => loop n d h it body k' e     (* end of a loop body: next iteration *)
      end
    end
  with loop (n d:nat) (h:heap) (it:iter) (body:code) (k:kont) (e:E) {struct n} : option (heap * iter * res) :=
    match n with O => None | S n =>
      match inext n d h it with
      | None => None
      | Some (h', it', RYield) => exec n d h' body (KLoop it' body k) e
      | Some (h', it', RStop) => cont n d h' k e
      | Some (h', it', RRaise) => Some (unwind (iclose h' it') k, IDone, RRaise)
      end
    end
  with inext (n d:nat) (h:heap) (it:iter) {struct n} : option (heap * iter * res) :=
    match n with O => None | S n =>
      match it with
      | ILeaf l =>
          match lnext n h l with
          | None => None
          | Some (h', l', r) => Some (h', ILeaf l', r)
          end
      | IFresh c e => match d with O => Some (h, it, RRaise) | S d' => exec n d' h c KNil e end
      | ISusp k e => match d with O => Some (h, it, RRaise) | S d' => cont n d' h k e end
      | IDone => Some (h, IDone, RStop)
      end
    end.

  (* unfolding equations *)
  Lemma exec_S n d h c k e : exec (S n) d h c k e =
      match c with
      | CSkip => cont n d h k e
      | CYield => Some (h, ISusp k e, RYield)
      | CSeq a b => exec n d h a (KSeq b k) e
      | CFor ex body => loop n d h (mkiter (ex (knxt k e) e h) h) body k e
      | CBreak =>
          match pop_loop k with
          | None => Some (h, IDone, RStop)
          | Some (it, k') => cont n d (iclose h it) k' e
          end
      | CReturn => Some (unwind h k, IDone, RStop)
      | CRaise => Some (unwind h k, IDone, RRaise)
      | CAssign f => cont n d h k (f (knxt k e) e h)
      | CIf c a => if c e then exec n d h a k e else cont n d h k e
      end.
  Proof. reflexivity. Qed.
  Lemma cont_S n d h k e : cont (S n) d h k e =
      match k with
      | KNil => Some (h, IDone, RStop)
      | KSeq c k' => exec n d h c k' e
      | KLoop it body k' => loop n d h it body k' e
      end.
  Proof. reflexivity. Qed.
  Lemma loop_S n d h it body k e : loop (S n) d h it body k e =
      match inext n d h it with
      | None => None
      | Some (h', it', RYield) => exec n d h' body (KLoop it' body k) e
      | Some (h', it', RStop) => cont n d h' k e
      | Some (h', it', RRaise) => Some (unwind (iclose h' it') k, IDone, RRaise)
      end.
  Proof. reflexivity. Qed.
  Lemma inext_S n d h it : inext (S n) d h it =
      match it with
      | ILeaf l =>
          match lnext n h l with
          | None => None
          | Some (h', l', r) => Some (h', ILeaf l', r)
          end
      | IFresh c e => match d with O => Some (h, it, RRaise) | S d' => exec n d' h c KNil e end
      | ISusp k e => match d with O => Some (h, it, RRaise) | S d' => cont n d' h k e end
      | IDone => Some (h, IDone, RStop)
      end.
  Proof. reflexivity. Qed.
  Lemma iclose_eq h it : iclose h it = match it with ILeaf l => lclose h l | ISusp k _ => unwind h k | _ => h end.
  Proof. destruct it; reflexivity. Qed.
  Lemma unwind_eq h k : unwind h k = match k with KNil => h | KSeq _ k' => unwind h k' | KLoop it _ k' => unwind (iclose h it) k' end.
  Proof. destruct k; reflexivity. Qed.

  (* the consumer: up to k times __next__, each under the heap the previous one left
     (whatever the consumer binds at an answer it has unbound again before it goes on);
     stops at the first __next__ that does not yield.
     result: final heap, final iterator, heaps at the yields, how the last __next__ ended *)
  Fixpoint nexts (n d k:nat) (h:heap) (it:iter) : option (heap * iter * list heap * res) :=
    match k with
    | O => Some (h, it, [], RYield)
    | S k' =>
        match inext n d h it with
        | None => None
        | Some (h', it', RYield) =>
            match nexts n d k' h' it' with
            | None => None
            | Some (hf, itf, ys, r) => Some (hf, itf, h' :: ys, r)
            end
        | Some (h', it', r) => Some (h', it', [], r)
        end
    end.

  (* any consumer: an arbitrary sequence of __next__ / close() (= dropping the last reference) /
     throw() calls on one generator object, each under the heap the previous one left; a closed
     generator is finished *)
  Inductive fop := FNext | FClose | FThrow.
  Fixpoint fdrive (n d:nat) (h:heap) (it:iter) (ops:list fop) : option (heap * iter * list res) :=
    match ops with
    | [] => Some (h, it, [])
    | FNext :: r =>
        match inext n d h it with
        | None => None
        | Some (h', it', rr) =>
            match fdrive n d h' it' r with None => None | Some (hf, itf, rs) => Some (hf, itf, rr :: rs) end
        end
    | FClose :: r =>
        match fdrive n d (iclose h it) IDone r with None => None | Some (hf, itf, rs) => Some (hf, itf, RStop :: rs) end
    | FThrow :: r =>
        match fdrive n d (iclose h it) IDone r with None => None | Some (hf, itf, rs) => Some (hf, itf, RRaise :: rs) end
    end.
End Machine.

Arguments ELeaf {X P} x.
Arguments ECall {X P} p.
Arguments CSkip {X E P}.
Arguments CYield {X E P}.
Arguments CSeq {X E P} a b.
Arguments CFor {X E P} ex body.
Arguments CBreak {X E P}.
Arguments CReturn {X E P}.
Arguments CRaise {X E P}.
Arguments CAssign {X E P} f.
Arguments CIf {X E P} c a.
Arguments ILeaf {L X E P} l.
Arguments IFresh {L X E P} c e.
Arguments ISusp {L X E P} k e.
Arguments IDone {L X E P}.
Arguments KNil {L X E P}.
Arguments KSeq {L X E P} c k.
Arguments KLoop {L X E P} it body k.
Arguments pop_loop {L X E P} k.
Arguments iclose {L X E P} lclose h it.
Arguments unwind {L X E P} lclose h k.
Arguments mkiter {L X E P} mkleaf prog x h.
Arguments knxt {L X E P} gho k e.
Arguments ithrow {L X E P} lclose h it.
Arguments exec {L X E P} mkleaf lnext lclose prog gho n d h c k e.
Arguments cont {L X E P} mkleaf lnext lclose prog gho n d h k e.
Arguments loop {L X E P} mkleaf lnext lclose prog gho n d h it body k e.
Arguments inext {L X E P} mkleaf lnext lclose prog gho n d h it.
Arguments nexts {L X E P} mkleaf lnext lclose prog gho n d k h it.
Arguments fdrive {L X E P} mkleaf lnext lclose prog gho n d h it ops.
Arguments exec_S {L X E P} mkleaf lnext lclose prog gho n d h c k e.
Arguments cont_S {L X E P} mkleaf lnext lclose prog gho n d h k e.
Arguments loop_S {L X E P} mkleaf lnext lclose prog gho n d h it body k e.
Arguments inext_S {L X E P} mkleaf lnext lclose prog gho n d h it.
