(* C15: get_value / to_python as the engine has them NOW (engine.py):

     def get_value(v):            IUnifiable -> v.get_value(), anything else -> v
     Atom.get_value               -> self
     Variable.get_value           -> self if unbound, else get_value(self._value)
     Functor.get_value            -> Functor(name, [get_value(a) for a in args])
     to_python / X.to_python      (see to_python below)

   The model is the fuelled function [gv] over a store that is an ARBITRARY association
   list (variable -> stored value, first match wins): nothing is assumed about the order in
   which the bindings were inserted.  The fuel is the Python recursion depth.
   Spec side: [den] (Term/Term.v, only meaningful on triangular stores), the order-free
   characterisation by iterated parallel substitution [sub1], and [py_of] for to_python. *)
From Coq Require Import String.
From Coq Require Import List Arith Bool Lia ZArith NArith Permutation.
Import ListNotations.
From YP Require Import Base.Str Term.Term.
Set Implicit Arguments.

(* ------------------------------------------------------------------ list helpers *)

Fixpoint mapM {A B} (f : A -> option B) (l : list A) : option (list B) :=
  match l with
  | [] => Some []
  | x :: r => match f x with
              | None => None
              | Some y => match mapM f r with None => None | Some ys => Some (y :: ys) end
              end
  end.

Lemma mapM_Forall2 {A B} (f : A -> option B) l rs :
  mapM f l = Some rs <-> Forall2 (fun x y => f x = Some y) l rs.
Proof.
  revert rs; induction l as [|x l IH]; intros rs; simpl.
  - split; intros H; [injection H as <-; constructor | inversion H; reflexivity].
  - split.
    + destruct (f x) as [y|] eqn:E; [|discriminate]. destruct (mapM f l) as [ys|] eqn:E2; [|discriminate].
      intros H; injection H as <-. constructor; [exact E | apply IH; reflexivity].
    + intros H; inversion H as [|x0 y l0 ys Hx Hr]; subst. rewrite Hx.
      apply IH in Hr. rewrite Hr. reflexivity.
Qed.

Lemma Forall2_imp {A B} (P Q : A -> B -> Prop) l rs :
  (forall a b, P a b -> Q a b) -> Forall2 P l rs -> Forall2 Q l rs.
Proof. intros H F. induction F; constructor; auto. Qed.

Lemma mapM_weaken {A B} (f g : A -> option B) l rs :
  (forall x y, In x l -> f x = Some y -> g x = Some y) -> mapM f l = Some rs -> mapM g l = Some rs.
Proof.
  intros H M. apply mapM_Forall2 in M. apply mapM_Forall2.
  induction M as [|x y l rs Hx Hr IH]; constructor.
  - apply H; [left; reflexivity | exact Hx].
  - apply IH. intros x0 y0 Hin. apply H. right; exact Hin.
Qed.

Lemma mapM_ext {A B} (f g : A -> option B) l :
  (forall x, In x l -> f x = g x) -> mapM f l = mapM g l.
Proof.
  induction l as [|x l IH]; intros H; simpl; auto.
  rewrite (H x (or_introl eq_refl)). rewrite IH; auto. intros y Hy. apply H. right; exact Hy.
Qed.

(* ------------------------------------------------------------------ the model *)

Fixpoint gv (n : nat) (s : store) (t : term) : option term :=
  match n with
  | O => None
  | S n' =>
      match t with
      | TVar v => match lookup v s with
                  | None => Some t                      (* not self._is_bound: return self *)
                  | Some u => gv n' s u                 (* return get_value(self._value) *)
                  end
      | TFun f args => match mapM (gv n' s) args with   (* Functor(name, [get_value(a) ...]) *)
                       | None => None
                       | Some rs => Some (TFun f rs)
                       end
      | _ => Some t                                     (* Atom.get_value / raw constants *)
      end
  end.

(* the behaviour before `fix: get_value of a variable resolves the bound term at every depth`
   (kept so that the regression is a named object, see pinned_get_value_leaks) *)
Fixpoint gv_pinned (n : nat) (s : store) (t : term) : option term :=
  match n with
  | O => None
  | S n' =>
      match t with
      | TVar v => match lookup v s with
                  | None => Some t
                  | Some (TVar w) => gv_pinned n' s (TVar w)
                  | Some u => Some u
                  end
      | TFun f args => match mapM (gv_pinned n' s) args with
                       | None => None
                       | Some rs => Some (TFun f rs)
                       end
      | _ => Some t
      end
  end.

Definition ground (t : term) : Prop := forall w, occurs w t = false.

Lemma occurs_fun w f args : occurs w (TFun f args) = true <-> exists a, In a args /\ occurs w a = true.
Proof. simpl. rewrite existsb_exists. reflexivity. Qed.

(* ------------------------------------------------------------------ no bound variable at any depth *)

Theorem gv_free n : forall s t r, gv n s t = Some r -> free_in s r.
Proof.
  induction n as [|n IH]; intros s t r H; [discriminate|].
  destruct t as [a|z|q|v|f args]; simpl in H.
  - injection H as <-. intros w Hw; discriminate.
  - injection H as <-. intros w Hw; discriminate.
  - injection H as <-. intros w Hw; discriminate.
  - destruct (lookup v s) as [u|] eqn:L.
    + eapply IH; exact H.
    + injection H as <-. intros w Hw. simpl in Hw. apply Nat.eqb_eq in Hw. subst. exact L.
  - destruct (mapM (gv n s) args) as [rs|] eqn:M; [|discriminate]. injection H as <-.
    apply mapM_Forall2 in M. intros w Hw. apply occurs_fun in Hw as [a [Hin Ho]].
    clear -M IH Hin Ho. induction M as [|x y l rs Hx Hr IHr]; [contradiction|].
    destruct Hin as [<-|Hin]; [exact (IH _ _ _ Hx w Ho) | exact (IHr Hin)].
Qed.

(* ------------------------------------------------------------------ fuel *)

Lemma gv_S_var n s v : gv (S n) s (TVar v) = match lookup v s with None => Some (TVar v) | Some u => gv n s u end.
Proof. reflexivity. Qed.
Lemma gv_S_fun n s f args : gv (S n) s (TFun f args) =
  match mapM (gv n s) args with None => None | Some rs => Some (TFun f rs) end.
Proof. reflexivity. Qed.

Lemma gv_mono_S n : forall s t r, gv n s t = Some r -> gv (S n) s t = Some r.
Proof.
  induction n as [|n IH]; intros s t r H; [discriminate|].
  destruct t as [a|z|q|v|f args]; try exact H.
  - rewrite gv_S_var in H |- *. destruct (lookup v s) as [u|]; [apply IH; exact H | exact H].
  - rewrite gv_S_fun in H |- *. destruct (mapM (gv n s) args) as [rs|] eqn:M; [|discriminate].
    rewrite (mapM_weaken (gv n s) (gv (S n) s) args (fun x y _ => IH s x y) M). exact H.
Qed.

Theorem gv_mono n m s t r : n <= m -> gv n s t = Some r -> gv m s t = Some r.
Proof. induction 1 as [|m Hle IH]; intros H; auto. apply gv_mono_S. auto. Qed.

Theorem gv_det n m s t r r' : gv n s t = Some r -> gv m s t = Some r' -> r = r'.
Proof.
  intros A B. apply (gv_mono (n:=n) (m:=Nat.max n m)) in A; [|lia].
  apply (gv_mono (n:=m) (m:=Nat.max n m)) in B; [|lia]. congruence.
Qed.

(* ------------------------------------------------------------------ independence of insertion order *)

Lemma gv_ext n : forall s1 s2 t, (forall v, lookup v s1 = lookup v s2) -> gv n s1 t = gv n s2 t.
Proof.
  induction n as [|n IH]; intros s1 s2 t E; [reflexivity|].
  destruct t as [a|z|q|v|f args]; cbn [gv]; auto.
  - rewrite <- E. destruct (lookup v s1); auto.
  - rewrite (mapM_ext (gv n s1) (gv n s2) args); auto.
Qed.

Lemma lookup_in v s t : lookup v s = Some t -> In (v, t) s.
Proof.
  induction s as [|[w u] s IH]; simpl; [discriminate|].
  destruct (Nat.eqb v w) eqn:E; intros H.
  - apply Nat.eqb_eq in E. injection H as <-. subst. left; reflexivity.
  - right; auto.
Qed.

Lemma in_lookup v s t : NoDup (map fst s) -> In (v, t) s -> lookup v s = Some t.
Proof.
  induction s as [|[w u] s IH]; simpl; intros N H; [contradiction|].
  inversion N as [|x l Hn N']; subst. destruct H as [H|H].
  - injection H as -> ->. rewrite Nat.eqb_refl. reflexivity.
  - destruct (Nat.eqb v w) eqn:E; [|auto].
    apply Nat.eqb_eq in E; subst. exfalso. apply Hn. apply (in_map fst) in H. exact H.
Qed.

Lemma lookup_perm s1 s2 : NoDup (map fst s1) -> Permutation s1 s2 -> forall v, lookup v s1 = lookup v s2.
Proof.
  intros N P v.
  assert (N2 : NoDup (map fst s2)) by (eapply Permutation_NoDup; [apply Permutation_map; exact P | exact N]).
  destruct (lookup v s1) as [t|] eqn:L1.
  - symmetry. apply in_lookup; auto. eapply Permutation_in; [exact P|]. apply lookup_in; exact L1.
  - destruct (lookup v s2) as [t|] eqn:L2; auto.
    apply lookup_in in L2. apply (Permutation_in _ (Permutation_sym P)) in L2.
    apply in_lookup in L2; auto. congruence.
Qed.

(* whatever the order in which the bindings were made (are listed) *)
Theorem gv_order_irrelevant n s1 s2 t :
  NoDup (map fst s1) -> Permutation s1 s2 -> gv n s1 t = gv n s2 t.
Proof. intros N P. apply gv_ext. apply lookup_perm; assumption. Qed.

(* ------------------------------------------------------------------ order-free spec: iterated substitution *)

(* replace every bound variable by its stored value, once, everywhere *)
Fixpoint sub1 (s : store) (t : term) : term :=
  match t with
  | TVar v => match lookup v s with Some u => u | None => t end
  | TFun f args => TFun f (map (sub1 s) args)
  | _ => t
  end.

Fixpoint iter {A} (k : nat) (f : A -> A) (x : A) : A :=
  match k with O => x | S k' => iter k' f (f x) end.

Lemma iter_add {A} (f : A -> A) j k x : iter (j + k) f x = iter k f (iter j f x).
Proof. revert x; induction j as [|j IH]; intros x; simpl; auto. Qed.

Lemma sub1_free s t : free_in s t -> sub1 s t = t.
Proof.
  induction t as [a|z|q|v|f args IHa] using term_ind'; intros F; simpl; auto.
  - rewrite (F v); auto. simpl. apply Nat.eqb_refl.
  - f_equal. rewrite <- (map_id args) at 2. apply map_ext_in. intros a Hin.
    rewrite Forall_forall in IHa. apply IHa; auto.
    intros w Hw. apply F. apply occurs_fun. exists a; auto.
Qed.

Lemma iter_free s k t : free_in s t -> iter k (sub1 s) t = t.
Proof. intros F. induction k as [|k IH]; simpl; auto. rewrite sub1_free; auto. Qed.

Lemma iter_fun s k f args : iter k (sub1 s) (TFun f args) = TFun f (map (iter k (sub1 s)) args).
Proof.
  revert args; induction k as [|k IH]; intros args; simpl.
  - rewrite map_id. reflexivity.
  - rewrite IH, map_map. reflexivity.
Qed.

(* r is the result of resolving t under s: substitute until no bound variable is left *)
Definition resolved (s : store) (t r : term) : Prop :=
  (exists k, iter k (sub1 s) t = r) /\ free_in s r.

Lemma resolved_unique s t r r' : resolved s t r -> resolved s t r' -> r = r'.
Proof.
  intros [[k Hk] F] [[k' Hk'] F'].
  assert (A : iter (k + k') (sub1 s) t = r') by (rewrite Nat.add_comm, iter_add, Hk'; apply iter_free; exact F').
  rewrite iter_add, Hk, iter_free in A; auto.
Qed.

Lemma common_iter s args rs :
  Forall2 (fun a r => (exists k, iter k (sub1 s) a = r) /\ free_in s r) args rs ->
  exists k, forall j, map (iter (k + j) (sub1 s)) args = rs.
Proof.
  induction 1 as [|x y l rs' [[k0 Hk0] F] Hr [k1 Hk1]]; [exists 0; reflexivity|].
  exists (k0 + k1). intros j. simpl. f_equal.
  - rewrite <- Nat.add_assoc, iter_add, Hk0. apply iter_free; exact F.
  - replace (k0 + k1 + j) with (k1 + (k0 + j)) by lia. apply Hk1.
Qed.

Theorem gv_resolved n : forall s t r, gv n s t = Some r -> resolved s t r.
Proof.
  intros s t r H. split; [|eapply gv_free; exact H].
  revert s t r H. induction n as [|n IH]; intros s t r H; [discriminate|].
  destruct t as [a|z|q|v|f args]; cbn [gv] in H.
  - exists 0; simpl; congruence.
  - exists 0; simpl; congruence.
  - exists 0; simpl; congruence.
  - destruct (lookup v s) as [u|] eqn:L.
    + destruct (IH _ _ _ H) as [k Hk]. exists (S k). simpl. rewrite L. exact Hk.
    + exists 0; simpl; congruence.
  - destruct (mapM (gv n s) args) as [rs|] eqn:M; [|discriminate]. injection H as <-.
    apply mapM_Forall2 in M.
    assert (E : exists k, forall j, map (iter (k + j) (sub1 s)) args = rs).
    { apply common_iter. eapply Forall2_imp; [|exact M]. cbn beta. intros a r Ha.
      split; [eapply IH; exact Ha | eapply gv_free; exact Ha]. }
    destruct E as [k Hk]. exists k. rewrite iter_fun. specialize (Hk 0). rewrite Nat.add_0_r in Hk.
    rewrite Hk. reflexivity.
Qed.

(* ------------------------------------------------------------------ agreement with den on triangular stores *)

Lemma gv_common_fuel s (g : term -> term) args :
  Forall (fun a => exists n, gv n s a = Some (g a)) args -> exists n, mapM (gv n s) args = Some (map g args).
Proof.
  induction 1 as [|x l [n0 H0] Hl [n1 H1]]; [exists 0; reflexivity|].
  exists (Nat.max n0 n1). simpl.
  eapply gv_mono in H0; [rewrite H0 | apply (Nat.le_max_l n0 n1)].
  eapply mapM_weaken in H1; [rewrite H1; reflexivity|].
  intros a b _ Hab. eapply gv_mono; [|exact Hab]. apply Nat.le_max_r.
Qed.

Lemma gv_nil_total : forall t, exists n, gv n [] t = Some t.
Proof.
  induction t as [a|z|q|v|f args IHa] using term_ind'; try (exists 1; reflexivity).
  destruct (gv_common_fuel [] (fun a => a) IHa) as [n Hn]. exists (S n).
  rewrite gv_S_fun, Hn, map_id. reflexivity.
Qed.

(* a newer binding of a variable that the result does not mention changes nothing *)
Lemma gv_skip v t0 n : forall s t r, lookup v s = None ->
  gv n s t = Some r -> occurs v r = false -> gv n ((v, t0) :: s) t = Some r.
Proof.
  induction n as [|n IH]; intros s t r Lv H O; [discriminate|].
  destruct t as [a|z|q|w|f args]; try exact H.
  - rewrite gv_S_var in H |- *. cbn [lookup]. destruct (Nat.eqb w v) eqn:E.
    + apply Nat.eqb_eq in E; subst w. rewrite Lv in H. injection H as <-. simpl in O.
      rewrite Nat.eqb_refl in O. discriminate.
    + destruct (lookup w s) as [u|]; [apply IH; auto | exact H].
  - rewrite gv_S_fun in H |- *. destruct (mapM (gv n s) args) as [rs|] eqn:M; [|discriminate].
    injection H as <-.
    assert (M' : mapM (gv n ((v, t0) :: s)) args = Some rs).
    { apply mapM_Forall2 in M. apply mapM_Forall2. simpl in O. clear -M O IH Lv.
      induction M as [|x y l rs Hx Hr IHr]; constructor.
      - simpl in O. apply orb_false_iff in O as [O1 _]. apply IH; auto.
      - simpl in O. apply orb_false_iff in O as [_ O2]. auto. }
    rewrite M'. reflexivity.
Qed.

(* resolution under (v,t0)::s = resolution under s followed by the substitution of v *)
Lemma gv_push v t0 r0 m n : forall s t r, lookup v s = None ->
  gv m s t0 = Some r0 -> occurs v r0 = false ->
  gv n s t = Some r -> gv (n + m) ((v, t0) :: s) t = Some (subst1 v r0 r).
Proof.
  induction n as [|n IH]; intros s t r Lv H0 O H; [discriminate|].
  destruct t as [a|z|q|w|f args]; try (injection H as <-; reflexivity).
  - rewrite gv_S_var in H. cbn [Nat.add]. rewrite gv_S_var. cbn [lookup].
    destruct (Nat.eqb w v) eqn:E.
    + apply Nat.eqb_eq in E; subst w. rewrite Lv in H. injection H as <-.
      simpl. rewrite Nat.eqb_refl. apply (gv_mono (n:=m)); [lia|]. apply gv_skip; auto.
    + destruct (lookup w s) as [u|] eqn:L; [apply IH; auto|].
      injection H as <-. simpl. rewrite E. reflexivity.
  - rewrite gv_S_fun in H. cbn [Nat.add]. rewrite gv_S_fun.
    destruct (mapM (gv n s) args) as [rs|] eqn:M; [|discriminate]. injection H as <-.
    assert (M' : mapM (gv (n + m) ((v, t0) :: s)) args = Some (map (subst1 v r0) rs)).
    { apply mapM_Forall2 in M. apply mapM_Forall2. clear -M IH Lv H0 O.
      induction M as [|x y l rs Hx Hr IHr]; simpl; constructor; auto. }
    rewrite M'. reflexivity.
Qed.

(* on the stores that unification builds, get_value terminates and is den *)
Theorem gv_wf_total s : wf s -> forall t, exists n, gv n s t = Some (den s t).
Proof.
  induction 1 as [|v t0 s W IH L O]; intros t; simpl.
  - apply gv_nil_total.
  - destruct (IH t) as [n Hn]. destruct (IH t0) as [m Hm].
    exists (n + m). eapply gv_push; eauto.
Qed.

Theorem gv_den n s t r : wf s -> gv n s t = Some r -> r = den s t.
Proof. intros W H. destruct (gv_wf_total W t) as [m Hm]. eapply gv_det; eauto. Qed.

(* ------------------------------------------------------------------ termination on every acyclic store *)

(* acyclic: there is a ranking of the variables that every stored value respects *)
Definition acyclic (s : store) : Prop :=
  exists rk : nat -> nat, forall v t w, lookup v s = Some t -> occurs w t = true -> rk w < rk v.

Lemma gv_common_fuel_ex s args :
  Forall (fun a => exists n r, gv n s a = Some r) args -> exists n rs, mapM (gv n s) args = Some rs.
Proof.
  induction 1 as [|x l [n0 [r0 H0]] Hl [n1 [rs1 H1]]]; [exists 0, []; reflexivity|].
  exists (Nat.max n0 n1), (r0 :: rs1). simpl.
  eapply gv_mono in H0; [rewrite H0 | apply (Nat.le_max_l n0 n1)].
  eapply mapM_weaken in H1; [rewrite H1; reflexivity|].
  intros a b _ Hab. eapply gv_mono; [|exact Hab]. apply Nat.le_max_r.
Qed.

Theorem gv_acyclic_total s : acyclic s -> forall t, exists n r, gv n s t = Some r.
Proof.
  intros [rk A].
  assert (K : forall k t, (forall w, occurs w t = true -> rk w < k) -> exists n r, gv n s t = Some r).
  { induction k as [|k IHk]; induction t as [a|z|q|v|f args IHa] using term_ind'; intros B;
      try (exists 1; eexists; reflexivity).
    - exfalso. specialize (B v). simpl in B. rewrite Nat.eqb_refl in B. specialize (B eq_refl). lia.
    - assert (F : Forall (fun a => exists n r, gv n s a = Some r) args).
      { rewrite Forall_forall in IHa |- *. intros a Hin. apply IHa; auto.
        intros w Hw. apply B. apply occurs_fun. exists a; auto. }
      destruct (gv_common_fuel_ex s F) as [n [rs Hn]]. exists (S n), (TFun f rs). rewrite gv_S_fun, Hn. reflexivity.
    - destruct (lookup v s) as [u|] eqn:L.
      + assert (Bv : rk v < S k) by (apply B; simpl; apply Nat.eqb_refl).
        destruct (IHk u) as [n [r Hn]].
        { intros w Hw. specialize (A v u w L Hw). lia. }
        exists (S n), r. rewrite gv_S_var, L. exact Hn.
      + exists 1, (TVar v). simpl. rewrite L. reflexivity.
    - assert (F : Forall (fun a => exists n r, gv n s a = Some r) args).
      { rewrite Forall_forall in IHa |- *. intros a Hin. apply IHa; auto.
        intros w Hw. apply B. apply occurs_fun. exists a; auto. }
      destruct (gv_common_fuel_ex s F) as [n [rs Hn]]. exists (S n), (TFun f rs). rewrite gv_S_fun, Hn. reflexivity. }
  intros t.
  (* a bound on the ranks of the variables of t *)
  assert (Bd : exists k, forall w, occurs w t = true -> rk w < k).
  { induction t as [a|z|q|v|f args IHa] using term_ind'; try (exists 0; intros w Hw; discriminate).
    - exists (S (rk v)). intros w Hw. simpl in Hw. apply Nat.eqb_eq in Hw. subst. lia.
    - induction IHa as [|x l [k0 H0] Hl [k1 H1]]; [exists 0; intros w Hw; discriminate|].
      exists (Nat.max k0 k1). intros w Hw. simpl in Hw. apply orb_true_iff in Hw as [Hw|Hw].
      + specialize (H0 w Hw). lia.
      + specialize (H1 w Hw). lia. }
  destruct Bd as [k Bk]. exact (K k t Bk).
Qed.

(* ------------------------------------------------------------------ ground answers survive backtracking *)

Lemma ground_free s t : ground t -> free_in s t.
Proof. intros G w Hw. rewrite G in Hw. discriminate. Qed.

Lemma gv_fixed_of_free n s t r : free_in s t -> gv n s t = Some r -> r = t.
Proof.
  intros F H. destruct (gv_resolved _ _ _ H) as [[k Hk] _]. rewrite iter_free in Hk; auto.
Qed.

Lemma gv_total_of_free s t : free_in s t -> exists n, gv n s t = Some t.
Proof.
  induction t as [a|z|q|v|f args IHa] using term_ind'; intros F; try (exists 1; reflexivity).
  - exists 1. simpl. rewrite (F v); auto. simpl. apply Nat.eqb_refl.
  - assert (Fa : Forall (fun a => exists n, gv n s a = Some ((fun x => x) a)) args).
    { rewrite Forall_forall in IHa |- *. intros a Hin. apply IHa; auto.
      intros w Hw. apply F. apply occurs_fun. exists a; auto. }
    destruct (gv_common_fuel s (fun a => a) Fa) as [n Hn]. exists (S n).
    rewrite gv_S_fun, Hn, map_id. reflexivity.
Qed.

(* the value saved at an answer, if ground, is the same term under EVERY later state of the
   bindings s' (after backtracking, after the query has finished, inside another query) *)
Theorem ground_value_stable n s t r : gv n s t = Some r -> ground r ->
  forall s', den s' r = r /\ (exists m, gv m s' r = Some r) /\ (forall m r', gv m s' r = Some r' -> r' = r).
Proof.
  intros _ G s'. split; [|split].
  - apply den_id. apply ground_free; exact G.
  - apply gv_total_of_free. apply ground_free; exact G.
  - intros m r' H. eapply gv_fixed_of_free; [|exact H]. apply ground_free; exact G.
Qed.

(* findall: the bag is makelist of the saved values; if they are ground, so is the bag *)
Definition dot : str := d "."%string.
Definition nil_name : str := d "[]"%string.
Definition mklist (xs : list term) : term := fold_right (fun h t => TFun dot [h; t]) (TAtom nil_name) xs.

Lemma ground_mklist xs : Forall ground xs -> ground (mklist xs).
Proof.
  induction 1 as [|x l Hx Hl IH]; intros w; simpl; auto.
  rewrite Hx. fold (mklist l). rewrite IH. reflexivity.
Qed.

Corollary findall_bag_stable xs : Forall ground xs ->
  forall s', den s' (mklist xs) = mklist xs /\ (forall m r', gv m s' (mklist xs) = Some r' -> r' = mklist xs).
Proof.
  intros G s'. split.
  - apply den_id, ground_free, ground_mklist, G.
  - intros m r' H. eapply gv_fixed_of_free; [|exact H]. apply ground_free, ground_mklist, G.
Qed.

(* the regression as a named object: X = g(Y), Y = 1 ; pinned get_value(X) = g(Y) still mentions the
   bound variable Y, the repaired get_value gives g(1) *)
Example pinned_get_value_leaks :
  let s := [(1, TInt 1); (0, TFun (d "g"%string) [TVar 1])] in
  gv_pinned 5 s (TVar 0) = Some (TFun (d "g"%string) [TVar 1]) /\ lookup 1 s = Some (TInt 1) /\
  gv 5 s (TVar 0) = Some (TFun (d "g"%string) [TInt 1]).
Proof. vm_compute. repeat split. Qed.

(* ------------------------------------------------------------------ to_python *)

(* Python values that to_python produces: str (atom names and raw str constants), int, None,
   list, and the pair (name, [args]) for compound terms other than '.' *)
Inductive pyval := PStr (x : str) | PInt (z : Z) | PNone | PList (l : list pyval) | PPair (name : str) (args : list pyval).
(* TypeError: `[head] + tail` where to_python(tail) is not a list; IndexError: '.' with fewer than
   two arguments (self._args[1]) *)
Inductive pyerr := TypeError | IndexError.
Inductive pres := POk (v : pyval) | PErr (e : pyerr) | POof.

Fixpoint mapP {A} (f : A -> pres) (l : list A) : pres + list pyval :=
  match l with
  | [] => inr []
  | x :: r => match f x with
              | POk y => match mapP f r with inr ys => inr (y :: ys) | e => e end
              | e => inl e
              end
  end.

(*   def to_python(v): IUnifiable -> v.to_python(), anything else -> v
     Atom.to_python:     [] if name == '[]' else name
     Variable.to_python: v = self.get_value(); None if v is a Variable else to_python(v)
     Functor.to_python:  name == '.': [to_python(args[0])] + to_python(args[1])
                         else (name, [to_python(v) for v in args])                         *)
Fixpoint to_python (n : nat) (s : store) (t : term) : pres :=
  match n with
  | O => POof
  | S n' =>
      match t with
      | TAtom a => if str_eqb a nil_name then POk (PList []) else POk (PStr a)
      | TInt z => POk (PInt z)
      | TStr x => POk (PStr x)
      | TVar v => match gv n' s t with
                  | None => POof
                  | Some (TVar _) => POk PNone
                  | Some r => to_python n' s r
                  end
      | TFun f args =>
          if str_eqb f dot then
            match args with
            | a0 :: rest =>
                match to_python n' s a0 with
                | POk h => match rest with
                           | a1 :: _ => match to_python n' s a1 with
                                        | POk (PList l) => POk (PList (h :: l))
                                        | POk _ => PErr TypeError
                                        | e => e
                                        end
                           | [] => PErr IndexError
                           end
                | e => e
                end
            | [] => PErr IndexError
            end
          else match mapP (to_python n' s) args with
               | inr vs => POk (PPair f vs)
               | inl e => e
               end
      end
  end.

(* Spec: the Python value of a term, by structural recursion, no store *)
Fixpoint py_of (t : term) : pres :=
  match t with
  | TAtom a => if str_eqb a nil_name then POk (PList []) else POk (PStr a)
  | TInt z => POk (PInt z)
  | TStr x => POk (PStr x)
  | TVar _ => POk PNone
  | TFun f args =>
      if str_eqb f dot then
        match args with
        | a0 :: rest =>
            match py_of a0 with
            | POk h => match rest with
                       | a1 :: _ => match py_of a1 with
                                    | POk (PList l) => POk (PList (h :: l))
                                    | POk _ => PErr TypeError
                                    | e => e
                                    end
                       | [] => PErr IndexError
                       end
            | e => e
            end
        | [] => PErr IndexError
        end
      else match (fix go (l : list term) : pres + list pyval :=
                    match l with
                    | [] => inr []
                    | x :: r => match py_of x with
                                | POk y => match go r with inr ys => inr (y :: ys) | e => e end
                                | e => inl e
                                end
                    end) args with
           | inr vs => POk (PPair f vs)
           | inl e => e
           end
  end.

Lemma py_of_fun f args : py_of (TFun f args) =
  if str_eqb f dot then
    match args with
    | a0 :: rest =>
        match py_of a0 with
        | POk h => match rest with
                   | a1 :: _ => match py_of a1 with
                                | POk (PList l) => POk (PList (h :: l))
                                | POk _ => PErr TypeError
                                | e => e
                                end
                   | [] => PErr IndexError
                   end
        | e => e
        end
    | [] => PErr IndexError
    end
  else match mapP py_of args with inr vs => POk (PPair f vs) | inl e => e end.
Proof.
  cbn [py_of]. destruct (str_eqb f dot); [reflexivity|].
  assert (E : forall l, (fix go (l : list term) : pres + list pyval :=
                    match l with
                    | [] => inr []
                    | x :: r => match py_of x with
                                | POk y => match go r with inr ys => inr (y :: ys) | e => e end
                                | e => inl e
                                end
                    end) l = mapP py_of l).
  { induction l as [|x l IH]; [reflexivity|]. cbn [mapP]. rewrite <- IH. reflexivity. }
  rewrite E. reflexivity.
Qed.

Lemma py_of_noof : forall t, py_of t <> POof.
Proof.
  induction t as [a|z|q|v|f args IHa] using term_ind'; try (simpl; congruence).
  - simpl. destruct (str_eqb a nil_name); congruence.
  - rewrite py_of_fun. destruct (str_eqb f dot).
    + destruct args as [|a0 [|a1 rest]]; [congruence| |].
      * inversion IHa; subst. destruct (py_of a0); congruence.
      * inversion IHa as [|x l H0 H1]; subst. inversion H1; subst.
        destruct (py_of a0); try congruence. destruct (py_of a1) as [[]| |]; congruence.
    + assert (E : forall e, mapP py_of args = inl e -> e <> POof).
      { induction IHa as [|x l Hx Hl IH]; simpl; [discriminate|].
        destruct (py_of x) eqn:Ex.
        - destruct (mapP py_of l) eqn:El; [|discriminate]. intros e H; injection H as <-. auto.
        - intros e0 H; injection H as <-. congruence.
        - exfalso; apply Hx; reflexivity. }
      destruct (mapP py_of args) eqn:M; [apply E; reflexivity | congruence].
Qed.

Lemma mapP_agree (f g : term -> pres) l :
  (forall x, In x l -> f x <> POof -> f x = g x) ->
  mapP f l <> inl POof -> mapP f l = mapP g l.
Proof.
  induction l as [|x l IH]; intros H N; [reflexivity|]. simpl in *.
  assert (Nx : f x <> POof).
  { intros E. rewrite E in N. apply N; reflexivity. }
  rewrite <- (H x (or_introl eq_refl) Nx).
  destruct (f x) eqn:Ex; try reflexivity.
  rewrite <- IH; auto.
  intros E. rewrite E in N. apply N. reflexivity.
Qed.

(* structural characterisation on resolved terms: to_python is py_of *)
Theorem to_python_spec n : forall s r, free_in s r -> to_python n s r <> POof -> to_python n s r = py_of r.
Proof.
  induction n as [|n IH]; intros s r F N; [exfalso; apply N; reflexivity|].
  destruct r as [a|z|q|v|f args]; try reflexivity.
  - (* an unbound variable: None *)
    cbn [to_python] in *. destruct (gv n s (TVar v)) as [r|] eqn:G; [|exfalso; apply N; reflexivity].
    apply gv_fixed_of_free in G; auto. subst r. reflexivity.
  - rewrite py_of_fun. cbn [to_python] in *.
    assert (Fa : forall a, In a args -> free_in s a).
    { intros a Hin w Hw. apply F. apply occurs_fun. exists a; auto. }
    destruct (str_eqb f dot).
    + destruct args as [|a0 rest]; [reflexivity|].
      assert (N0 : to_python n s a0 <> POof) by (intros E; rewrite E in N; apply N; reflexivity).
      rewrite <- (IH s a0 (Fa a0 (or_introl eq_refl)) N0).
      destruct (to_python n s a0) eqn:E0; try reflexivity.
      destruct rest as [|a1 rest]; [reflexivity|].
      assert (N1 : to_python n s a1 <> POof) by (intros E; rewrite E in N; apply N; reflexivity).
      rewrite <- (IH s a1 (Fa a1 (or_intror (or_introl eq_refl))) N1). reflexivity.
    + rewrite <- (mapP_agree (to_python n s) py_of args); [reflexivity| |].
      * intros x Hin Nx. apply IH; auto.
      * intros E. rewrite E in N. apply N; reflexivity.
Qed.

(* to_python of ANY term is py_of of its resolution: it reflects all current bindings at every depth *)
Theorem to_python_resolve n : forall s t m r, gv m s t = Some r -> to_python n s t <> POof -> to_python n s t = py_of r.
Proof.
  induction n as [|n IH]; intros s t m r G N; [exfalso; apply N; reflexivity|].
  destruct t as [a|z|q|v|f args].
  - destruct m; [discriminate|]. injection G as <-. reflexivity.
  - destruct m; [discriminate|]. injection G as <-. reflexivity.
  - destruct m; [discriminate|]. injection G as <-. reflexivity.
  - cbn [to_python] in *. destruct (gv n s (TVar v)) as [r'|] eqn:G'; [|exfalso; apply N; reflexivity].
    assert (r' = r) by (eapply gv_det; eauto). subst r'.
    destruct r as [a|z|q|w|f args]; try reflexivity; (apply to_python_spec; [eapply gv_free; exact G | exact N]).
  - destruct m; [discriminate|]. rewrite gv_S_fun in G.
    destruct (mapM (gv m s) args) as [rs|] eqn:M; [|discriminate]. injection G as <-.
    apply mapM_Forall2 in M. rewrite py_of_fun. cbn [to_python] in *.
    destruct (str_eqb f dot).
    + destruct M as [|a0 r0 rest rrest H0 Hr]; [reflexivity|].
      assert (N0 : to_python n s a0 <> POof) by (intros E; rewrite E in N; apply N; reflexivity).
      rewrite <- (IH s a0 m r0 H0 N0).
      destruct (to_python n s a0) eqn:E0; try reflexivity.
      destruct Hr as [|a1 r1 rest' rrest' H1 Hr']; [reflexivity|].
      assert (N1 : to_python n s a1 <> POof) by (intros E; rewrite E in N; apply N; reflexivity).
      rewrite <- (IH s a1 m r1 H1 N1). reflexivity.
    + assert (E : mapP (to_python n s) args = mapP py_of rs).
      { assert (N' : mapP (to_python n s) args <> inl POof).
        { intros E. rewrite E in N. apply N; reflexivity. }
        clear N. induction M as [|x y l rs' Hx Hr IHr]; [reflexivity|]. simpl in *.
        assert (Nx : to_python n s x <> POof).
        { intros E. rewrite E in N'. apply N'; reflexivity. }
        rewrite <- (IH s x m y Hx Nx). destruct (to_python n s x) eqn:Ex; try reflexivity.
        rewrite IHr; auto. intros E. rewrite E in N'. apply N'; reflexivity. }
      rewrite E. reflexivity.
Qed.

(* the readable cases of the characterisation *)
Lemma py_of_atom a : a <> nil_name -> py_of (TAtom a) = POk (PStr a).
Proof. intros H. simpl. apply str_eqb_neq in H. rewrite H. reflexivity. Qed.
Lemma py_of_nil : py_of (TAtom nil_name) = POk (PList []).
Proof. reflexivity. Qed.
Lemma py_of_unbound v : py_of (TVar v) = POk PNone.
Proof. reflexivity. Qed.
Lemma py_of_int z : py_of (TInt z) = POk (PInt z).
Proof. reflexivity. Qed.
Lemma py_of_pystr x : py_of (TStr x) = POk (PStr x).
Proof. reflexivity. Qed.

Lemma py_of_list xs ys : Forall2 (fun x y => py_of x = POk y) xs ys -> py_of (mklist xs) = POk (PList ys).
Proof.
  induction 1 as [|x y l rs Hx Hr IH]; [reflexivity|].
  cbn [mklist fold_right]. fold (mklist l). rewrite py_of_fun.
  replace (str_eqb dot dot) with true by (symmetry; apply str_eqb_refl).
  rewrite Hx, IH. reflexivity.
Qed.

Lemma py_of_compound f args ys : f <> dot -> Forall2 (fun x y => py_of x = POk y) args ys ->
  py_of (TFun f args) = POk (PPair f ys).
Proof.
  intros Hf H. rewrite py_of_fun. apply str_eqb_neq in Hf. rewrite Hf.
  assert (E : mapP py_of args = inr ys).
  { induction H as [|x y l rs Hx Hr IH]; [reflexivity|]. simpl. rewrite Hx, IH. reflexivity. }
  rewrite E. reflexivity.
Qed.

(* a partial list or a list ending in something else is a TypeError in the code ([h] + non-list) *)
Lemma py_of_improper h t v : py_of h = POk v -> (forall l, py_of t <> POk (PList l)) -> (exists w, py_of t = POk w) ->
  py_of (TFun dot [h; t]) = PErr TypeError.
Proof.
  intros Hh Hn [w Hw]. rewrite py_of_fun. replace (str_eqb dot dot) with true by (symmetry; apply str_eqb_refl).
  rewrite Hh, Hw. destruct w; try reflexivity. exfalso. eapply Hn; exact Hw.
Qed.

Theorem to_python_spec_cases :
  (forall a, a <> nil_name -> py_of (TAtom a) = POk (PStr a)) /\
  py_of (TAtom nil_name) = POk (PList []) /\
  (forall v, py_of (TVar v) = POk PNone) /\
  (forall z, py_of (TInt z) = POk (PInt z)) /\
  (forall x, py_of (TStr x) = POk (PStr x)) /\
  (forall xs ys, Forall2 (fun x y => py_of x = POk y) xs ys -> py_of (mklist xs) = POk (PList ys)) /\
  (forall f args ys, f <> dot -> Forall2 (fun x y => py_of x = POk y) args ys ->
      py_of (TFun f args) = POk (PPair f ys)).
Proof.
  repeat split; [exact py_of_atom | exact py_of_list | exact py_of_compound].
Qed.

(* a saved ground value converts to the same Python value whatever the bindings are later *)
Theorem ground_to_python_stable r : ground r ->
  forall n s', to_python n s' r <> POof -> to_python n s' r = py_of r.
Proof. intros G n s' N. apply to_python_spec; auto. apply ground_free; exact G. Qed.

(* ------------------------------------------------------------------ summary theorems (named as in DESIGN.md) *)

Theorem get_value_is_resolve n s t r : gv n s t = Some r ->
  resolved s t r /\ free_in s r /\ (wf s -> r = den s t) /\ (forall m r', gv m s t = Some r' -> r' = r).
Proof.
  intros H. split; [eapply gv_resolved; exact H|]. split; [eapply gv_free; exact H|]. split.
  - intros W. eapply gv_den; eauto.
  - intros m r' H'. eapply gv_det; eauto.
Qed.
