(* The frame machine of GenMachine.v instantiated for the engine as it runs COMPILED programs:

   * leaves: the generator objects of engine.unify / unify_arrays (Unify/UnifyGen.v), the list
     iterator of `for _ in [1]:`, and an iterator expression whose evaluation raises;
   * tr_stmt / tr_list / fun_code: the CPython reading of the text that yp_generator.py emits for
     the intermediate code (Comp/IR.v; Comp/Emit.v is the model of the text itself):

        for lN in <it>:  body            CSeq (CFor <it> body) (CIf doBreak CBreak)
        if doBreak: break
        cutIfN = False                    CSeq (CAssign cutIfN:=False)
        for _ in [1]: body                 (CSeq (CFor [1] body)          (no loop when body = [])
        if cutIfN: doBreak = False          (CSeq (CIf cutIfN (CAssign doBreak:=False))
        if doBreak: break                     (CIf doBreak CBreak)))
        cutIfN = True; doBreak = True; break     CSeq (CAssign ..) CBreak
        return / yield False / yield True / x = e
        def f(arg1..): doBreak = False; for _ in [1]: <body>; if False: yield False

   * YP.query(name, args) as ONE frame: the dynamic facts of name/arity first
     (`yield from match_dynamic`: for every stored fact, in order, `for _ in unify_arrays(args,
     copy of the fact with new variables): yield`), then the generator function `name_arity` of
     the loaded program, else a registered Python predicate (`user`: ARBITRARY machine code, it
     may raise anywhere), else the builtin (=, \=, call/N, once/1, findall/3 of engine.py:266-351);
   * the frame-local state: Python locals (env), the doBreak / cutIfN flags, the cell counter,
     and an accumulator (findall's result list, the renamed copy of a fact).

   Deviations from the text of engine.py, all in the NUMBER OF PYTHON FRAMES only (they matter
   only for the exact point at which the recursion limit strikes, which Sem/Machine.v - and
   property C17 - do not fix either): query + match_dynamic/_match_all_clauses + the generator
   function are one frame; once/1 and findall/3 iterate the goal's query directly instead of going
   through the `call` frame; builtin_neq iterates unify(X,Y) instead of query('=',[X,Y]). *)
From Coq Require Import String.
From Coq Require Import List Arith Bool Lia ZArith NArith.
Import ListNotations.
From YP Require Import Base.Str Term.Term Term.Fast Term.Dfast Unify.Unify Unify.Fast Unify.UnifyGen Unify.UnifyGenFast Comp.IR Comp.CompileBody
  Sem.IRSem Sem.Machine Engine.GenMachine Engine.Restore.
Local Open Scope string_scope.
Local Open Scope list_scope.
Set Implicit Arguments.

(* ------------------------------------------------------------------ leaves *)
Inductive lx :=
| XUnify (a b : term)               (* unify(a, b) *)
| XArrays (xs ys : list term)       (* unify_arrays(xs, ys) *)
| XOne                              (* [1] *)
| XRaise.                           (* an expression that raises when evaluated *)

Inductive leaf := LGen (g : gen) | LRaise.

(* (unify_x, mk_unify_x, next_x, dfast are the evaluation-friendly twins of unify, mk_unify, next, den:
   Unify/UnifyGenFast.v, Term/Dfast.v - equal to them, without side conditions.)
   unify(a,b) on terms that are too deep for the interpreter or whose unification needs a cyclic
   term raises RecursionError in the engine (unspecified by the properties); Sem/Machine.v makes
   exactly these cases an error, so does the leaf *)
Definition mkleaf (x : lx) (h : heap) : leaf :=
  match x with
  | XUnify a b => match unify_x ufuel h a b with
                  | UOof | UCyc => LRaise
                  | _ => LGen (mk_unify_x h a b) end
  | XArrays xs ys => match unify_arrays_x ufuel h xs ys with
                     | UOof | UCyc => LRaise
                     | _ => LGen (GArrFresh xs ys) end
  | XOne => LGen (GSucc false)
  | XRaise => LRaise
  end.

Definition lnext (n : nat) (h : heap) (l : leaf) : option (heap * leaf * GenMachine.res) :=
  match l with
  | LGen g => match next_x n h g with
              | None => None
              | Some (h', g', y) => Some (h', LGen g', if y then RYield else RStop) end
  | LRaise => Some (h, LRaise, RRaise)
  end.

Definition lclose (h : heap) (l : leaf) : heap :=
  match l with LGen g => fst (close h g) | LRaise => h end.

Definition linv (h0 : heap) (l : leaf) (hc : heap) : Prop :=
  match l with LGen g => inv h0 g hc | LRaise => hc = h0 end.

Lemma L_new x h : linv h (mkleaf x h) h.
Proof.
  destruct x as [a b|xs ys| |]; cbn [mkleaf].
  - rewrite mk_unify_x_eq. destruct (unify_x ufuel h a b); cbn [linv]; auto; left; split; auto; apply mk_unify_fresh.
  - destruct (unify_arrays_x ufuel h xs ys); cbn [linv]; auto; left; split; auto; exact I.
  - left. split; [exact I|reflexivity].
  - reflexivity.
Qed.

Lemma L_next n h0 l hc h' l' r : linv h0 l hc -> lnext n hc l = Some (h', l', r) ->
  linv h0 l' h' /\ (r = RStop -> h' = h0).
Proof.
  destruct l as [g|]; cbn [lnext linv]; intros J H.
  - rewrite next_x_eq in H. destruct (next n hc g) as [[[h1 g1] y]|] eqn:N; [|discriminate]. inversion H; subst.
    assert (U: ulnext n hc g = Some (h', g1, if y then RYield else RStop)) by (unfold ulnext; rewrite N; reflexivity).
    exact (U_next _ J U).
  - inversion H; subst. split; [reflexivity|discriminate].
Qed.

Lemma L_close h0 l hc : linv h0 l hc -> lclose hc l = h0.
Proof. destruct l as [g|]; cbn [lclose linv]; intros J; [exact (U_close J)|exact J]. Qed.

Lemma L_ext h0 l hc : linv h0 l hc -> exists nw, hc = nw ++ h0.
Proof. destruct l as [g|]; cbn [linv]; intros J; [exact (U_ext J)|exists []; exact J]. Qed.

(* ------------------------------------------------------------------ frames *)
Record fr := { f_env : env; f_nxt : nat; f_fl : flags; f_acc : list term; f_aux : nat }.
Definition fr0 (r : env) (nx : nat) : fr := {| f_env := r; f_nxt := nx; f_fl := flags0; f_acc := []; f_aux := 0 |}.
Definition set_fl (g : flags -> flags) (e : fr) : fr :=
  {| f_env := f_env e; f_nxt := f_nxt e; f_fl := g (f_fl e); f_acc := f_acc e; f_aux := f_aux e |}.
Definition setfl (e : fr) (f : flags) : fr := set_fl (fun _ => f) e.

Definition mkst (h : heap) (g : nat) : st := {| sto := h; nxt := g |}.

(* a call: predicate name, actual arguments, the caller's current cell counter *)
Definition callp := (str * list term * nat)%type.
Notation mcode := (code lx fr callp).
Notation miexpr := (iexpr lx callp).

(* x = e  (Sem/Machine.assign: `variable()` takes the next cell) *)
Definition do_assign (x : str) (ex : expr) (g : nat) (e : fr) (h : heap) : fr :=
  let '(r', s') := assign x ex (f_env e, mkst h g) in
  {| f_env := r'; f_nxt := nxt s'; f_fl := f_fl e; f_acc := f_acc e; f_aux := f_aux e |}.

(* iterator expressions of the generated code (Sem/Machine.iter) *)
Definition it_expr (it : expr) (g : nat) (e : fr) (h : heap) : miexpr :=
  match it with
  | IR.ECall f [a; b] =>
      if str_eqb f (s_ "unify") then ELeaf (XUnify (eval_expr (f_env e) a) (eval_expr (f_env e) b))
      else if str_eqb f (s_ "query") then
        match a, b with
        | EStr name, EList args => GenMachine.ECall (name, map (eval_expr (f_env e)) args, g)
        | _, _ => ELeaf XRaise
        end
      else ELeaf XRaise
  | _ => ELeaf XRaise
  end.

Definition one_expr : nat -> fr -> heap -> miexpr := fun _ _ _ => ELeaf XOne.
Definition brk_code : mcode := CIf (fun e => doBreak (f_fl e)) CBreak.

Fixpoint tr_stmt (s : stmt) : mcode :=
  let tr_list := fix tr_list (c : list stmt) : mcode :=
      match c with [] => CSkip | s :: r => CSeq (tr_stmt s) (tr_list r) end in
  match s with
  | SAssign x ex => CAssign (do_assign x ex)
  | SForeach it body => CSeq (CFor (it_expr it) (tr_list body)) brk_code
  | SYieldFalse | SYieldTrue => CYield
  | SReturn => CReturn
  | SBlock l body =>
      CSeq (CAssign (fun _ e _ => set_fl (setlab l false) e))
        (CSeq (match body with [] => CSkip | _ => CFor one_expr (tr_list body) end)
           (CSeq (CIf (fun e => lab (f_fl e) l) (CAssign (fun _ e _ => set_fl (setbrk false) e)))
              brk_code))
  | SBreakBlock l => CSeq (CAssign (fun _ e _ => set_fl (fun f => setbrk true (setlab l true f)) e)) CBreak
  end.
Fixpoint tr_list (c : list stmt) : mcode :=
  match c with [] => CSkip | s :: r => CSeq (tr_stmt s) (tr_list r) end.

Lemma tr_stmt_eq s : tr_stmt s =
  match s with
  | SAssign x ex => CAssign (do_assign x ex)
  | SForeach it body => CSeq (CFor (it_expr it) (tr_list body)) brk_code
  | SYieldFalse | SYieldTrue => CYield
  | SReturn => CReturn
  | SBlock l body =>
      CSeq (CAssign (fun _ e _ => set_fl (setlab l false) e))
        (CSeq (match body with [] => CSkip | _ => CFor one_expr (tr_list body) end)
           (CSeq (CIf (fun e => lab (f_fl e) l) (CAssign (fun _ e _ => set_fl (setbrk false) e)))
              brk_code))
  | SBreakBlock l => CSeq (CAssign (fun _ e _ => set_fl (fun f => setbrk true (setlab l true f)) e)) CBreak
  end.
Proof. destruct s; reflexivity. Qed.

(* def name_arity(arg1, ..): doBreak = False; for _ in [1]: body; if False: yield False *)
Definition fun_code (body : list stmt) : mcode :=
  CSeq (CAssign (fun _ e _ => set_fl (setbrk false) e)) (CFor one_expr (tr_list body)).

(* engine.py builtin_neq, which is written in the shape of emitted code:
     doBreak = False
     for _ in [1]:
       X = arg1; Y = arg2; cutIf1 = False
       for _ in [1]:
         for l1 in <X = Y>: cutIf1 = True; doBreak = True; break
         if doBreak: break
         yield False
       if cutIf1: doBreak = False
       if doBreak: break *)
Definition neq_ir : list stmt :=
  [SBlock 1 [SForeach (IR.ECall (s_ "unify") [EVar (s_ "X"); EVar (s_ "Y")]) [SBreakBlock 1]; SYieldFalse]].

(* YP.call: the goal is dereferenced; an atom or a compound term, extra arguments appended;
   anything else: the code runs into an UnboundLocalError *)
Definition call_expr (goal : term) (extra : list term) : nat -> fr -> heap -> miexpr :=
  fun g _ h =>
    match dfast h goal with
    | TAtom a => GenMachine.ECall (a, extra, g)
    | TFun f gargs => GenMachine.ECall (f, gargs ++ extra, g)
    | _ => ELeaf XRaise
    end.

(* findall: results = makelist([copy_term(template, {}) for r in q])  (engine.py since D27).  Each collected
   instance is a copy with new variables: the instance of answer j gets every cell moved up by
   f_nxt + off_j (f_nxt = the counter at the call), off_1 = 0, off_(j+1) = off_j + counter at answer j
   [Sem/Machine.collect with lo = 0];  f_aux holds off_j *)
Definition fcollect (template : term) : nat -> fr -> heap -> fr :=
  fun g e h => {| f_env := f_env e; f_nxt := f_nxt e; f_fl := f_fl e;
                  f_acc := f_acc e ++ [Machine.shift_term 0 (f_nxt e + f_aux e) (dfast h template)];
                  f_aux := f_aux e + g |}.
(* the result list may contain those cells: the counter moves past them *)
Definition fcollected : nat -> fr -> heap -> fr :=
  fun _ e _ => {| f_env := f_env e; f_nxt := f_nxt e + f_aux e; f_fl := f_fl e;
                  f_acc := f_acc e; f_aux := f_aux e |}.

Definition builtin_code (name : str) (args : list term) : mcode * env :=
  if str_eqb name (s_ "=") then
    match args with
    | [a; b] => (CFor (fun _ _ _ => ELeaf (XUnify a b)) CYield, [])        (* for l in unify(a,b): yield False *)
    | _ => (CSkip, []) end
  else if str_eqb name (s_ "\=") then
    match args with
    | [a; b] => (fun_code neq_ir, [(s_ "Y", b); (s_ "X", a)])
    | _ => (CSkip, []) end
  else if str_eqb name (s_ "call") then
    match args with
    | g :: extra => (CFor (call_expr g extra) CYield, [])                   (* yield from self.query(..) *)
    | [] => (CRaise, []) end
  else if str_eqb name (s_ "once") then
    match args with
    | [g] => (CFor (call_expr g []) (CSeq CYield CBreak), [])               (* for x in ..: yield x; break *)
    | _ => (CSkip, []) end
  else if str_eqb name (s_ "findall") then
    match args with
    | [t; g; l] =>
        (CSeq (CFor (call_expr g []) (CAssign (fcollect t)))
           (CSeq (CAssign fcollected)
              (CFor (fun _ e _ => ELeaf (XUnify l (mk_list (f_acc e)))) CYield)), [])
    | _ => (CSkip, []) end
  else (CSkip, []).

(* renaming of a stored fact's own variables 0..m-1 to new cells g..g+m-1 (Answer.match:
   copy_term with a new mapping at every match) *)
Fixpoint fact_shift (g : nat) (t : term) : term :=
  match t with
  | TVar v => TVar (g + v)
  | TFun f xs => TFun f (map (fact_shift g) xs)
  | _ => t
  end.
Definition fact := (nat * list term)%type.          (* number of variables, argument values *)

Definition clear_acc : nat -> fr -> heap -> fr :=
  fun _ e _ => {| f_env := f_env e; f_nxt := f_nxt e; f_fl := f_fl e; f_acc := []; f_aux := f_aux e |}.
Fixpoint facts_code (fs : list fact) (args : list term) : mcode :=
  match fs with
  | [] => CAssign clear_acc
  | (m, vals) :: r =>
      CSeq (CAssign (fun g e _ => {| f_env := f_env e; f_nxt := g + m; f_fl := f_fl e;
                                     f_acc := map (fact_shift g) vals; f_aux := f_aux e |}))
        (CSeq (CFor (fun _ e _ => ELeaf (XArrays args (f_acc e))) CYield)
           (facts_code r args))
  end.

Section Prog.
  Variable ir : ir_program.
  Variable facts : str -> nat -> list fact.                              (* the fact database *)
  Variable user : str -> list term -> option (mcode * fr).               (* registered Python predicates *)

  Definition prog (p : callp) : mcode * fr :=
    let '(name, args, nx) := p in
    let '(c, e) :=
      match find_func ir name (length args) with
      | Some f => (fun_code (fn_body f), fr0 (bind_args 0 args) nx)
      | None =>
          match user name args with
          | Some (c, e) => (c, {| f_env := f_env e; f_nxt := nx; f_fl := f_fl e; f_acc := f_acc e; f_aux := f_aux e |})
          | None => let '(c, r) := builtin_code name args in (c, fr0 r nx)
          end
      end in
    match facts name (length args) with
    | [] => (c, e)
    | fs => (CSeq (facts_code fs args) c, e)
    end.

  Definition m_inext := inext mkleaf lnext lclose prog f_nxt.
  Definition m_nexts := nexts mkleaf lnext lclose prog f_nxt.
  Definition m_iclose := iclose (L:=leaf) (X:=lx) (E:=fr) (P:=callp) lclose.
  Definition m_query (name : str) (args : list term) (nx : nat) : GenMachine.iter leaf lx fr callp :=
    IFresh (fst (prog (name, args, nx))) (snd (prog (name, args, nx))).

  (* RESTORATION for every compiled program with every fact database and every set of registered
     Python predicates (arbitrary code, raising wherever it likes), every query, heap, fuel n,
     recursion limit d and abandonment point k: *)
  Theorem compiled_query_restores n d k h name args nx hf itf ys r :
    m_nexts n d k h (m_query name args nx) = Some (hf, itf, ys, r) ->
    m_iclose hf itf = h                                         (* close() / del / drop after k answers *)
    /\ ithrow lclose hf itf = (h, IDone, RRaise)                (* the consumer throws into it *)
    /\ (r <> RYield -> hf = h)                                  (* exhausted, or an exception came out *)
    /\ Forall (fun y => exists nw, y = nw ++ h) ys.             (* at every answer: h untouched underneath *)
  Proof.
    intros H. unfold m_nexts, m_query in H.
    destruct (query_restores mkleaf lnext lclose prog f_nxt linv L_new L_next L_close L_ext _ _ _ _ _ _ H) as [A [B C]].
    repeat split; auto. unfold ithrow. rewrite A. reflexivity.
  Qed.

  (* YP.evaluate_bounded as a consumer (engine.py:562-591 after fix D17):
       try:     for x in query: result.append(projection_function(x))
       except RuntimeError / StopIteration: pass
       finally: ...; query.close()
     k = the number of answers after which the loop is left early because the projection function
     raises (anything, StopIteration included); the loop also ends when the query is exhausted or
     an exception (RecursionError under the lowered limit d) comes out of it.  In every case the
     finally closes the query: *)
  Definition bounded_m (n d k : nat) (h : heap) (name : str) (args : list term) (nx : nat) : option (heap * list heap) :=
    match m_nexts n d k h (m_query name args nx) with
    | None => None
    | Some (hf, itf, ys, _) => Some (m_iclose hf itf, ys)
    end.
  Theorem bounded_restores n d k h name args nx hf ys :
    bounded_m n d k h name args nx = Some (hf, ys) -> hf = h.
  Proof.
    unfold bounded_m. destruct (m_nexts n d k h (m_query name args nx)) as [[[[h1 it1] ys1] r1]|] eqn:E; [|discriminate].
    intros H. inversion H; subst. apply (compiled_query_restores _ _ _ _ _ _ _ E).
  Qed.
End Prog.
