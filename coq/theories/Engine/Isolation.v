(* C04: isolation of engine instances in the world model (Engine/World.v).

   Pe n i = the cells of engine i (cell numbers = i mod n: the user variables of engine i and every cell
   one of its queries / updates allocates).  World invariant (winv): every engine id is < n, every
   suspended generator (cursor) of engine i holds only terms over Pe n i, and in the shared heap the
   value of a cell of engine j mentions only cells of engine j (for every j).

   estep_frame   one operation of engine i, of ANY kind, run on the shared heap and run on the heap cut down
                 to the cells of engine i gives the same engine state, the same observation and the same
                 own part of the heap; the bindings of all other cells stay where they are (same values,
                 same order); the invariant is kept.
   step_local    the same at the level of the world: the other engines' records are untouched.
   interleave_alone   for EVERY schedule (merge of per-engine histories, any number of engines) and every
                 engine i: what i observes, the state it ends in and its part of the heap are those of
                 running i's operations alone on a private heap (erun).  Induction over the schedule. *)
From Coq Require Import String.
From Coq Require Import List Arith Bool Lia ZArith.
Import ListNotations.
From YP Require Import Base.Str Term.Term Unify.Unify Engine.Deref Engine.Frame Engine.Db Engine.World Engine.CursorFrame.

(* ---------------------------------------------------------------- association lists keyed by nat *)
Lemma aget_aset_eq {V} k (v : V) l : aget Nat.eqb k (aset Nat.eqb k v l) = Some v.
Proof.
  induction l as [|[k' v'] l IH]; simpl.
  - rewrite Nat.eqb_refl. reflexivity.
  - destruct (Nat.eqb k k') eqn:E; simpl; rewrite ?Nat.eqb_refl; auto. rewrite E. exact IH.
Qed.
Lemma aget_aset_neq {V} k k' (v : V) l : k <> k' -> aget Nat.eqb k' (aset Nat.eqb k v l) = aget Nat.eqb k' l.
Proof.
  intros N. induction l as [|[k2 v2] l IH]; simpl.
  - destruct (Nat.eqb_spec k' k); [congruence|reflexivity].
  - destruct (Nat.eqb_spec k k2) as [->|N2]; simpl.
    + destruct (Nat.eqb_spec k' k2); [congruence|reflexivity].
    + destruct (Nat.eqb k' k2); auto.
Qed.
Lemma aget_In {V} k (v : V) l : aget Nat.eqb k l = Some v -> In (k, v) l.
Proof.
  induction l as [|[k' v'] l IH]; simpl; [discriminate|].
  destruct (Nat.eqb_spec k k') as [->|N]; intros H; [inversion H; auto|auto].
Qed.
Lemma Forall_aset {V} (Q : nat * V -> Prop) k v l : Forall Q l -> Q (k, v) -> Forall Q (aset Nat.eqb k v l).
Proof.
  intros F Hq. induction l as [|[k' v'] l IH]; simpl; [auto|].
  pose proof (Forall_inv F) as F1. pose proof (Forall_inv_tail F) as F2.
  destruct (Nat.eqb k k'); constructor; auto.
Qed.

(* ---------------------------------------------------------------- the cells of engine i *)
Definition Pe (n i v : nat) : bool := Nat.eqb (eng_of n v) i.

Lemma Pe_disjoint n i j v : i <> j -> Pe n i v = true -> Pe n j v = false.
Proof.
  unfold Pe. intros N H. apply Nat.eqb_eq in H. apply Nat.eqb_neq. congruence.
Qed.

Lemma newP_refl P h : newP P h h.
Proof. intros v t H. left. exact H. Qed.
Lemma newP_trans P h1 h2 h3 : newP P h1 h2 -> newP P h2 h3 -> newP P h1 h3.
Proof. intros A B v t H. destruct (B v t H) as [H'|H']; auto. Qed.

(* ---------------------------------------------------------------- operations on one generator slot, any set of cells P *)
Definition slot_of (o : op) : option nat :=
  match o with ONext q | OClose q | ODrain q => Some q | _ => None end.

Lemma cnext_cown fuel d fresh h c : cown (fst (fst (fst (fst (cnext fuel d fresh h c))))) = cown c.
Proof.
  unfold cnext. destruct (search fuel (unbind (ctrail c) h) fresh (qfid (cown c)) (mkms d (cnf c) (cfr c) [])); reflexivity.
Qed.
Lemma cdrain_cown fresh : forall m fuel d h c acc lg,
  cown (fst (fst (fst (fst (fst (cdrain m fuel d fresh h c acc lg)))))) = cown c.
Proof.
  induction m as [|m IH]; intros fuel d h c acc lg; cbn [cdrain]; [reflexivity|].
  pose proof (cnext_cown fuel d fresh h c) as E.
  destruct (cnext fuel d fresh h c) as [[[[c1 h1] r] nm] d1]. cbn [fst] in E.
  destruct r; cbn [fst]; try exact E. rewrite IH. exact E.
Qed.

Section AnyCells.
Variable P : nat -> bool.

Lemma cdrain_frame fresh : (forall k, P (fresh k) = true) ->
  forall m fuel d h c acc lg c' h' answers err lg' d',
  closed P h -> cgood P c ->
  cdrain m fuel d fresh h c acc lg = (c', h', answers, err, lg', d') ->
  cdrain m fuel d fresh (fP P h) c acc lg = (c', fP P h', answers, err, lg', d')
  /\ fN P h' = fN P h /\ cgood P c' /\ closed P h' /\ newP P h h'.
Proof.
  intros Hf. induction m as [|m IH]; intros fuel d h c acc lg c' h' answers err lg' d' C G E.
  - cbn [cdrain] in *. inversion E; subst. refine (conj _ (conj _ (conj _ (conj _ _)))); auto using newP_refl.
  - cbn [cdrain] in *.
    destruct (cnext fuel d fresh h c) as [[[[c1 h1] r] nm] d1] eqn:E1.
    destruct (@cnext_frame P fresh Hf fuel d _ _ _ _ _ _ _ C G E1) as [A [EN [G1 [C1 N1]]]].
    rewrite A. destruct r as [vals| |k].
    + destruct (IH fuel d1 h1 c1 (vals :: acc) (nm ++ lg) _ _ _ _ _ _ C1 G1 E) as [A2 [EN2 [G2 [C2 N2]]]].
      split; [exact A2|]. split; [congruence|]. split; [exact G2|]. split; [exact C2|].
      eapply newP_trans; eauto.
    + inversion E; subst. refine (conj _ (conj _ (conj _ (conj _ _)))); auto.
    + inversion E; subst. refine (conj _ (conj _ (conj _ (conj _ _)))); auto.
Qed.


Lemma cstart_good' ow nm args : Forall (tin P) args -> cgood P (cstart ow nm args).
Proof.
  intros F. unfold cstart, cgood. cbn [cargs cfr ctrail].
  split; [exact F|]. split; [|apply good_nil].
  constructor; [|constructor]. constructor; [apply good_nil|].
  constructor; [|constructor]. exact F.
Qed.

Variables n i : nat.

(* next / close / drain of the generator in slot q, when that generator is over P and allocates in P.  The step may
   write the fact store of the engine (assert / retract goals in clause bodies); it changes nothing else in the record
   but slot q and the atom table *)
Lemma qop_frame fuel o q e h e' h' ob : slot_of o = Some q -> closed P h ->
  (forall c, aget Nat.eqb q (cursors e) = Some c -> cgood P c /\ forall k, P (ccell n i (cown c) k) = true) ->
  estep fuel n i o e h = (e', h', ob) ->
  estep fuel n i o e (fP P h) = (e', fP P h', ob)
  /\ fN P h' = fN P h /\ closed P h' /\ newP P h h'
  /\ nstart e' = nstart e
  /\ match aget Nat.eqb q (cursors e) with
     | None => e' = e
     | Some c => exists c', cursors e' = aset Nat.eqb q c' (cursors e) /\ cgood P c' /\ cown c' = cown c
     end.
Proof.
  intros So C Hc E.
  destruct o as [nm|app nm args|nm args|nm ar rows|ov script| |q0 nm args|q0|q0|q0|ts]; try discriminate;
    inversion So; subst q0; cbn [estep] in *;
    (destruct (aget Nat.eqb q (cursors e)) as [c|] eqn:Eq;
      [destruct (Hc c eq_refl) as [G Hf]
      |inversion E; subst; repeat (split; [solve [auto using newP_refl]|]); reflexivity]).
  - pose proof (cnext_cown fuel (edb e) (ccell n i (cown c)) h c) as Ow.
    destruct (cnext fuel (edb e) (ccell n i (cown c)) h c) as [[[[c1 h1] r] nm] d1] eqn:E1. cbn [fst] in Ow.
    destruct (@cnext_frame P _ Hf fuel (edb e) _ _ _ _ _ _ _ C G E1) as [A [EN [G1 [C1 N1]]]].
    rewrite A. inversion E; subst. repeat (split; [solve [auto]|]). exists c1. auto.
  - destruct (@cclose_frame P h c C G) as [A [EN [G1 [C1 N1]]]].
    rewrite A. destruct (cclose h c) as [c1 h1] eqn:E1. cbn [fst snd] in *.
    inversion E; subst. repeat (split; [solve [auto]|]). exists c1. split; [reflexivity|]. split; [exact G1|].
    unfold cclose in E1. inversion E1; reflexivity.
  - pose proof (cdrain_cown (ccell n i (cown c)) fuel fuel (edb e) h c [] []) as Ow.
    destruct (cdrain fuel fuel (edb e) (ccell n i (cown c)) h c [] []) as [[[[[c1 h1] answers] err] nm] d1] eqn:E1.
    cbn [fst] in Ow.
    destruct (cdrain_frame _ Hf _ _ _ _ _ _ _ _ _ _ _ _ _ C G E1) as [A [EN [G1 [C1 N1]]]].
    rewrite A. inversion E; subst. repeat (split; [solve [auto]|]). exists c1. auto.
Qed.

End AnyCells.

Section OneEngine.
Variables n i : nat.
Hypothesis Hi : i < n.
Let P := Pe n i.

Lemma P_ucell u : P (ucell n i u) = true.
Proof. unfold P, Pe, ucell. rewrite (eng_of_cell _ _ _ Hi). apply Nat.eqb_refl. Qed.
Lemma P_ccell c k : P (ccell n i c k) = true.
Proof. unfold P, Pe, ccell. rewrite (eng_of_cell _ _ _ Hi). apply Nat.eqb_refl. Qed.

(* every generator the caller of this engine holds is over the engine's own cells *)
Definition einv (e : engine) : Prop := Forall (fun qc : nat * cursor => cgood P (snd qc)) (cursors e).

Lemma einv_get e q c : einv e -> aget Nat.eqb q (cursors e) = Some c -> cgood P c.
Proof.
  intros I H. apply aget_In in H. unfold einv in I. rewrite Forall_forall in I. exact (I _ H).
Qed.

Lemma uargs_tin args : Forall (tin P) (map (rn (ucell n i)) args).
Proof. apply lin_rn. apply P_ucell. Qed.

Lemma den2_args_filter h args : closed P h ->
  map (den2 (fP P h)) (map (rn (ucell n i)) args) = map (den2 h) (map (rn (ucell n i)) args).
Proof.
  intros C. apply map_ext_in. intros a Ha. rewrite !den2_den. apply den_filter; auto.
  pose proof (uargs_tin args) as F. rewrite Forall_forall in F. auto.
Qed.

Lemma cstart_good ow nm args : cgood P (cstart ow nm (map (rn (ucell n i)) args)).
Proof.
  unfold cstart, cgood. cbn [cargs cfr ctrail].
  split; [apply uargs_tin|]. split; [|apply good_nil].
  constructor; [|constructor]. constructor; [apply good_nil|].
  constructor; [|constructor]. unfold gin. cbn [snd]. apply uargs_tin.
Qed.

Lemma einv_with_atoms e a : einv (with_atoms e a) <-> einv e.
Proof. unfold einv. destruct e; simpl. tauto. Qed.
Lemma einv_with_db e d : einv (with_db e d) <-> einv e.
Proof. unfold einv. destruct e; simpl. tauto. Qed.
Lemma einv_bump e : einv (bump e) <-> einv e.
Proof. unfold einv. destruct e; simpl. tauto. Qed.
Lemma einv_set e q c : einv e -> cgood P c -> einv (with_cursors e (aset Nat.eqb q c (cursors e))).
Proof. intros I G. unfold einv. destruct e; simpl in *. apply Forall_aset; auto. Qed.

(* the frame property of one operation of engine i *)
Lemma qop_frame_eng fuel o q e h e' h' ob : slot_of o = Some q -> closed P h -> einv e ->
  estep fuel n i o e h = (e', h', ob) ->
  estep fuel n i o e (fP P h) = (e', fP P h', ob)
  /\ fN P h' = fN P h /\ einv e' /\ closed P h' /\ newP P h h'.
Proof.
  intros So C I E.
  assert (Hc : forall c, aget Nat.eqb q (cursors e) = Some c -> cgood P c /\ forall k, P (ccell n i (cown c) k) = true).
  { intros c Hq. split; [exact (einv_get e q c I Hq)|apply P_ccell]. }
  destruct (qop_frame P n i fuel o q e h e' h' ob So C Hc E) as [A [EN [C1 [N1 [_ M]]]]].
  refine (conj A (conj EN (conj _ (conj C1 N1)))).
  destruct (aget Nat.eqb q (cursors e)) as [c|].
  - destruct M as [c' [Ec [G' _]]]. unfold einv. rewrite Ec. apply Forall_aset; auto.
  - subst. exact I.
Qed.

Ltac fin5 := refine (conj _ (conj _ (conj _ (conj _ _)))).

Theorem estep_frame fuel o e h e' h' ob : closed P h -> einv e ->
  estep fuel n i o e h = (e', h', ob) ->
  estep fuel n i o e (fP P h) = (e', fP P h', ob)
  /\ fN P h' = fN P h /\ einv e' /\ closed P h' /\ newP P h h'.
Proof.
  intros C I E. destruct o as [nm|app nm args|nm args|nm ar rows|ov script| |q nm args|q|q|q|ts]; cbn [estep] in *.
  - inversion E; subst. fin5; auto using newP_refl.
  - rewrite (den2_args_filter h args C). inversion E; subst. fin5; auto using newP_refl.
  - rewrite (@retract_list_frame P h (ccell n i (nstart e)) (map (rn (ucell n i)) args)
               (find_facts (edb e) nm (length args)) C (P_ccell (nstart e)) (uargs_tin args)).
    destruct (retract_list h (ccell n i (nstart e)) (map (rn (ucell n i)) args) (find_facts (edb e) nm (length args)));
      inversion E; subst; fin5; auto using newP_refl.
  - inversion E; subst. fin5; auto using newP_refl.
  - inversion E; subst. fin5; auto using newP_refl.
  - inversion E; subst. fin5; auto using newP_refl.
  - destruct (aget Nat.eqb q (cursors e)) as [c|] eqn:Eq.
    + pose proof (einv_get e q c I Eq) as G.
      destruct (@cclose_frame P h c C G) as [A [EN [_ [C1 N1]]]].
      rewrite A. cbn [snd]. inversion E; subst. fin5; auto.
      apply einv_bump. apply einv_set; auto. apply cstart_good.
    + inversion E; subst. fin5; auto using newP_refl.
      apply einv_bump. apply einv_set; auto. apply cstart_good.
  - apply (qop_frame_eng fuel (ONext q) q); auto.
  - apply (qop_frame_eng fuel (OClose q) q); auto.
  - apply (qop_frame_eng fuel (ODrain q) q); auto.
  - rewrite (den2_args_filter h ts C). inversion E; subst. fin5; auto using newP_refl.
Qed.

(* noninterference form: two heaps that agree on the cells of engine i *)
Corollary estep_agree fuel o e h1 h2 e1 h1' ob1 e2 h2' ob2 :
  closed P h1 -> closed P h2 -> einv e -> fP P h1 = fP P h2 ->
  estep fuel n i o e h1 = (e1, h1', ob1) -> estep fuel n i o e h2 = (e2, h2', ob2) ->
  e1 = e2 /\ ob1 = ob2 /\ fP P h1' = fP P h2' /\ fN P h1' = fN P h1 /\ fN P h2' = fN P h2.
Proof.
  intros C1 C2 I Eh E1 E2.
  destruct (estep_frame fuel o e h1 _ _ _ C1 I E1) as [A1 [N1 _]].
  destruct (estep_frame fuel o e h2 _ _ _ C2 I E2) as [A2 [N2 _]].
  rewrite Eh in A1. rewrite A1 in A2. inversion A2; subst. auto.
Qed.

(* a history of engine i on a heap of its own *)
Fixpoint erun (fuel : nat) (ops : list op) (e : engine) (h : store) : engine * store * list obs :=
  match ops with
  | [] => (e, h, [])
  | o :: r =>
      let '(e1, h1, ob) := estep fuel n i o e h in
      let '(e2, h2, obs) := erun fuel r e1 h1 in
      (e2, h2, ob :: obs)
  end.

End OneEngine.

(* ---------------------------------------------------------------- the world *)
Definition hinv (n : nat) (h : store) : Prop := forall j, closed (Pe n j) h.
Definition winv (w : world) : Prop :=
  hinv (wn w) (heap w) /\
  forall i e, aget Nat.eqb i (engs w) = Some e -> i < wn w /\ einv (wn w) i e.

Lemma init_engine_inv n i : einv n i init_engine.
Proof. constructor. Qed.

Lemma aget_init n i : aget Nat.eqb i (map (fun k => (k, init_engine)) (seq 0 n)) = if Nat.ltb i n then Some init_engine else None.
Proof.
  assert (G : forall m s, aget Nat.eqb i (map (fun k => (k, init_engine)) (seq s m))
                          = if (Nat.leb s i && Nat.ltb i (s + m))%bool then Some init_engine else None).
  { induction m as [|m IH]; intros s; simpl.
    - destruct (Nat.leb_spec s i); destruct (Nat.ltb_spec i (s + 0)); simpl; auto; lia.
    - destruct (Nat.eqb_spec i s) as [->|N].
      + destruct (Nat.leb_spec s s); destruct (Nat.ltb_spec s (s + S m)); simpl; auto; lia.
      + rewrite IH.
        destruct (Nat.leb_spec (S s) i); destruct (Nat.leb_spec s i); destruct (Nat.ltb_spec i (S s + m));
          destruct (Nat.ltb_spec i (s + S m)); simpl; auto; lia. }
  rewrite G. simpl. reflexivity.
Qed.

Lemma init_world_inv n : winv (init_world n).
Proof.
  split.
  - intros j v t [].
  - intros i e H. unfold init_world in H. cbn [engs wn] in *. rewrite aget_init in H.
    destruct (Nat.ltb_spec i n); [|discriminate]. inversion H; subst. split; [assumption|apply init_engine_inv].
Qed.

(* 1. a step of engine i: the other engines' records are untouched, all bindings of cells that are not
      engine i's stay where they are, the step is a function of engine i's record and of engine i's part of
      the heap only, and it produces bindings of engine i's cells only *)
Theorem step_local fuel w i o w' ob : winv w -> wstep fuel w (i, o) = (w', ob) ->
  winv w' /\ wn w' = wn w
  /\ (forall j, j <> i -> aget Nat.eqb j (engs w') = aget Nat.eqb j (engs w))
  /\ fN (Pe (wn w) i) (heap w') = fN (Pe (wn w) i) (heap w)
  /\ (forall j, j <> i -> fP (Pe (wn w) j) (heap w') = fP (Pe (wn w) j) (heap w))
  /\ newP (Pe (wn w) i) (heap w) (heap w')
  /\ match aget Nat.eqb i (engs w) with
     | None => w' = w
     | Some e => exists e', aget Nat.eqb i (engs w') = Some e'
                   /\ estep fuel (wn w) i o e (fP (Pe (wn w) i) (heap w)) = (e', fP (Pe (wn w) i) (heap w'), ob)
     end.
Proof.
  intros [HI EI] E. unfold wstep in E. cbn [fst snd] in E.
  destruct (aget Nat.eqb i (engs w)) as [e|] eqn:Eg.
  - destruct (EI i e Eg) as [Hi Ie].
    destruct (estep fuel (wn w) i o e (heap w)) as [[e1 h1] ob1] eqn:E1.
    inversion E; subst; clear E. cbn [wn engs heap].
    destruct (estep_frame (wn w) i Hi fuel o e (heap w) _ _ _ (HI i) Ie E1) as [A [EN [I1 [C1 N1]]]].
    assert (FP : forall j, j <> i -> fP (Pe (wn w) j) h1 = fP (Pe (wn w) j) (heap w)).
    { intros j Nj. apply (@fP_disjoint (Pe (wn w) i) (Pe (wn w) j)); auto.
      intros v Hv. destruct (Pe (wn w) i v) eqn:Ev; auto.
      rewrite (Pe_disjoint (wn w) i j v (not_eq_sym Nj) Ev) in Hv. discriminate. }
    split; [|repeat split; auto].
    + split; cbn [wn engs heap].
      * intros j. destruct (Nat.eq_dec j i) as [->|Nj]; [exact C1|].
        apply (@closed_other (Pe (wn w) i) (Pe (wn w) j) (heap w) h1); auto.
        intros v Hv. apply (Pe_disjoint (wn w) i j v); auto.
      * intros j ej Hj. destruct (Nat.eq_dec i j) as [<-|Nj].
        -- rewrite aget_aset_eq in Hj. inversion Hj; subst. auto.
        -- rewrite aget_aset_neq in Hj by exact Nj. auto.
    + intros j Nj. apply aget_aset_neq. auto.
    + exists e1. split; [apply aget_aset_eq|exact A].
  - inversion E; subst. split; [split; assumption|]. repeat (split; [solve [auto using newP_refl]|]). reflexivity.
Qed.

(* 2. every merge: engine i's observations, final record and final part of the heap are those of its own
      operations run alone on a private heap *)
Theorem interleave_alone fuel : forall sched w w' tr, winv w -> wrun fuel w sched = (w', tr) ->
  winv w' /\
  forall i e, aget Nat.eqb i (engs w) = Some e ->
    exists e', aget Nat.eqb i (engs w') = Some e' /\
      erun (wn w) i fuel (map snd (only i sched)) e (fP (Pe (wn w) i) (heap w))
      = (e', fP (Pe (wn w) i) (heap w'), proj i tr).
Proof.
  induction sched as [|[j o] r IH]; intros w w' tr W E.
  - cbn [wrun] in E. inversion E; subst. split; [exact W|]. intros i e H. exists e. split; [exact H|reflexivity].
  - cbn [wrun] in E.
    destruct (wstep fuel w (j, o)) as [w1 ob] eqn:E1.
    destruct (wrun fuel w1 r) as [w2 tr2] eqn:E2.
    inversion E; subst; clear E.
    destruct (step_local fuel w j o w1 ob W E1) as [W1 [En [Eo [EN [EP [_ Ej]]]]]].
    destruct (IH w1 w' tr2 W1 E2) as [W2 Hrest].
    split; [exact W2|]. intros i e Hi.
    unfold only, proj. cbn [filter fst snd].
    destruct (Nat.eqb_spec j i) as [->|Nj].
    + rewrite Hi in Ej. destruct Ej as [e1 [G1 S1]].
      destruct (Hrest i e1 G1) as [e' [G' R']]. exists e'. split; [exact G'|].
      cbn [map snd erun]. rewrite S1. rewrite En in R'. fold (only i r). rewrite R'. reflexivity.
    + rewrite <- (Eo i (not_eq_sym Nj)) in Hi.
      destruct (Hrest i e Hi) as [e' [G' R']]. exists e'. split; [exact G'|].
      rewrite En, (EP i (not_eq_sym Nj)) in R'. exact R'.
Qed.

(* from the initial world: the per-engine observation sequence of any schedule over any number of engines *)
Corollary interleave_alone_init fuel n sched i : i < n ->
  proj i (snd (wrun fuel (init_world n) sched))
  = snd (erun n i fuel (map snd (only i sched)) init_engine []).
Proof.
  intros Hi. destruct (wrun fuel (init_world n) sched) as [w' tr] eqn:E.
  destruct (interleave_alone fuel sched _ _ _ (init_world_inv n) E) as [_ H].
  assert (G : aget Nat.eqb i (engs (init_world n)) = Some init_engine).
  { unfold init_world. cbn [engs]. rewrite aget_init. destruct (Nat.ltb_spec i n); [reflexivity|lia]. }
  destruct (H i init_engine G) as [e' [_ R]]. cbn [wn heap init_world fP filter] in R.
  rewrite R. reflexivity.
Qed.

Lemma only_only i sched : only i (only i sched) = only i sched.
Proof.
  unfold only. induction sched as [|x r IH]; simpl; auto.
  destruct (Nat.eqb (fst x) i) eqn:E; simpl; rewrite ?E, IH; auto.
Qed.

(* ... is what the engine observes when the other engines do nothing at all *)
Corollary interleave_alone_world fuel n sched i : i < n ->
  proj i (snd (wrun fuel (init_world n) sched)) = map snd (snd (wrun fuel (init_world n) (only i sched))).
Proof.
  intros Hi. rewrite (interleave_alone_init fuel n sched i Hi).
  rewrite <- (only_only i sched) at 1. rewrite <- (interleave_alone_init fuel n (only i sched) i Hi).
  unfold proj. f_equal.
  assert (G : forall w l, Forall (fun x : nat * op => fst x = i) l ->
              filter (fun x : nat * obs => Nat.eqb (fst x) i) (snd (wrun fuel w l)) = snd (wrun fuel w l)).
  { intros w l. revert w. induction l as [|x r IH]; intros w F; [reflexivity|].
    cbn [wrun]. destruct (wstep fuel w x) as [w1 o]. specialize (IH w1 (Forall_inv_tail F)).
    destruct (wrun fuel w1 r) as [w2 tr]. cbn [snd filter fst] in *.
    rewrite (Forall_inv F), Nat.eqb_refl, IH. reflexivity. }
  apply G. unfold only. apply Forall_forall. intros x Hx. apply filter_In in Hx as [_ Hx].
  apply Nat.eqb_eq. exact Hx.
Qed.

(* two merges of the same per-engine histories are indistinguishable for every engine *)
Corollary merges_indistinguishable fuel n s1 s2 i : i < n -> only i s1 = only i s2 ->
  proj i (snd (wrun fuel (init_world n) s1)) = proj i (snd (wrun fuel (init_world n) s2)).
Proof.
  intros Hi E. rewrite !(interleave_alone_init fuel n _ i Hi), E. reflexivity.
Qed.

(* ---------------------------------------------------------------- merges, and the merge "back to back" *)
(* sched is a merge of the histories hists (hists[i] = the operations of engine i, in order) *)
Definition is_merge (n : nat) (hists : list (list op)) (sched : list (nat * op)) : Prop :=
  forall i, i < n -> map snd (only i sched) = nth i hists [].

Corollary every_merge fuel n hists sched : is_merge n hists sched ->
  forall i, i < n ->
  proj i (snd (wrun fuel (init_world n) sched)) = snd (erun n i fuel (nth i hists []) init_engine []).
Proof. intros M i Hi. rewrite (interleave_alone_init fuel n sched i Hi), (M i Hi). reflexivity. Qed.

(* the whole history of engine k, then the whole history of engine k+1, ... *)
Fixpoint b2b (k : nat) (hists : list (list op)) : list (nat * op) :=
  match hists with
  | [] => []
  | h :: r => map (pair k) h ++ b2b (S k) r
  end.

Lemma only_app i a b : only i (a ++ b) = only i a ++ only i b.
Proof. apply filter_app. Qed.
Lemma only_map_pair i k (h : list op) : only i (map (pair k) h) = if Nat.eqb k i then map (pair k) h else [].
Proof.
  unfold only. induction h as [|o h IH]; simpl; [destruct (Nat.eqb k i); reflexivity|].
  rewrite IH. destruct (Nat.eqb k i); reflexivity.
Qed.
Lemma b2b_only i : forall hists k,
  map snd (only i (b2b k hists)) = if Nat.leb k i then nth (i - k) hists [] else [].
Proof.
  induction hists as [|h r IH]; intros k; cbn [b2b].
  - destruct (Nat.leb k i); [destruct (i - k)|]; reflexivity.
  - rewrite only_app, map_app, only_map_pair, IH.
    destruct (Nat.eqb_spec k i) as [->|N].
    + rewrite Nat.leb_refl, Nat.sub_diag. destruct (Nat.leb_spec (S i) i); [lia|].
      rewrite map_map. cbn [snd nth]. rewrite map_id, app_nil_r. reflexivity.
    + destruct (Nat.leb_spec (S k) i); destruct (Nat.leb_spec k i); try lia; cbn [map app]; auto.
      replace (i - k) with (S (i - S k)) by lia. reflexivity.
Qed.
Lemma b2b_is_merge n hists : is_merge n hists (b2b 0 hists).
Proof. intros i _. rewrite b2b_only. cbn [Nat.leb]. rewrite Nat.sub_0_r. reflexivity. Qed.

(* every merge of the histories shows each engine what it sees when the histories run back to back *)
Corollary merge_eq_back_to_back fuel n hists sched : is_merge n hists sched ->
  forall i, i < n ->
  proj i (snd (wrun fuel (init_world n) sched)) = proj i (snd (wrun fuel (init_world n) (b2b 0 hists))).
Proof.
  intros M i Hi. rewrite (every_merge fuel n hists sched M i Hi).
  rewrite (every_merge fuel n hists (b2b 0 hists) (b2b_is_merge n hists) i Hi). reflexivity.
Qed.
