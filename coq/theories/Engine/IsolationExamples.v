(* Non-vacuity of the C04 theorems: concrete worlds / engines that satisfy the hypotheses and in which the
   isolation statements say something (same predicate names, different contents, generators of both
   engines suspended on an answer at the same time with their bindings in the one shared heap). *)
From Coq Require Import String.
From Coq Require Import List Arith Bool Lia ZArith Cantor.
Import ListNotations.
From YP Require Import Base.Str Term.Term Term.Show Unify.Unify Engine.Deref Engine.Frame Engine.World Engine.CursorFrame
  Engine.Isolation Engine.Slots.
Local Open Scope string_scope.

Definition xA (s : string) := TAtom (of_string s).
Definition xp := of_string "p".
Definition xr := of_string "r".
(* r(X) :- p(X).   loaded into both engines *)
Definition xscript : list (str * nat * list clause) := [ (xr, 1, [ ([TVar 0], [(xp, [TVar 0])]) ]) ].
Definition xsched : list (nat * op) :=
  [ (0, OAssert true xp [xA "a"]); (1, OAssert true xp [xA "c"]); (0, OAssert true xp [xA "b"]);
    (0, OLoad true xscript); (1, OLoad true xscript);
    (0, OStart 0 xr [TVar 0]); (1, OStart 0 xr [TVar 0]);
    (0, ONext 0); (1, ONext 0); (0, ONext 0); (1, ONext 0); (0, ONext 0); (1, OAtom xp); (0, OAtom xp) ].

Definition xans (s : string) : obs := otag "ans" [term_obs (xA s)].

(* two engines, one schedule: engine 0 sees a, b, done; engine 1 sees c, done; after 10 steps both generators
   are suspended and the heap holds the bindings of both, interleaved *)
Lemma ex_world :
  proj 0 (snd (wrun 100 (init_world 2) xsched))
  = [otag "ok" []; otag "ok" []; otag "ok" []; otag "started" []; xans "a"; xans "b"; otag "done" []; otag "atom" [OL [onat 1]]]
  /\ proj 1 (snd (wrun 100 (init_world 2) xsched))
  = [otag "ok" []; otag "ok" []; otag "started" []; xans "c"; otag "done" []; otag "atom" [OL [onat 1]]]
  /\ heap (fst (wrun 100 (init_world 2) (firstn 10 xsched)))
  = [(2, xA "b"); (0, TVar 2); (3, xA "c"); (1, TVar 3)].
Proof. vm_compute. repeat split; reflexivity. Qed.

(* ---------------------------------------------------------------- two generators of one engine *)
(* the user-variable number of a cell *)
Definition uidx (n v : nat) : nat := snd (Cantor.of_nat (v / n)).
Lemma uidx_ucell n e u : e < n -> uidx n (ucell n e u) = u.
Proof.
  intros H. unfold uidx, ucell, cell. rewrite Nat.div_add_l by lia.
  rewrite (Nat.div_small e n H), Nat.add_0_r, Cantor.cancel_of_to. reflexivity.
Qed.

(* slot q holds the q-th query the engine started, over the user variable number q *)
Definition xPQ (q v : nat) : bool :=
  Nat.eqb (owner 1 v) (S q) || (Nat.eqb (owner 1 v) 0 && Nat.eqb (uidx 1 v) q).

Lemma xPQ_disj q q' v : q <> q' -> xPQ q v = true -> xPQ q' v = false.
Proof.
  unfold xPQ. intros N H.
  destruct (Nat.eqb_spec (owner 1 v) (S q)); destruct (Nat.eqb_spec (owner 1 v) (S q'));
    destruct (Nat.eqb_spec (owner 1 v) 0); destruct (Nat.eqb_spec (uidx 1 v) q);
    destruct (Nat.eqb_spec (uidx 1 v) q'); simpl in *; try reflexivity; try discriminate; lia.
Qed.

Definition xprep : list op :=
  [ OAssert true xp [xA "a"]; OAssert true xp [xA "b"]; OStart 0 xp [TVar 0]; OStart 1 xp [TVar 1] ].
Definition xe : engine := fst (fst (erun 1 0 50 xprep init_engine [])).

Lemma xe_cursors : cursors xe = [(0, cstart 0 xp [TVar (ucell 1 0 0)]); (1, cstart 1 xp [TVar (ucell 1 0 1)])].
Proof. vm_compute. reflexivity. Qed.

Lemma ex_sinv : sinv 1 0 xPQ xe [].
Proof.
  split; [intros q v t []|].
  intros q c H. rewrite xe_cursors in H.
  assert (T : forall u, tin (xPQ u) (TVar (ucell 1 0 u))).
  { intros u. apply tin_var. unfold xPQ. rewrite owner_ucell, uidx_ucell by lia. rewrite !Nat.eqb_refl. apply orb_true_r. }
  destruct q as [|[|q]]; cbn [aget Nat.eqb] in H; inversion H; subst; clear H.
  - split; [apply cstart_good'; constructor; [apply T|constructor]|].
    intros k. unfold xPQ. cbn [cown cstart]. rewrite owner_ccell by lia. rewrite Nat.eqb_refl. reflexivity.
  - split; [apply cstart_good'; constructor; [apply T|constructor]|].
    intros k. unfold xPQ. cbn [cown cstart]. rewrite owner_ccell by lia. rewrite Nat.eqb_refl. reflexivity.
Qed.

Definition xops : list op := [ONext 0; ONext 1; ONext 1; ONext 0; OClose 1; ONext 0; ONext 1].

(* both generators enumerate p/1 of the same engine; each sees a, b in order although the other one is
   advanced in between and its binding sits in the same heap *)
Lemma ex_slots :
  Forall qop xops /\ sinv 1 0 xPQ xe []
  /\ pick 0 xops (snd (erun 1 0 50 xops xe [])) = [xans "a"; xans "b"; otag "done" []]
  /\ pick 1 xops (snd (erun 1 0 50 xops xe [])) = [xans "a"; xans "b"; otag "closed" []; otag "done" []]
  /\ snd (fst (erun 1 0 50 (firstn 2 xops) xe [])) <> [].
Proof.
  split; [repeat constructor; discriminate|]. split; [exact ex_sinv|].
  vm_compute. repeat split; try reflexivity. discriminate.
Qed.

(* the history xprep (assert, assert, start over X0, start over X1) satisfies the condition of
   SlotsReach.disjoint_queries_alone: the second query is started over a variable that does not occur in the first *)
From YP Require Import Engine.SlotsReach.

Lemma ex_hist_ok : hist_ok 1 0 50 xprep init_engine [].
Proof.
  unfold xprep. cbn [hist_ok op_ok]. repeat (split; [exact I|]).
  split; [|split; [|exact I]].
  - intros q' c' N H. vm_compute in H. discriminate.
  - intros q' c' N H v Hv. vm_compute in H.
    destruct q' as [|q']; [|destruct q'; discriminate]. inversion H; subst c'. clear H.
    unfold argvar. cbn [cargs]. cbn [map rn existsb occurs] in *.
    rewrite orb_false_r in *. apply Nat.eqb_eq in Hv. subst v. vm_compute. reflexivity.
Qed.

Lemma ex_reach :
  hist_ok 1 0 50 xprep init_engine [] /\ fst (fst (erun 1 0 50 xprep init_engine [])) = xe
  /\ snd (fst (erun 1 0 50 xprep init_engine [])) = [] /\ Forall qop xops
  /\ pick 0 xops (snd (erun 1 0 50 xops xe [])) = [xans "a"; xans "b"; otag "done" []]
  /\ pick 1 xops (snd (erun 1 0 50 xops xe [])) = [xans "a"; xans "b"; otag "closed" []; otag "done" []].
Proof.
  split; [exact ex_hist_ok|]. split; [reflexivity|]. split; [vm_compute; reflexivity|].
  destruct ex_slots as [A [_ [B [C _]]]]. auto.
Qed.
