(* The string-level keys of eval_context:  f'{name}_{arity}'  and  f'{name}_n'.
   What holds: the pair (name, arity-or-variadic) can be read back from the key (split at the
   LAST underscore), so two different name/arity pairs never share a key - 'foo_1' is foo/1 and
   nothing else; foo_1/0 is 'foo_1_0' - and no key of this form is one of the API names of
   the default context. *)
From Coq Require Import String.
From Coq Require Import List Arith NArith Bool Lia.
Import ListNotations.
From YP Require Import Base.Str Engine.Resolve Engine.ResolveProofs.
Local Open Scope N_scope.

(* ------------------------------------------------------------------ decimal printing is injective *)

Definition dstep (a c : N) : N := a * 10 + (c - 48).
Definition dval (s : str) (a : N) : N := fold_left dstep s a.

Lemma pow10_succ f : 10 ^ N.of_nat (S f) = 10 * 10 ^ N.of_nat f.
Proof. rewrite Nat2N.inj_succ. apply N.pow_succ_r'. Qed.

Lemma dec_digits_val fuel : forall n acc,
  n < 10 ^ N.of_nat fuel -> dval (dec_digits_fuel fuel n acc) 0 = dval acc n.
Proof.
  induction fuel as [|f IH]; intros n acc Hlt.
  - simpl in Hlt. assert (n = 0) by lia. subst. reflexivity.
  - cbn [dec_digits_fuel]. rewrite pow10_succ in Hlt.
    assert (Hdm : n = 10 * (n / 10) + n mod 10) by (apply N.div_mod; lia).
    assert (Hm : n mod 10 < 10) by (apply N.mod_lt; lia).
    assert (Hql : n / 10 < 10 ^ N.of_nat f) by (apply N.div_lt_upper_bound; lia).
    revert Hdm Hm Hql. generalize (n / 10) as q. generalize (n mod 10) as m. intros m q Hdm Hm Hql.
    destruct (N.eqb_spec q 0) as [Hq|Hq].
    + unfold dval. cbn [fold_left]. unfold dstep at 2.
      replace (0 * 10 + (48 + m - 48)) with n by lia. reflexivity.
    + rewrite IH by exact Hql.
      unfold dval. cbn [fold_left]. unfold dstep at 2.
      replace (q * 10 + (48 + m - 48)) with n by lia. reflexivity.
Qed.

Lemma size_fuel_enough n : n < 10 ^ N.of_nat (S (N.to_nat (N.size n))).
Proof.
  rewrite Nat2N.inj_succ, N2Nat.id, N.pow_succ_r'.
  assert (H1 : n < 2 ^ N.size n) by apply N.size_gt.
  assert (H2 : 2 ^ N.size n <= 10 ^ N.size n) by (apply N.pow_le_mono_l; lia).
  lia.
Qed.

Lemma dec_of_N_val n : dval (dec_of_N n) 0 = n.
Proof. unfold dec_of_N. rewrite dec_digits_val by apply size_fuel_enough. reflexivity. Qed.

Lemma dec_of_N_inj n m : dec_of_N n = dec_of_N m -> n = m.
Proof. intros H. rewrite <- (dec_of_N_val n), <- (dec_of_N_val m), H. reflexivity. Qed.

Lemma dec_of_nat_inj n m : dec_of_nat n = dec_of_nat m -> n = m.
Proof. unfold dec_of_nat. intros H. apply dec_of_N_inj in H. lia. Qed.

(* the printed number consists of digits and is not empty *)
Definition is_digit (c : N) : bool := (48 <=? c) && (c <=? 57).

Lemma dec_digits_digits fuel : forall n acc,
  forallb is_digit acc = true -> forallb is_digit (dec_digits_fuel fuel n acc) = true.
Proof.
  induction fuel as [|f IH]; intros n acc Hacc; [exact Hacc|].
  cbn [dec_digits_fuel].
  assert (Hm : n mod 10 < 10) by (apply N.mod_lt; lia).
  assert (Hd : is_digit (48 + n mod 10) = true).
  { revert Hm. generalize (n mod 10) as m. intros m Hm.
    unfold is_digit. apply andb_true_iff. split; apply N.leb_le; lia. }
  destruct (N.eqb (n / 10) 0).
  - cbn [forallb]. rewrite Hd, Hacc. reflexivity.
  - apply IH. cbn [forallb]. rewrite Hd, Hacc. reflexivity.
Qed.

Lemma dec_digits_length fuel : forall n acc,
  (length acc <= length (dec_digits_fuel fuel n acc))%nat.
Proof.
  induction fuel as [|f IH]; intros n acc; [apply Nat.le_refl|].
  cbn [dec_digits_fuel]. destruct (N.eqb (n / 10) 0).
  - cbn [length]. apply Nat.le_succ_diag_r.
  - eapply Nat.le_trans; [|apply IH]. cbn [length]. apply Nat.le_succ_diag_r.
Qed.

Definition digits_ok (s : str) : bool :=
  match s with [] => false | _ => forallb is_digit s end.

Lemma dec_of_nat_digits n : digits_ok (dec_of_nat n) = true.
Proof.
  unfold dec_of_nat, dec_of_N.
  set (fu := N.to_nat (N.size (N.of_nat n))).
  assert (Hl := dec_digits_length (S fu) (N.of_nat n) []).
  assert (Hd := dec_digits_digits (S fu) (N.of_nat n) [] eq_refl).
  cbn [dec_digits_fuel] in *.
  destruct (N.eqb (N.of_nat n / 10) 0); [exact Hd|].
  assert (Hl2 := dec_digits_length fu (N.of_nat n / 10) [48 + N.of_nat n mod 10]).
  destruct (dec_digits_fuel fu (N.of_nat n / 10) [48 + N.of_nat n mod 10]); [cbn [length] in Hl2; inversion Hl2|exact Hd].
Qed.

(* ------------------------------------------------------------------ splitting at the last underscore *)

Definition suffix_ok (s : str) : bool := digits_ok s || str_eqb s [110].

Lemma suffix_is_ok a : suffix_ok (suffix a) = true.
Proof.
  destruct a as [n|]; unfold suffix_ok, suffix.
  - rewrite dec_of_nat_digits. reflexivity.
  - reflexivity.
Qed.

Lemma digits_no_underscore s : forallb is_digit s = true -> ~ In 95 s.
Proof.
  intros H Hin. rewrite forallb_forall in H. specialize (H _ Hin). discriminate.
Qed.

Lemma suffix_no_underscore a : ~ In 95 (suffix a).
Proof.
  destruct a as [n|]; unfold suffix.
  - apply digits_no_underscore. assert (H := dec_of_nat_digits n). unfold digits_ok in H.
    destruct (dec_of_nat n); [discriminate | exact H].
  - intros [H|[]]. discriminate.
Qed.

Lemma suffix_inj a b : suffix a = suffix b -> a = b.
Proof.
  destruct a as [n|], b as [m|]; unfold suffix; intros H.
  - apply dec_of_nat_inj in H. congruence.
  - exfalso. assert (Hd := dec_of_nat_digits n). rewrite H in Hd. discriminate.
  - exfalso. assert (Hd := dec_of_nat_digits m). rewrite <- H in Hd. discriminate.
  - reflexivity.
Qed.

Lemma split_last_underscore (x1 : str) : forall x2 s1 s2,
  ~ In 95 s1 -> ~ In 95 s2 -> x1 ++ 95 :: s1 = x2 ++ 95 :: s2 -> x1 = x2 /\ s1 = s2.
Proof.
  induction x1 as [|c x1 IH]; intros [|c2 x2] s1 s2 H1 H2 H; simpl in H.
  - inversion H. auto.
  - inversion H. subst. exfalso. apply H1. apply in_or_app. right. left. reflexivity.
  - inversion H. subst. exfalso. apply H2. apply in_or_app. right. left. reflexivity.
  - inversion H. subst. destruct (IH x2 s1 s2 H1 H2) as [-> ->]; auto.
Qed.

(* (name, arity) can be read back from the key *)
Theorem mkkey_inj n1 a1 n2 a2 : mkkey n1 a1 = mkkey n2 a2 -> n1 = n2 /\ a1 = a2.
Proof.
  unfold mkkey. intros H.
  apply split_last_underscore in H; try apply suffix_no_underscore.
  destruct H as [-> H]. apply suffix_inj in H. auto.
Qed.

(* the part after the last underscore (the whole string when there is none) *)
Fixpoint last_seg (k : str) : str :=
  match k with
  | [] => []
  | c :: r => if existsb (N.eqb 95) r then last_seg r else if N.eqb c 95 then r else k
  end.

Lemma existsb_95 s : existsb (N.eqb 95) s = true <-> In 95 s.
Proof.
  rewrite existsb_exists. split.
  - intros [x [Hin Hx]]. apply N.eqb_eq in Hx. subst. exact Hin.
  - intros H. exists 95. split; [exact H | reflexivity].
Qed.

Lemma last_seg_mk x : forall s, ~ In 95 s -> last_seg (x ++ 95 :: s) = s.
Proof.
  induction x as [|c x IH]; intros s Hs; simpl.
  - destruct (existsb (N.eqb 95) s) eqn:E; [apply existsb_95 in E; contradiction | reflexivity].
  - assert (existsb (N.eqb 95) (x ++ 95 :: s) = true) as ->.
    { apply existsb_95. apply in_or_app. right. left. reflexivity. }
    apply IH. exact Hs.
Qed.

Lemma last_seg_mkkey name a : last_seg (mkkey name a) = suffix a.
Proof. unfold mkkey. apply last_seg_mk. apply suffix_no_underscore. Qed.

(* no predicate key is the name of an API entry of the default context: registering or loading
   predicates cannot clobber atom, query, unify, ... *)
Theorem mkkey_not_api name a : ~ In (mkkey name a) api_names.
Proof.
  intros Hin.
  assert (H : existsb (fun k => suffix_ok (last_seg k)) api_names = true).
  { apply existsb_exists. exists (mkkey name a). split; [exact Hin|].
    rewrite last_seg_mkkey. apply suffix_is_ok. }
  vm_compute in H. discriminate.
Qed.

(* consequences for lookups *)
Lemma mkkey_eqb_false n1 a1 n2 a2 : (n1, a1) <> (n2, a2) -> str_eqb (mkkey n1 a1) (mkkey n2 a2) = false.
Proof.
  intros Hne. apply str_eqb_neq. intros H. apply mkkey_inj in H. destruct H; subst. congruence.
Qed.

(* a call name/N never sees what is filed under another name or another arity: assigning any
   other name/arity key (register, load) leaves the resolution of name/N as it was *)
Theorem resolve_set_other c name n name2 a2 v :
  (name2, a2) <> (name, AFix n) -> (name2, a2) <> (name, AVar) ->
  resolve (ctx_set c (mkkey name2 a2) v) name n = resolve c name n.
Proof.
  intros H1 H2. unfold resolve.
  rewrite !ctx_get_set_other; [reflexivity | |].
  - intros H. apply mkkey_inj in H. destruct H; subst. congruence.
  - intros H. apply mkkey_inj in H. destruct H; subst. congruence.
Qed.
