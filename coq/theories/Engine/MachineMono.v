(* Fuel monotonicity of the frame machine: a result, once returned, does not depend on the fuel
   (for any leaf type whose own `next` has this property). *)
From Coq Require Import List Arith Bool Lia.
Import ListNotations.
From YP Require Import Base.Str Term.Term Unify.UnifyGen Engine.GenMachine.

Section Mono.
  Variable L X E P : Type.
  Variable mkleaf : X -> heap -> L.
  Variable lnext : nat -> heap -> L -> option (heap * L * res).
  Variable lclose : heap -> L -> heap.
  Variable prog : P -> code X E P * E.
  Variable gho : E -> nat.
  Hypothesis lnext_mono : forall n h l r, lnext n h l = Some r -> lnext (S n) h l = Some r.

  Notation exec := (exec mkleaf lnext lclose prog gho).
  Notation cont := (cont mkleaf lnext lclose prog gho).
  Notation loop := (loop mkleaf lnext lclose prog gho).
  Notation inext := (inext mkleaf lnext lclose prog gho).
  Notation nexts := (nexts mkleaf lnext lclose prog gho).

  Definition mono_at (n : nat) : Prop :=
    (forall d h c k e r, exec n d h c k e = Some r -> exec (S n) d h c k e = Some r) /\
    (forall d h k e r, cont n d h k e = Some r -> cont (S n) d h k e = Some r) /\
    (forall d h it body k e r, loop n d h it body k e = Some r -> loop (S n) d h it body k e = Some r) /\
    (forall d h it r, inext n d h it = Some r -> inext (S n) d h it = Some r).

  Lemma machine_mono_S n : mono_at n.
  Proof.
    induction n as [|n [IHe [IHc [IHl IHn]]]].
    { repeat split; intros; discriminate. }
    repeat split.
    - intros d h c k e r H. rewrite exec_S in H. rewrite exec_S.
      destruct c as [| |a b|ex body| | | |f|c a]; auto.
      + destruct (pop_loop k) as [[it k']|]; auto.
      + destruct (c e); auto.
    - intros d h k e r H. rewrite cont_S in H. rewrite cont_S. destruct k; auto.
    - intros d h it body k e r H. rewrite loop_S in H. rewrite loop_S.
      destruct (inext n d h it) as [[[h' it'] rr]|] eqn:N; [|discriminate].
      rewrite (IHn _ _ _ _ N). destruct rr; auto.
    - intros d h it r H. rewrite inext_S in H. rewrite inext_S.
      destruct it as [l|c e|k e|]; auto.
      + destruct (lnext n h l) as [[[h' l'] rr]|] eqn:N; [|discriminate]. rewrite (lnext_mono _ _ _ _ N). exact H.
      + destruct d; auto.
      + destruct d; auto.
  Qed.

  Lemma inext_mono n m d h it r : inext n d h it = Some r -> n <= m -> inext m d h it = Some r.
  Proof. intros H Lm. induction Lm; auto. apply (machine_mono_S m). exact IHLm. Qed.

  Lemma nexts_mono_S n d : forall k h it r, nexts n d k h it = Some r -> nexts (S n) d k h it = Some r.
  Proof.
    induction k as [|k IH]; intros h it r H; cbn [GenMachine.nexts] in *; auto.
    destruct (inext n d h it) as [[[h' it'] rr]|] eqn:N; [|discriminate].
    rewrite (proj2 (proj2 (proj2 (machine_mono_S n))) _ _ _ _ N).
    destruct rr; auto.
    destruct (nexts n d k h' it') as [[[[hf itf] ys] r']|] eqn:D; [|discriminate].
    rewrite (IH _ _ _ D). exact H.
  Qed.

  Lemma nexts_mono n m d k h it r : nexts n d k h it = Some r -> n <= m -> nexts m d k h it = Some r.
  Proof. intros H Lm. induction Lm; auto. apply nexts_mono_S. exact IHLm. Qed.
End Mono.
