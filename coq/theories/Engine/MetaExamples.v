(* Non-vacuity of the C04 theorems for the meta-call builtins of the world model (World.metastep / ctl_goal / coll_finish):
   two engines load the SAME script whose bodies use findall/3, once/1, \= /2 and call/N over p/1, which has other facts
   in each engine; their generators are advanced in an interleaved schedule while the generators of the other engine
   are suspended with their bindings in the one shared heap. *)
From Coq Require Import String.
From Coq Require Import List Arith Bool Lia ZArith.
Import ListNotations.
From YP Require Import Base.Str Term.Term Term.Show Unify.Unify Engine.World Engine.Isolation Sem.Machine.
Local Open Scope string_scope.

Definition mA (s : string) := TAtom (of_string s).
Definition m_ := of_string.
(* u(L) :- findall(s(X,Y), p(X), L).      (Y stays unbound: every copy gets a variable of its own)
   f(X) :- once(p(X)).
   n(X) :- p(X), X \= a.
   c(X) :- G = p, call(G, X). *)
Definition mscript : list (str * nat * list clause) :=
  [ (m_ "u", 1, [ ([TVar 0], [(m_ "findall", [TFun (m_ "s") [TVar 1; TVar 2]; TFun (m_ "p") [TVar 1]; TVar 0])]) ]);
    (m_ "f", 1, [ ([TVar 0], [(m_ "once", [TFun (m_ "p") [TVar 0]])]) ]);
    (m_ "n", 1, [ ([TVar 0], [(m_ "p", [TVar 0]); ([92%N; 61%N], [TVar 0; mA "a"])]) ]);
    (m_ "c", 1, [ ([TVar 0], [(m_ "=", [TVar 1; mA "p"]); (m_ "call", [TVar 1; TVar 0])]) ]) ].
Definition msched : list (nat * op) :=
  [ (0, OAssert true (m_ "p") [mA "a"]); (1, OAssert true (m_ "p") [mA "c"]); (0, OAssert true (m_ "p") [mA "b"]);
    (0, OLoad true mscript); (1, OLoad true mscript);
    (0, OStart 0 (m_ "c") [TVar 0]); (1, OStart 0 (m_ "n") [TVar 0]);
    (0, ONext 0); (1, ONext 0);
    (0, OStart 1 (m_ "u") [TVar 1]); (0, ONext 1); (1, OStart 1 (m_ "u") [TVar 1]); (1, ONext 1);
    (0, OStart 2 (m_ "f") [TVar 2]); (0, ONext 2); (0, ONext 2); (0, ONext 0); (1, ONext 0); (0, ONext 0);
    (0, OStart 3 (m_ "n") [TVar 3]); (0, ODrain 3); (0, OAtom (m_ "=")) ].

Definition mans (t : term) : obs := otag "ans" [term_obs t].
Definition mlist (l : list term) : term := World.mk_list l.
Definition mS (a : string) (v : nat) : term := TFun (m_ "s") [mA a; TVar v].

(* engine 0: c(X) = a (call(p, X)), u(L) = [s(a,_), s(b,_)] with two different new variables, f(X) = a and no more (once),
   c(X) = b, done, n(X) = [b] (X \= a), and '=' has been interned by the \= (fourth atom of this engine);
   engine 1: n(X) = c, u(L) = [s(c,_)], done - and each of them is what the engine observes ALONE (erun) *)
Lemma ex_meta_world :
  proj 0 (snd (wrun 200 (init_world 2) msched))
  = [otag "ok" []; otag "ok" []; otag "ok" []; otag "started" []; mans (mA "a"); otag "started" [];
     mans (mlist [mS "a" 36; mS "b" 50]); otag "started" []; mans (mA "a"); otag "done" []; mans (mA "b"); otag "done" [];
     otag "started" []; otag "all" [OL [OL [term_obs (mA "b")]]; OL []]; otag "atom" [OL [onat 3]]]
  /\ proj 1 (snd (wrun 200 (init_world 2) msched))
  = [otag "ok" []; otag "ok" []; otag "started" []; mans (mA "c"); otag "started" []; mans (mlist [mS "c" 37]); otag "done" []]
  /\ proj 0 (snd (wrun 200 (init_world 2) msched)) = snd (erun 2 0 200 (map snd (only 0 msched)) init_engine [])
  /\ proj 1 (snd (wrun 200 (init_world 2) msched)) = snd (erun 2 1 200 (map snd (only 1 msched)) init_engine [])
  /\ length (heap (fst (wrun 200 (init_world 2) (firstn 13 msched)))) = 10.
Proof. vm_compute. repeat split; reflexivity. Qed.

(* the list built by findall is the list of the one-engine semantics (Sem/Machine.v: mk_list = YP.makelist) *)
Lemma mk_list_machine l : World.mk_list l = Machine.mk_list l.
Proof. induction l as [|x l IH]; [reflexivity|]. cbn [World.mk_list Machine.mk_list]. rewrite IH. reflexivity. Qed.
