(* Monotonicity of the engine with chains of definitions (Sem/NativeChain.v) in the call depth and in the Python
   predicates that are MEMBERS of chains; hence exception passthrough for a Python predicate in any position of a
   chain: making it raise instead of its j-th answer changes any query only by cutting it short (the later members of
   the chain are not tried after the exception, nothing catches or replaces it).  Same method as Engine/NativeMono.v. *)
From Coq Require Import String.
From Coq Require Import List Arith Bool Lia ZArith.
Import ListNotations.
From YP Require Import Base.Str Term.Term Term.Fast Unify.Unify Lang.Ast Comp.IR Comp.CompileBody Sem.IRSem Sem.ExecMono Sem.Machine
  Sem.Native Sem.NativeChain Engine.BoundedMachine Engine.NativeMono.
Local Open Scope string_scope.
Local Open Scope list_scope.

(* member by member: the same compiled function, or a Python predicate that delivers at least as far *)
Inductive def_le : cdef -> cdef -> Prop :=
| def_le_ir f : def_le (CIr f) (CIr f)
| def_le_nat f1 f2 : (forall args s, le_b (drop (f1 args s)) (drop (f2 args s))) -> def_le (CNat f1) (CNat f2).

Definition chain_le (o1 o2 : option chain) : Prop :=
  match o1, o2 with
  | Some l1, Some l2 => Forall2 def_le l1 l2
  | None, None => True
  | _, _ => False
  end.

Definition cworld_le (w1 w2 : cworld) : Prop :=
  (forall name k, c_dyn w1 name k = c_dyn w2 name k) /\
  (forall name k, chain_le (c_fix w1 name k) (c_fix w2 name k)) /\ (forall name, ofun_le (c_var w1 name) (c_var w2 name)).

Lemma def_le_refl d : def_le d d.
Proof. destruct d; constructor. intros; apply le_b_refl. Qed.

Lemma chain_le_refl o : chain_le o o.
Proof. destruct o as [l|]; [|exact I]. cbn [chain_le]. induction l; constructor; [apply def_le_refl|assumption]. Qed.

Lemma cworld_le_refl w : cworld_le w w.
Proof. repeat split; intros; [apply chain_le_refl|apply ofun_le_refl]. Qed.

Lemma run_def_mono c1 c2 d1 d2 : call_le c1 c2 -> def_le d1 d2 -> forall args s, le_b (run_def c1 d1 args s) (run_def c2 d2 args s).
Proof.
  intros Hc Hd args s. destruct Hd as [f|f1 f2 H].
  - cbn [run_def].
    pose proof (@run_function_mono cfg assign (iter c1) (iter c2) (@iter_mono c1 c2 Hc) (fn_body f) (bind_args 0 args, s)) as R.
    apply run_res_mono in R. unfold run_res in R.
    destruct (run_function (iter c1) assign (fn_body f) (bind_args 0 args, s)) as [ys1 k1].
    destruct (run_function (iter c2) assign (fn_body f) (bind_args 0 args, s)) as [ys2 k2]. exact R.
  - apply H.
Qed.

Lemma run_chain_mono c1 c2 l1 l2 : call_le c1 c2 -> Forall2 def_le l1 l2 -> forall args s, le_b (run_chain c1 l1 args s) (run_chain c2 l2 args s).
Proof.
  intros Hc F args s. induction F as [|d1 d2 r1 r2 Hd _ IH]; [apply le_b_refl|].
  cbn [run_chain]. pose proof (run_def_mono c1 c2 d1 d2 Hc Hd args s) as L.
  destruct (run_def c1 d1 args s) as [xs1 e1], (run_def c2 d2 args s) as [xs2 e2]. unfold le_b in L; cbn [fst snd] in L.
  destruct e1.
  - unfold le_b; cbn [fst snd]. destruct e2; [exact L|].
    destruct (run_chain c2 r2 args s) as [ys2 e2']. cbn [fst]. apply prefixl_app_r. exact L.
  - injection L as -> ->. apply (le_b_app_l xs1) in IH.
    destruct (run_chain c1 r1 args s) as [ys1 e1'], (run_chain c2 r2 args s) as [ys2 e2']. exact IH.
Qed.

Lemma ccall_function_mono c1 c2 w1 w2 : call_le c1 c2 -> cworld_le w1 w2 ->
  forall name args s, le_b (ccall_function c1 w1 name args s) (ccall_function c2 w2 name args s).
Proof.
  intros Hc [_ [Hf Hv]] name args s. unfold ccall_function.
  specialize (Hf name (length args)). specialize (Hv name).
  destruct (c_fix w1 name (length args)) as [l1|], (c_fix w2 name (length args)) as [l2|]; cbn [chain_le] in Hf; try contradiction.
  - apply run_chain_mono; assumption.
  - pose proof (@builtin_mono _ _ Hc name args s) as B.
    destruct (str_eqb name (s_ "call")).
    + destruct (c_var w1 name) as [g1|], (c_var w2 name) as [g2|]; cbn [ofun_le] in Hv; try contradiction.
      * apply Hv.
      * destruct (builtin c1 name args s), (builtin c2 name args s); simpl in B; try contradiction; [exact B | apply le_b_refl].
    + destruct (builtin c1 name args s), (builtin c2 name args s); simpl in B; try contradiction; [exact B|].
      destruct (c_var w1 name) as [g1|], (c_var w2 name) as [g2|]; cbn [ofun_le] in Hv; try contradiction.
      * apply Hv.
      * apply le_b_refl.
Qed.

Lemma cstep_mono c1 c2 w1 w2 : call_le c1 c2 -> cworld_le w1 w2 ->
  forall name args s, le_b (cstep c1 w1 name args s) (cstep c2 w2 name args s).
Proof.
  intros Hc Hw name args s. unfold cstep. destruct Hw as [Hd [Hf Hv]]. rewrite Hd.
  destruct (match_rows (c_dyn w2 name (length args)) args s) as [ds de]. destruct de; [apply le_b_refl|].
  destruct (Resolve.reserved name); [apply le_b_refl|].
  pose proof (@ccall_function_mono c1 c2 w1 w2 Hc (conj Hd (conj Hf Hv)) name args s) as L.
  apply (le_b_app_l ds) in L.
  destruct (ccall_function c1 w1 name args s) as [fs1 fe1]. destruct (ccall_function c2 w2 name args s) as [fs2 fe2]. exact L.
Qed.

Lemma cquery_mono_S w1 w2 : cworld_le w1 w2 -> forall n, call_le (cquery n w1) (cquery (S n) w2).
Proof.
  intros Hw. induction n as [|n IH]; intros name args s.
  - unfold le_b; cbn [cquery fst snd]. apply prefixl_nil.
  - change (le_b (cstep (cquery n w1) w1 name args s) (cstep (cquery (S n) w2) w2 name args s)).
    apply cstep_mono; assumption.
Qed.

Lemma cquery_mono_w w1 w2 : cworld_le w1 w2 -> forall n, call_le (cquery n w1) (cquery n w2).
Proof.
  intros Hw. induction n as [|n IH]; intros name args s; [apply le_b_refl|].
  change (le_b (cstep (cquery n w1) w1 name args s) (cstep (cquery n w2) w2 name args s)).
  apply cstep_mono; assumption.
Qed.

Theorem cquery_mono w1 w2 n m : cworld_le w1 w2 -> n <= m -> call_le (cquery n w1) (cquery m w2).
Proof.
  intros Hw L. induction L as [|m L IH]; intros name args s.
  - apply cquery_mono_w. exact Hw.
  - eapply le_b_trans; [apply IH|]. apply (@cquery_mono_S w2 w2 (cworld_le_refl w2)).
Qed.

(* ------------------------------------------------------------------ a chain member that raises *)

(* the member number i of a chain raises instead of delivering its answer number j (if it is a Python predicate) *)
Fixpoint raise_member (i j : nat) (ds : chain) : chain :=
  match i with
  | O => match ds with CNat f :: r => CNat (raising f j) :: r | _ => ds end
  | S i' => match ds with [] => [] | d :: r => d :: raise_member i' j r end
  end.

Lemma Forall2_def_le_refl l : Forall2 def_le l l.
Proof. induction l; constructor; [apply def_le_refl|assumption]. Qed.

Lemma raise_member_le i j : forall ds, Forall2 def_le (raise_member i j ds) ds.
Proof.
  induction i as [|i IH]; intros ds; cbn [raise_member].
  - destruct ds as [|[f|f] r]; try apply Forall2_def_le_refl.
    constructor; [|apply Forall2_def_le_refl]. constructor. intros args s. apply raising_le.
  - destruct ds as [|d r]; constructor; [apply def_le_refl|apply IH].
Qed.

Definition with_raising_member (w : cworld) (name : str) (k i j : nat) : cworld :=
  {| c_fix := fun n0 k0 => if key_eq (n0, k0) (name, k) then option_map (raise_member i j) (c_fix w n0 k0) else c_fix w n0 k0;
     c_var := c_var w; c_dyn := c_dyn w |}.

Lemma with_raising_member_le w name k i j : cworld_le (with_raising_member w name k i j) w.
Proof.
  repeat split; cbn [with_raising_member c_fix c_var c_dyn]; [intros n0 k0|intros n0]; try apply ofun_le_refl.
  destruct (key_eq (n0, k0) (name, k)); [|apply chain_le_refl].
  destruct (c_fix w n0 k0) as [l|]; cbn [option_map chain_le]; [|exact I]. apply raise_member_le.
Qed.

(* every query, at every depth, in any context: either nothing changes, or the query ends with the exception after a prefix
   of its answers *)
Theorem exception_passthrough_member w pname k i j n name args s :
  let r' := cquery n (with_raising_member w pname k i j) name args s in
  let r := cquery n w name args s in
  (snd r' = false /\ r' = r) \/ (snd r' = true /\ prefixl (fst r') (fst r)).
Proof.
  intros r' r. pose proof (@cquery_mono_w _ _ (with_raising_member_le w pname k i j) n name args s) as L.
  fold r' r in L. unfold le_b in L. destruct (snd r') eqn:E; [right; auto | left; auto].
Qed.

(* at the chain itself: the members before it answer, it delivers j answers, then the exception; the later members are not tried *)
Theorem raising_member_at_the_chain call ds1 f ds2 j args s :
  snd (run_chain call ds1 args s) = false -> j < length (fst (f args s)) ->
  run_chain call (ds1 ++ CNat (raising f j) :: ds2) args s =
  (fst (run_chain call ds1 args s) ++ firstn j (fst (drop (f args s))), true).
Proof.
  intros H1 Hj. rewrite run_chain_app, H1. cbn [run_chain run_def]. rewrite (raising_leaf f j args s Hj). reflexivity.
Qed.
