(* Monotonicity of the engine model with registered Python predicates (Sem/Native.v) in the call depth AND in the
   predicates: if every predicate of w2 delivers at least as far as the one of w1 (le_b: the same, or w1's ended by an
   exception after a prefix), then so does every query.  Two consequences:

   C17  nquery is prefix-monotone in the call depth (evaluate_bounded over engines with Python predicates and
        dynamic facts);
   C20  exception_passthrough: making a predicate raise instead of delivering its j-th answer changes a query - any
        query, in any context - only by cutting it short: the answers delivered are a prefix of the answers without the
        exception, and then the query ends with the exception (or, if the exception point is never reached - under
        once/1, a condition, a cut - nothing changes at all).  Nothing in the engine or in the emitted code catches,
        replaces or delays an exception. *)
From Coq Require Import String.
From Coq Require Import List Arith Bool Lia ZArith.
Import ListNotations.
From YP Require Import Base.Str Term.Term Term.Fast Unify.Unify Lang.Ast Comp.IR Comp.CompileBody Sem.IRSem Sem.ExecMono Sem.Machine
  Sem.Native Engine.BoundedMachine.
Local Open Scope string_scope.
Local Open Scope list_scope.

Definition ofun_le (o1 o2 : option nfun) : Prop :=
  match o1, o2 with
  | Some f1, Some f2 => forall args s, le_b (drop (f1 args s)) (drop (f2 args s))
  | None, None => True
  | _, _ => False
  end.

Definition world_le (w1 w2 : world) : Prop :=
  w_ir w1 = w_ir w2 /\ (forall name k, w_dyn w1 name k = w_dyn w2 name k) /\
  (forall name k, ofun_le (w_fix w1 name k) (w_fix w2 name k)) /\ (forall name, ofun_le (w_var w1 name) (w_var w2 name)).

Lemma ofun_le_refl o : ofun_le o o.
Proof. destruct o; simpl; [intros; apply le_b_refl | exact I]. Qed.

Lemma world_le_refl w : world_le w w.
Proof. repeat split; intros; apply ofun_le_refl. Qed.

Lemma le_b_app_l {A} (ds : list A) (r1 r2 : list A * bool) : le_b r1 r2 -> le_b (ds ++ fst r1, snd r1) (ds ++ fst r2, snd r2).
Proof.
  destruct r1 as [l1 e1], r2 as [l2 e2]. unfold le_b; cbn [fst snd]. destruct e1.
  - apply prefixl_app.
  - intros E. injection E as -> ->. reflexivity.
Qed.

Lemma call_function_mono c1 c2 w1 w2 : call_le c1 c2 -> world_le w1 w2 ->
  forall name args s, le_b (call_function c1 w1 name args s) (call_function c2 w2 name args s).
Proof.
  intros Hc [Hir [_ [Hf Hv]]] name args s. unfold call_function. rewrite Hir.
  specialize (Hf name (length args)). specialize (Hv name).
  destruct (w_fix w1 name (length args)) as [f1|], (w_fix w2 name (length args)) as [f2|]; cbn [ofun_le] in Hf; try contradiction.
  - apply Hf.
  - destruct (find_func (w_ir w2) name (length args)) as [f|].
    + pose proof (@run_function_mono cfg assign (iter c1) (iter c2) (@iter_mono c1 c2 Hc) (fn_body f) (bind_args 0 args, s)) as R.
      apply run_res_mono in R. unfold run_res in R.
      destruct (run_function (iter c1) assign (fn_body f) (bind_args 0 args, s)) as [ys1 k1].
      destruct (run_function (iter c2) assign (fn_body f) (bind_args 0 args, s)) as [ys2 k2]. exact R.
    + pose proof (@builtin_mono _ _ Hc name args s) as B.
      destruct (str_eqb name (s_ "call")).
      * destruct (w_var w1 name) as [g1|], (w_var w2 name) as [g2|]; cbn [ofun_le] in Hv; try contradiction.
        -- apply Hv.
        -- destruct (builtin c1 name args s), (builtin c2 name args s); simpl in B; try contradiction; [exact B | apply le_b_refl].
      * destruct (builtin c1 name args s), (builtin c2 name args s); simpl in B; try contradiction; [exact B|].
        destruct (w_var w1 name) as [g1|], (w_var w2 name) as [g2|]; cbn [ofun_le] in Hv; try contradiction.
        -- apply Hv.
        -- apply le_b_refl.
Qed.

Lemma nstep_mono c1 c2 w1 w2 : call_le c1 c2 -> world_le w1 w2 ->
  forall name args s, le_b (nstep c1 w1 name args s) (nstep c2 w2 name args s).
Proof.
  intros Hc Hw name args s. unfold nstep. destruct Hw as [Hir [Hd [Hf Hv]]]. rewrite Hd.
  destruct (match_rows (w_dyn w2 name (length args)) args s) as [ds de]. destruct de; [apply le_b_refl|].
  destruct (Resolve.reserved name); [apply le_b_refl|].
  pose proof (@call_function_mono c1 c2 w1 w2 Hc (conj Hir (conj Hd (conj Hf Hv))) name args s) as L.
  apply (le_b_app_l ds) in L.
  destruct (call_function c1 w1 name args s) as [fs1 fe1]. destruct (call_function c2 w2 name args s) as [fs2 fe2]. exact L.
Qed.

Lemma nquery_mono_S w1 w2 : world_le w1 w2 -> forall n, call_le (nquery n w1) (nquery (S n) w2).
Proof.
  intros Hw. induction n as [|n IH]; intros name args s.
  - unfold le_b; cbn [nquery fst snd]. apply prefixl_nil.
  - change (le_b (nstep (nquery n w1) w1 name args s) (nstep (nquery (S n) w2) w2 name args s)).
    apply nstep_mono; assumption.
Qed.

Lemma nquery_mono_w w1 w2 : world_le w1 w2 -> forall n, call_le (nquery n w1) (nquery n w2).
Proof.
  intros Hw. induction n as [|n IH]; intros name args s; [apply le_b_refl|].
  change (le_b (nstep (nquery n w1) w1 name args s) (nstep (nquery n w2) w2 name args s)).
  apply nstep_mono; assumption.
Qed.

(* deeper searches and further-reaching predicates deliver at least as far *)
Theorem nquery_mono w1 w2 n m : world_le w1 w2 -> n <= m -> call_le (nquery n w1) (nquery m w2).
Proof.
  intros Hw L. induction L as [|m L IH]; intros name args s.
  - apply nquery_mono_w. exact Hw.
  - eapply le_b_trans; [apply IH|]. apply (@nquery_mono_S w2 w2 (world_le_refl w2)).
Qed.

Corollary nquery_depth_mono w n m : n <= m -> call_le (nquery n w) (nquery m w).
Proof. apply nquery_mono. apply world_le_refl. Qed.

(* ------------------------------------------------------------------ a predicate that raises *)

Lemma raising_le (f : nfun) j args s : le_b (drop (raising f j args s)) (drop (f args s)).
Proof.
  unfold raising, drop, le_b. destruct (f args s) as [xs e]. destruct (Nat.ltb j (length xs)); cbn [fst snd].
  - rewrite <- (firstn_skipn j xs) at 2. rewrite map_app. exists (map fst (skipn j xs)). reflexivity.
  - destruct e; [apply prefixl_refl | reflexivity].
Qed.

(* w with the fixed-arity predicate name/k raising instead of its j-th answer *)
Definition with_raising_fix (w : world) (name : str) (k j : nat) : world :=
  {| w_ir := w_ir w;
     w_fix := fun n0 k0 => if key_eq (n0, k0) (name, k) then option_map (fun f => raising f j) (w_fix w n0 k0) else w_fix w n0 k0;
     w_var := w_var w; w_dyn := w_dyn w |}.
Definition with_raising_var (w : world) (name : str) (j : nat) : world :=
  {| w_ir := w_ir w; w_fix := w_fix w;
     w_var := fun n0 => if str_eqb n0 name then option_map (fun f => raising f j) (w_var w n0) else w_var w n0;
     w_dyn := w_dyn w |}.

Lemma with_raising_fix_le w name k j : world_le (with_raising_fix w name k j) w.
Proof.
  repeat split; cbn [with_raising_fix w_ir w_dyn w_fix w_var]; intros; try apply ofun_le_refl.
  destruct (key_eq (name0, k0) (name, k)); [|apply ofun_le_refl].
  destruct (w_fix w name0 k0); cbn [option_map ofun_le]; [|exact I]. intros; apply raising_le.
Qed.
Lemma with_raising_var_le w name j : world_le (with_raising_var w name j) w.
Proof.
  repeat split; cbn [with_raising_var w_ir w_dyn w_fix w_var]; intros; try apply ofun_le_refl.
  destruct (str_eqb name0 name); [|apply ofun_le_refl].
  destruct (w_var w name0); cbn [option_map ofun_le]; [|exact I]. intros; apply raising_le.
Qed.

(* every query, at every depth: either nothing changes, or the query ends with an exception after a prefix of its answers *)
Theorem exception_passthrough_fix w pname k j n name args s :
  let r' := nquery n (with_raising_fix w pname k j) name args s in
  let r := nquery n w name args s in
  (snd r' = false /\ r' = r) \/ (snd r' = true /\ prefixl (fst r') (fst r)).
Proof.
  intros r' r. pose proof (@nquery_mono_w _ _ (with_raising_fix_le w pname k j) n name args s) as L.
  fold r' r in L. unfold le_b in L. destruct (snd r') eqn:E; [right; auto | left; auto].
Qed.

Theorem exception_passthrough_var w pname j n name args s :
  let r' := nquery n (with_raising_var w pname j) name args s in
  let r := nquery n w name args s in
  (snd r' = false /\ r' = r) \/ (snd r' = true /\ prefixl (fst r') (fst r)).
Proof.
  intros r' r. pose proof (@nquery_mono_w _ _ (with_raising_var_le w pname j) n name args s) as L.
  fold r' r in L. unfold le_b in L. destruct (snd r') eqn:E; [right; auto | left; auto].
Qed.

(* at the predicate itself: the j answers before the exception, then the exception *)
Lemma raising_leaf (f : nfun) j args s : j < length (fst (f args s)) ->
  drop (raising f j args s) = (firstn j (fst (drop (f args s))), true).
Proof.
  intros H. unfold raising, drop. destruct (f args s) as [xs e]. cbn [fst snd] in *.
  apply Nat.ltb_lt in H. rewrite H. cbn [fst snd]. rewrite firstn_map. reflexivity.
Qed.
