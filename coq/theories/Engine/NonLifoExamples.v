(* C04, one engine, a dynamic fact WITH a shared variable and three generators on it whose lifetimes do not nest
   (round 3): non-vacuity of SlotsReach.disjoint_queries_alone on the schedule class
       q0 starts and is suspended on the fact; q1 starts and is suspended on the same fact; q0 is closed FIRST;
       q2 is started while q1 is still suspended; q2's pattern clashes with q1's binding of the fact's variable.
   An implementation that shared the renamed copy of the fact between q1 and q2 would lose q2's answer. *)
From Coq Require Import String.
From Coq Require Import List Arith Bool Lia ZArith Cantor.
Import ListNotations.
From YP Require Import Base.Str Term.Term Term.Show Unify.Unify Engine.Deref Engine.Frame Engine.Db Engine.World Engine.CursorFrame
  Engine.Isolation Engine.Footprint Engine.Slots Engine.SlotsReach Engine.IsolationExamples Engine.SlotsExamples.
Local Open Scope string_scope.

(* p(X, X).    g0 = query p(V0, a); next g0; g1 = query p(V1, b); next g1; close g0; g2 = query p(V2, c) *)
Definition nprep : list op :=
  [ OAssert true xp [TVar 9; TVar 9];
    OStart 0 xp [TVar 0; xA "a"]; ONext 0;
    OStart 1 xp [TVar 1; xA "b"]; ONext 1;
    OClose 0;
    OStart 2 xp [TVar 2; xA "c"] ].
Definition ne : engine := fst (fst (erun 1 0 50 nprep init_engine [])).
Definition nh : store := snd (fst (erun 1 0 50 nprep init_engine [])).
(* the new generator runs to its end while g1 is suspended, then g1 goes on, then the new one is asked again *)
Definition nops : list op := [ONext 2; ONext 1; ONext 2; ONext 1].

Definition xans2 (s t : string) : obs := otag "ans" [term_obs (xA s); term_obs (xA t)].

Lemma ex_hist_ok_n : hist_ok 1 0 50 nprep init_engine [].
Proof.
  unfold nprep. cbn [hist_ok op_ok].
  split; [exact I|]. split; [|split; [exact I|split; [|split; [exact I|split; [exact I|split; [|exact I]]]]]].
  - intros q' c' N H. vm_compute in H. discriminate.
  - intros q' c' N H v Hv. vm_compute in H.
    destruct q' as [|q']; [|destruct q'; discriminate]. inversion H; subst c'. clear H.
    unfold argvar. cbn [cargs]. cbn [map rn existsb occurs] in *.
    rewrite !orb_false_r in *. apply Nat.eqb_eq in Hv. subst v. vm_compute. reflexivity.
  - intros q' c' N H v Hv. vm_compute in H.
    destruct q' as [|[|[|q']]]; try discriminate; try (exfalso; apply N; reflexivity);
      inversion H; subst c'; clear H;
      unfold argvar; cbn [cargs]; cbn [map rn existsb occurs] in *;
      rewrite !orb_false_r in *; apply Nat.eqb_eq in Hv; subst v; vm_compute; reflexivity.
Qed.

(* after the history g1 is suspended on its answer (its bindings are in the heap: V1 and the fact's variable), g0 is closed,
   g2 has not run yet; then: g2 answers V2 = c (NOT nothing, NOT b) and ends; g1 ends; no step writes the fact store; and
   the observations of g2 are those of the run in which only g2 is advanced *)
Lemma ex_nonlifo :
  hist_ok 1 0 50 nprep init_engine [] /\ Forall qop nops /\ nowrite 1 0 50 nops ne nh
  /\ snd (erun 1 0 50 nprep init_engine [])
     = [otag "ok" []; otag "started" []; xans2 "a" "a"; otag "started" []; xans2 "b" "b"; otag "closed" []; otag "started" []]
  /\ length nh = 2
  /\ pick 2 nops (snd (erun 1 0 50 nops ne nh)) = [xans2 "c" "c"; otag "done" []]
  /\ pick 1 nops (snd (erun 1 0 50 nops ne nh)) = [otag "done" []; otag "done" []]
  /\ pick 2 nops (snd (erun 1 0 50 nops ne nh))
     = snd (erun 1 0 50 (filter (is_slot 2) nops) ne (fP (PQ_of 1 0 ne 2) nh)).
Proof.
  split; [exact ex_hist_ok_n|]. split; [repeat constructor; discriminate|].
  split.
  { vm_compute.
    repeat match goal with
           | |- _ /\ _ => split
           | |- Forall _ _ => constructor
           | |- True => exact I
           | |- _ = _ => reflexivity
           end. }
  vm_compute. repeat split; reflexivity.
Qed.

(* ---------------------------------------------------------------- generators suspended inside a recursion *)
(* n(z). n(s(X)) :- n(X).  c(a).   g0 = n(V0) advanced to its 3rd answer (two calls deep), g1 = n(V1) to its 2nd, g2 = n(V2)
   to its 3rd - all three suspended inside the recursion at the same time; g0 (the oldest) is closed; then the probe
   g3 = c(V3) is started.  Then: next g3; next g1; next g3; next g2. *)
Definition xn := of_string "n".
Definition xc := of_string "c".
Definition xS (t : term) : term := TFun (of_string "s") [t].
Definition dscript : list (str * nat * list clause) :=
  [ (xn, 1, [ ([xA "z"], []); ([xS (TVar 0)], [(xn, [TVar 0])]) ]) ].
Definition dprep : list op :=
  [ OAssert true xc [xA "a"]; OLoad true dscript;
    OStart 0 xn [TVar 0]; ONext 0; ONext 0; ONext 0;
    OStart 1 xn [TVar 1]; ONext 1; ONext 1;
    OStart 2 xn [TVar 2]; ONext 2; ONext 0; ONext 2; ONext 2;
    OClose 0;
    OStart 3 xc [TVar 3] ].
Definition de : engine := fst (fst (erun 1 0 80 dprep init_engine [])).
Definition dh : store := snd (fst (erun 1 0 80 dprep init_engine [])).
Definition dops : list op := [ONext 3; ONext 1; ONext 3; ONext 2].
Definition xobs1 (t : term) : obs := otag "ans" [term_obs t].

Ltac start_ok_tac :=
  let q' := fresh "q" in let c' := fresh "c" in let N := fresh "N" in let H := fresh "H" in
  let v := fresh "v" in let Hv := fresh "Hv" in
  intros q' c' N H v Hv; vm_compute in H;
  do 4 (destruct q' as [|q'];
          [ first [ discriminate H
                  | exfalso; apply N; reflexivity
                  | inversion H; subst c'; clear H; unfold argvar; cbn [cargs]; cbn [map rn existsb occurs] in *;
                    rewrite ?orb_false_r in *; apply Nat.eqb_eq in Hv; subst v; vm_compute; reflexivity ] | ]);
  discriminate H.

(* hist_ok unfolded naively duplicates the state at every step; step by step with the computed states instead *)
Lemma hist_ok_cons n i fuel o r e h e' h' ob :
  estep fuel n i o e h = (e', h', ob) -> op_ok n i e o -> hist_ok n i fuel r e' h' -> hist_ok n i fuel (o :: r) e h.
Proof. intros E O H. cbn [hist_ok]. rewrite E. split; assumption. Qed.

Lemma ex_hist_ok_d : hist_ok 1 0 80 dprep init_engine [].
Proof.
  unfold dprep.
  repeat (eapply hist_ok_cons; [vm_compute; reflexivity | first [exact I | cbn [op_ok]; start_ok_tac] | ]).
  exact I.
Qed.

Lemma ex_deep :
  hist_ok 1 0 80 dprep init_engine [] /\ Forall qop dops /\ nowrite 1 0 80 dops de dh
  /\ pick 3 dops (snd (erun 1 0 80 dops de dh)) = [xans "a"; otag "done" []]
  /\ pick 1 dops (snd (erun 1 0 80 dops de dh)) = [xobs1 (xS (xS (xA "z")))]
  /\ pick 2 dops (snd (erun 1 0 80 dops de dh)) = [xobs1 (xS (xS (xS (xA "z"))))]
  /\ 4 <= length dh
  /\ pick 3 dops (snd (erun 1 0 80 dops de dh))
     = snd (erun 1 0 80 (filter (is_slot 3) dops) de (fP (PQ_of 1 0 de 3) dh))
  /\ pick 1 dops (snd (erun 1 0 80 dops de dh))
     = snd (erun 1 0 80 (filter (is_slot 1) dops) de (fP (PQ_of 1 0 de 1) dh)).
Proof.
  split; [exact ex_hist_ok_d|]. split; [repeat constructor; discriminate|].
  split.
  { vm_compute.
    repeat match goal with
           | |- _ /\ _ => split
           | |- Forall _ _ => constructor
           | |- True => exact I
           | |- _ = _ => reflexivity
           end. }
  vm_compute. repeat split; try reflexivity. repeat constructor.
Qed.
