(* C16, round 4: the OBJECTS that to_python hands out.

   `Engine/GetValue.to_python` gives the Python VALUE of a term.  A Python list is a mutable object: a caller may append
   to a list it received, so it matters which list objects a result is made of.  This file refines the value model by
   an allocation model that follows the evaluation of the code

       Atom.to_python:     return []                      a list display: a NEW list object, every time
       Functor.to_python:  [to_python(args[0])] + to_python(args[1])
                                                          the display [h] (a temporary), the converted tail, and `+`
                                                          which builds a NEW list and keeps neither operand
                           (name, [to_python(v) for v in args])
                                                          a comprehension: a NEW list after its items; the tuple is immutable

   with a counter `k` of the next unused object identity.  Proved for every term, store, fuel and counter:
     * obj_erase   : forgetting the identities gives exactly `to_python` (so the value does not depend on the counter,
                     i.e. not on anything converted before);
     * obj_fresh   : every list object reachable from a result was allocated by this very conversion (identity in
                     [k, k')), and no object occurs twice in one result;
     * obj_disjoint: two conversions, the second starting where the first stopped or later, share no list object -
                     whatever the caller does to the lists of the first result cannot be seen through the second.
   The conversion takes no heap as input: the code reads no list object that existed before the call (that is the
   modelling statement the check ties to the implementation: every result is changed in place by the harness, all
   conversions are repeated, and no list object may be met twice). *)
From Coq Require Import String.
From Coq Require Import List ZArith Lia Bool.
Import ListNotations.
From YP Require Import Base.Str Term.Term Engine.GetValue.

Inductive oval :=
| OStr (x : str) | OInt (z : Z) | ONone
| OList (a : nat) (l : list oval)
| OPair (name : str) (a : nat) (args : list oval).
Inductive ores := OOk (v : oval) | OErr (e : pyerr) | OOof.

Fixpoint erase (v : oval) : pyval :=
  match v with
  | OStr x => PStr x | OInt z => PInt z | ONone => PNone
  | OList _ l => PList (map erase l)
  | OPair f _ l => PPair f (map erase l)
  end.
Definition eres (r : ores) : pres :=
  match r with OOk v => POk (erase v) | OErr e => PErr e | OOof => POof end.

(* identities of the mutable objects reachable from a result *)
Fixpoint addrs (v : oval) : list nat :=
  match v with
  | OList a l => a :: flat_map addrs l
  | OPair _ a l => a :: flat_map addrs l
  | _ => []
  end.

Fixpoint mapO (f : term -> nat -> ores * nat) (l : list term) (k : nat) : (ores + list oval) * nat :=
  match l with
  | [] => (inr [], k)
  | x :: r => match f x k with
              | (OOk y, k1) => match mapO f r k1 with
                               | (inr ys, k2) => (inr (y :: ys), k2)
                               | e => e
                               end
              | (e, k1) => (inl e, k1)
              end
  end.

Fixpoint to_python_obj (n : nat) (s : store) (t : term) (k : nat) : ores * nat :=
  match n with
  | O => (OOof, k)
  | S n' =>
      match t with
      | TAtom a => if str_eqb a nil_name then (OOk (OList k []), S k) else (OOk (OStr a), k)
      | TInt z => (OOk (OInt z), k)
      | TStr x => (OOk (OStr x), k)
      | TVar v => match gv n' s t with
                  | None => (OOof, k)
                  | Some (TVar _) => (OOk ONone, k)
                  | Some r => to_python_obj n' s r k
                  end
      | TFun f args =>
          if str_eqb f dot then
            match args with
            | a0 :: rest =>
                match to_python_obj n' s a0 k with
                | (OOk h, k1) =>
                    (* the display [h] is a temporary object with identity k1 *)
                    match rest with
                    | a1 :: _ => match to_python_obj n' s a1 (S k1) with
                                 | (OOk (OList _ l), k2) => (OOk (OList k2 (h :: l)), S k2)
                                 | (OOk _, k2) => (OErr TypeError, k2)
                                 | e => e
                                 end
                    | [] => (OErr IndexError, S k1)
                    end
                | e => e
                end
            | [] => (OErr IndexError, k)
            end
          else match mapO (to_python_obj n' s) args k with
               | (inr vs, k1) => (OOk (OPair f k1 vs), S k1)
               | (inl e, k1) => (e, k1)
               end
      end
  end.

(* ------------------------------------------------------------------ the value is the one of to_python *)

Definition eresl (r : ores + list oval) : pres + list pyval :=
  match r with inl e => inl (eres e) | inr vs => inr (map erase vs) end.

Lemma mapO_erase (f : term -> nat -> ores * nat) (g : term -> pres) l :
  (forall x k, In x l -> eres (fst (f x k)) = g x) ->
  forall k, eresl (fst (mapO f l k)) = mapP g l.
Proof.
  induction l as [|x r IH]; intros H k; [reflexivity|].
  cbn [mapO mapP]. pose proof (H x k (or_introl eq_refl)) as Hx.
  destruct (f x k) as [rx k1]. cbn [fst] in Hx. rewrite <- Hx.
  assert (Hr : forall x0 k0, In x0 r -> eres (fst (f x0 k0)) = g x0) by (intros; apply H; right; assumption).
  specialize (IH Hr k1).
  destruct rx as [y|e|]; cbn [eres]; try reflexivity.
  rewrite <- IH. destruct (mapO f r k1) as [[e|ys] k2]; reflexivity.
Qed.

Theorem obj_erase n : forall s t k, eres (fst (to_python_obj n s t k)) = to_python n s t.
Proof.
  induction n as [|n IH]; intros s t k; [reflexivity|].
  destruct t as [a|z|x|v|f args]; cbn [to_python_obj to_python].
  - destruct (str_eqb a nil_name); reflexivity.
  - reflexivity.
  - reflexivity.
  - destruct (gv n s (TVar v)) as [[a|z|x|w|f args]|]; try reflexivity; apply IH.
  - destruct (str_eqb f dot).
    + destruct args as [|a0 rest]; [reflexivity|].
      pose proof (IH s a0 k) as H0. destruct (to_python_obj n s a0 k) as [r0 k1]. cbn [fst] in H0. rewrite <- H0.
      destruct r0 as [h|e|]; cbn [eres]; try reflexivity.
      destruct rest as [|a1 rest']; [reflexivity|].
      pose proof (IH s a1 (S k1)) as H1. destruct (to_python_obj n s a1 (S k1)) as [r1 k2]. cbn [fst] in H1. rewrite <- H1.
      destruct r1 as [[x|z|  |a l|g a l]|e|]; reflexivity.
    + pose proof (mapO_erase (to_python_obj n s) (to_python n s) args (fun x k0 _ => IH s x k0) k) as H.
      destruct (mapO (to_python_obj n s) args k) as [[e|vs] k1]; cbn [fst eresl] in H; rewrite <- H; reflexivity.
Qed.

(* the value of a conversion does not depend on what was allocated before it *)
Corollary obj_value_independent n s t k k' :
  eres (fst (to_python_obj n s t k)) = eres (fst (to_python_obj n s t k')).
Proof. rewrite !obj_erase. reflexivity. Qed.

(* ------------------------------------------------------------------ every reachable list object is new *)

Definition fresh_in (k k' : nat) (l : list nat) : Prop := NoDup l /\ forall a, In a l -> k <= a < k'.

Lemma fresh_in_app k k1 k2 l1 l2 : k <= k1 -> k1 <= k2 -> fresh_in k k1 l1 -> fresh_in k1 k2 l2 -> fresh_in k k2 (l1 ++ l2).
Proof.
  intros Hk Hk' [N1 B1] [N2 B2]. split.
  - induction l1 as [|a r IH]; [exact N2|]. cbn. inversion N1 as [|a' r' Hn Hr]; subst. constructor.
    + rewrite in_app_iff. intros [Hi|Hi]; [exact (Hn Hi)|].
      specialize (B1 a (or_introl eq_refl)). specialize (B2 a Hi). lia.
    + apply IH; [exact Hr|]. intros b Hb. apply B1. right. exact Hb.
  - intros a. rewrite in_app_iff. intros [Hi|Hi]; [specialize (B1 a Hi)|specialize (B2 a Hi)]; lia.
Qed.

Lemma fresh_in_widen k0 k k' k1 l : k0 <= k -> k' <= k1 -> fresh_in k k' l -> fresh_in k0 k1 l.
Proof. intros H0 H1 [N B]. split; [exact N|]. intros a Ha. specialize (B a Ha). lia. Qed.

Lemma fresh_in_cons k k' a l : k <= k' -> fresh_in k k' l -> k' <= a -> fresh_in k (S a) (a :: l).
Proof.
  intros Hkk [N B] Ha. split.
  - constructor; [|exact N]. intros Hi. specialize (B a Hi). lia.
  - intros b [<-|Hb]; [|specialize (B b Hb)]; lia.
Qed.

Lemma mapO_fresh (f : term -> nat -> ores * nat) l :
  (forall x k r k', In x l -> f x k = (r, k') -> k <= k' /\ forall v, r = OOk v -> fresh_in k k' (addrs v)) ->
  forall k r k', mapO f l k = (r, k') ->
    k <= k' /\ forall vs, r = inr vs -> fresh_in k k' (flat_map addrs vs).
Proof.
  induction l as [|x rest IH]; intros H k r k' E.
  - cbn in E. injection E as <- <-. split; [lia|]. intros vs Hv. injection Hv as <-. split; [constructor|intros a []].
  - cbn [mapO] in E. destruct (f x k) as [rx k1] eqn:Ex.
    destruct (H x k rx k1 (or_introl eq_refl) Ex) as [Hk Hx].
    assert (Hr : forall x0 k0 r0 k0', In x0 rest -> f x0 k0 = (r0, k0') -> k0 <= k0' /\ forall v, r0 = OOk v -> fresh_in k0 k0' (addrs v))
      by (intros; eapply H; [right|]; eassumption).
    destruct rx as [y|e|].
    + destruct (mapO f rest k1) as [[e|ys] k2] eqn:Em.
      * injection E as <- <-. destruct (IH Hr k1 _ _ Em) as [Hk2 _]. split; [lia|]. intros vs Hv. discriminate.
      * injection E as <- <-. destruct (IH Hr k1 _ _ Em) as [Hk2 Hys]. split; [lia|].
        intros vs Hv. injection Hv as <-. cbn [flat_map].
        eapply fresh_in_app; [exact Hk|exact Hk2|apply Hx; reflexivity|apply Hys; reflexivity].
    + injection E as <- <-. split; [exact Hk|]. intros vs Hv. discriminate.
    + injection E as <- <-. split; [exact Hk|]. intros vs Hv. discriminate.
Qed.

Lemma mapO_inl (f : term -> nat -> ores * nat) l : forall k e k', mapO f l k = (inl e, k') -> forall v, e <> OOk v.
Proof.
  induction l as [|x rest IH]; intros k e k' E v; cbn [mapO] in E; [discriminate|].
  destruct (f x k) as [[y|e0|] k1].
  - destruct (mapO f rest k1) as [[e1|ys] k2] eqn:Em; [|discriminate]. injection E as <- <-. eapply IH. exact Em.
  - injection E as <- <-. discriminate.
  - injection E as <- <-. discriminate.
Qed.

Theorem obj_fresh_gen n : forall s t k r k', to_python_obj n s t k = (r, k') ->
  k <= k' /\ forall v, r = OOk v -> fresh_in k k' (addrs v).
Proof.
  induction n as [|n IH]; intros s t k r k' E.
  { cbn in E. injection E as <- <-. split; [lia|]. intros v Hv. discriminate. }
  assert (Hnil : forall j j', j <= j' -> fresh_in j j' []) by (intros; split; [constructor|intros a []]).
  destruct t as [a|z|x|v|f args]; cbn [to_python_obj] in E.
  - destruct (str_eqb a nil_name); injection E as <- <-; (split; [lia|]); intros v Hv; injection Hv as <-; cbn [addrs flat_map].
    + apply (fresh_in_cons k k k []); [lia|apply Hnil; lia|lia].
    + apply Hnil. lia.
  - injection E as <- <-. split; [lia|]. intros v Hv. injection Hv as <-. apply Hnil. lia.
  - injection E as <- <-. split; [lia|]. intros v Hv. injection Hv as <-. apply Hnil. lia.
  - destruct (gv n s (TVar v)) as [[a|z|x|w|f args]|]; try (eapply IH; exact E);
      injection E as <- <-; (split; [lia|]); intros v0 Hv; try discriminate; injection Hv as <-; apply Hnil; lia.
  - destruct (str_eqb f dot).
    + destruct args as [|a0 rest]; [injection E as <- <-; split; [lia|]; intros v Hv; discriminate|].
      destruct (to_python_obj n s a0 k) as [r0 k1] eqn:E0. destruct (IH s a0 k r0 k1 E0) as [Hk0 H0].
      destruct r0 as [h|e|]; [|injection E as <- <-; split; [exact Hk0|]; intros v Hv; discriminate ..].
      destruct rest as [|a1 rest']; [injection E as <- <-; split; [lia|]; intros v Hv; discriminate|].
      destruct (to_python_obj n s a1 (S k1)) as [r1 k2] eqn:E1. destruct (IH s a1 (S k1) r1 k2 E1) as [Hk1 H1].
      destruct r1 as [[x|z|  |a l|g a l]|e|]; injection E as <- <-; (split; [lia|]); intros v Hv; try discriminate.
      injection Hv as <-. cbn [addrs flat_map].
      specialize (H0 h eq_refl). specialize (H1 (OList a l) eq_refl). cbn [addrs] in H1.
      assert (Hl : fresh_in (S k1) k2 (flat_map addrs l)).
      { destruct H1 as [N B]. inversion N as [|a' r' Hn Hr]; subst. split; [exact Hr|]. intros b Hb. apply B. right. exact Hb. }
      apply (fresh_in_cons k k2); [lia| |lia].
      eapply fresh_in_app; [exact Hk0| |exact H0|eapply fresh_in_widen; [| |exact Hl]]; lia.
    + destruct (mapO (to_python_obj n s) args k) as [[e|vs] k1] eqn:Em;
        destruct (mapO_fresh (to_python_obj n s) args (fun x k0 r0 k0' _ E0 => IH s x k0 r0 k0' E0) k _ _ Em) as [Hk Hvs].
      * injection E as <- <-. split; [exact Hk|]. intros v Hv. exfalso. exact (mapO_inl _ _ _ _ _ Em v Hv).
      * injection E as <- <-. split; [lia|]. intros v Hv. injection Hv as <-. cbn [addrs].
        apply (fresh_in_cons k k1); [lia|apply Hvs; reflexivity|lia].
Qed.

(* every list object of a result has been created by this conversion, and none occurs twice in it *)
Theorem obj_fresh n s t k v k' : to_python_obj n s t k = (OOk v, k') ->
  k <= k' /\ NoDup (addrs v) /\ forall a, In a (addrs v) -> k <= a < k'.
Proof.
  intros E. destruct (obj_fresh_gen n s t k _ _ E) as [Hk H]. destruct (H v eq_refl) as [N B]. auto.
Qed.

(* two conversions - any terms, any stores, any fuel - of which the second starts at or after the point where the
   first stopped share no list object: what a caller does to the lists of one result is invisible in the other *)
Theorem obj_disjoint n1 s1 t1 k1 v1 k1' n2 s2 t2 k2 v2 k2' :
  to_python_obj n1 s1 t1 k1 = (OOk v1, k1') -> k1' <= k2 -> to_python_obj n2 s2 t2 k2 = (OOk v2, k2') ->
  forall a, In a (addrs v1) -> ~ In a (addrs v2).
Proof.
  intros E1 Hk E2 a H1 H2.
  destruct (obj_fresh _ _ _ _ _ _ E1) as (_ & _ & B1). destruct (obj_fresh _ _ _ _ _ _ E2) as (_ & _ & B2).
  specialize (B1 a H1). specialize (B2 a H2). lia.
Qed.

(* the same term converted twice: equal values, no common object *)
Corollary obj_twice n s t k v1 k1 v2 k2 :
  to_python_obj n s t k = (OOk v1, k1) -> to_python_obj n s t k1 = (OOk v2, k2) ->
  erase v1 = erase v2 /\ forall a, In a (addrs v1) -> ~ In a (addrs v2).
Proof.
  intros E1 E2. split.
  - pose proof (obj_value_independent n s t k k1) as H. rewrite E1, E2 in H. cbn in H. injection H as H. exact H.
  - eapply obj_disjoint; [exact E1|apply le_n|exact E2].
Qed.

(* non-vacuity: [[], f([]), []] converted twice from identity 0: three + ... distinct objects each time *)
Example obj_example :
  let t := TFun dot [TAtom nil_name; TFun dot [TFun (d "f"%string) [TAtom nil_name]; TFun dot [TAtom nil_name; TAtom nil_name]]] in
  exists v1 k1 v2 k2, to_python_obj 20 [] t 0 = (OOk v1, k1) /\ to_python_obj 20 [] t k1 = (OOk v2, k2) /\
    erase v1 = PList [PList []; PPair (d "f"%string) [PList []]; PList []] /\ length (addrs v1) = 5 /\ k1 = 11 /\
    addrs v1 <> addrs v2.
Proof. vm_compute. do 4 eexists. repeat split. discriminate. Qed.
