(* Sem/Machine.query extended with a database of dynamic facts, as YP.query runs them: the facts of
   name/arity first, in order (each matched against a copy with new variables: Answer.match), then the
   compiled function / builtin.  With an empty database it IS Sem.Machine.query (queryF_nofacts). *)
From Coq Require Import String.
From Coq Require Import List Arith Bool Lia ZArith NArith.
Import ListNotations.
From YP Require Import Base.Str Term.Term Term.Fast Unify.Unify Unify.Fast Comp.IR Comp.CompileBody
  Sem.IRSem Sem.Machine Unify.UnifyGen Engine.GenMachine Engine.IRMachine.
Local Open Scope list_scope.

(* answers of the facts, "an exception ended it", the cell counter afterwards *)
Fixpoint fact_answers (fs : list fact) (args : list term) (s : st) : list st * bool * nat :=
  match fs with
  | [] => ([], false, nxt s)
  | (m, vals) :: r =>
      let s1 := {| sto := sto s; nxt := nxt s + m |} in
      match unify_arrays_fast ufuel (sto s) args (map (fact_shift (nxt s)) vals) with
      | UOk s' => let '(ys, e, nx) := fact_answers r args s1 in ({| sto := s'; nxt := nxt s + m |} :: ys, e, nx)
      | UFail => fact_answers r args s1
      | _ => ([], true, nxt s + m)
      end
  end.

Section QF.
Variable p : ir_program.
Variable F : str -> nat -> list fact.

Fixpoint queryF (n : nat) (name : str) (args : list term) (s : st) {struct n} : list st * bool :=
  match n with
  | O => ([], true)
  | S n' =>
      let '(fa, fe, nx) := fact_answers (F name (length args)) args s in
      if fe then (fa, true) else
      let s' := {| sto := sto s; nxt := nx |} in
      let '(ys, e) :=
        match find_func p name (length args) with
        | Some f =>
            let '(ys, k) := run_function (Machine.iter (queryF n')) assign (fn_body f) (bind_args 0 args, s') in
            (map snd ys, match k with CErr => true | _ => false end)
        | None =>
            match builtin (queryF n') name args s' with
            | Some r => r
            | None => ([], false)
            end
        end in
      (fa ++ ys, e)
  end.
End QF.

(* ---- with an empty database: Sem.Machine.query ---- *)
Section Ext.
  Variable J J' : expr -> cfg -> list cfg * bool.
  Hypothesis HJ : forall it c, J it c = J' it c.

  Lemma loop_ext (b b' : cfg -> flags -> list cfg * compl * flags) : (forall s f, b s f = b' s f) ->
    forall e xs f, IRSem.loop b e xs f = IRSem.loop b' e xs f.
  Proof.
    intros Hb e xs. induction xs as [|x r IH]; intros f; cbn [IRSem.loop]; [reflexivity|].
    rewrite Hb. destruct (b' x f) as [[ys k] f1]. destruct k; auto. rewrite IH. reflexivity.
  Qed.

  Fixpoint exec_stmt_ext (st : stmt) : forall s f, exec_stmt J assign st s f = exec_stmt J' assign st s f.
  Proof.
    assert (L: forall c s f, (fix go (c : list stmt) : Prop := match c with [] => True | x :: r =>
                 (forall s f, exec_stmt J assign x s f = exec_stmt J' assign x s f) /\ go r end) c ->
               exec_list J assign c s f = exec_list J' assign c s f).
    { induction c as [|x r IH]; intros s f H; [reflexivity|]. destruct H as [Hx Hr].
      destruct x; cbn [exec_list]; try (rewrite Hx; destruct (exec_stmt J' assign _ s f) as [[ys k] f1];
        destruct k; auto; rewrite (IH s f1 Hr); reflexivity).
      apply IH. exact Hr. }
    intros s f. rewrite !exec_stmt_eq. destruct st as [x e|it body| | | |l body|l]; auto.
    - rewrite HJ. destruct (J' it s) as [xs e]. f_equal. apply loop_ext. intros s' f'. apply L.
      induction body as [|b r IH]; [exact I|]. split; [apply exec_stmt_ext|exact IH].
    - f_equal. apply L. induction body as [|b r IH]; [exact I|]. split; [apply exec_stmt_ext|exact IH].
  Qed.

  Lemma exec_list_ext c : forall s f, exec_list J assign c s f = exec_list J' assign c s f.
  Proof.
    induction c as [|x r IH]; intros s f; [reflexivity|].
    destruct x; cbn [exec_list]; try (rewrite exec_stmt_ext; destruct (exec_stmt J' assign _ s f) as [[ys k] f1];
      destruct k; auto; rewrite IH; reflexivity).
    apply IH.
  Qed.
End Ext.

Lemma iter_ext (c c' : str -> list term -> st -> list st * bool) : (forall n a s, c n a s = c' n a s) ->
  forall it x, Machine.iter c it x = Machine.iter c' it x.
Proof.
  intros H it [r s]. unfold Machine.iter. destruct it as [v|q|q|f args|items]; auto.
  destruct args as [|a [|b [|cc rest]]]; auto.
  destruct (str_eqb f (s_ "unify")); auto. destruct (str_eqb f (s_ "query")); auto.
  destruct a; auto. destruct b; auto. rewrite H. reflexivity.
Qed.

Lemma builtin_ext (c c' : str -> list term -> st -> list st * bool) : (forall n a s, c n a s = c' n a s) ->
  forall name args s, builtin c name args s = builtin c' name args s.
Proof.
  intros H name args s. unfold builtin, call_goal.
  destruct (str_eqb name (s_ "=")); auto. destruct (str_eqb name (s_ "\=")); auto.
  destruct (str_eqb name (s_ "call")).
  { destruct args as [|g extra]; auto. destruct (den_fast (sto s) g); auto; rewrite H; reflexivity. }
  destruct (str_eqb name (s_ "once")).
  { destruct args as [|g [|b rest]]; auto. destruct (den_fast (sto s) g); auto; rewrite H; reflexivity. }
  destruct (str_eqb name (s_ "findall")); auto.
  destruct args as [|t [|g [|l [|cc rest]]]]; auto. destruct (den_fast (sto s) g); auto; rewrite H; reflexivity.
Qed.

Theorem queryF_nofacts p n : forall name args s, queryF p (fun _ _ => []) n name args s = query n p name args s.
Proof.
  induction n as [|n IH]; intros name args s; [reflexivity|].
  cbn [queryF query fact_answers app].
  replace {| sto := sto s; nxt := nxt s |} with s by (destruct s; reflexivity).
  destruct (find_func p name (length args)) as [f|].
  - unfold run_function. rewrite (exec_list_ext _ _ (iter_ext _ _ IH)).
    destruct (exec_list (Machine.iter (query n p)) assign (fn_body f) (bind_args 0 args, s) flags0) as [[ys k] f1]. reflexivity.
  - rewrite (builtin_ext _ _ IH). destruct (builtin (query n p) name args s) as [[ys e]|]; reflexivity.
Qed.
