(* machine_refines_irsem: the small-step frame machine (GenMachine / IRMachine: generator objects,
   suspension at `yield`, resumption, an explicit stack of open iterators, destructive bindings
   undone by `finally`) and the big-step semantics of the intermediate code (Sem/IRSem.v,
   Sem/Machine.v: answer LISTS of persistent stores) are the same object:

     for every IR program whose function bodies declare their variables at the top level (every
     compiled program does), every query, every well-formed heap h and cell counter nx, every
     recursion limit d:  resuming the query's generator object until it ends yields, in order,
     exactly the stores of  Sem.Machine.queryF ir DB d name args {sto := h; nxt := nx},  and it ends
     by StopIteration / by an exception exactly as the big-step semantics says.

   The proof uses the restoration theorems of Restore.v: when control comes back to a suspended
   iterator, the heap is again the one at which it was suspended. *)
From Coq Require Import String.
From Coq Require Import List Arith Bool Lia ZArith NArith.
Import ListNotations.
From YP Require Import Base.Str Term.Term Term.Fast Term.Dfast Unify.Unify Unify.Fast Unify.UnifyGen Unify.UnifyGenFast Comp.IR Comp.CompileBody
  Sem.IRSem Sem.Machine Engine.GenMachine Engine.Restore Engine.MachineMono Engine.IRMachine Engine.QueryFacts.
Local Open Scope string_scope.
Local Open Scope list_scope.

Definition nofacts : str -> nat -> list fact := fun _ _ => [].
Definition nouser : str -> list term -> option (code lx fr callp * fr) := fun _ _ => None.

(* function bodies as the compiler produces them: assignments (head aliases, variable
   declarations) only at the top level of the body, never inside a loop or block *)
Fixpoint noassign (s : stmt) : bool :=
  let nl := fix nl (c : list stmt) : bool := match c with [] => true | s :: r => noassign s && nl r end in
  match s with
  | SAssign _ _ => false
  | SForeach _ body => nl body
  | SBlock _ body => nl body
  | _ => true
  end.
Fixpoint noassign_list (c : list stmt) : bool := match c with [] => true | s :: r => noassign s && noassign_list r end.
Definition top_stmt (s : stmt) : bool := match s with SAssign _ _ => true | _ => noassign s end.
Definition top_ok (c : list stmt) : bool := forallb top_stmt c.
Definition ir_ok (ir : ir_program) : Prop := forall f, In f ir -> top_ok (fn_body f) = true.

Section StmtInd.
  Variable P : stmt -> Prop.
  Hypothesis Ha : forall x e, P (SAssign x e).
  Hypothesis Hf : forall it body, Forall P body -> P (SForeach it body).
  Hypothesis Hyf : P SYieldFalse.
  Hypothesis Hyt : P SYieldTrue.
  Hypothesis Hr : P SReturn.
  Hypothesis Hb : forall l body, Forall P body -> P (SBlock l body).
  Hypothesis Hbb : forall l, P (SBreakBlock l).
  Fixpoint stmt_ind' (s : stmt) : P s :=
    let go := fix go (c : list stmt) : Forall P c :=
        match c with [] => Forall_nil P | x :: r => Forall_cons x (stmt_ind' x) (go r) end in
    match s with
    | SAssign x e => Ha x e
    | SForeach it body => Hf it body (go body)
    | SYieldFalse => Hyf | SYieldTrue => Hyt | SReturn => Hr
    | SBlock l body => Hb l body (go body)
    | SBreakBlock l => Hbb l
    end.
End StmtInd.

Lemma find_func_in p name ar f : find_func p name ar = Some f -> In f p.
Proof.
  induction p as [|g r IH]; simpl; [discriminate|].
  destruct (str_eqb (fn_name g) name && Nat.eqb (fn_arity g) ar).
  - intros H. inversion H; subst. auto.
  - intros H. auto.
Qed.

Definition callT := str -> list term -> st -> list st * bool.

(* ------------------------------------------------------------------------------------------------
   GENERIC PART: any machine program `prog` (what a call `query(name, args)` runs) and any big-step
   call semantics `BQ d` (d = remaining depth).  Everything up to FSpec_nexts / gen_refines depends on
   the two only through CallOK: "the generator object of a call yields the answers of BQ d". *)
Section Gen.
  Variable prog : callp -> code lx fr callp * fr.
  Variable BQ : nat -> callT.
  Definition mq (name : str) (args : list term) (nx : nat) : GenMachine.iter leaf lx fr callp :=
    IFresh (fst (prog (name, args, nx))) (snd (prog (name, args, nx))).
  Notation mexec := (exec mkleaf lnext lclose prog f_nxt).
  Notation mcont := (cont mkleaf lnext lclose prog f_nxt).
  Notation mloop := (loop mkleaf lnext lclose prog f_nxt).
  Notation minext := (inext mkleaf lnext lclose prog f_nxt).
  Notation miter := (GenMachine.iter leaf lx fr callp).
  Notation mkont := (kont leaf lx fr callp).
  Notation mcode := (code lx fr callp).
  Notation MInv := (@Inv leaf lx fr callp linv).
  Notation mclose := (iclose (L:=leaf) (X:=lx) (E:=fr) (P:=callp) lclose).
  Notation munwind := (unwind (L:=leaf) (X:=lx) (E:=fr) (P:=callp) lclose).
  Notation mres := (option (heap * miter * GenMachine.res)).
  Notation kn := (knxt (L:=leaf) (X:=lx) (P:=callp) f_nxt).

  Definition it_nxt (g0 : nat) (it : miter) : nat := match it with ISusp kk ee => kn kk ee | _ => g0 end.
  Lemma kn_loop it b k e : kn (KLoop it b k) e = it_nxt (kn k e) it.
  Proof. destruct it; reflexivity. Qed.
  Lemma kn_setfl k : forall e f, kn k (setfl e f) = kn k e.
  Proof.
    induction k as [|c k IH|it b k IH]; intros e f; cbn [knxt]; auto.
    destruct it; auto.
  Qed.
  Lemma setfl_same e : setfl e (f_fl e) = e.
  Proof. destruct e; reflexivity. Qed.
  Lemma mkst_eta x : mkst (sto x) (nxt x) = x.
  Proof. destruct x; reflexivity. Qed.

  (* "F, given enough fuel, yields the states xs one after the other (each time resumed at
     recursion depth D) and then ends with rf" *)
  Fixpoint FSpec (D g0 : nat) (xs : list st) (rf : GenMachine.res) (F : nat -> mres) : Prop :=
    match xs with
    | [] => exists N hf it', forall n, N <= n -> F n = Some (hf, it', rf)
    | x :: r => exists N it', (forall n, N <= n -> F n = Some (sto x, it', RYield)) /\
                  it_nxt g0 it' = nxt x /\ wf (sto x) /\
                  FSpec D g0 r rf (fun n => minext n D (sto x) it')
    end.

  Lemma FSpec_ev D g0 xs rf (F G : nat -> mres) :
    (exists N0 a b, forall n, N0 <= n -> F (a + n) = G (b + n)) -> FSpec D g0 xs rf G -> FSpec D g0 xs rf F.
  Proof.
    intros [N0 [a [b E]]] H. destruct xs as [|x r]; cbn [FSpec] in *.
    - destruct H as [N [hf [it' H]]]. exists (a + N0 + N), hf, it'. intros n L.
      replace n with (a + (n - a)) by lia. rewrite E by lia. apply H. lia.
    - destruct H as [N [it' [H R]]]. exists (a + N0 + N), it'. split; auto. intros n L.
      replace n with (a + (n - a)) by lia. rewrite E by lia. apply H. lia.
  Qed.
  Lemma FSpec_S D g0 xs rf (F G : nat -> mres) :
    (forall n, F (S n) = G n) -> FSpec D g0 xs rf G -> FSpec D g0 xs rf F.
  Proof. intros E. apply FSpec_ev. exists 0, 1, 0. intros n _. apply E. Qed.

  Definition ISpec (D : nat) (h0 : heap) (g0 : nat) (r : list st * bool) (h : heap) (it : miter) : Prop :=
    FSpec D g0 (fst r) (if snd r then RRaise else RStop) (fun n => minext n D h it) /\ MInv h0 it h.

  Definition J (d : nat) := Machine.iter (BQ d).
  Definition XL (d : nat) := IRSem.exec_list (J d) assign.
  Definition XS (d : nat) := IRSem.exec_stmt (J d) assign.

  Definition Kont (g0 d : nat) (kc : compl) (h : heap) (k : mkont) (e : fr) (ys : list st) (rf : GenMachine.res) : Prop :=
    match kc with
    | CNorm => FSpec (S d) g0 ys rf (fun n => mcont n d h k e)
    | CBrk => FSpec (S d) g0 ys rf (fun n => mexec n d h CBreak k e)
    | CRet => ys = [] /\ rf = RStop
    | CErr => ys = [] /\ rf = RRaise
    end.

  Definition Qs (e : fr) (f' : flags) (e2 : fr) : Prop := e2 = setfl e f'.
  Definition Qt (e : fr) (f' : flags) (e2 : fr) : Prop := f_fl e2 = f'.

  Definition SimQ (Q : fr -> flags -> fr -> Prop) (d : nat) (B : mcode)
      (run : cfg -> flags -> list cfg * compl * flags) (k : mkont) : Prop :=
    forall g0 e h xs kc f' ys rf, wf h ->
      run (f_env e, mkst h (kn k e)) (f_fl e) = (xs, kc, f') ->
      (forall e2, Q e f' e2 -> Kont g0 d kc h k e2 ys rf) ->
      FSpec (S d) g0 (map snd xs ++ ys) rf (fun n => mexec n d h B k e).
  Notation Sim := (SimQ Qs).

  Lemma restore_next n d h0 it h h' it' r :
    MInv h0 it h -> minext n d h it = Some (h', it', r) ->
    MInv h0 it' h' /\ (r = RStop -> h' = h0) /\ mclose h' it' = h0.
  Proof. apply (frame_next_restores mkleaf lnext lclose prog f_nxt L_new L_next L_close). Qed.
  Lemma restore_close h0 it h : MInv h0 it h -> mclose h it = h0.
  Proof. apply (frame_close_restores lclose L_close). Qed.
  Arguments restore_next {n d h0 it h h' it' r}.
  Arguments restore_close {h0 it h}.

  (* ---------------------------------------------------------------- loops *)
  Lemma loop_sim d (B : mcode) (k : mkont) (body : cfg -> flags -> list cfg * compl * flags) :
    (forall it', Sim d B body (KLoop it' B k)) ->
    forall g0 xs_it err h0 r_env, wf h0 ->
    forall e hcur itcur res_xs kc f' ys rf, f_env e = r_env ->
      ISpec d h0 (kn k e) (xs_it, err) hcur itcur ->
      IRSem.loop body err (map (fun x => (r_env, x)) xs_it) (f_fl e) = (res_xs, kc, f') ->
      Kont g0 d kc h0 k (setfl e f') ys rf ->
      FSpec (S d) g0 (map snd res_xs ++ ys) rf (fun n => mloop n d hcur itcur B k e).
  Proof.
    intros HB g0 xs_it err h0 r_env W0. induction xs_it as [|x r IH]; intros e hcur itcur res_xs kc f' ys rf Er [HF HI] HL HK.
    - cbn [map IRSem.loop] in HL. cbn [fst snd FSpec] in HF. destruct HF as [N [hf [it' HF]]].
      destruct (restore_next HI (HF N (le_n N))) as [I' [S' C']].
      destruct err; inversion HL; subst res_xs kc f'; cbn [map app].
      + destruct HK as [-> ->]. cbn [FSpec]. exists (S N), (munwind (mclose hf it') k), IDone. intros n L.
        destruct n as [|n]; [lia|]. rewrite loop_S, (HF n) by lia. reflexivity.
      + rewrite (S' eq_refl) in HF. rewrite setfl_same in HK. cbn [Kont] in HK.
        eapply FSpec_ev; [|exact HK]. exists N, 1, 0. intros n L. cbn [Nat.add]. rewrite loop_S, (HF n) by lia. reflexivity.
    - cbn [fst snd FSpec] in HF. destruct HF as [N [it' [HF [Gn [Wx HR]]]]].
      destruct (restore_next HI (HF N (le_n N))) as [I' [_ C']].
      cbn [map IRSem.loop] in HL.
      destruct (body (r_env, x) (f_fl e)) as [[ysb kb] f1] eqn:Eb.
      assert (Est: (f_env e, mkst (sto x) (kn (KLoop it' B k) e)) = (r_env, x)).
      { rewrite kn_loop, Gn, mkst_eta, Er. reflexivity. }
      assert (HS: forall ys', (forall e2, Qs e f1 e2 -> Kont g0 d kb (sto x) (KLoop it' B k) e2 ys' rf) ->
                  FSpec (S d) g0 (map snd ysb ++ ys') rf (fun n => mloop n d hcur itcur B k e)).
      { intros ys' HK'. eapply FSpec_ev; [|eapply (HB it' g0 e (sto x) ysb kb f1 ys' rf Wx); [rewrite Est; exact Eb|exact HK']].
        exists N, 1, 0. intros n L. cbn [Nat.add]. rewrite loop_S, (HF n) by lia. reflexivity. }
      destruct kb.
      + destruct (IRSem.loop body err (map (fun x0 => (r_env, x0)) r) f1) as [[zs k2] f2] eqn:El.
        inversion HL; subst res_xs kc f'. rewrite map_app, <- app_assoc. apply HS.
        intros e2 ->. cbn [Kont]. eapply FSpec_S; [intros n; apply cont_S|]. cbn beta.
        apply (IH (setfl e f1) (sto x) it' zs k2 f2 ys rf); [exact Er| |exact El|exact HK].
        split; [rewrite kn_setfl; exact HR|exact I'].
      + inversion HL; subst res_xs kc f'. apply HS. intros e2 ->. cbn [Kont].
        eapply FSpec_S; [intros n; rewrite exec_S; cbn [pop_loop]; reflexivity|]. cbn beta.
        rewrite (restore_close I'). exact HK.
      + inversion HL; subst res_xs kc f'. apply HS. intros e2 _. exact HK.
      + inversion HL; subst res_xs kc f'. apply HS. intros e2 _. exact HK.
  Qed.

  (* `for _ in [1]: body` *)
  Definition K1 (B : mcode) (k : mkont) : mkont := KLoop (ILeaf (LGen (GSucc true))) B k.
  Lemma one_sim Q d (B : mcode) (k : mkont) (body : cfg -> flags -> list cfg * compl * flags) :
    SimQ Q d B body (K1 B k) ->
    forall g0 e h xs kb f1 ys rf, wf h ->
      body (f_env e, mkst h (kn k e)) (f_fl e) = (xs, kb, f1) ->
      (forall e2, Q e f1 e2 -> Kont g0 d (match kb with CBrk => CNorm | _ => kb end) h k e2 ys rf) ->
      FSpec (S d) g0 (map snd xs ++ ys) rf (fun n => mexec n d h (CFor one_expr B) k e).
  Proof.
    intros HB g0 e h xs kb f1 ys rf W Eb HK.
    eapply FSpec_ev; [|eapply (HB g0 e h xs kb f1 ys rf W); [exact Eb|]].
    - exists 1, 3, 1. intros n L. destruct n as [|n]; [lia|]. cbn [Nat.add].
      rewrite exec_S. cbn [mkiter one_expr mkleaf]. rewrite loop_S, inext_S. cbn [lnext next]. reflexivity.
    - intros e2 Q2. specialize (HK e2 Q2). destruct kb; cbn [Kont] in *; auto.
      + eapply FSpec_ev; [|exact HK]. exists 1, 3, 1. intros n L. destruct n as [|n]; [lia|]. cbn [Nat.add].
        unfold K1. rewrite cont_S, loop_S, inext_S. cbn [lnext next]. reflexivity.
      + eapply FSpec_S; [|exact HK]. intros n. unfold K1. rewrite exec_S. cbn [pop_loop]. reflexivity.
  Qed.

  (* ---------------------------------------------------------------- leaves *)
  Lemma ispec_raise d h g0 : ISpec d h g0 ([], true) h (ILeaf LRaise).
  Proof.
    split; [|constructor; reflexivity]. cbn [fst snd FSpec]. exists 1, h, (ILeaf LRaise).
    intros n L. destruct n as [|n]; [lia|]. reflexivity.
  Qed.

  Lemma unify_fast_mono n m s a b r : unify_fast n s a b = r -> r <> UOof -> n <= m -> unify_fast m s a b = r.
  Proof. rewrite !unify_fast_eq. apply unify_mono. Qed.

  Lemma ispec_unify d h g a b : wf h ->
    ISpec d h g (unify_st (mkst h g) a b) h (ILeaf (mkleaf (XUnify a b) h)).
  Proof.
    intros W. split; [|constructor; apply L_new].
    unfold unify_st. cbn [mkleaf sto nxt mkst]. rewrite mk_unify_x_eq, unify_x_eq, <- unify_fast_eq.
    destruct (unify_fast ufuel h a b) as [s'| | |] eqn:U; cbn [fst snd FSpec].
    - rewrite unify_fast_eq in U.
      destruct (@unify_gen_matches_unify ufuel h a b W) as [A _]. destruct (A _ U) as [g1 [N1 _]].
      destruct (@unify_sound ufuel h a b s' W U) as [W' _].
      pose proof (@next_fresh ufuel h _ _ (mk_unify_fresh h a b) N1) as [[Q1 _] _].
      destruct (quiet_next_total Q1 s') as [n2 [[[h2 g2] y2] N2]].
      destruct (@next_quiet n2 g1 s' h2 g2 y2 Q1 N2) as [Y2 _]. subst y2.
      exists (S ufuel), (ILeaf (LGen g1)). cbn [sto nxt it_nxt]. repeat split; auto.
      + intros n L. destruct n as [|n]; [lia|]. rewrite inext_S. cbn [lnext].
        rewrite next_x_eq, (@next_mono ufuel n _ _ _ N1) by lia. reflexivity.
      + exists (S n2), h2, (ILeaf (LGen g2)). intros n L. destruct n as [|n]; [lia|]. rewrite inext_S. cbn [lnext].
        rewrite next_x_eq, (@next_mono n2 n _ _ _ N2) by lia. reflexivity.
    - rewrite unify_fast_eq in U.
      destruct (@unify_gen_matches_unify ufuel h a b W) as [_ B]. destruct (B U) as [g1 N1].
      exists (S ufuel), h, (ILeaf (LGen g1)). intros n L. destruct n as [|n]; [lia|]. rewrite inext_S. cbn [lnext].
      rewrite next_x_eq, (@next_mono ufuel n _ _ _ N1) by lia. reflexivity.
    - exists 1, h, (ILeaf LRaise). intros n L. destruct n as [|n]; [lia|]. reflexivity.
    - exists 1, h, (ILeaf LRaise). intros n L. destruct n as [|n]; [lia|]. reflexivity.
  Qed.

  (* ---------------------------------------------------------------- statements *)
  Definition CallOK (d : nat) : Prop := forall g0 name args nx h, wf h ->
    ISpec d h g0 (BQ d name args (mkst h nx)) h (mq name args nx).

  Lemma ispec_iter d : CallOK d -> forall it (k : mkont) e h xs err, wf h ->
    J d it (f_env e, mkst h (kn k e)) = (xs, err) ->
    exists xs', xs = map (fun x => (f_env e, x)) xs' /\
      ISpec d h (kn k e) (xs', err) h (mkiter mkleaf prog (it_expr it (kn k e) e h) h).
  Proof.
    intros HC it k e h xs err W HJ. unfold J, Machine.iter in HJ. unfold it_expr.
    assert (R: forall xs' : list st, ([], true) = (xs, err) -> xs' = [] ->
               exists xs', xs = map (fun x => (f_env e, x)) xs' /\
                 ISpec d h (kn k e) (xs', err) h (ILeaf LRaise)).
    { intros _ E _. inversion E; subst. exists []. split; [reflexivity|apply ispec_raise]. }
    destruct it as [v|q|q|f args|items]; try (apply (R [] HJ eq_refl)).
    destruct args as [|a [|b [|c rest]]]; try (apply (R [] HJ eq_refl)).
    destruct (str_eqb f (s_ "unify")).
    - destruct (unify_st (mkst h (kn k e)) (eval_expr (f_env e) a) (eval_expr (f_env e) b)) as [ys ee] eqn:U.
      inversion HJ; subst. exists ys. split; [reflexivity|]. cbn [mkiter]. rewrite <- U. apply ispec_unify. exact W.
    - destruct (str_eqb f (s_ "query")); [|apply (R [] HJ eq_refl)].
      destruct a; try (apply (R [] HJ eq_refl)). destruct b; try (apply (R [] HJ eq_refl)).
      destruct (BQ d s (map (eval_expr (f_env e)) items) (mkst h (kn k e))) as [ys ee] eqn:U.
      inversion HJ; subst. exists ys. split; [reflexivity|]. cbn [mkiter]. rewrite <- U. apply HC. exact W.
  Qed.

  Lemma exec_list_cons (JJ : expr -> cfg -> list cfg * bool) s rest st f : top_stmt s = true ->
    IRSem.exec_list JJ assign (s :: rest) st f =
    match s with
    | SAssign x e => IRSem.exec_list JJ assign rest (assign x e st) f
    | _ => let '(ys, k, f1) := IRSem.exec_stmt JJ assign s st f in
           match k with
           | CNorm => let '(zs, k2, f2) := IRSem.exec_list JJ assign rest st f1 in (ys ++ zs, k2, f2)
           | _ => (ys, k, f1) end
    end.
  Proof. destruct s; reflexivity. Qed.

  Lemma brk_after g0 d h k e ys rf :
    Kont g0 d (if doBreak (f_fl e) then CBrk else CNorm) h k e ys rf ->
    FSpec (S d) g0 ys rf (fun n => mexec n d h brk_code k e).
  Proof.
    intros H. unfold brk_code. destruct (doBreak (f_fl e)) eqn:Db; cbn [Kont] in H.
    - eapply FSpec_S; [|exact H]. intros n. rewrite exec_S, Db. reflexivity.
    - eapply FSpec_S; [|exact H]. intros n. rewrite exec_S, Db. reflexivity.
  Qed.

  Lemma sim_yield d k : Sim d CYield (fun s f => ([s], CNorm, f)) k.
  Proof.
    intros g0 e h xs kc f' ys rf W E HK. inversion E; subst. cbn [map snd app FSpec].
    exists 1, (ISusp k e). cbn [sto nxt mkst it_nxt]. repeat split; auto.
    - intros n L. destruct n as [|n]; [lia|]. reflexivity.
    - specialize (HK _ eq_refl). rewrite setfl_same in HK. cbn [Kont] in HK.
      eapply FSpec_S; [|exact HK]. intros n. reflexivity.
  Qed.

  Lemma sim_list_of d : forall c,
    Forall (fun s => noassign s = true -> forall k, Sim d (tr_stmt s) (XS d s) k) c ->
    noassign_list c = true -> forall k, Sim d (tr_list c) (XL d c) k.
  Proof.
    induction c as [|s rest IH]; intros HF NA k g0 e h xs kc f' ys rf W E HK.
    - cbn in E. inversion E; subst. cbn [map app tr_list]. specialize (HK _ eq_refl). rewrite setfl_same in HK.
      cbn [Kont] in HK. eapply FSpec_S; [|exact HK]. intros n. reflexivity.
    - cbn [noassign_list] in NA. apply andb_prop in NA as [NA1 NA2]. inversion HF as [|? ? Hs Hr]; subst.
      unfold XL in E. rewrite exec_list_cons in E by (destruct s; auto).
      assert (E': (let '(ys0, k0, f1) := XS d s (f_env e, mkst h (kn k e)) (f_fl e) in
                   match k0 with
                   | CNorm => let '(zs, k2, f2) := XL d rest (f_env e, mkst h (kn k e)) f1 in (ys0 ++ zs, k2, f2)
                   | _ => (ys0, k0, f1) end) = (xs, kc, f')) by (destruct s; try discriminate; exact E).
      clear E. destruct (XS d s (f_env e, mkst h (kn k e)) (f_fl e)) as [[ys0 k0] f1] eqn:Es.
      cbn [tr_list].
      assert (HS: forall ys', (forall e2, Qs e f1 e2 -> Kont g0 d k0 h (KSeq (tr_list rest) k) e2 ys' rf) ->
                  FSpec (S d) g0 (map snd ys0 ++ ys') rf (fun n => mexec n d h (CSeq (tr_stmt s) (tr_list rest)) k e)).
      { intros ys' HK'. eapply FSpec_S; [intros n; apply exec_S|]. cbn beta iota.
        apply (Hs NA1 (KSeq (tr_list rest) k) g0 e h ys0 k0 f1 ys' rf W Es HK'). }
      destruct k0.
      + destruct (XL d rest (f_env e, mkst h (kn k e)) f1) as [[zs k2] f2] eqn:Er.
        injection E' as Exs Ekc Ef; subst xs kc f'.
        rewrite map_app, <- app_assoc. apply HS. intros e2 ->. cbn [Kont].
        eapply FSpec_S; [intros n; apply cont_S|]. cbn beta iota.
        apply (IH Hr NA2 k g0 (setfl e f1) h zs k2 f2 ys rf W).
        * rewrite kn_setfl. exact Er.
        * intros e2 Q2. apply (HK e2). unfold Qs in *. rewrite Q2. reflexivity.
      + inversion E'; subst. apply HS. intros e2 ->. cbn [Kont]. specialize (HK _ eq_refl). cbn [Kont] in HK.
        eapply FSpec_ev; [|exact HK]. exists 0, 1, 1. intros n _. cbn [Nat.add]. rewrite !exec_S. reflexivity.
      + inversion E'; subst. apply HS. intros e2 Q2. apply (HK e2 Q2).
      + inversion E'; subst. apply HS. intros e2 Q2. apply (HK e2 Q2).
  Qed.

  Lemma nl_eq c : (fix nl (c : list stmt) : bool := match c with [] => true | s :: r => noassign s && nl r end) c = noassign_list c.
  Proof. induction c as [|s r IH]; cbn; [reflexivity|]. rewrite IH. reflexivity. Qed.
  Lemma noassign_foreach it body : noassign (SForeach it body) = noassign_list body.
  Proof. cbn [noassign]. apply nl_eq. Qed.
  Lemma noassign_block l body : noassign (SBlock l body) = noassign_list body.
  Proof. cbn [noassign]. apply nl_eq. Qed.

  Lemma kn_set_fl k : forall e g, kn k (set_fl g e) = kn k e.
  Proof.
    induction k as [|c k IH|it b k IH]; intros e g; cbn [knxt]; auto.
    destruct it; auto.
  Qed.

  Definition blk_a2 (l : nat) : mcode := CIf (fun e => lab (f_fl e) l) (CAssign (fun _ e _ => set_fl (setbrk false) e)).
  Lemma block_tail g0 d h k e3 l ys rf :
    let f2 := if lab (f_fl e3) l then setbrk false (f_fl e3) else f_fl e3 in
    Kont g0 d (if doBreak f2 then CBrk else CNorm) h k (setfl e3 f2) ys rf ->
    FSpec (S d) g0 ys rf (fun n => mexec n d h (CSeq (blk_a2 l) brk_code) k e3).
  Proof.
    intros f2 HK. unfold blk_a2. destruct (lab (f_fl e3) l) eqn:Lb; subst f2.
    - eapply FSpec_ev; [|apply (brk_after g0 d h k (setfl e3 (setbrk false (f_fl e3)))); exact HK].
      exists 0, 4, 0. intros n _. cbn [Nat.add]. rewrite exec_S, exec_S, Lb, exec_S, cont_S. reflexivity.
    - rewrite setfl_same in HK.
      eapply FSpec_ev; [|apply (brk_after g0 d h k e3); exact HK].
      exists 0, 3, 0. intros n _. cbn [Nat.add]. rewrite exec_S, exec_S, Lb, cont_S. reflexivity.
  Qed.

  Lemma sim_stmt d : CallOK d -> forall s, noassign s = true -> forall k, Sim d (tr_stmt s) (XS d s) k.
  Proof.
    intros HC. induction s as [x ex|it body IHb| | | |l body IHb|l] using stmt_ind'; intros NA k g0 e h xs kc f' ys rf W E HK;
      unfold XS in E; rewrite exec_stmt_eq in E; rewrite tr_stmt_eq.
    - discriminate.
    - (* for lN in it: body; if doBreak: break *)
      rewrite noassign_foreach in NA. pose proof (sim_list_of d body IHb NA) as HB.
      destruct (J d it (f_env e, mkst h (kn k e))) as [xs_it err] eqn:EJ.
      destruct (ispec_iter d HC it (KSeq brk_code k) e h xs_it err W EJ) as [xs' [-> HI]].
      destruct (IRSem.loop (IRSem.exec_list (J d) assign body) err (map (fun x => (f_env e, x)) xs') (f_fl e)) as [[lxs lk] lf] eqn:EL.
      eapply FSpec_ev; [exists 0, 2, 0; intros n _; cbn [Nat.add]; rewrite exec_S, exec_S; reflexivity|].
      assert (Exs: lxs = xs) by (unfold after_loop in E; destruct lk; inversion E; reflexivity). subst lxs.
      apply (loop_sim d (tr_list body) (KSeq brk_code k) (XL d body) (fun it' => HB (KLoop it' (tr_list body) (KSeq brk_code k)))
               g0 xs' err h (f_env e) W e h _ xs lk lf ys rf eq_refl HI EL).
      unfold after_loop in E. destruct lk; cbn [Kont].
      + inversion E; subst kc f'. eapply FSpec_S; [intros n; apply cont_S|]. cbn beta iota.
        apply brk_after. apply HK. reflexivity.
      + inversion E; subst kc f'. specialize (HK _ eq_refl). cbn [Kont] in HK.
        eapply FSpec_ev; [|exact HK]. exists 0, 1, 1. intros n _. cbn [Nat.add]. rewrite !exec_S. reflexivity.
      + inversion E; subst kc f'. apply (HK _ eq_refl).
      + inversion E; subst kc f'. apply (HK _ eq_refl).
    - apply (sim_yield d k g0 e h xs kc f' ys rf W E HK).
    - apply (sim_yield d k g0 e h xs kc f' ys rf W E HK).
    - inversion E; subst. destruct (HK _ eq_refl) as [-> ->]. cbn [map app FSpec].
      exists 1, (munwind h k), IDone. intros n L. destruct n as [|n]; [lia|]. reflexivity.
    - (* breakable block *)
      rewrite noassign_block in NA.
      destruct (IRSem.exec_list (J d) assign body (f_env e, mkst h (kn k e)) (setlab l false (f_fl e))) as [[bxs bk] bf] eqn:EB.
      set (R2 := CSeq (blk_a2 l) brk_code).
      set (e1 := set_fl (setlab l false) e).
      assert (TL: forall e3, f_fl e3 = bf -> (bk = CNorm \/ bk = CBrk) -> setfl e3 bf = setfl e bf ->
                  FSpec (S d) g0 ys rf (fun n => mexec n d h R2 k e3)).
      { intros e3 F3 Hbk E3. apply block_tail. rewrite F3.
        replace (setfl e3 (if lab bf l then setbrk false bf else bf)) with (setfl e (if lab bf l then setbrk false bf else bf)).
        2:{ destruct e3, e; cbn in *. inversion E3; subst. reflexivity. }
        unfold end_block in E. destruct Hbk; subst bk; inversion E; subst; apply HK; reflexivity. }
      eapply FSpec_ev; [exists 0, 4, 0; intros n _; cbn [Nat.add]; rewrite exec_S, exec_S, cont_S, exec_S; reflexivity|].
      fold R2. fold e1.
      destruct body as [|b0 brest].
      + cbn in EB. inversion EB; subst bxs bk bf. unfold end_block in E.
        assert (Ex: xs = []) by (inversion E; reflexivity). subst xs. cbn [map app].
        eapply FSpec_ev; [exists 0, 2, 0; intros n _; cbn [Nat.add]; rewrite exec_S, cont_S; reflexivity|].
        apply TL; auto.
      + pose proof (sim_list_of d (b0 :: brest) IHb NA) as HB.
        assert (Exs: bxs = xs) by (unfold end_block in E; destruct bk; inversion E; reflexivity). subst bxs.
        apply (one_sim Qs d (tr_list (b0 :: brest)) (KSeq R2 k) (XL d (b0 :: brest)) (HB _) g0 e1 h xs bk bf ys rf W).
        * cbn [knxt]. unfold e1. rewrite kn_set_fl. exact EB.
        * intros e2 ->. destruct bk; cbn [Kont].
          -- eapply FSpec_S; [intros n; apply cont_S|]. cbn beta iota. apply TL; auto.
          -- eapply FSpec_S; [intros n; apply cont_S|]. cbn beta iota. apply TL; auto.
          -- unfold end_block in E. inversion E; subst. apply (HK _ eq_refl).
          -- unfold end_block in E. inversion E; subst. apply (HK _ eq_refl).
    - (* cutIfN = True; doBreak = True; break *)
      inversion E; subst. cbn [map app]. specialize (HK _ eq_refl). cbn [Kont] in HK.
      eapply FSpec_ev; [|exact HK]. exists 0, 3, 0. intros n _. cbn [Nat.add]. rewrite exec_S, exec_S, cont_S. reflexivity.
  Qed.

  (* ---------------------------------------------------------------- function bodies *)
  Definition flat (k : mkont) : Prop := forall e, kn k e = f_nxt e.

  Lemma assign_sto x ex r s r' s' : assign x ex (r, s) = (r', s') -> sto s' = sto s.
  Proof.
    unfold assign. destruct ex as [v|q|q|f args|items]; try (intros H; inversion H; reflexivity).
    destruct args; [|intros H; inversion H; reflexivity].
    destruct (str_eqb f (s_ "variable")); intros H; inversion H; reflexivity.
  Qed.

  Lemma do_assign_spec x ex g e h :
    assign x ex (f_env e, mkst h g) = (f_env (do_assign x ex g e h), mkst h (f_nxt (do_assign x ex g e h)))
    /\ f_fl (do_assign x ex g e h) = f_fl e.
  Proof.
    unfold do_assign. destruct (assign x ex (f_env e, mkst h g)) as [r' s'] eqn:A. cbn [f_env f_nxt f_fl].
    pose proof (assign_sto _ _ _ _ _ _ A) as Hs. cbn [sto mkst] in Hs. split; [|reflexivity].
    f_equal. destruct s'; cbn in *. subst. reflexivity.
  Qed.

  Lemma sim_top d : CallOK d -> forall c, top_ok c = true -> forall k, flat k -> SimQ Qt d (tr_list c) (XL d c) k.
  Proof.
    intros HC. induction c as [|s rest IH]; intros TO k Fk g0 e h xs kc f' ys rf W E HK.
    - cbn in E. inversion E; subst. cbn [map app tr_list]. specialize (HK e eq_refl).
      cbn [Kont] in HK. eapply FSpec_S; [|exact HK]. intros n. reflexivity.
    - cbn [top_ok forallb] in TO. apply andb_prop in TO as [T1 T2]. fold (top_ok rest) in T2.
      unfold XL in E. rewrite exec_list_cons in E by exact T1. cbn [tr_list].
      assert (HNA: noassign s = true -> FSpec (S d) g0 (map snd xs ++ ys) rf (fun n => mexec n d h (CSeq (tr_stmt s) (tr_list rest)) k e)).
      { intros NA.
        assert (E': (let '(ys0, k0, f1) := XS d s (f_env e, mkst h (kn k e)) (f_fl e) in
                     match k0 with
                     | CNorm => let '(zs, k2, f2) := XL d rest (f_env e, mkst h (kn k e)) f1 in (ys0 ++ zs, k2, f2)
                     | _ => (ys0, k0, f1) end) = (xs, kc, f')) by (destruct s; try discriminate; exact E).
        clear E. destruct (XS d s (f_env e, mkst h (kn k e)) (f_fl e)) as [[ys0 k0] f1] eqn:Es.
        assert (HS: forall ys', (forall e2, Qs e f1 e2 -> Kont g0 d k0 h (KSeq (tr_list rest) k) e2 ys' rf) ->
                    FSpec (S d) g0 (map snd ys0 ++ ys') rf (fun n => mexec n d h (CSeq (tr_stmt s) (tr_list rest)) k e)).
        { intros ys' HK'. eapply FSpec_S; [intros n; apply exec_S|]. cbn beta iota.
          apply (sim_stmt d HC s NA (KSeq (tr_list rest) k) g0 e h ys0 k0 f1 ys' rf W Es HK'). }
        destruct k0.
        * destruct (XL d rest (f_env e, mkst h (kn k e)) f1) as [[zs k2] f2] eqn:Er.
          injection E' as Exs Ekc Ef; subst xs kc f'.
          rewrite map_app, <- app_assoc. apply HS. intros e2 ->. cbn [Kont].
          eapply FSpec_S; [intros n; apply cont_S|]. cbn beta iota.
          apply (IH T2 k Fk g0 (setfl e f1) h zs k2 f2 ys rf W).
          -- rewrite kn_setfl. exact Er.
          -- exact HK.
        * inversion E'; subst. apply HS. intros e2 ->. cbn [Kont]. specialize (HK (setfl e f') eq_refl). cbn [Kont] in HK.
          eapply FSpec_ev; [|exact HK]. exists 0, 1, 1. intros n _. cbn [Nat.add]. rewrite !exec_S. reflexivity.
        * inversion E'; subst. apply HS. intros e2 ->. apply (HK (setfl e f') eq_refl).
        * inversion E'; subst. apply HS. intros e2 ->. apply (HK (setfl e f') eq_refl). }
      destruct s as [x ex| | | | | |]; try (apply HNA; exact T1). clear HNA.
      destruct (do_assign_spec x ex (kn (KSeq (tr_list rest) k) e) e h) as [A1 A2].
        cbn [knxt] in A1, A2. rewrite tr_stmt_eq.
        eapply FSpec_ev; [exists 0, 3, 0; intros n _; cbn [Nat.add]; rewrite exec_S, exec_S, cont_S; reflexivity|].
        cbn [knxt].
        apply (IH T2 k Fk g0 (do_assign x ex (kn k e) e h) h xs kc f' ys rf W).
      + rewrite (Fk (do_assign x ex (kn k e) e h)). rewrite <- A1, A2. exact E.
      + exact HK.
  Qed.

  Definition rend (e : bool) : GenMachine.res := if e then RRaise else RStop.

  Lemma fun_sim d : CallOK d -> forall body r nx h g0 ys kf, wf h -> top_ok body = true ->
    run_function (J d) assign body (r, mkst h nx) = (ys, kf) ->
    FSpec (S d) g0 (map snd ys) (rend (match kf with CErr => true | _ => false end))
          (fun n => mexec n d h (fun_code body) KNil (fr0 r nx)).
  Proof.
    intros HC body r nx h g0 ys kf W TO HR. unfold run_function in HR.
    destruct (IRSem.exec_list (J d) assign body (r, mkst h nx) flags0) as [[ys' k'] f'] eqn:E. inversion HR; subst ys' k'.
    unfold fun_code.
    eapply FSpec_ev; [exists 0, 3, 0; intros n _; cbn [Nat.add]; rewrite exec_S, exec_S, cont_S; reflexivity|].
    rewrite <- (app_nil_r (map snd ys)).
    apply (one_sim Qt d (tr_list body) KNil (XL d body)) with (kb := kf) (f1 := f').
    - apply sim_top; auto. intros e. reflexivity.
    - exact W.
    - exact E.
    - intros e2 _. destruct kf; cbn [Kont rend]; auto.
      + exists 1, h, IDone. intros n L. destruct n as [|n]; [lia|]. reflexivity.
      + exists 1, h, IDone. intros n L. destruct n as [|n]; [lia|]. reflexivity.
  Qed.

  (* ---------------------------------------------------------------- builtins *)
  Lemma kn_nxt k : forall e e', f_nxt e = f_nxt e' -> kn k e = kn k e'.
  Proof.
    induction k as [|c k IH|it b k IH]; intros e e' H; cbn [knxt]; auto.
    destruct it; auto.
  Qed.

  Lemma loop_yield err (l : list cfg) f :
    IRSem.loop (fun (s : cfg) f => ([s], CNorm, f)) err l f = (l, if err then CErr else CNorm, f).
  Proof. induction l as [|x r IH]; cbn [IRSem.loop]; [reflexivity|]. rewrite IH. reflexivity. Qed.

  Lemma map_snd_pair (r : env) (xs : list st) : map snd (map (fun x => (r, x)) xs) = xs.
  Proof. rewrite map_map. cbn. apply map_id. Qed.

  Lemma kont_end g0 d h e (err : bool) : Kont g0 d (if err then CErr else CNorm) h KNil e [] (rend err).
  Proof.
    destruct err; cbn [Kont rend]; auto.
    exists 1, h, IDone. intros n L. destruct n as [|n]; [lia|]. reflexivity.
  Qed.

  Lemma for_sim d (ex : nat -> fr -> heap -> iexpr lx callp) (B : mcode) (k : mkont) body :
    (forall it', Sim d B body (KLoop it' B k)) ->
    forall g0 e h xs_it err res_xs kc f' ys rf, wf h ->
      ISpec d h (kn k e) (xs_it, err) h (mkiter mkleaf prog (ex (kn k e) e h) h) ->
      IRSem.loop body err (map (fun x => (f_env e, x)) xs_it) (f_fl e) = (res_xs, kc, f') ->
      Kont g0 d kc h k (setfl e f') ys rf ->
      FSpec (S d) g0 (map snd res_xs ++ ys) rf (fun n => mexec n d h (CFor ex B) k e).
  Proof.
    intros HB g0 e h xs_it err res_xs kc f' ys rf W HI HL HK.
    eapply FSpec_S; [intros n; apply exec_S|]. cbn beta iota.
    apply (loop_sim d B k body HB g0 xs_it err h (f_env e) W e h _ res_xs kc f' ys rf eq_refl HI HL HK).
  Qed.

  (* for l in <it>: yield False      (builtin_eq, YP.call's `yield from`) *)
  Lemma yield_for d (ex : nat -> fr -> heap -> iexpr lx callp) g0 e h xs_it err : wf h ->
    ISpec d h (f_nxt e) (xs_it, err) h (mkiter mkleaf prog (ex (f_nxt e) e h) h) ->
    FSpec (S d) g0 xs_it (rend err) (fun n => mexec n d h (CFor ex CYield) KNil e).
  Proof.
    intros W HI. rewrite <- (app_nil_r xs_it), <- (map_snd_pair (f_env e) xs_it) at 1.
    apply (for_sim d ex CYield KNil _ (fun it' => sim_yield d _) g0 e h xs_it err _ _ _ [] (rend err) W HI (loop_yield _ _ _)).
    apply kont_end.
  Qed.

  Lemma ispec_call d : CallOK d -> forall goal extra g (e : fr) h, wf h ->
    ISpec d h g (call_goal (BQ d) goal extra (mkst h g)) h (mkiter mkleaf prog (call_expr goal extra g e h) h).
  Proof.
    intros HC goal extra g e h W. unfold call_goal, call_expr. cbn [sto mkst]. rewrite dfast_eq, <- den_fast_eq.
    destruct (den_fast h goal); try apply ispec_raise; cbn [mkiter]; apply HC; exact W.
  Qed.

  (* for x in <it>: yield x; break       (once/1) *)
  Lemma sim_yield_break d k : Sim d (CSeq CYield CBreak) (fun s f => ([s], CBrk, f)) k.
  Proof.
    intros g0 e h xs kc f' ys rf W E HK. inversion E; subst. cbn [map snd app FSpec].
    exists 2, (ISusp (KSeq CBreak k) e). cbn [sto nxt mkst it_nxt knxt]. repeat split; auto.
    - intros n L. destruct n as [|[|n]]; try lia. reflexivity.
    - specialize (HK _ eq_refl). rewrite setfl_same in HK. cbn [Kont] in HK.
      eapply FSpec_ev; [|exact HK]. exists 0, 2, 0. intros n _. reflexivity.
  Qed.

  Lemma once_for d (ex : nat -> fr -> heap -> iexpr lx callp) g0 e h xs_it err : wf h ->
    ISpec d h (f_nxt e) (xs_it, err) h (mkiter mkleaf prog (ex (f_nxt e) e h) h) ->
    FSpec (S d) g0 (match xs_it with x :: _ => [x] | [] => [] end)
          (rend (match xs_it with _ :: _ => false | [] => err end))
          (fun n => mexec n d h (CFor ex (CSeq CYield CBreak)) KNil e).
  Proof.
    intros W HI.
    assert (HL: IRSem.loop (fun (s : cfg) f => ([s], CBrk, f)) err (map (fun x => (f_env e, x)) xs_it) (f_fl e) =
                (match xs_it with x :: _ => [(f_env e, x)] | [] => [] end,
                 (if match xs_it with _ :: _ => false | [] => err end then CErr else CNorm), f_fl e)).
    { destruct xs_it; reflexivity. }
    pose proof (for_sim d ex (CSeq CYield CBreak) KNil _ (fun it' => sim_yield_break d _) g0 e h xs_it err _ _ _ []
                  (rend (match xs_it with _ :: _ => false | [] => err end)) W HI HL (kont_end _ _ _ _ _)) as H.
    rewrite app_nil_r in H. destruct xs_it; exact H.
  Qed.

  (* q = self.call(goal); results = [get_value(template) for r in q]      (findall/3) *)
  Definition collect_all (t : term) (xs : list st) (e : fr) : fr :=
    fold_left (fun e x => fcollect t (nxt x) e (sto x)) xs e.

  Lemma findall_loop d t k g0 h0 : wf h0 -> forall xs_it err e hcur itcur ys rf,
    ISpec d h0 (kn k e) (xs_it, err) hcur itcur ->
    (if err then ys = [] /\ rf = RRaise
     else FSpec (S d) g0 ys rf (fun n => mcont n d h0 k (collect_all t xs_it e))) ->
    FSpec (S d) g0 ys rf (fun n => mloop n d hcur itcur (CAssign (fcollect t)) k e).
  Proof.
    intros W0. induction xs_it as [|x r IH]; intros err e hcur itcur ys rf [HF HI] HK.
    - cbn [fst snd FSpec] in HF. destruct HF as [N [hf [it' HF]]].
      destruct (restore_next HI (HF N (le_n N))) as [I' [S' C']].
      destruct err.
      + destruct HK as [-> ->]. cbn [FSpec]. exists (S N), (munwind (mclose hf it') k), IDone. intros n L.
        destruct n as [|n]; [lia|]. rewrite loop_S, (HF n) by lia. reflexivity.
      + rewrite (S' eq_refl) in HF. cbn [collect_all fold_left] in HK.
        eapply FSpec_ev; [|exact HK]. exists N, 1, 0. intros n L. cbn [Nat.add]. rewrite loop_S, (HF n) by lia. reflexivity.
    - cbn [fst snd FSpec] in HF. destruct HF as [N [it' [HF [Gn [Wx HR]]]]].
      destruct (restore_next HI (HF N (le_n N))) as [I' [_ C']].
      eapply FSpec_ev; [exists N, 3, 0; intros n L; cbn [Nat.add]; rewrite loop_S, (HF (S (S n))) by lia;
                         rewrite exec_S, cont_S; reflexivity|].
      rewrite kn_loop, Gn.
      apply (IH err (fcollect t (nxt x) e (sto x)) (sto x) it' ys rf).
      + split; [|exact I']. rewrite (kn_nxt k _ e) by reflexivity. exact HR.
      + exact HK.
  Qed.

  Lemma collect_all_spec t xs : forall e es b,
    Machine.collect 0 (f_nxt e + f_aux e) t xs = (es, b) ->
    f_acc (collect_all t xs e) = f_acc e ++ es /\
    f_nxt e + f_aux (collect_all t xs e) = b /\
    f_nxt (collect_all t xs e) = f_nxt e.
  Proof.
    induction xs as [|x r IH]; intros e es b H; cbn [collect_all fold_left Machine.collect] in *.
    - inversion H; subst. rewrite app_nil_r. auto.
    - fold (collect_all t r (fcollect t (nxt x) e (sto x))).
      rewrite !Nat.sub_0_r in H.
      destruct (Machine.collect 0 (f_nxt e + f_aux e + nxt x) t r) as [es' b'] eqn:E.
      inversion H; subst es b.
      destruct (IH (fcollect t (nxt x) e (sto x)) es' b') as [A [B C]].
      { cbn [fcollect f_nxt f_aux]. rewrite Nat.add_assoc. exact E. }
      rewrite A, C. cbn [fcollect f_acc f_aux f_nxt] in *. rewrite <- app_assoc. cbn [app].
      rewrite dfast_eq, <- den_fast_eq. auto.
  Qed.

  (* \= : the frame of builtin_neq is a function frame for neq_ir *)
  Lemma neq_run d a b (s : st) :
    run_function (J d) assign neq_ir ([(s_ "Y", b); (s_ "X", a)], s) =
    match unify_fast ufuel (sto s) a b with
    | UOk _ => ([], CNorm)
    | UFail => ([([(s_ "Y", b); (s_ "X", a)], s)], CNorm)
    | _ => ([], CErr)
    end.
  Proof.
    unfold run_function, neq_ir. cbn [IRSem.exec_list]. rewrite exec_stmt_eq. cbn [IRSem.exec_list].
    rewrite exec_stmt_eq.
    change (J d (IR.ECall (s_ "unify") [EVar (s_ "X"); EVar (s_ "Y")]) ([(s_ "Y", b); (s_ "X", a)], s))
      with (let '(xs, e) := unify_st s a b in (map (fun x => ([(s_ "Y", b); (s_ "X", a)], x)) xs, e)).
    unfold unify_st. destruct (unify_fast ufuel (sto s) a b); reflexivity.
  Qed.

  Lemma skip_spec g0 d h e : FSpec (S d) g0 [] (rend false) (fun n => mexec n d h CSkip KNil e).
  Proof. exists 2, h, IDone. intros n L. destruct n as [|[|n]]; try lia. reflexivity. Qed.

  Lemma builtin_sim d : CallOK d -> forall name args nx h g0, wf h ->
    FSpec (S d) g0
      (fst (match builtin (BQ d) name args (mkst h nx) with Some r => r | None => ([], false) end))
      (rend (snd (match builtin (BQ d) name args (mkst h nx) with Some r => r | None => ([], false) end)))
      (fun n => mexec n d h (fst (builtin_code name args)) KNil (fr0 (snd (builtin_code name args)) nx)).
  Proof.
    intros HC name args nx h g0 W. unfold builtin, builtin_code.
    destruct (str_eqb name (s_ "=")).
    { destruct args as [|a [|b [|c rest]]]; try apply skip_spec. cbn [fst snd].
      destruct (unify_st (mkst h nx) a b) as [xs err] eqn:U. cbn [fst snd].
      apply yield_for; auto. cbn [mkiter f_nxt fr0]. rewrite <- U. apply ispec_unify. exact W. }
    destruct (str_eqb name (s_ "\=")).
    { destruct args as [|a [|b [|c rest]]]; try apply skip_spec. cbn [fst snd sto mkst].
      pose proof (neq_run d a b (mkst h nx)) as NR. cbn [sto mkst] in NR.
      destruct (unify_fast ufuel h a b);
        apply (fun_sim d HC neq_ir _ nx h g0 _ _ W eq_refl NR). }
    destruct (str_eqb name (s_ "call")).
    { destruct args as [|g extra]; cbn [fst snd].
      - exists 1, h, IDone. intros n L. destruct n as [|n]; [lia|]. reflexivity.
      - destruct (call_goal (BQ d) g extra (mkst h nx)) as [xs err] eqn:U. cbn [fst snd].
        apply yield_for; auto. cbn [f_nxt fr0]. rewrite <- U. apply ispec_call; auto. }
    destruct (str_eqb name (s_ "once")).
    { destruct args as [|g [|b rest]]; try apply skip_spec. cbn [fst snd].
      destruct (call_goal (BQ d) g [] (mkst h nx)) as [xs err] eqn:U.
      pose proof (once_for d (call_expr g []) g0 (fr0 [] nx) h xs err W) as H. cbn [f_nxt fr0] in H.
      pose proof (ispec_call d HC g [] nx (fr0 [] nx) h W) as HI. rewrite U in HI. specialize (H HI).
      destruct xs; exact H. }
    destruct (str_eqb name (s_ "findall")).
    { destruct args as [|t [|g [|l [|c rest]]]]; try apply skip_spec. cbn [fst snd].
      destruct (call_goal (BQ d) g [] (mkst h nx)) as [xs err] eqn:U.
      pose proof (ispec_call d HC g [] nx (fr0 [] nx) h W) as HI. rewrite U in HI.
      eapply FSpec_ev; [exists 0, 2, 0; intros n _; cbn [Nat.add]; rewrite exec_S, exec_S; reflexivity|].
      apply (findall_loop d t (KSeq _ KNil) g0 h W xs err (fr0 [] nx) h _ _ _ HI).
      destruct err; cbn [fst snd rend]; [auto|].
      destruct (Machine.collect 0 (nxt (mkst h nx)) t xs) as [es b] eqn:EC. cbn [nxt mkst] in EC.
      destruct (collect_all_spec t xs (fr0 [] nx) es b) as [A [B C]].
      { cbn [f_nxt f_aux fr0]. rewrite Nat.add_0_r. exact EC. }
      cbn [f_acc f_aux f_nxt fr0 app] in A, B, C.
      eapply FSpec_ev; [exists 0, 4, 0; intros n _; cbn [Nat.add]; rewrite cont_S, exec_S, exec_S, cont_S; reflexivity|].
      cbn [knxt].
      set (ef := fcollected (f_nxt (collect_all t xs (fr0 [] nx))) (collect_all t xs (fr0 [] nx)) h).
      assert (En: f_nxt ef = b) by (unfold ef, fcollected; cbn [f_nxt]; rewrite C; exact B).
      assert (Ea: f_acc ef = es) by (unfold ef, fcollected; cbn [f_acc]; exact A).
      destruct (unify_st {| sto := sto (mkst h nx); nxt := b |} l (mk_list es)) as [ys e2] eqn:U2. cbn [fst snd].
      apply yield_for; auto. cbn [mkiter]. rewrite Ea, En, <- U2. apply ispec_unify. exact W. }
    apply skip_spec.
  Qed.

  (* ---- dynamic facts: for _ in unify_arrays(args, <copy of the fact>): yield False ---- *)
  Definition arrays_st (h : heap) (g : nat) (xs ys : list term) : list st * bool :=
    match unify_arrays_fast ufuel h xs ys with
    | UOk s' => ([mkst s' g], false)
    | UFail => ([], false)
    | _ => ([], true)
    end.

  Lemma ispec_arrays d h g xs ys : wf h ->
    ISpec d h g (arrays_st h g xs ys) h (ILeaf (mkleaf (XArrays xs ys) h)).
  Proof.
    intros W. split; [|constructor; apply L_new].
    unfold arrays_st. cbn [mkleaf]. rewrite unify_arrays_x_eq, <- unify_arrays_fast_eq.
    destruct (unify_arrays_fast ufuel h xs ys) as [s'| | |] eqn:U; cbn [fst snd FSpec].
    - rewrite unify_arrays_fast_eq in U.
      destruct (@arrays_gen_matches_unify ufuel h xs ys W) as [A _]. destruct (A _ U) as [g1 N1].
      destruct (@unify_arrays_sound ufuel h xs ys s' W U) as [W' _].
      pose proof (@next_fresh (S ufuel) h (GArrFresh xs ys) _ I N1) as [[Q1 _] _].
      destruct (quiet_next_total Q1 s') as [n2 [[[h2 g2] y2] N2]].
      destruct (@next_quiet n2 g1 s' h2 g2 y2 Q1 N2) as [Y2 _]. subst y2.
      exists (S (S ufuel)), (ILeaf (LGen g1)). cbn [sto nxt mkst it_nxt]. repeat split; auto.
      + intros n L. destruct n as [|n]; [lia|]. rewrite inext_S. cbn [lnext].
        rewrite next_x_eq, (@next_mono (S ufuel) n _ _ _ N1) by lia. reflexivity.
      + exists (S n2), h2, (ILeaf (LGen g2)). intros n L. destruct n as [|n]; [lia|]. rewrite inext_S. cbn [lnext].
        rewrite next_x_eq, (@next_mono n2 n _ _ _ N2) by lia. reflexivity.
    - rewrite unify_arrays_fast_eq in U.
      destruct (@arrays_gen_matches_unify ufuel h xs ys W) as [_ B]. destruct (B U) as [g1 N1].
      exists (S (S ufuel)), h, (ILeaf (LGen g1)). intros n L. destruct n as [|n]; [lia|]. rewrite inext_S. cbn [lnext].
      rewrite next_x_eq, (@next_mono (S ufuel) n _ _ _ N1) by lia. reflexivity.
    - exists 1, h, (ILeaf LRaise). intros n L. destruct n as [|n]; [lia|]. reflexivity.
    - exists 1, h, (ILeaf LRaise). intros n L. destruct n as [|n]; [lia|]. reflexivity.
  Qed.

  Lemma facts_sim d (c : mcode) h g0 args (r_env : env) : wf h ->
    forall fs (e : fr) fa fe nx' ys rf,
      f_env e = r_env -> f_fl e = flags0 -> f_aux e = 0 ->
      fact_answers fs args (mkst h (f_nxt e)) = (fa, fe, nx') ->
      (if fe then ys = [] /\ rf = RRaise
       else FSpec (S d) g0 ys rf (fun n => mexec n d h c KNil (fr0 r_env nx'))) ->
      FSpec (S d) g0 (fa ++ ys) rf (fun n => mexec n d h (facts_code fs args) (KSeq c KNil) e).
  Proof.
    intros W. induction fs as [|[m vals] r IH]; intros e fa fe nx' ys rf E1 E2 E3 HA HK.
    - cbn [fact_answers] in HA. inversion HA; subst fa fe nx'. cbn [app facts_code nxt mkst] in *.
      eapply FSpec_ev; [|exact HK]. exists 0, 2, 0. intros n _. cbn [Nat.add]. rewrite exec_S, cont_S.
      f_equal. unfold clear_acc, fr0. destruct e; cbn in *. subst. reflexivity.
    - cbn [fact_answers sto nxt mkst] in HA. cbn [facts_code].
      set (e1 := {| f_env := f_env e; f_nxt := f_nxt e + m; f_fl := f_fl e;
                    f_acc := map (fact_shift (f_nxt e)) vals; f_aux := f_aux e |}).
      set (K := (KSeq (facts_code r args) (KSeq c KNil) : mkont)).
      eapply FSpec_ev; [exists 0, 4, 0; intros n _; cbn [Nat.add]; rewrite exec_S, exec_S, cont_S, exec_S; reflexivity|].
      cbn [knxt]. fold e1. fold K.
      pose proof (ispec_arrays d h (f_nxt e1) args (f_acc e1) W) as HI.
      unfold arrays_st in HI. cbn [f_nxt f_acc e1] in HI.
      destruct (unify_arrays_fast ufuel h args (map (fact_shift (f_nxt e)) vals)) as [s'| | |] eqn:U.
      + destruct (fact_answers r args {| sto := h; nxt := f_nxt e + m |}) as [[ys1 e1'] nx1] eqn:R1.
        inversion HA; subst fa fe nx'.
        change (({| sto := s'; nxt := f_nxt e + m |} :: ys1) ++ ys) with
               (map snd [(f_env e1, mkst s' (f_nxt e + m))] ++ (ys1 ++ ys)).
        apply (for_sim d (fun _ e _ => ELeaf (XArrays args (f_acc e))) CYield K _ (fun it' => sim_yield d _)
                 g0 e1 h [mkst s' (f_nxt e + m)] false _ CNorm (f_fl e1) (ys1 ++ ys) rf W HI (loop_yield _ _ _)).
        cbn [Kont]. eapply FSpec_S; [intros n; apply cont_S|]. cbn beta iota. rewrite setfl_same.
        apply (IH e1 ys1 e1' nx1 ys rf E1 E2 E3 R1 HK).
      + change (fa ++ ys) with (map snd (@nil cfg) ++ (fa ++ ys)).
        apply (for_sim d (fun _ e _ => ELeaf (XArrays args (f_acc e))) CYield K _ (fun it' => sim_yield d _)
                 g0 e1 h [] false _ CNorm (f_fl e1) (fa ++ ys) rf W HI (loop_yield _ _ _)).
        cbn [Kont]. eapply FSpec_S; [intros n; apply cont_S|]. cbn beta iota. rewrite setfl_same.
        apply (IH e1 fa fe nx' ys rf E1 E2 E3 HA HK).
      + inversion HA; subst fa fe nx'. destruct HK as [-> ->].
        change ([] ++ []) with (map snd (@nil cfg) ++ (@nil st)).
        apply (for_sim d (fun _ e _ => ELeaf (XArrays args (f_acc e))) CYield K _ (fun it' => sim_yield d _)
                 g0 e1 h [] true _ CErr (f_fl e1) [] RRaise W HI (loop_yield _ _ _)). cbn [Kont]. auto.
      + inversion HA; subst fa fe nx'. destruct HK as [-> ->].
        change ([] ++ []) with (map snd (@nil cfg) ++ (@nil st)).
        apply (for_sim d (fun _ e _ => ELeaf (XArrays args (f_acc e))) CYield K _ (fun it' => sim_yield d _)
                 g0 e1 h [] true _ CErr (f_fl e1) [] RRaise W HI (loop_yield _ _ _)). cbn [Kont]. auto.
  Qed.

  Notation gnexts := (nexts mkleaf lnext lclose prog f_nxt).

  Lemma FSpec_nexts D g0 xs rf : rf <> RYield -> forall k h it,
    FSpec D g0 xs rf (fun n => minext n D h it) ->
    exists N hf itf, forall n, N <= n ->
      gnexts n D k h it = Some (hf, itf, map sto (firstn k xs), if Nat.leb k (length xs) then RYield else rf).
  Proof.
    intros NY. induction xs as [|x r IH]; intros k h it H; cbn [FSpec] in H.
    - destruct k as [|k].
      + exists 0, h, it. intros n _. reflexivity.
      + destruct H as [N [hf [it' H]]]. exists N, hf, it'. intros n Ln.
        cbn [nexts]. rewrite (H n Ln). destruct rf; try reflexivity. congruence.
    - destruct k as [|k].
      + exists 0, h, it. intros n _. reflexivity.
      + destruct H as [N [it' [H [_ [_ R]]]]]. destruct (IH k _ _ R) as [N' [hf [itf HN]]].
        exists (N + N'), hf, itf. intros n Ln.
        cbn [nexts]. rewrite (H n) by lia. rewrite (HN n) by lia.
        reflexivity.
  Qed.

  (* the generic refinement theorem: if the generator object of every call yields the answers of Q,
     then driving it as a consumer does (at most k resumptions) gives the first k answer stores, the
     end marker of Q, and the initial heap *)
  Theorem gen_refines d name args nx h k : CallOK d -> wf h ->
    exists N hf itf, forall n, N <= n ->
      gnexts n d k h (mq name args nx) =
      Some (hf, itf, map sto (firstn k (fst (BQ d name args (mkst h nx)))),
            if Nat.leb k (length (fst (BQ d name args (mkst h nx)))) then RYield
            else rend (snd (BQ d name args (mkst h nx))))
      /\ (length (fst (BQ d name args (mkst h nx))) < k -> hf = h).
  Proof.
    intros HC W. destruct (HC 0 name args nx h W) as [HF _].
    assert (NY: rend (snd (BQ d name args (mkst h nx))) <> RYield) by (destruct (snd _); discriminate).
    destruct (FSpec_nexts d 0 _ _ NY k _ _ HF) as [N [hf [itf H]]].
    exists N, hf, itf. intros n Ln. split; [exact (H n Ln)|]. intros Lk.
    pose proof (H n Ln) as Hn. apply Nat.leb_gt in Lk. rewrite Lk in Hn.
    destruct (query_restores mkleaf lnext lclose prog f_nxt linv L_new L_next L_close L_ext _ _ _ _ _ _ Hn) as [_ [A _]].
    apply A. exact NY.
  Qed.

  Lemma lnext_mono_S n h l r : lnext n h l = Some r -> lnext (S n) h l = Some r.
  Proof.
    destruct l as [g|]; cbn [lnext]; auto. rewrite !next_x_eq.
    destruct (next n h g) as [[[h' g'] y]|] eqn:N; [|discriminate]. rewrite (next_mono_S _ _ _ N). auto.
  Qed.

  Theorem gen_refines_fuel d name args nx h k n hf itf ys r : CallOK d -> wf h ->
    gnexts n d k h (mq name args nx) = Some (hf, itf, ys, r) ->
    ys = map sto (firstn k (fst (BQ d name args (mkst h nx)))) /\
    r = (if Nat.leb k (length (fst (BQ d name args (mkst h nx)))) then RYield
         else rend (snd (BQ d name args (mkst h nx)))).
  Proof.
    intros HC W H. destruct (gen_refines d name args nx h k HC W) as [N [hf' [itf' HN]]].
    destruct (HN (n + N)) as [A _]; [lia|].
    rewrite (nexts_mono _ _ _ _ mkleaf lnext lclose prog f_nxt lnext_mono_S n (n + N) d k h _ _ H) in A by lia.
    inversion A; subst. auto.
  Qed.
End Gen.

(* ------------------------------------------------------------------------------------------------
   INSTANCE 1: the engine running a compiled program with a database of dynamic facts
   (IRMachine.prog ir DB nouser  against  QueryFacts.queryF ir DB) *)
Section Refine.
  Variable ir : ir_program.
  Variable DB : str -> nat -> list fact.          (* the database of dynamic facts *)
  Notation prog := (prog ir DB nouser).
  Notation mexec := (exec mkleaf lnext lclose prog f_nxt).
  Notation minext := (inext mkleaf lnext lclose prog f_nxt).
  Notation mcode := (code lx fr callp).
  Notation FSpec := (FSpec prog).
  Notation CallOK := (CallOK prog (queryF ir DB)).
  Notation fun_sim := (fun_sim prog (queryF ir DB)).
  Notation builtin_sim := (builtin_sim prog (queryF ir DB)).
  Notation facts_sim := (facts_sim prog).
  Notation FSpec_S := (FSpec_S prog).
  Hypothesis OK : ir_ok ir.

  (* the function / builtin part of a query, and its code *)
  Definition part (d : nat) (name : str) (args : list term) (s : st) : list st * bool :=
    match find_func ir name (length args) with
    | Some f =>
        let '(ys, k) := run_function (Machine.iter (queryF ir DB d)) assign (fn_body f) (bind_args 0 args, s) in
        (map snd ys, match k with CErr => true | _ => false end)
    | None =>
        match builtin (queryF ir DB d) name args s with
        | Some r => r
        | None => ([], false)
        end
    end.
  Definition code_env (name : str) (args : list term) : mcode * env :=
    match find_func ir name (length args) with
    | Some f => (fun_code (fn_body f), bind_args 0 args)
    | None => builtin_code name args
    end.

  Lemma queryF_S d name args s : queryF ir DB (S d) name args s =
    match fact_answers (DB name (length args)) args s with
    | (fa, true, _) => (fa, true)
    | (fa, false, nx') => (fa ++ fst (part d name args {| sto := sto s; nxt := nx' |}),
                           snd (part d name args {| sto := sto s; nxt := nx' |}))
    end.
  Proof.
    cbn [queryF]. unfold part. destruct (fact_answers (DB name (length args)) args s) as [[fa fe] nx'].
    destruct fe; auto. destruct (find_func ir name (length args)).
    - destruct (run_function _ _ _ _) as [ys k]. reflexivity.
    - destruct (builtin _ _ _ _) as [[ys e]|]; reflexivity.
  Qed.

  Lemma prog_eq name args nx : prog (name, args, nx) =
    (match DB name (length args) with
     | [] => fst (code_env name args)
     | f0 :: l => CSeq (facts_code (f0 :: l) args) (fst (code_env name args)) end,
     fr0 (snd (code_env name args)) nx).
  Proof.
    unfold IRMachine.prog, nouser, code_env.
    destruct (find_func ir name (length args)); [|destruct (builtin_code name args)];
      destruct (DB name (length args)); reflexivity.
  Qed.

  Theorem call_ok : forall d, CallOK d.
  Proof.
    induction d as [|d IH]; intros g0 name args nx h W; (split; [|constructor]).
    - cbn [queryF fst snd FSpec]. exists 1, h, (mq prog name args nx). intros n L.
      destruct n as [|n]; [lia|]. reflexivity.
    - eapply FSpec_S; [intros n; unfold mq; apply inext_S|]. cbn beta iota.
      rewrite queryF_S, prog_eq. cbn [fst snd sto mkst].
      assert (HR: forall nx', FSpec (S d) g0 (fst (part d name args (mkst h nx'))) (rend (snd (part d name args (mkst h nx'))))
                                (fun n => mexec n d h (fst (code_env name args)) KNil (fr0 (snd (code_env name args)) nx'))).
      { intros nx'. unfold part, code_env. destruct (find_func ir name (length args)) as [f|] eqn:Ef.
        - destruct (run_function (Machine.iter (queryF ir DB d)) assign (fn_body f) (bind_args 0 args, mkst h nx')) as [ys kf] eqn:ER.
          cbn [fst snd]. apply (fun_sim d IH (fn_body f) _ nx' h g0 ys kf W); [|exact ER].
          apply OK. eapply find_func_in; eauto.
        - apply (builtin_sim d IH name args nx' h g0 W). }
      destruct (fact_answers (DB name (length args)) args (mkst h nx)) as [[fa fe] nx'] eqn:FA.
      destruct (DB name (length args)) as [|f0 fs0] eqn:EDB.
      + cbn [fact_answers] in FA. inversion FA; subst fa fe nx'. cbn [nxt mkst app fst snd]. apply HR.
      + eapply FSpec_S; [intros n; apply exec_S|]. cbn beta iota.
        assert (G: forall ys rf, (if fe then ys = [] /\ rf = RRaise else
                      FSpec (S d) g0 ys rf (fun n => mexec n d h (fst (code_env name args)) KNil (fr0 (snd (code_env name args)) nx'))) ->
                   FSpec (S d) g0 (fa ++ ys) rf
                     (fun n => mexec n d h (facts_code (f0 :: fs0) args) (KSeq (fst (code_env name args)) KNil) (fr0 (snd (code_env name args)) nx))).
        { intros ys rf HK.
          apply (facts_sim d (fst (code_env name args)) h g0 args (snd (code_env name args)) W (f0 :: fs0)
                   (fr0 (snd (code_env name args)) nx) fa fe nx' ys rf eq_refl eq_refl eq_refl FA HK). }
        destruct fe; cbn [fst snd rend].
        * rewrite <- (app_nil_r fa). apply G. auto.
        * apply G. apply HR.
  Qed.

  Notation mnexts := (m_nexts ir DB nouser).

  (* THE REFINEMENT THEOREM.  xs / err = the answer states and the error flag of the big-step
     semantics.  The generator object of the query, resumed (each time under the heap it left) at
     most k times - ANY abandonment point k - yields exactly the first k answer stores, in order;
     if k exceeds the number of answers, the (#answers+1)-th __next__ ends by StopIteration or by
     an exception exactly as the big-step semantics says, and the heap is then the initial one. *)
  Theorem machine_refines_irsem d name args nx h k : wf h ->
    exists N hf itf, forall n, N <= n ->
      mnexts n d k h (m_query ir DB nouser name args nx) =
      Some (hf, itf, map sto (firstn k (fst (queryF ir DB d name args (mkst h nx)))),
            if Nat.leb k (length (fst (queryF ir DB d name args (mkst h nx)))) then RYield
            else rend (snd (queryF ir DB d name args (mkst h nx))))
      /\ (length (fst (queryF ir DB d name args (mkst h nx))) < k -> hf = h).
  Proof. intros W. exact (gen_refines prog (queryF ir DB) d name args nx h k (call_ok d) W). Qed.

  (* ... and for WHATEVER fuel the machine returns a value at *)
  Theorem machine_refines_irsem_fuel d name args nx h k n hf itf ys r : wf h ->
    mnexts n d k h (m_query ir DB nouser name args nx) = Some (hf, itf, ys, r) ->
    ys = map sto (firstn k (fst (queryF ir DB d name args (mkst h nx)))) /\
    r = (if Nat.leb k (length (fst (queryF ir DB d name args (mkst h nx)))) then RYield
         else rend (snd (queryF ir DB d name args (mkst h nx)))).
  Proof. intros W. exact (gen_refines_fuel prog (queryF ir DB) d name args nx h k n hf itf ys r (call_ok d) W). Qed.

  (* the same with the cell counters: the i-th suspension of the generator object carries the
     counter of the i-th answer *)
  Theorem machine_refines_irsem_steps d name args nx h : wf h ->
    FSpec d 0 (fst (queryF ir DB d name args (mkst h nx))) (rend (snd (queryF ir DB d name args (mkst h nx))))
          (fun n => minext n d h (m_query ir DB nouser name args nx)).
  Proof. intros W. apply (call_ok d 0 name args nx h W). Qed.
End Refine.
