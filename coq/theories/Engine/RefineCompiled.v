(* Every program that the (model of the) compiler produces has the shape that Refine.v needs:
   assignments only at the top level of a function body.  Hence machine_refines_irsem holds for
   every compiled program. *)
From Coq Require Import String.
From Coq Require Import List Arith Bool Lia.
Import ListNotations.
From YP Require Import Base.Str Term.Term Lang.Ast Comp.IR Comp.CompileBody Comp.CompileClause Sem.Machine
  Unify.UnifyGen Engine.GenMachine Engine.IRMachine Engine.QueryFacts Engine.Refine.

Lemma noassign_list_app a b : noassign_list (a ++ b) = noassign_list a && noassign_list b.
Proof. induction a as [|s r IH]; cbn [app noassign_list]; [reflexivity|]. rewrite IH, andb_assoc. reflexivity. Qed.

Lemma noassign_foreach' it body : noassign (SForeach it body) = noassign_list body.
Proof. cbn [noassign]. induction body as [|s r IH]; [reflexivity|]. cbn [noassign_list]. rewrite <- IH. reflexivity. Qed.
Lemma noassign_block' l body : noassign (SBlock l body) = noassign_list body.
Proof. cbn [noassign]. induction body as [|s r IH]; [reflexivity|]. cbn [noassign_list]. rewrite <- IH. reflexivity. Qed.

Lemma comp_noassign n : forall b cnt c k, comp n b cnt = Some (c, k) -> noassign_list c = true.
Proof.
  induction n as [|n IH]; intros b cnt c k H; [discriminate|].
  cbn [comp] in H.
  assert (Hrec: forall b' cnt' c' k', comp n b' cnt' = Some (c', k') -> noassign_list c' = true) by exact IH.
  assert (Hwrap: forall b' cnt', comp n b' cnt' = Some (c, k) -> noassign_list c = true) by (intros; eapply IH; eauto).
  destruct b as [f args| | | |l|a K|x y|cc t|x]; try (eapply Hwrap; exact H); try (inversion H; reflexivity).
  - (* BAnd a K *)
    destruct a as [f args| | | |l|x y|x y|cc t|x]; try (eapply Hwrap; exact H).
    + destruct (comp n K cnt) as [[c1 k1]|] eqn:E; [|discriminate]. inversion H; subst.
      cbn [noassign_list]. rewrite noassign_foreach', (Hrec _ _ _ _ E). reflexivity.
    + inversion H; reflexivity.
    + destruct (comp n K cnt) as [[c1 k1]|] eqn:E; [|discriminate]. inversion H; subst.
      rewrite noassign_list_app, (Hrec _ _ _ _ E). reflexivity.
    + destruct (comp n K cnt) as [[c1 k1]|] eqn:E; [|discriminate]. inversion H; subst.
      rewrite noassign_list_app, (Hrec _ _ _ _ E). reflexivity.
    + destruct x; eapply Hwrap; exact H.
  - (* BOr x y *)
    assert (Plain: forall x', match comp n x' cnt with Some (c1,k1) =>
                 match comp n y k1 with Some (c2,k2) => Some (c1++c2,k2) | None => None end | None => None end = Some (c, k) ->
               noassign_list c = true).
    { intros x' H'. destruct (comp n x' cnt) as [[c1 k1]|] eqn:E1; [|discriminate].
      destruct (comp n y k1) as [[c2 k2]|] eqn:E2; [|discriminate]. inversion H'; subst.
      rewrite noassign_list_app, (Hrec _ _ _ _ E1), (Hrec _ _ _ _ E2). reflexivity. }
    destruct x as [f args| | | |l|a K|x1 y1|cc t|x1]; try (apply (Plain _ H)).
    destruct (tcut cc).
    + destruct (comp n _ (S (S cnt))) as [[c1 k1]|] eqn:E1; [|discriminate].
      destruct (comp n y k1) as [[c2 k2]|] eqn:E2; [|discriminate]. inversion H; subst.
      cbn [noassign_list]. rewrite noassign_block'. cbn [app noassign_list].
      rewrite noassign_block', (Hrec _ _ _ _ E1), (Hrec _ _ _ _ E2). reflexivity.
    + destruct (comp n _ (S cnt)) as [[c1 k1]|] eqn:E1; [|discriminate]. inversion H; subst.
      cbn [noassign_list]. rewrite noassign_block', (Hrec _ _ _ _ E1). reflexivity.
Qed.

Lemma arg_unifications_noassign : forall pos i args code, noassign_list code = true ->
  noassign_list (arg_unifications i pos args code) = true.
Proof.
  induction pos as [|[v|] pr IH]; intros i args code H; destruct args as [|a ar]; cbn [arg_unifications]; auto.
  cbn [noassign_list]. rewrite noassign_foreach', IH; auto.
Qed.

Lemma top_ok_app a b : top_ok (a ++ b) = top_ok a && top_ok b.
Proof. unfold top_ok. apply forallb_app. Qed.
Lemma noassign_top c : noassign_list c = true -> top_ok c = true.
Proof.
  induction c as [|s r IH]; cbn [noassign_list top_ok forallb]; auto.
  intros H. apply andb_prop in H as [A B]. fold (top_ok r). rewrite (IH B), andb_true_r.
  destruct s; auto; discriminate.
Qed.
Lemma head_aliases_top : forall pos i, top_ok (head_aliases i pos) = true.
Proof. induction pos as [|[v|] r IH]; intros i; cbn [head_aliases]; auto. cbn [top_ok forallb top_stmt]. apply IH. Qed.
Lemma declare_top vs : top_ok (map declare vs) = true.
Proof. induction vs as [|v r IH]; auto. Qed.

Lemma compile_clause_top c cnt code cnt' : compile_clause c cnt = Some (code, cnt') -> top_ok code = true.
Proof.
  unfold compile_clause. destruct (comp _ _ _) as [[bc k]|] eqn:E; [|discriminate]. intros H. inversion H; subst.
  rewrite !top_ok_app, head_aliases_top, !declare_top. cbn [andb].
  apply noassign_top, arg_unifications_noassign. eapply comp_noassign; eauto.
Qed.

Lemma compile_clauses_top : forall cs cnt code cnt', compile_clauses cs cnt = Some (code, cnt') -> top_ok code = true.
Proof.
  induction cs as [|c r IH]; intros cnt code cnt' H; cbn [compile_clauses] in H.
  - inversion H; reflexivity.
  - destruct (compile_clause c cnt) as [[c1 k1]|] eqn:E1; [|discriminate].
    destruct (compile_clauses r k1) as [[c2 k2]|] eqn:E2; [|discriminate]. inversion H; subst.
    rewrite top_ok_app, (compile_clause_top _ _ _ _ E1), (IH _ _ _ E2). reflexivity.
Qed.

Lemma compile_groups_ok : forall gs cnt fs cnt', compile_groups gs cnt = Some (fs, cnt') -> ir_ok fs.
Proof.
  induction gs as [|[k cs] r IH]; intros cnt fs cnt' H; cbn [compile_groups] in H.
  - inversion H; subst. intros f [].
  - destruct (compile_clauses cs cnt) as [[c1 k1]|] eqn:E1; [|discriminate].
    destruct (compile_groups r k1) as [[fs2 k2]|] eqn:E2; [|discriminate]. inversion H; subst.
    intros f [<-|Hin]; [exact (compile_clauses_top _ _ _ _ E1)|exact (IH _ _ _ E2 f Hin)].
Qed.

Theorem compiled_ir_ok p ir : compile_program p = Some ir -> ir_ok ir.
Proof.
  unfold compile_program. destruct (compile_groups (group_program p) 0) as [[fs k]|] eqn:E; [|discriminate].
  intros H. inversion H; subst. eapply compile_groups_ok; eauto.
Qed.

(* machine_refines_irsem for every compiled program and every database of dynamic facts
   (big-step side: Engine/QueryFacts.queryF = Sem.Machine.query with the facts tried first) *)
Theorem compiled_machine_refines_facts p ir : compile_program p = Some ir ->
  forall DB d name args nx h k, wf h ->
  exists N hf itf, forall n, N <= n ->
    m_nexts ir DB nouser n d k h (m_query ir DB nouser name args nx) =
    Some (hf, itf, map sto (firstn k (fst (queryF ir DB d name args (mkst h nx)))),
          if Nat.leb k (length (fst (queryF ir DB d name args (mkst h nx)))) then RYield
          else rend (snd (queryF ir DB d name args (mkst h nx))))
    /\ (length (fst (queryF ir DB d name args (mkst h nx))) < k -> hf = h).
Proof. intros H DB. apply machine_refines_irsem. eapply compiled_ir_ok; eauto. Qed.

Theorem compiled_machine_refines_facts_fuel p ir : compile_program p = Some ir ->
  forall DB d name args nx h k n hf itf ys r, wf h ->
  m_nexts ir DB nouser n d k h (m_query ir DB nouser name args nx) = Some (hf, itf, ys, r) ->
  ys = map sto (firstn k (fst (queryF ir DB d name args (mkst h nx)))) /\
  r = (if Nat.leb k (length (fst (queryF ir DB d name args (mkst h nx)))) then RYield
       else rend (snd (queryF ir DB d name args (mkst h nx)))).
Proof. intros H DB. intros. eapply machine_refines_irsem_fuel; eauto. eapply compiled_ir_ok; eauto. Qed.

(* without dynamic facts the big-step side IS Sem.Machine.query, the semantics of C01/C05/C06 *)
Theorem compiled_machine_refines_irsem p ir : compile_program p = Some ir ->
  forall d name args nx h k, wf h ->
  exists N hf itf, forall n, N <= n ->
    m_nexts ir nofacts nouser n d k h (m_query ir nofacts nouser name args nx) =
    Some (hf, itf, map sto (firstn k (fst (query d ir name args (mkst h nx)))),
          if Nat.leb k (length (fst (query d ir name args (mkst h nx)))) then RYield
          else rend (snd (query d ir name args (mkst h nx))))
    /\ (length (fst (query d ir name args (mkst h nx))) < k -> hf = h).
Proof.
  intros H d name args nx h k W.
  destruct (compiled_machine_refines_facts p ir H nofacts d name args nx h k W) as [N [hf [itf HN]]].
  unfold nofacts in HN at 3 4 5 6. rewrite !queryF_nofacts in HN. exists N, hf, itf. exact HN.
Qed.

Theorem compiled_machine_refines_irsem_fuel p ir : compile_program p = Some ir ->
  forall d name args nx h k n hf itf ys r, wf h ->
  m_nexts ir nofacts nouser n d k h (m_query ir nofacts nouser name args nx) = Some (hf, itf, ys, r) ->
  ys = map sto (firstn k (fst (query d ir name args (mkst h nx)))) /\
  r = (if Nat.leb k (length (fst (query d ir name args (mkst h nx)))) then RYield
       else rend (snd (query d ir name args (mkst h nx)))).
Proof.
  intros H d name args nx h k n hf itf ys r W E.
  destruct (compiled_machine_refines_facts_fuel p ir H nofacts d name args nx h k n hf itf ys r W E) as [A B].
  unfold nofacts in A, B. rewrite !queryF_nofacts in A, B. auto.
Qed.
