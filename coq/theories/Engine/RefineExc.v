(* exception_passthrough at MACHINE level (C03 / C20).

   Sem/NativeExc.nqueryE is the big-step engine that carries the exception OBJECT (XDepth / XUnify / XGoal / XCode are the
   engine's own, XPy tag is the object a registered Python predicate raised); forgetting which exception it was gives
   Sem/Native.nquery (erase_nqueryE), and whatever ends a query is the very object that was raised (exception_provenance).
   The frame machine refines nquery (RefineNative.machine_refines_nquery).  Composition:

     the consumer of the machine's generator object receives exactly the answers that nqueryE produced before the exception,
     in order, each with exactly that answer's bindings; the next resumption raises iff nqueryE ends with an exception object
     e - and then the heap is the initial one again -, and e is the engine's own or the object raised by a registered
     predicate (nothing in the emitted code, the builtins or YP.query creates, wraps or replaces one).

   The machine itself records only THAT an exception travels (GenMachine.res: RRaise): it has no construct that catches one;
   between the raising step and the consumer only iterators are closed (GenMachine.loop / unwind). *)
From Coq Require Import String.
From Coq Require Import List Arith Bool Lia ZArith NArith.
Import ListNotations.
From YP Require Import Base.Str Term.Term Unify.UnifyGen Comp.IR Comp.CompileClause Sem.Machine Sem.Native
  Engine.GenMachine Engine.IRMachine Engine.Refine Engine.RefineNative.
From YP Require Sem.NativeExc.
Local Open Scope list_scope.

Module NE := YP.Sem.NativeExc.

Definition mkwE (ir : ir_program) (efix : str -> nat -> option NE.nfunE) (evar : str -> option NE.nfunE)
    (dyn : str -> nat -> list frow) : NE.worldE := {| NE.e_ir := ir; NE.e_fix := efix; NE.e_var := evar; NE.e_dyn := dyn |}.

Definition rendE (o : option NE.exn) : GenMachine.res := match o with Some _ => RRaise | None => RStop end.

(* the Python predicate of the property over rows, raising the object XPy tag after its last row (or not raising) *)
Definition pyrows_funE (rows : list frow) (vals : list bool) (tag : option nat) : NE.nfunE :=
  fun args s => let '(xs, e) := native_rows rows vals args s in (xs, if e then Some NE.XUnify else option_map NE.XPy tag).
Definition is_some {A} (o : option A) : bool := match o with Some _ => true | None => false end.

Theorem pyrows_realizesE ir dyn ufix uvar rows vals tag :
  realizes ir dyn ufix uvar (pyrows rows (is_some tag)) (NE.erf (pyrows_funE rows vals tag)).
Proof.
  apply (realizes_ext ir dyn ufix uvar _ (pyrows_fun rows vals (is_some tag))); [|apply pyrows_realizes].
  intros args s. unfold NE.erf, pyrows_funE, pyrows_fun. destruct (native_rows rows vals args s) as [xs e].
  cbn [fst snd]. destruct e, tag; reflexivity.
Qed.

Section Exc.
  Variable p : Ast.program.
  Variable ir : ir_program.
  Hypothesis HC : compile_program p = Some ir.
  Variable dyn : str -> nat -> list frow.
  Variable ufix : str -> nat -> option ucode.
  Variable uvar : str -> option ucode.
  Variable efix : str -> nat -> option NE.nfunE.
  Variable evar : str -> option NE.nfunE.
  (* the machine code of every registered predicate yields the answers of its answer function and ends as it says *)
  Hypothesis Hf : forall name k, orealizes ir dyn ufix uvar (ufix name k) (option_map NE.erf (efix name k)).
  Hypothesis Hv : forall name, orealizes ir dyn ufix uvar (uvar name) (option_map NE.erf (evar name)).

  Notation wE := (mkwE ir efix evar dyn).

  Lemma nquery_erase d name args s :
    nquery d (mkw ir (fun n k => option_map NE.erf (efix n k)) (fun n => option_map NE.erf (evar n)) dyn) name args s
    = NE.er (NE.nqueryE d wE name args s).
  Proof. symmetry. exact (NE.erase_nqueryE wE d name args s). Qed.

  (* every abandonment point k: the first k answers of the engine-with-exception-objects, in order; past the last answer
     the generator ends by StopIteration, or raises iff nqueryE ends with an exception object; the heap is then the initial one *)
  Theorem machine_refines_nqueryE d name args nx h k : wf h ->
    exists N hf itf, forall n, N <= n ->
      w_nexts ir dyn ufix uvar n d k h (w_query ir dyn ufix uvar name args nx) =
      Some (hf, itf, map sto (firstn k (fst (NE.nqueryE d wE name args (mkst h nx)))),
            if Nat.leb k (length (fst (NE.nqueryE d wE name args (mkst h nx)))) then RYield
            else rendE (snd (NE.nqueryE d wE name args (mkst h nx))))
      /\ (length (fst (NE.nqueryE d wE name args (mkst h nx))) < k -> hf = h).
  Proof.
    intros W.
    destruct (compiled_machine_refines_nquery p ir HC dyn ufix uvar _ _ Hf Hv d name args nx h k W) as [N [hf [itf H]]].
    exists N, hf, itf. intros n Ln. specialize (H n Ln). rewrite !nquery_erase in H. unfold NE.er in H. cbn [fst snd] in H.
    replace (rendE (snd (NE.nqueryE d wE name args (mkst h nx)))) with (rend (NE.eb (snd (NE.nqueryE d wE name args (mkst h nx)))))
      by (destruct (snd (NE.nqueryE d wE name args (mkst h nx))); reflexivity).
    exact H.
  Qed.

  (* exception_passthrough: if the query ends with the exception object e after the answers xs, the consumer of the generator
     object receives exactly xs (the bindings visible at each answer are exactly that answer's), then the next resumption
     raises, and the heap is the initial one when the exception arrives; e is the engine's own or THE object a registered
     Python predicate raised - for every property Q of exception objects that the engine's own exceptions and the ones the
     registered predicates raise have (take Q e := e = XPy tag \/ engine_exn e, or Q e := e = the object ...) *)
  Theorem machine_exception_passthrough d name args nx h xs e : wf h ->
    NE.nqueryE d wE name args (mkst h nx) = (xs, Some e) ->
    (exists N itf, forall n, N <= n ->
       w_nexts ir dyn ufix uvar n d (S (length xs)) h (w_query ir dyn ufix uvar name args nx) =
       Some (h, itf, map sto xs, RRaise))
    /\ (forall Q : NE.exn -> Prop, Q NE.XDepth -> Q NE.XUnify -> Q NE.XGoal -> Q NE.XCode ->
          (forall name k f args s e, efix name k = Some f -> snd (f args s) = Some e -> Q e) ->
          (forall name f args s e, evar name = Some f -> snd (f args s) = Some e -> Q e) -> Q e).
  Proof.
    intros W E. split.
    - destruct (machine_refines_nqueryE d name args nx h (S (length xs)) W) as [N [hf [itf H]]].
      exists N, itf. intros n Ln. destruct (H n Ln) as [A B]. rewrite E in A, B. cbn [fst snd rendE] in A, B.
      rewrite (B (Nat.lt_succ_diag_r _)) in A.
      replace (Nat.leb (S (length xs)) (length xs)) with false in A by (symmetry; apply Nat.leb_gt; lia).
      rewrite firstn_all2 in A by lia. exact A.
    - intros Q Q1 Q2 Q3 Q4 Qf Qv.
      apply (NE.exception_provenance Q Q1 Q2 Q3 Q4 wE Qf Qv d name args (mkst h nx) e). rewrite E. reflexivity.
  Qed.

  (* ... and a query that ends normally ends normally in the machine *)
  Theorem machine_no_exception d name args nx h xs : wf h ->
    NE.nqueryE d wE name args (mkst h nx) = (xs, None) ->
    exists N itf, forall n, N <= n ->
      w_nexts ir dyn ufix uvar n d (S (length xs)) h (w_query ir dyn ufix uvar name args nx) =
      Some (h, itf, map sto xs, RStop).
  Proof.
    intros W E.
    destruct (machine_refines_nqueryE d name args nx h (S (length xs)) W) as [N [hf [itf H]]].
    exists N, itf. intros n Ln. destruct (H n Ln) as [A B]. rewrite E in A, B. cbn [fst snd rendE] in A, B.
    rewrite (B (Nat.lt_succ_diag_r _)) in A.
    replace (Nat.leb (S (length xs)) (length xs)) with false in A by (symmetry; apply Nat.leb_gt; lia).
    rewrite firstn_all2 in A by lia. exact A.
  Qed.
End Exc.
